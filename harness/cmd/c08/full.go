// C08, stream `full`: a random history of ReceiveMap | Flush | Reset(now) on ONE real
// statsd.MetricAggregator; after every operation the complete aggregate map (Process) is dumped:
// counters, gauges, sets and timers with every field.  Coq runs Model/Aggregator.v in lock-step.
package main

import (
	"fmt"
	"math"
	"sort"
	"strconv"
	"strings"
	"time"

	"github.com/atlassian/gostatsd"
	"github.com/atlassian/gostatsd/pkg/statsd"
	"github.com/atlassian/gostatsd/verifhooks"

	"verifharness/hlib"
	"verifharness/mmgen"
)

type fop struct {
	K   string     `json:"k"` // recv | flush | reset
	Dps []mmgen.Dp `json:"dps,omitempty"`
	Dt  int64      `json:"dt,omitempty"`
	Now int64      `json:"now,omitempty"`
}

type fullInput struct {
	Full   bool     `json:"full"`
	Pcts   []int    `json:"pcts"`
	Mask   []bool   `json:"mask"`
	Limit  uint32   `json:"limit"`
	Exp    [4]int64 `json:"exp"` // counter, gauge, set, timer (ns; 0 = never)
	Points []fop    `json:"points"`
	Lexed  bool     `json:"lexed"` // datapoints travel as lines through the real lexer and its metric pool
	Class  string   `json:"class"`
}

var fullExpiry = []int64{0, 0, 40, 100, 250, 1000, -5}
var fullTagSets = [][]string{{}, {}, {"env:prod"}, {"b:2", "a:1"}, {"gsd_histogram:10_x_20_50"}, {"z:9", "gsd_histogram:0.5_-3_inf_nan_7_7"},
	{"gsd_histogram:"}, {"gsd_histogram:5", "gsd_histogram:1_2"}}

func genFull(r *hlib.Rand) fullInput {
	in := fullInput{Full: true, Mask: make([]bool, 15), Lexed: r.Chance(3, 4)}
	for i, n := 0, r.Intn(4); i < n; i++ {
		in.Pcts = append(in.Pcts, hlib.Pick(r, pctPool))
	}
	if r.Chance(1, 4) {
		for k := range in.Mask {
			in.Mask[k] = r.Chance(1, 4)
		}
	}
	in.Limit = hlib.Pick(r, limits)
	for i := range in.Exp {
		in.Exp[i] = hlib.Pick(r, fullExpiry)
	}
	names := []string{"m.a", "m.b", "t"}[:r.Range(1, 3)]
	sources := []string{"", "10.0.0.1"}[:r.Range(1, 2)]
	members := []string{"x", "y", "zz", "w"}
	now := int64(1000)
	nops := r.Range(3, 12)
	afterFlush := false
	type skey struct {
		ty              int
		name, src, tags string
	}
	expIndex := map[int]int{int(gostatsd.COUNTER): 0, int(gostatsd.GAUGE): 1, int(gostatsd.SET): 2, int(gostatsd.TIMER): 3}
	newest := map[skey]int64{}
	var keys []skey
	pool := make([][]string, r.Range(1, 3)) // few tag sets per case, so that series collide
	for i := range pool {
		pool[i] = hlib.Pick(r, fullTagSets)
	}
	// the `bigmean` class of the full stream: timer values = a large integer base plus a small integer
	// (|mean| / spread >= 1e3).  Everything stays in the exact regime the full stream compares with
	// [same]: n * x^2 < 2^53 for the at most ~100 values of a series, so |base| <= 9e6.
	bigBase := 0.0
	if r.Chance(1, 4) {
		bigBase = math.Floor(math.Pow(10, float64(r.Range(4, 6))) * (1 + r.Float()*8))
		if r.Chance(1, 3) {
			bigBase = -bigBase
		}
	}
	for i := 0; i < nops; i++ {
		switch x := r.Intn(10); {
		case afterFlush && x < 7, !afterFlush && x == 9: // Reset; the production order is Flush, Process, Reset
			// the clock of a Reset often sits exactly on the expiry boundary of some series
			// (its newest Timestamp + the interval of its type), sometimes one tick later
			if len(keys) > 0 && r.Chance(2, 3) {
				k := hlib.Pick(r, keys)
				if iv := in.Exp[expIndex[k.ty]]; iv > 0 {
					if cand := newest[k] + iv + int64(r.Intn(2)); cand >= now {
						now = cand
					}
				}
			}
			in.Points = append(in.Points, fop{K: "reset", Now: now})
			afterFlush = false
		case x < 6:
			var dps []mmgen.Dp
			for j, n := 0, r.Intn(10); j < n; j++ {
				d := mmgen.Dp{Name: hlib.Pick(r, names), Type: []int{1, 2, 2, 2, 3, 4}[r.Intn(6)], Source: hlib.Pick(r, sources),
					Tags: append([]string{}, hlib.Pick(r, pool)...), TS: now - int64(r.Intn(150)), Rate: math.Float64bits(hlib.Pick(r, exactRates))}
				switch gostatsd.MetricType(d.Type) {
				case gostatsd.SET:
					d.StrVal, d.Rate = hlib.Pick(r, members), math.Float64bits(1)
				default:
					d.Value = math.Float64bits(genExactValue(r))
					if bigBase != 0 && gostatsd.MetricType(d.Type) == gostatsd.TIMER {
						d.Value = math.Float64bits(bigBase + float64(r.Range(0, int(math.Max(1, math.Abs(bigBase)/1e3)))))
					}
				}
				dps = append(dps, d)
				k := skey{d.Type, d.Name, d.Source, strings.Join(d.Tags, ",")}
				if old, ok := newest[k]; !ok {
					keys = append(keys, k)
					newest[k] = d.TS
				} else if d.TS > old {
					newest[k] = d.TS
				}
			}
			in.Points = append(in.Points, fop{K: "recv", Dps: dps})
		default:
			in.Points = append(in.Points, fop{K: "flush", Dt: hlib.Pick(r, intervals)})
			afterFlush = true
		}
		now += int64(r.Intn(120))
	}
	in.Class = fmt.Sprintf("full/ops<=%d", (len(in.Points)+3)/4*4)
	if bigBase != 0 {
		in.Class = "full-bigmean" + in.Class[4:]
	}
	if in.Lexed {
		in.Class += "/lexed"
	}
	return in
}

func timerObsTerm(t gostatsd.Timer) string {
	vals := make([]string, len(t.Values))
	for i, v := range t.Values {
		vals[i] = hlib.F64(v)
	}
	pl := make([]string, len(t.Percentiles))
	for i, p := range t.Percentiles {
		pl[i] = hlib.Pair(hlib.Bytes(p.Str), hlib.F64(p.Float))
	}
	histTerm := "None"
	if t.Histogram != nil {
		type he struct {
			b uint64
			c int
		}
		var hs []he
		for k, v := range t.Histogram {
			hs = append(hs, he{math.Float64bits(float64(k)), v})
		}
		sort.Slice(hs, func(i, j int) bool { return hs[i].b < hs[j].b || (hs[i].b == hs[j].b && hs[i].c < hs[j].c) })
		el := make([]string, len(hs))
		for i, h := range hs {
			el[i] = hlib.Pair(boundTerm(math.Float64frombits(h.b)), hlib.Z(int64(h.c)))
		}
		histTerm = "(Some " + hlib.List(el) + ")"
	}
	return hlib.App("Obs", hlib.Z(int64(t.Count)), hlib.F64(t.SampledCount), hlib.F64(t.PerSecond), hlib.F64(t.Mean), hlib.F64(t.Median),
		hlib.F64(t.Min), hlib.F64(t.Max), hlib.F64(t.StdDev), hlib.F64(t.Sum), hlib.F64(t.SumSquares), hlib.List(vals), hlib.List(pl), histTerm)
}

// dumpTerm prints the aggregate map as a Corr.C08Full.dump and reports non-finite statistics.
func dumpTerm(m *gostatsd.MetricMap, nonFinite *bool, summary *[]string) string {
	var cs, ts []string
	m.Counters.Each(func(n, k string, c gostatsd.Counter) {
		cs = append(cs, hlib.App("CObs", hlib.Bytes(n), hlib.Bytes(k), hlib.Z(c.Value), hlib.F64(c.PerSecond), hlib.Z(int64(c.Timestamp)),
			hlib.Bytes(string(c.Source)), hlib.StrList(c.Tags)))
		if math.IsNaN(c.PerSecond) || math.IsInf(c.PerSecond, 0) {
			*nonFinite = true
		}
	})
	m.Timers.Each(func(n, k string, t gostatsd.Timer) {
		ts = append(ts, hlib.App("TObs", hlib.Bytes(n), hlib.Bytes(k), timerObsTerm(t), hlib.Z(int64(t.Timestamp)), hlib.Bytes(string(t.Source)), hlib.StrList(t.Tags)))
		for _, v := range []float64{t.SampledCount, t.PerSecond, t.Mean, t.Median, t.Min, t.Max, t.StdDev, t.Sum, t.SumSquares} {
			if math.IsNaN(v) || math.IsInf(v, 0) {
				*nonFinite = true
			}
		}
		*summary = append(*summary, fmt.Sprintf("%s|%s n=%d count=%d pcts=%d hist=%d", n, k, len(t.Values), t.Count, len(t.Percentiles), len(t.Histogram)))
	})
	sort.Strings(cs)
	sort.Strings(ts)
	rest := mmgen.Entries(&gostatsd.MetricMap{Gauges: m.Gauges, Sets: m.Sets})
	return hlib.App("Dump", hlib.List(cs), hlib.List(ts), rest)
}

func runFull(em *hlib.Emitter, in fullInput) {
	pcts := make([]float64, len(in.Pcts))
	for i, p := range in.Pcts {
		pcts[i] = float64(p)
	}
	agg := statsd.NewMetricAggregator(pcts, time.Duration(in.Exp[0]), time.Duration(in.Exp[1]), time.Duration(in.Exp[2]), time.Duration(in.Exp[3]),
		maskOf(in.Mask), in.Limit)
	ll := verifhooks.NewLineLexer(lexEstimatedTags)
	now := int64(0)
	agg.VerifSetNow(func() time.Time { return time.Unix(0, now) })
	c := hlib.Case{Input: in, Class: in.Class}
	var steps, obs []string
	table := map[string]bool{}
	var tableTerms []string
	nonFinite := false
	flushes, timersSeen := 0, 0
	for i, op := range in.Points {
		var opTerm string
		msg := hlib.Recover(func() {
			switch op.K {
			case "recv":
				dps := op.Dps
				var mm *gostatsd.MetricMap
				if in.Lexed {
					ms, snap, err := lexBatch(ll, op.Dps)
					if err != nil {
						panic(err)
					}
					dps, mm = snap, receiveBatch(ms)
				} else {
					mm = mmgen.Build(op.Dps)
				}
				dl := make([]string, len(dps))
				for j, d := range dps {
					dl[j] = d.Coq()
					for _, tg := range d.Tags {
						if strings.HasPrefix(tg, "gsd_histogram:") {
							for _, it := range strings.Split(tg[len("gsd_histogram:"):], "_") {
								if !table[it] {
									table[it] = true
									f, err := strconv.ParseFloat(it, 64)
									tableTerms = append(tableTerms, hlib.Pair(hlib.Bytes(it), hlib.Option(boundTerm(f), err == nil)))
								}
							}
						}
					}
				}
				opTerm = "(FRecv " + hlib.List(dl) + ")"
				agg.ReceiveMap(mm)
			case "flush":
				opTerm = "(FFlush " + hlib.Z(op.Dt) + ")"
				agg.Flush(time.Duration(op.Dt))
				flushes++
			case "reset":
				opTerm = "(FReset " + hlib.Z(op.Now) + ")"
				now = op.Now
				agg.Reset()
			default:
				panic("bad op " + op.K)
			}
		})
		if msg != "" {
			c.Monitors = append(c.Monitors, fmt.Sprintf("op %d (%s) panicked: %s", i, op.K, msg))
			em.Emit(c)
			return
		}
		var summary []string
		agg.Process(func(m *gostatsd.MetricMap) {
			steps = append(steps, hlib.Pair(opTerm, dumpTerm(m, &nonFinite, &summary)))
		})
		timersSeen += len(summary)
		obs = append(obs, op.K+": "+strings.Join(summary, "; "))
	}
	if nonFinite {
		c.Monitors = append(c.Monitors, "non-finite statistic from finite values")
	}
	e := in.Exp
	c.Coq = "(Full " + hlib.App("FullCase", hlib.List(zs(in.Pcts)), maskTerm(in.Mask), hlib.ZU(uint64(in.Limit)),
		hlib.Z(e[0]), hlib.Z(e[1]), hlib.Z(e[2]), hlib.Z(e[3]), hlib.List(tableTerms), hlib.List(steps)) + ")"
	c.Obs = obs
	c.Nontrivial = flushes >= 1 && timersSeen >= 2 && len(in.Points) >= 4
	em.Emit(c)
}
