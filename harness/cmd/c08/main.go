// C08: timer statistics and histograms are those of the received multiset.
// Drives the real statsd.MetricAggregator (MetricMap.Receive -> ReceiveMap -> Flush) on one
// generated timer series (plus noise series) and emits every field of the flushed Timer
// together with the strconv.ParseFloat table for the items of its histogram tag.
package main

import (
	"encoding/json"
	"fmt"
	"math"
	"os"
	"sort"
	"strconv"
	"strings"
	"time"

	"github.com/atlassian/gostatsd"
	"github.com/atlassian/gostatsd/pkg/statsd"
	"github.com/atlassian/gostatsd/verifhooks"

	"verifharness/hlib"
	"verifharness/mmgen"
)

type point struct {
	V uint64 `json:"v"` // float64 bits
	R uint64 `json:"r"` // rate bits
}

type input struct {
	Pcts     []int    `json:"pcts"`
	Mask     []bool   `json:"mask"` // 15 TimerSubtypes bits in declaration order
	Limit    uint32   `json:"limit"`
	Interval int64    `json:"interval_ns"`
	Tags     []string `json:"tags"`
	Points   []point  `json:"points"`
	Batches  []int    `json:"batches"` // sizes of the maps handed to ReceiveMap (rest in a last one)
	Exact    bool     `json:"exact"`
	Lexed    bool     `json:"lexed"` // datapoints travel as lines through the real lexer and its metric pool
	Class    string   `json:"class"`
}

func maskOf(b []bool) gostatsd.TimerSubtypes {
	g := func(i int) bool { return i < len(b) && b[i] }
	return gostatsd.TimerSubtypes{
		Lower: g(0), LowerPct: g(1), Upper: g(2), UpperPct: g(3), Count: g(4), CountPct: g(5),
		CountPerSecond: g(6), Mean: g(7), MeanPct: g(8), Median: g(9), StdDev: g(10), Sum: g(11),
		SumPct: g(12), SumSquares: g(13), SumSquaresPct: g(14),
	}
}

// ---------------------------------------------------------------------------------------
// generators

var pctPool = []int{0, 1, -1, 50, -50, 90, -90, 99, -99, 100, -100, 90, 95, 75, 25, 10, -10}

func genPcts(r *hlib.Rand) []int {
	n := r.Intn(6)
	out := make([]int, 0, n)
	for i := 0; i < n; i++ {
		if r.Chance(2, 3) {
			out = append(out, hlib.Pick(r, pctPool))
		} else {
			out = append(out, r.Range(-100, 100))
		}
	}
	return out
}

func genN(r *hlib.Rand) int {
	switch x := r.Intn(20); {
	case x == 0:
		return 0
	case x <= 2:
		return 1
	case x <= 9:
		return r.Range(2, 6)
	default:
		return r.Range(7, 60)
	}
}

func genExactValue(r *hlib.Rand) float64 {
	return float64(r.Range(-64, 200)) / float64(int(1)<<uint(r.Intn(4)))
}

func genGeneralValue(r *hlib.Rand) float64 {
	switch r.Intn(5) {
	case 0: // typical latency with decimals
		v, _ := strconv.ParseFloat(fmt.Sprintf("%d.%03d", r.Intn(5000), r.Intn(1000)), 64)
		return v
	case 1:
		return -float64(r.Intn(1000)) / 7
	case 2: // random mantissa, moderate exponent
		return math.Ldexp(r.Float()*2-1, r.Range(-20, 30))
	case 3:
		return float64(r.Range(-5, 5))
	default:
		return r.Float() * 100
	}
}

var exactRates = []float64{1, 1, 1, 0.5, 0.25, 0.125}
var generalRates = []float64{1, 0.1, 0.2, 0.05, 0.01, 0.3, 0.7, 1.0 / 3}

var goodItems = []string{"0.5", "10", "-3", "1e2", "inf", "-inf", "nan", "+Inf", "0", "-0", "20", "2.5", "100", "1", "5", "0x1p-2", "NaN", "1_0"}
var badItems = []string{"abc", "", "1.2.3", "--1", "1e", "0x", " 1", "1e999", "+-2", "١"}

func genHistTag(r *hlib.Rand, pts []point) string {
	n := r.Intn(7)
	items := make([]string, 0, n)
	for i := 0; i < n; i++ {
		switch x := r.Intn(10); {
		case x < 4:
			items = append(items, hlib.Pick(r, goodItems))
		case x < 6 && len(pts) > 0: // exactly a value of the series (the <= boundary) or next to one
			v := math.Float64frombits(hlib.Pick(r, pts).V)
			if r.Bool() {
				v += float64(r.Range(-1, 1))
			}
			items = append(items, strconv.FormatFloat(v, 'g', -1, 64))
		case x < 8:
			items = append(items, strconv.Itoa(r.Range(-70, 210)))
		case x < 9:
			items = append(items, hlib.Pick(r, badItems))
		default:
			items = append(items, "") // a run of '_'
		}
	}
	if n > 1 && r.Chance(1, 4) { // repeated bound
		items[r.Intn(n)] = items[r.Intn(n)]
	}
	return "gsd_histogram:" + strings.Join(items, "_")
}

var limits = []uint32{0, 1, 2, 3, 5, 100, math.MaxUint32}
var intervals = []int64{1e9, 1e9, 10e9, 100e6, 1500e6, 60e9, 1, 333333333}

// genBigMeanValues: the `bigmean` class - values that are large relative to their spread
// (|mean| / spread from 1e3 to 1e12: nanosecond durations around 1e9, timestamps around 1.7e12, ...),
// integers and doubles, means of either sign.  Formulas that are algebraically equal to the two-pass
// deviation but cancel (SUM x^2 - mean * SUM x) are only told apart on such inputs.
func genBigMeanValues(r *hlib.Rand, n int) []float64 {
	ratio := math.Pow(10, float64(r.Range(3, 12)))
	integers := r.Bool()
	var base float64
	switch r.Intn(4) {
	case 0:
		base = hlib.Pick(r, []float64{1e9, 1.7e12, 1.7e9, 86400e3, 3.6e12, 1e6, 16777216, 4294967296})
	default:
		base = math.Pow(10, float64(r.Range(3, 15))) * (1 + r.Float()*8)
	}
	spread := base / ratio
	if integers {
		base = math.Floor(base)
		if spread < 1 {
			spread = float64(r.Range(1, 3))
		}
		spread = math.Floor(spread)
	}
	if r.Chance(1, 3) {
		base = -base
	}
	vs := make([]float64, n)
	for i := range vs {
		if integers {
			vs[i] = base + float64(r.Intn(int(math.Min(spread, 1e9))+1))
		} else {
			vs[i] = base + spread*r.Float()
		}
	}
	return vs
}

func genCase(r *hlib.Rand, i int) input {
	in := input{Exact: i%2 == 0}
	n := genN(r)
	var big []float64
	if i%8 == 5 { // general regime (i is odd)
		n = r.Range(2, 60)
		big = genBigMeanValues(r, n)
	}
	// general regime: the datapoints of one series use at most three distinct sample rates (a client
	// samples a metric at one rate); the exact rational sum of 1/rate then stays small in Coq
	palette := make([]float64, []int{1, 1, 1, 2, 2, 3}[r.Intn(6)])
	for j := range palette {
		palette[j] = hlib.Pick(r, generalRates)
		if r.Chance(1, 4) {
			palette[j] = r.Float()*0.999 + 0.001
		}
	}
	for j := 0; j < n; j++ {
		var v, rate float64
		if in.Exact {
			v, rate = genExactValue(r), hlib.Pick(r, exactRates)
		} else {
			v, rate = genGeneralValue(r), hlib.Pick(r, palette)
		}
		if big != nil {
			v = big[j]
		}
		if j > 0 && r.Chance(1, 5) { // duplicates
			v = math.Float64frombits(in.Points[r.Intn(j)].V)
		}
		in.Points = append(in.Points, point{math.Float64bits(v), math.Float64bits(rate)})
	}
	in.Pcts = genPcts(r)
	in.Mask = make([]bool, 15)
	if r.Chance(1, 3) {
		for k := range in.Mask {
			in.Mask[k] = r.Chance(1, 4)
		}
	}
	in.Limit = hlib.Pick(r, limits)
	in.Interval = hlib.Pick(r, intervals)
	if r.Chance(1, 6) {
		in.Interval = int64(r.Range(1, 600000)) * 1e6
	}
	shape := "plain"
	if r.Chance(1, 4) {
		in.Tags = append(in.Tags, hlib.Pick(r, []string{"env:prod", "a:b", "gsd_histogra:1_2", "zz:gsd_histogram:1", "host:h1"}))
	}
	if big == nil && r.Chance(3, 10) {
		shape = "hist"
		in.Tags = append(in.Tags, genHistTag(r, in.Points))
		if r.Chance(1, 6) { // a second histogram tag: findTag takes the first in the timer's tag order
			in.Tags = append(in.Tags, genHistTag(r, in.Points))
		}
		if r.Chance(1, 3) {
			in.Tags = append(in.Tags, "x:y")
		}
	}
	for rem := n; rem > 0 && len(in.Batches) < 3 && r.Chance(1, 2); {
		b := r.Range(1, rem)
		in.Batches = append(in.Batches, b)
		rem -= b
	}
	reg := "general"
	if in.Exact {
		reg = "exact"
	}
	sz := "n>6"
	switch {
	case n == 0:
		sz = "n=0"
	case n == 1:
		sz = "n=1"
	case n <= 6:
		sz = "n<=6"
	}
	in.Class = reg + "/" + shape + "/" + sz
	if big != nil {
		in.Class = "bigmean/" + shape + "/" + sz
	}
	if in.Lexed = r.Chance(1, 3); in.Lexed {
		in.Class += "/lexed"
	}
	return in
}

// ---------------------------------------------------------------------------------------
// running the implementation

func boundTerm(f float64) string {
	switch {
	case math.IsNaN(f):
		return "BNaN"
	case math.IsInf(f, 1):
		return "BPInf"
	case math.IsInf(f, -1):
		return "BNInf"
	}
	return hlib.App("BFin", hlib.F64(f))
}

func maskTerm(b []bool) string {
	g := func(i int) string { return hlib.Bool(i < len(b) && b[i]) }
	// pmask: count_pct mean_pct sum_pct sumsq_pct upper_pct lower_pct
	return hlib.App("Build_pmask", g(5), g(8), g(12), g(14), g(3), g(1))
}

func runOne(em *hlib.Emitter, in input) {
	const name = "the.timer"
	pcts := make([]float64, len(in.Pcts))
	for i, p := range in.Pcts {
		pcts[i] = float64(p)
	}
	agg := statsd.NewMetricAggregator(pcts, 0, 0, 0, 0, maskOf(in.Mask), in.Limit)
	// an idle series: with n = 0 the timer exists with no values only after a flush+reset cycle
	seed := func() *gostatsd.MetricMap {
		mm := gostatsd.NewMetricMap(false)
		mm.Receive(&gostatsd.Metric{Name: name, Type: gostatsd.TIMER, Value: 7, Rate: 1, Tags: append(gostatsd.Tags{}, in.Tags...), Timestamp: 1})
		return mm
	}
	var flushed *gostatsd.Timer
	var otherTimers, nTimers int
	msg := hlib.Recover(func() {
		if len(in.Points) == 0 {
			agg.ReceiveMap(seed())
			agg.Flush(time.Duration(in.Interval))
			agg.Reset()
		}
		// batches of datapoints: the target series plus noise - another series with the same tags, one
		// with the same name and other tags, a counter, and series with unrelated tag lists (other
		// bucket lists, plain tags, longer and shorter lists) that arrive AFTER the target's first points
		var batch []mmgen.Dp
		ll := verifhooks.NewLineLexer(lexEstimatedTags)
		send := func() {
			if in.Lexed {
				ms, _, err := lexBatch(ll, batch)
				if err != nil {
					panic(err)
				}
				agg.ReceiveMap(receiveBatch(ms))
			} else {
				agg.ReceiveMap(mmgen.Build(batch))
			}
			batch = nil
		}
		one := math.Float64bits(1)
		dp := func(n string, ty gostatsd.MetricType, v, r uint64, ts int64, tags ...string) mmgen.Dp {
			return mmgen.Dp{Name: n, Type: int(ty), Value: v, Rate: r, Tags: append([]string{}, tags...), TS: ts}
		}
		bi, inBatch := 0, 0
		for j, p := range in.Points {
			batch = append(batch, dp(name, gostatsd.TIMER, p.V, p.R, int64(10+j), in.Tags...))
			if j%3 == 0 {
				batch = append(batch, dp("other", gostatsd.TIMER, math.Float64bits(1e6), one, 5, in.Tags...),
					dp(name, gostatsd.TIMER, math.Float64bits(-1e6), math.Float64bits(0.5), 5, append([]string{"noise:1"}, in.Tags...)...),
					dp(name, gostatsd.COUNTER, math.Float64bits(3), one, 5, in.Tags...),
					dp("unrelated", gostatsd.TIMER, math.Float64bits(250), one, 5, unrelatedTags[(j/3)%len(unrelatedTags)]...))
			}
			inBatch++
			if bi < len(in.Batches) && inBatch == in.Batches[bi] {
				send()
				bi++
				inBatch = 0
			}
		}
		send()
		if in.Lexed { // later, unrelated traffic between the arrival and the flush
			for _, tg := range unrelatedTags {
				batch = append(batch, dp("unrelated", gostatsd.TIMER, math.Float64bits(250), one, 6, tg...),
					dp("unrelated.g", gostatsd.GAUGE, math.Float64bits(1), one, 6, tg...))
			}
			send()
		}
		agg.Flush(time.Duration(in.Interval))
		key := gostatsd.FormatTagsKey("", append(gostatsd.Tags{}, in.Tags...))
		agg.Process(func(m *gostatsd.MetricMap) {
			m.Timers.Each(func(n, tk string, t gostatsd.Timer) {
				nTimers++
				if n == name && tk == key {
					tt := t
					flushed = &tt
				} else {
					otherTimers++
				}
			})
		})
	})
	c := hlib.Case{Input: in, Class: in.Class}
	if msg != "" {
		c.Monitors = append(c.Monitors, "Flush panicked: "+msg)
		em.Emit(c)
		return
	}
	if flushed == nil {
		c.Monitors = append(c.Monitors, fmt.Sprintf("the series is missing from the flushed map (%d timers)", nTimers))
		em.Emit(c)
		return
	}
	t := *flushed
	// oracle table for the items of the first histogram tag (in the flushed timer's tag order)
	var table []string
	seen := map[string]bool{}
	// the tags the series was sent with, in the order Receive stores them (SortedString sorts in
	// place); the model runs on THESE, and the flushed timer must still carry them
	expTags := append([]string{}, in.Tags...)
	sort.Strings(expTags)
	if strings.Join(expTags, "\x00") != strings.Join([]string(t.Tags), "\x00") {
		c.Monitors = append(c.Monitors, fmt.Sprintf("the flushed timer carries tags %q, it was sent with %q", []string(t.Tags), expTags))
	}
	for _, tg := range expTags {
		if strings.HasPrefix(tg, "gsd_histogram:") {
			for _, it := range strings.Split(tg[len("gsd_histogram:"):], "_") {
				if seen[it] {
					continue
				}
				seen[it] = true
				f, err := strconv.ParseFloat(it, 64)
				table = append(table, hlib.Pair(hlib.Bytes(it), hlib.Option(boundTerm(f), err == nil)))
			}
			break
		}
	}
	pts := make([]string, len(in.Points))
	for i, p := range in.Points {
		pts[i] = hlib.Pair(hlib.ZU(p.V), hlib.ZU(p.R))
	}
	vals := make([]string, len(t.Values))
	for i, v := range t.Values {
		vals[i] = hlib.F64(v)
	}
	type pe struct {
		Name  string      `json:"name"`
		Value interface{} `json:"value"`
	}
	var pobs []pe
	pl := make([]string, len(t.Percentiles))
	for i, p := range t.Percentiles {
		pl[i] = hlib.Pair(hlib.Bytes(p.Str), hlib.F64(p.Float))
		pobs = append(pobs, pe{p.Str, jf(p.Float)})
	}
	sort.Slice(pobs, func(i, j int) bool { return pobs[i].Name < pobs[j].Name })
	histTerm := "None"
	histObs := map[string]int{}
	if t.Histogram != nil {
		type he struct {
			b uint64
			c int
		}
		var hs []he
		for k, v := range t.Histogram {
			hs = append(hs, he{math.Float64bits(float64(k)), v})
			histObs[strconv.FormatFloat(float64(k), 'g', -1, 64)] += v
		}
		sort.Slice(hs, func(i, j int) bool { return hs[i].b < hs[j].b || (hs[i].b == hs[j].b && hs[i].c < hs[j].c) })
		el := make([]string, len(hs))
		for i, h := range hs {
			el[i] = hlib.Pair(boundTerm(math.Float64frombits(h.b)), hlib.Z(int64(h.c)))
		}
		histTerm = "(Some " + hlib.List(el) + ")"
	}
	obsTerm := hlib.App("Obs", hlib.Z(int64(t.Count)), hlib.F64(t.SampledCount), hlib.F64(t.PerSecond), hlib.F64(t.Mean), hlib.F64(t.Median),
		hlib.F64(t.Min), hlib.F64(t.Max), hlib.F64(t.StdDev), hlib.F64(t.Sum), hlib.F64(t.SumSquares), hlib.List(vals), hlib.List(pl), histTerm)
	c.Coq = "(Single " + hlib.App("Case", hlib.List(zs(in.Pcts)), maskTerm(in.Mask), hlib.ZU(uint64(in.Limit)), hlib.Z(in.Interval),
		hlib.StrList(expTags), hlib.List(table), hlib.List(pts), hlib.Bool(in.Exact), obsTerm) + ")"
	c.Obs = map[string]interface{}{"count": t.Count, "sampled": jf(t.SampledCount), "per_second": jf(t.PerSecond), "mean": jf(t.Mean), "median": jf(t.Median),
		"min": jf(t.Min), "max": jf(t.Max), "stddev": jf(t.StdDev), "sum": jf(t.Sum), "sum_squares": jf(t.SumSquares), "percentiles": pobs, "histogram": histObs,
		"histogram_nil": t.Histogram == nil, "tags": t.Tags}
	// direct monitors: things the property says regardless of the model
	stats := []float64{t.SampledCount, t.PerSecond, t.Mean, t.Median, t.Min, t.Max, t.StdDev, t.Sum, t.SumSquares}
	for _, p := range t.Percentiles {
		stats = append(stats, p.Float)
	}
	for _, v := range stats {
		if math.IsNaN(v) || math.IsInf(v, 0) {
			c.Monitors = append(c.Monitors, "non-finite statistic from finite values")
			break
		}
	}
	c.Nontrivial = len(in.Points) >= 2 && (len(in.Pcts) > 0 || t.Histogram != nil)
	em.Emit(c)
}

// jf makes a float64 safe for encoding/json (which rejects NaN and infinities): a breaking change
// of the arithmetic must show up as a failing case, not as a dead harness.
func jf(f float64) interface{} {
	if math.IsNaN(f) || math.IsInf(f, 0) {
		return strconv.FormatFloat(f, 'g', -1, 64)
	}
	return f
}

// tag lists of unrelated series: other bucket lists, plain tags, longer and shorter lists
var unrelatedTags = [][]string{{"gsd_histogram:100_200_300"}, {"env:prod", "region:us"}, {}, {"a:1", "b:2", "c:3", "gsd_histogram:7"}, {"z:9"}}

func zs(xs []int) []string {
	out := make([]string, len(xs))
	for i, x := range xs {
		out[i] = hlib.Z(int64(x))
	}
	return out
}

func main() {
	a := hlib.ParseArgs()
	em := hlib.NewEmitter()
	defer em.Close()
	switch a.Mode {
	case "gen":
		r := hlib.NewRand(a.Seed)
		for i := 0; i < a.N; i++ {
			if i%4 == 3 { // stream `full`: lock-step history on the whole aggregator
				runFull(em, genFull(r.Fork()))
			} else {
				runOne(em, genCase(r.Fork(), i))
			}
		}
	case "run":
		for _, raw := range a.Inputs {
			var probe struct {
				Full bool `json:"full"`
			}
			_ = json.Unmarshal(raw, &probe)
			if probe.Full {
				var fin fullInput
				if err := json.Unmarshal(raw, &fin); err != nil {
					fmt.Fprintln(os.Stderr, "bad input:", err)
					os.Exit(2)
				}
				runFull(em, fin)
				continue
			}
			var in input
			if err := json.Unmarshal(raw, &in); err != nil {
				fmt.Fprintln(os.Stderr, "bad input:", err)
				os.Exit(2)
			}
			runOne(em, in)
		}
	}
}
