// C20: the Lambda extension asks for the next invocation only after flushing.
//
// Wires the real pieces exactly as pkg/lambda.NewExtension does (real extension manager, real
// telemetry server, real flush coordinator, real statsd.Server in forwarder mode with the real
// datagram receiver / parser / HTTP forwarder) against
//
//   - a fake Lambda Runtime API (httptest): /extension/register, /extension/event/next,
//     /extension/init/error, /extension/exit/error and the telemetry subscription;
//   - a fake upstream /v2/raw with scripted latency and outcome per delivery attempt;
//   - a scripted "platform + function": for every invocation it answers the pending GET /next,
//     sends k datapoints over the extension's statsd socket (a unix datagram socket, the same
//     receiver / parser path as UDP, no port races), waits until the parser's own counter
//     (parser.metrics_received, read from the logging statser) confirms acceptance, then posts
//     telemetry batches with other record types around one platform.runtimeDone record.
//
// Every fake appends to one mutex-ordered event log.  The log goes to Coq (Corr/C20.v decides
// whether it is an observable trace of the LTS of Model/Lambda.v) and the ordering monitor
// (delivery attempt for invocation n finished before GET /next n+1, datapoints of n inside it)
// is evaluated here directly.  Every wait has a deadline; an expired deadline is reported as a
// deadlock monitor.
package main

import (
	"bufio"
	"bytes"
	"compress/zlib"
	"context"
	"encoding/json"
	"fmt"
	"io"
	"net"
	"net/http"
	"net/http/httptest"
	"net/url"
	"os"
	"os/exec"
	"path/filepath"
	"sort"
	"strconv"
	"strings"
	"sync"
	"sync/atomic"
	"time"

	"github.com/sirupsen/logrus"
	"github.com/spf13/viper"
	"google.golang.org/protobuf/proto"

	"github.com/atlassian/gostatsd"
	"github.com/atlassian/gostatsd/pb"
	"github.com/atlassian/gostatsd/pkg/lambda"
	"github.com/atlassian/gostatsd/pkg/statsd"
	"github.com/atlassian/gostatsd/pkg/transport"

	"verifharness/hlib"
)

// ---------------------------------------------------------------------------------------
// input

type invIn struct {
	K     int    `json:"k"`               // datapoints sent and confirmed accepted before runtimeDone
	Late  int    `json:"late,omitempty"`  // datapoints sent after runtimeDone without waiting (land in flush n or n+1)
	Pre   int    `json:"pre,omitempty"`   // other records before the runtimeDone record in its batch
	Post  int    `json:"post,omitempty"`  // other records after it
	Extra int    `json:"extra,omitempty"` // batches with other records only, sent before the runtimeDone batch
	After int    `json:"after,omitempty"` // batches with other records only, sent after it
	Lat   int    `json:"lat,omitempty"`   // upstream latency per attempt, ms
	Fails int    `json:"fails,omitempty"` // failing attempts before the upstream accepts
	Kind  string `json:"kind,omitempty"`  // how an attempt fails: "500" | "reset"
	Idle  int    `json:"idle,omitempty"`  // ms between the extension's GET /next and the invocation
	Multi bool   `json:"multi,omitempty"` // datapoints in one datagram (else one datagram each)
	HK    int    `json:"hk,omitempty"`    // datapoints POSTed one by one to the extension's HTTP ingestion (/v2/raw), each acknowledged (202) before the next
	Last  int    `json:"last,omitempty"`  // size (series) of one last HTTP batch; runtimeDone is sent immediately after its 202
	Hold  int    `json:"hold,omitempty"`  // ms the function keeps running after its datapoints were accepted, before it returns
}

type input struct {
	Mode      string  `json:"mode"`               // run | noendpoint | telebind | regfail | subfail | dyn
	Invs      []invIn `json:"invs"`               // the scripted invocations
	Data0     int     `json:"data0,omitempty"`    // datapoints the platform sends before the first GET /next (init phase)
	NopLat    int     `json:"noplat,omitempty"`   // latency of the forwarder's start-up POST, ms
	NopFails  int     `json:"nopfails,omitempty"` // failing attempts of the start-up POST
	MaxElapMs int     `json:"maxelap"`            // forwarder max-request-elapsed-time in ms (0 = 1ns: no retries)
	Slots     int     `json:"slots"`              // consolidator slots = parsers
	Compress  bool    `json:"compress"`
	Binary    bool    `json:"binary,omitempty"`  // run the real cmd/lambda-extension binary (built from the repo under test) as a child process, configured through a config file + AWS_LAMBDA_RUNTIME_API only
	NoMFKey   bool    `json:"nomfkey,omitempty"` // binary: leave lambda-extension-manual-flush unset (documented default: true)
	HTTP      bool    `json:"http,omitempty"`    // enable the statsd server's HTTP ingestion (http-servers) in the extension
	BG        int     `json:"bg,omitempty"`      // background function goroutines POSTing batches for the whole run
	BGSize    int     `json:"bgsize,omitempty"`  // series per background batch
	RegLat    int     `json:"reglat,omitempty"`  // ms the fake Runtime API takes to answer /register
	SubLat    int     `json:"sublat,omitempty"`  // ms it takes to answer the telemetry subscription
	FlushMs   int     `json:"flushms,omitempty"` // http-transport.flush-interval in ms (0 = default 1 s); README: not respected in manual-flush mode
	Cold      int     `json:"cold,omitempty"`  // cold-start records (platform.initStart, platform.initRuntimeDone, platform.initReport): 1 = one batch during the init phase (before the first GET /next), 2 = one batch at the start of invocation 1, 3 = inside the runtimeDone batch of invocation 1, 4 = three batches during the init phase
	TSeed     int     `json:"tseed,omitempty"` // seed for the types of the "other" telemetry records
	Hdr       []string `json:"hdr,omitempty"`  // mode dyn: http-transport.dynamic-headers
	Tags      []string `json:"tags,omitempty"` // mode dyn: one init-phase datapoint per entry, with these tags (sorted, comma separated; "" = none)
	Stream    string  `json:"stream"`
}

// ---------------------------------------------------------------------------------------
// event log

type ev struct {
	K  string `json:"k"`
	N  int    `json:"n,omitempty"`
	Ok bool   `json:"ok,omitempty"`
	D  []int  `json:"d,omitempty"` // datapoint ids, or telemetry records (n > 0: runtimeDone of invocation n; -i <= 0: otherTypes[i])
}

type evlog struct {
	mu     sync.Mutex
	evs    []ev
	nexts  int
	closed bool
	cond   *sync.Cond
}

func newLog() *evlog { l := &evlog{}; l.cond = sync.NewCond(&l.mu); return l }

func (l *evlog) add(e ev) {
	l.mu.Lock()
	if !l.closed {
		l.evs = append(l.evs, e)
		if e.K == "nextcall" {
			l.nexts++
		}
	}
	l.cond.Broadcast()
	l.mu.Unlock()
}

// waitNexts waits until at least n GET /next calls were logged.
func (l *evlog) waitNexts(n int, d time.Duration) bool {
	deadline := time.Now().Add(d)
	t := time.AfterFunc(d, func() { l.mu.Lock(); l.cond.Broadcast(); l.mu.Unlock() })
	defer t.Stop()
	l.mu.Lock()
	defer l.mu.Unlock()
	for l.nexts < n {
		if time.Now().After(deadline) {
			return false
		}
		l.cond.Wait()
	}
	return true
}

func (l *evlog) freeze() []ev {
	l.mu.Lock()
	defer l.mu.Unlock()
	l.closed = true
	return append([]ev(nil), l.evs...)
}

// ---------------------------------------------------------------------------------------
// acceptance counter: the parser's parser.metrics_received, reported through the logging statser
// (statsd.Server uses logrus.StandardLogger()); runs are told apart by an internal tag.

type ackHook struct {
	mu sync.Mutex
	m  map[string]*int64
}

var acks = &ackHook{m: map[string]*int64{}}

func (h *ackHook) Levels() []logrus.Level {
	return []logrus.Level{logrus.InfoLevel, logrus.FatalLevel, logrus.PanicLevel}
}

func (h *ackHook) Fire(e *logrus.Entry) error {
	if e.Level <= logrus.FatalLevel {
		// gostatsd calls logrus.Fatal when it cannot create its socket: the process is about to exit(1)
		fmt.Fprintf(os.Stderr, "c20: gostatsd logged at level %v: %s %v\n", e.Level, e.Message, e.Data)
		return nil
	}
	if e.Message != "report" {
		return nil
	}
	if name, _ := e.Data["name"].(string); name != "parser.metrics_received" {
		return nil
	}
	v, _ := e.Data["value"].(uint64)
	if v == 0 {
		return nil
	}
	tags, _ := e.Data["tags"].(gostatsd.Tags)
	for _, t := range tags {
		if strings.HasPrefix(t, "c20run:") {
			h.mu.Lock()
			c := h.m[t]
			h.mu.Unlock()
			if c != nil {
				atomic.AddInt64(c, int64(v))
			}
		}
	}
	return nil
}

func (h *ackHook) register(tag string) *int64 {
	c := new(int64)
	h.mu.Lock()
	h.m[tag] = c
	h.mu.Unlock()
	return c
}

func (h *ackHook) unregister(tag string) {
	h.mu.Lock()
	delete(h.m, tag)
	h.mu.Unlock()
}

type nullFormatter struct{}

func (nullFormatter) Format(*logrus.Entry) ([]byte, error) { return nil, nil }

// ---------------------------------------------------------------------------------------
// telemetry record types other than platform.runtimeDone: every platform / function / extension
// type of the Lambda Telemetry API (schema 2022-07-01 and later), plus strings that merely resemble
// the one type the extension must react to.  A record is encoded as -index.

var otherTypes = []string{
	"platform.start", "platform.report", "platform.extension", "function", "platform.logsDropped",
	"platform.initReport", "platform.initStart", "platform.initRuntimeDone", "platform.telemetrySubscription",
	"extension", "platform.restoreStart", "platform.restoreRuntimeDone", "platform.restoreReport", "platform.fault",
	"platform.runtimeDoneX", "platform.runtimedone", "platform.RuntimeDone", "runtimeDone", "platform.runtimeDone ",
	" platform.runtimeDone", "platform.runtime", "platform.runtimeDone.extra", "function.runtimeDone", "Platform.runtimeDone", "",
}

const (
	tInitStart       = 6
	tInitRuntimeDone = 7
	tInitReport      = 5
)

// ---------------------------------------------------------------------------------------
// the real binary: cmd/lambda-extension of the repo under test (VERIF_REPO, default /repo), built
// once per harness process

var (
	binOnce sync.Once
	binPath string
	binErr  error
)

func extensionBinary() (string, error) {
	binOnce.Do(func() {
		repo := os.Getenv("VERIF_REPO")
		if repo == "" {
			repo = "/repo"
		}
		d, err := os.MkdirTemp(workDir(), "c20-bin-")
		if err != nil {
			binErr = err
			return
		}
		tmpMu.Lock()
		tmpDirs = append(tmpDirs, d)
		tmpMu.Unlock()
		binPath = filepath.Join(d, "lambda-extension")
		cmd := exec.Command("go", "build", "-o", binPath, "./cmd/lambda-extension")
		cmd.Dir = repo
		cmd.Env = append(os.Environ(), "GOFLAGS=-mod=mod", "GOPROXY=off", "CGO_ENABLED=0")
		if out, err := cmd.CombinedOutput(); err != nil {
			binErr = fmt.Errorf("%v: %s", err, string(out))
		}
	})
	return binPath, binErr
}

// ---------------------------------------------------------------------------------------
// one run

const waitLimit = 10 * time.Second

var runSeq int64
var portMu sync.Mutex
var loadMu sync.RWMutex
var tmpMu sync.Mutex
var tmpDirs []string

// freeAddr picks an address for a server the extension itself will bind (telemetry, HTTP ingestion).
// The port is taken BELOW the kernel's ephemeral range: the httptest servers of the runs in flight get
// ephemeral ports, and one of them once received the port between our close and the extension's bind -
// a function's ingestion POSTs then landed on another run's fake upstream (same path /v2/raw).
var portSeq uint32

func freeAddr() (string, net.Listener) {
	base := 20000 + (os.Getpid()*97)%10000
	for i := 0; i < 4000; i++ {
		p := 20000 + (base-20000+int(atomic.AddUint32(&portSeq, 1))*7)%12000
		if l, err := net.Listen("tcp", "127.0.0.1:"+strconv.Itoa(p)); err == nil {
			return l.Addr().String(), l
		}
	}
	l, err := net.Listen("tcp", "127.0.0.1:0")
	if err != nil {
		panic(err)
	}
	return l.Addr().String(), l
}

func dpID(inv, j int) int { return inv*1000 + j }

const bgBase = 100000 // ids of background HTTP batches

// httpBody is a /v2/raw body: the series c20.d<id> plus [filler] series c20.f<i>.  Serialised maps
// concatenate (protobuf merges repeated map entries), so the filler part is built once per size.
var fillerMu sync.Mutex
var fillerCache = map[int][]byte{}

func httpBody(id, filler int) []byte {
	one := func(name string) *pb.CounterTagV2 {
		return &pb.CounterTagV2{TagMap: map[string]*pb.RawCounterV2{"": {Value: 1}}}
	}
	head, _ := proto.Marshal(&pb.RawMessageV2{Counters: map[string]*pb.CounterTagV2{dpName(id): one("")}})
	if filler <= 0 {
		return head
	}
	fillerMu.Lock()
	fb, ok := fillerCache[filler]
	if !ok {
		m := &pb.RawMessageV2{Counters: make(map[string]*pb.CounterTagV2, filler)}
		for i := 0; i < filler; i++ {
			m.Counters["c20.f"+strconv.Itoa(i)] = one("")
		}
		fb, _ = proto.Marshal(m)
		fillerCache[filler] = fb
	}
	fillerMu.Unlock()
	return append(append([]byte{}, head...), fb...)
}

func dpName(id int) string { return "c20.d" + strconv.Itoa(id) }

type result struct {
	log      []ev
	monitors []string
	infra    string // non-empty: the run could not be set up (port stolen...); retried
}

func runScenario(in input) (res result) {
	id := atomic.AddInt64(&runSeq, 1)
	tag := fmt.Sprintf("c20run:%d", id)
	accepted := acks.register(tag)
	defer acks.unregister(tag)
	lg := newLog()
	mon := func(f string, a ...interface{}) { res.monitors = append(res.monitors, fmt.Sprintf(f, a...)) }

	// ---- fake upstream
	type upScript struct{ lat, fails int; kind string }
	scripts := map[int]upScript{0: {in.NopLat, in.NopFails, "500"}}
	for i, iv := range in.Invs {
		scripts[i+1] = upScript{iv.Lat, iv.Fails, iv.Kind}
	}
	var upMu sync.Mutex
	attempts := map[string]int{}
	upstream := httptest.NewServer(http.HandlerFunc(func(w http.ResponseWriter, r *http.Request) {
		body, _ := io.ReadAll(r.Body)
		if r.Header.Get("X-C20-Run") != tag {
			// not from the extension of this run (a stray request of another run or process): not ours to judge
			w.WriteHeader(http.StatusNotFound)
			return
		}
		if r.URL.Path != "/v2/raw" {
			lg.add(ev{K: "upother"})
			return
		}
		if r.Header.Get("Content-Encoding") == "deflate" {
			if zr, err := zlib.NewReader(bytes.NewReader(body)); err == nil {
				body, _ = io.ReadAll(zr)
			}
		}
		var msg pb.RawMessageV2
		ids := []int{}
		if err := proto.Unmarshal(body, &msg); err != nil {
			lg.add(ev{K: "upbad"})
		}
		for name := range msg.GetCounters() {
			if strings.HasPrefix(name, "c20.f") {
				continue // filler series of an HTTP batch: the batch is identified by its one c20.d series
			}
			if v, err := strconv.Atoi(strings.TrimPrefix(name, "c20.d")); err == nil {
				ids = append(ids, v)
			} else {
				ids = append(ids, -1)
			}
		}
		if len(msg.GetGauges())+len(msg.GetTimers())+len(msg.GetSets()) > 0 {
			ids = append(ids, -1)
		}
		sort.Ints(ids)
		// the script is chosen by the youngest invocation present in the body (0 = start-up POST)
		sc := 0
		for _, v := range ids {
			if v < bgBase && v/1000 > sc {
				sc = v / 1000
			}
		}
		key := fmt.Sprint(ids)
		upMu.Lock()
		attempts[key]++
		att := attempts[key]
		upMu.Unlock()
		s := scripts[sc]
		lg.add(ev{K: "upreq", D: ids})
		if s.lat > 0 {
			time.Sleep(time.Duration(s.lat) * time.Millisecond)
		}
		ok := att > s.fails
		lg.add(ev{K: "upresp", D: ids, Ok: ok})
		switch {
		case ok:
			w.WriteHeader(http.StatusOK)
		case s.kind == "reset":
			if hj, can := w.(http.Hijacker); can {
				if c, _, err := hj.Hijack(); err == nil {
					c.Close()
					return
				}
			}
			w.WriteHeader(http.StatusBadGateway)
		default:
			w.WriteHeader(http.StatusInternalServerError)
		}
	}))
	defer upstream.Close()

	// ---- fake Lambda Runtime API
	type nextEv struct {
		shutdown bool
		n        int
	}
	release := make(chan nextEv)
	stopAPI := make(chan struct{})
	var subAt atomic.Int64
	mux := http.NewServeMux()
	mux.HandleFunc("/2020-01-01/extension/register", func(w http.ResponseWriter, r *http.Request) {
		io.Copy(io.Discard, r.Body)
		ok := in.Mode != "regfail"
		lg.add(ev{K: "register", Ok: ok})
		if in.RegLat > 0 {
			time.Sleep(time.Duration(in.RegLat) * time.Millisecond)
		}
		if !ok {
			w.WriteHeader(http.StatusInternalServerError)
			return
		}
		w.Header().Set("Lambda-Extension-Identifier", "c20-"+strconv.FormatInt(id, 10))
		w.WriteHeader(http.StatusOK)
		w.Write([]byte(`{"functionName":"f","functionVersion":"1","handler":"h"}`))
	})
	mux.HandleFunc("/2022-07-01/telemetry", func(w http.ResponseWriter, r *http.Request) {
		io.Copy(io.Discard, r.Body)
		ok := in.Mode != "subfail"
		lg.add(ev{K: "subscribe", Ok: ok})
		if in.SubLat > 0 {
			time.Sleep(time.Duration(in.SubLat) * time.Millisecond)
		}
		subAt.Store(time.Now().UnixNano())
		if !ok {
			w.WriteHeader(http.StatusInternalServerError)
			return
		}
		w.WriteHeader(http.StatusOK)
		w.Write([]byte(`"OK"`))
	})
	mux.HandleFunc("/2020-01-01/extension/event/next", func(w http.ResponseWriter, r *http.Request) {
		lg.add(ev{K: "nextcall"})
		select {
		case e := <-release:
			if e.shutdown {
				lg.add(ev{K: "nextret", N: 0})
				w.Write([]byte(`{"eventType":"SHUTDOWN","shutdownReason":"spindown","deadlineMs":0}`))
			} else {
				lg.add(ev{K: "nextret", N: e.n})
				fmt.Fprintf(w, `{"eventType":"INVOKE","deadlineMs":0,"requestId":"r%d","invokedFunctionArn":"arn","tracing":{}}`, e.n)
			}
		case <-stopAPI:
			w.WriteHeader(http.StatusGone)
		case <-r.Context().Done():
		}
	})
	mux.HandleFunc("/2020-01-01/extension/init/error", func(w http.ResponseWriter, r *http.Request) {
		io.Copy(io.Discard, r.Body)
		lg.add(ev{K: "initerror"})
		w.WriteHeader(http.StatusAccepted)
	})
	mux.HandleFunc("/2020-01-01/extension/exit/error", func(w http.ResponseWriter, r *http.Request) {
		b, _ := io.ReadAll(r.Body)
		if os.Getenv("C20_DEBUG") != "" {
			fmt.Fprintln(os.Stderr, "exit error:", string(b)[:min(len(b), 600)])
		}
		lg.add(ev{K: "exiterror"})
		w.WriteHeader(http.StatusAccepted)
	})
	api := httptest.NewServer(mux)
	defer api.Close()
	defer close(stopAPI)
	apiURL, _ := url.Parse(api.URL)

	// ---- the extension, wired as cmd/lambda-extension does through pkg/lambda.NewExtension
	dir, err := os.MkdirTemp(workDir(), "c20-")
	if err != nil {
		res.infra = err.Error()
		return
	}
	// removed at process exit, not here: a server goroutine of a run that already returned (start-up
	// failure scripts) may still be about to create its socket, and gostatsd logrus.Fatal()s if it cannot
	tmpMu.Lock()
	tmpDirs = append(tmpDirs, dir)
	tmpMu.Unlock()
	sock := filepath.Join(dir, "m.sock")

	portMu.Lock()
	teleAddr, teleL := freeAddr()
	if in.Mode != "telebind" {
		teleL.Close()
	} else {
		defer teleL.Close() // keep the port busy: the telemetry server cannot bind
	}
	portMu.Unlock()

	maxElapsed := time.Duration(in.MaxElapMs) * time.Millisecond
	if maxElapsed <= 0 {
		maxElapsed = time.Nanosecond
	}
	endpoint := upstream.URL
	if in.Mode == "noendpoint" {
		endpoint = ""
	}
	slots := in.Slots
	if slots <= 0 {
		slots = 1
	}
	v := viper.New()
	ht := map[string]interface{}{
		"api-endpoint":             endpoint,
		"consolidator-slots":       slots,
		"compress":                 in.Compress,
		"max-request-elapsed-time": maxElapsed,
		"custom-headers":           map[string]string{"X-C20-Run": tag},
	}
	if in.FlushMs > 0 {
		ht["flush-interval"] = time.Duration(in.FlushMs) * time.Millisecond
	}
	if len(in.Hdr) > 0 {
		ht["dynamic-headers"] = in.Hdr
	}
	v.Set("http-transport", ht)
	ingAddr := ""
	if in.HTTP {
		portMu.Lock()
		a, l := freeAddr()
		l.Close()
		portMu.Unlock()
		ingAddr = a
		v.Set("http-servers", []string{"ing"})
		v.Set("http.ing", map[string]interface{}{"address": ingAddr, "enable-ingestion": true, "enable-healthcheck": false})
	}
	if len(in.Hdr) > 0 {
		v.Set("dynamic-header", []string{}) // what cmd/lambda-extension/main.go NewServer does to "disable" them (nothing reads this key)
	}
	quiet := logrus.New()
	quiet.SetOutput(io.Discard)
	quiet.SetFormatter(nullFormatter{})
	srv := &statsd.Server{
		InternalTags:     gostatsd.Tags{tag},
		FlushInterval:    4 * time.Millisecond, // only drives the internal statser here (README: ignored for custom metrics)
		MaxReaders:       1,
		MaxParsers:       slots,
		ReceiveBatchSize: 10,
		MetricsAddr:      sock,
		StatserType:      gostatsd.StatserLogging,
		ServerMode:       "forwarder",
		Viper:            v,
		TransportPool:    transport.NewTransportPool(quiet, v),
	}
	ctx, cancel := context.WithCancel(context.Background())
	defer cancel()
	runDone := make(chan error, 1)
	if in.Binary {
		bin, berr := extensionBinary()
		if berr != nil {
			mon("cmd/lambda-extension of the repo under test does not build: %v", berr)
			res.log = lg.freeze()
			return
		}
		var cfg strings.Builder
		fmt.Fprintf(&cfg, "metrics-addr = %q\nstatser-type = \"logging\"\nflush-interval = \"4ms\"\nmax-parsers = %d\nmax-readers = 1\nreceive-batch-size = 10\n", sock, slots)
		fmt.Fprintf(&cfg, "lambda-extension-telemetry-address = %q\n", teleAddr)
		if !in.NoMFKey {
			cfg.WriteString("lambda-extension-manual-flush = true\n")
		}
		fmt.Fprintf(&cfg, "[http-transport]\napi-endpoint = %q\ncompress = %v\nconsolidator-slots = %d\nmax-request-elapsed-time = %q\n", endpoint, in.Compress, slots, maxElapsed.String())
		if in.FlushMs > 0 {
			fmt.Fprintf(&cfg, "flush-interval = \"%dms\"\n", in.FlushMs)
		}
		fmt.Fprintf(&cfg, "[http-transport.custom-headers]\nX-C20-Run = %q\n", tag)
		cfgPath := filepath.Join(dir, "c20.toml")
		if err := os.WriteFile(cfgPath, []byte(cfg.String()), 0o600); err != nil {
			res.infra = err.Error()
			return
		}
		cmd := exec.Command(bin, "--config-path", cfgPath, "--lambda-entrypoint-name", "gostatsd-c20")
		cmd.Env = append(os.Environ(), "AWS_LAMBDA_RUNTIME_API="+apiURL.Host)
		cmd.Stdout = io.Discard
		stderr, perr := cmd.StderrPipe()
		if perr != nil {
			res.infra = perr.Error()
			return
		}
		if err := cmd.Start(); err != nil {
			res.infra = "start: " + err.Error()
			return
		}
		go func() {
			// the parser's acceptance counter, as the logging statser of the child prints it
			sc := bufio.NewScanner(stderr)
			sc.Buffer(make([]byte, 1<<16), 1<<22)
			for sc.Scan() {
				line := sc.Text()
				if i := strings.Index(line, "name=parser.metrics_received"); i >= 0 {
					if j := strings.LastIndex(line, "value="); j >= 0 {
						if v, err := strconv.Atoi(strings.TrimSpace(line[j+6:])); err == nil {
							atomic.AddInt64(accepted, int64(v))
						}
					}
				}
			}
			runDone <- cmd.Wait()
		}()
		go func() {
			<-ctx.Done()
			cmd.Process.Signal(os.Interrupt)
			time.Sleep(2 * time.Second)
			cmd.Process.Kill()
		}()
	} else {
		ext, err := lambda.NewExtension(quiet, srv, lambda.Options{
			RuntimeAPI:        apiURL.Host,
			ExecutableName:    "gostatsd-c20",
			EnableManualFlush: true,
			TelemetryAddr:     teleAddr,
		})
		if err != nil {
			res.infra = "NewExtension: " + err.Error()
			return
		}
		go func() { runDone <- ext.Run(ctx) }()
	}

	finish := func(expectReturn bool) {
		if !expectReturn {
			cancel()
		}
		select {
		case e := <-runDone:
			if in.Mode == "run" && e != nil && strings.Contains(e.Error(), "address already in use") {
				res.infra = e.Error()
			}
		case <-time.After(waitLimit):
			mon("deadlock: the extension's Run did not return within %v (expectReturn=%v)", waitLimit, expectReturn)
		}
		time.Sleep(5 * time.Millisecond)
		res.log = lg.freeze()
	}

	if in.Mode != "run" && in.Mode != "dyn" {
		// start-up failure scripts: the manager must return by itself
		finish(true)
		cancel()
		return
	}

	// ---- scripted platform + function
	sent := 0
	var unacked []int
	var conn net.Conn
	dial := func() bool {
		deadline := time.Now().Add(waitLimit)
		for {
			c, err := net.Dial("unixgram", sock)
			if err == nil {
				conn = c
				return true
			}
			if time.Now().After(deadline) {
				return false
			}
			time.Sleep(2 * time.Millisecond)
		}
	}
	line := func(d int) string {
		if in.Mode == "dyn" && d < len(in.Tags) && in.Tags[d] != "" {
			return dpName(d) + ":1|c|#" + in.Tags[d]
		}
		return dpName(d) + ":1|c"
	}
	send := func(ids []int, multi bool) {
		if conn == nil && !dial() {
			mon("statsd socket never appeared")
			return
		}
		for _, d := range ids {
			lg.add(ev{K: "send", N: d})
		}
		if multi {
			var b strings.Builder
			for _, d := range ids {
				b.WriteString(line(d) + "\n")
			}
			conn.Write([]byte(b.String()))
		} else {
			for _, d := range ids {
				conn.Write([]byte(line(d)))
			}
		}
		sent += len(ids)
		unacked = append(unacked, ids...)
	}
	waitAck := func() bool {
		deadline := time.Now().Add(waitLimit)
		for atomic.LoadInt64(accepted) < int64(sent) {
			if time.Now().After(deadline) {
				mon("ingestion: %d of %d datapoints confirmed by parser.metrics_received within %v", atomic.LoadInt64(accepted), sent, waitLimit)
				return false
			}
			time.Sleep(time.Millisecond)
		}
		for _, d := range unacked {
			lg.add(ev{K: "ack", N: d})
		}
		unacked = nil
		return true
	}
	ingClient := &http.Client{Timeout: waitLimit, Transport: &http.Transport{MaxIdleConnsPerHost: 16}}
	// postHTTP: one function POST to the extension's /v2/raw; the datapoint counts as accepted when the
	// 202 has been received (logged after it)
	postHTTP := func(id, filler int) bool {
		body := httpBody(id, filler)
		lg.add(ev{K: "send", N: id})
		for try := 0; ; try++ {
			resp, err := ingClient.Post("http://"+ingAddr+"/v2/raw", "application/x-protobuf", bytes.NewReader(body))
			if err != nil {
				if strings.Contains(err.Error(), "connection refused") && try < 500 {
					time.Sleep(2 * time.Millisecond)
					continue
				}
				return false
			}
			io.Copy(io.Discard, resp.Body)
			resp.Body.Close()
			if resp.StatusCode != http.StatusAccepted {
				return false
			}
			lg.add(ev{K: "ack", N: id})
			return true
		}
	}
	var bgWG sync.WaitGroup
	bgStop := make(chan struct{})
	var bgSeq int64
	stopBG := func() {
		select {
		case <-bgStop:
		default:
			close(bgStop)
		}
		bgWG.Wait()
	}
	defer stopBG()
	startBG := func() {
		for g := 0; g < in.BG; g++ {
			bgWG.Add(1)
			go func() {
				defer bgWG.Done()
				for {
					select {
					case <-bgStop:
						return
					default:
					}
					id := bgBase + int(atomic.AddInt64(&bgSeq, 1))
					if !postHTTP(id, in.BGSize) {
						return
					}
					time.Sleep(time.Millisecond)
				}
			}()
		}
	}
	teleClient := &http.Client{Timeout: waitLimit}
	defer teleClient.CloseIdleConnections()
	defer ingClient.CloseIdleConnections()
	postTele := func(recs []int) bool {
		type rec struct {
			Time   string                 `json:"time"`
			Type   string                 `json:"type"`
			Record map[string]interface{} `json:"record,omitempty"`
		}
		var rs []rec
		for _, r := range recs {
			if r > 0 {
				rs = append(rs, rec{"2022-10-12T00:00:00.000Z", "platform.runtimeDone",
					map[string]interface{}{"requestId": "r" + strconv.Itoa(r), "status": "success"}})
			} else {
				rs = append(rs, rec{"2022-10-12T00:00:00.000Z", otherTypes[(-r)%len(otherTypes)],
					map[string]interface{}{"requestId": "x", "type": "platform.runtimeDone"}})
			}
		}
		b, _ := json.Marshal(rs)
		lg.add(ev{K: "telbatch", D: recs})
		var resp *http.Response
		var err error
		for try := 0; ; try++ {
			resp, err = teleClient.Post("http://"+teleAddr+"/telemetry", "application/json", bytes.NewReader(b))
			// the telemetry server is started concurrently with the subscription: give it time to listen
			if err != nil && strings.Contains(err.Error(), "connection refused") && try < 500 {
				time.Sleep(2 * time.Millisecond)
				continue
			}
			break
		}
		if err != nil {
			mon("deadlock: telemetry POST did not return: %v", err)
			return false
		}
		io.Copy(io.Discard, resp.Body)
		resp.Body.Close()
		lg.add(ev{K: "telret"})
		return true
	}
	trng := hlib.NewRand(uint64(in.TSeed) + 77)
	others := func(n int) []int {
		out := make([]int, n)
		for i := range out {
			switch {
			case in.TSeed == 0:
				out[i] = -((i + n) % 6) // old corpus inputs: the six types they were recorded with
			case trng.Chance(1, 6):
				out[i] = -tInitRuntimeDone
			default:
				out[i] = -trng.Intn(len(otherTypes))
			}
		}
		return out
	}
	coldTriple := []int{-tInitStart, -tInitRuntimeDone, -tInitReport}
	waitKind := func(kind string) bool {
		deadline := time.Now().Add(waitLimit)
		for {
			lg.mu.Lock()
			found := false
			for _, e := range lg.evs {
				if e.K == kind {
					found = true
				}
			}
			lg.mu.Unlock()
			if found {
				return true
			}
			if time.Now().After(deadline) {
				return false
			}
			time.Sleep(time.Millisecond)
		}
	}
	if in.Cold == 1 || in.Cold == 4 {
		// the platform delivers the init-phase records as soon as the subscription exists
		if !waitKind("subscribe") {
			mon("start-up: no telemetry subscription within %v", waitLimit)
			finish(false)
			return
		}
		if in.Cold == 1 {
			if !postTele(coldTriple) {
				finish(false)
				return
			}
		} else {
			for _, r := range coldTriple {
				if !postTele([]int{r}) {
					finish(false)
					return
				}
			}
		}
	}

	if in.Mode == "dyn" {
		// dynamic headers configured (README: unsupported in Lambda mode).  Not judged against the
		// property: the observed POSTs of the initial flush and whether GET /next ever happens are
		// compared in Coq with what the composed model predicts.
		quit := func() {
			// never cancel inside the start window or while the initial Flush may be blocked on the sink:
			// gostatsd then sends on the closed sink channel and the process panics (shutdown is outside C20)
			if d := 400*time.Millisecond - time.Since(time.Unix(0, subAt.Load())); subAt.Load() != 0 && d > 0 {
				time.Sleep(d)
			}
			cancel()
			select {
			case <-runDone:
			case <-time.After(300 * time.Millisecond): // a starved heartbeat never returns: abandon it
			}
			res.log = lg.freeze()
		}
		if !waitKind("subscribe") {
			res.infra = "no telemetry subscription"
			quit()
			return
		}
		var ids []int
		for i := range in.Tags {
			ids = append(ids, i)
		}
		if len(ids) > 0 {
			send(ids, false)
			if !waitAck() || time.Since(time.Unix(0, subAt.Load())) > 70*time.Millisecond {
				res.infra = "init-phase datapoints were not accepted inside the start window"
				quit()
				return
			}
		}
		if lg.waitNexts(1, 3*time.Second) {
			time.Sleep(250 * time.Millisecond) // the other parts' POSTs
			select {
			case release <- nextEv{shutdown: true}:
			case <-time.After(time.Second):
			}
		}
		quit()
		return
	}
	if in.Data0 > 0 {
		var ids []int
		for j := 0; j < in.Data0; j++ {
			ids = append(ids, dpID(0, j))
		}
		send(ids, false)
	}
	if !lg.waitNexts(1, waitLimit) {
		mon("deadlock: no GET /next within %v of start-up", waitLimit)
		finish(false)
		return
	}
	if in.HTTP && in.BG > 0 {
		startBG()
	}
	for i, iv := range in.Invs {
		n := i + 1
		if iv.Idle > 0 {
			time.Sleep(time.Duration(iv.Idle) * time.Millisecond)
		}
		lg.add(ev{K: "invoke", N: n})
		select {
		case release <- nextEv{n: n}:
		case <-time.After(waitLimit):
			mon("fake runtime: nobody waiting in GET /next for invocation %d", n)
			finish(false)
			return
		}
		if n == 1 && in.Cold == 2 {
			if !postTele(coldTriple) {
				finish(false)
				return
			}
		}
		var ids []int
		for j := 0; j < iv.K; j++ {
			ids = append(ids, dpID(n, j))
		}
		if len(ids) > 0 {
			send(ids, iv.Multi)
		}
		if !waitAck() {
			finish(false)
			return
		}
		if in.HTTP {
			for j := 0; j < iv.HK; j++ {
				if !postHTTP(dpID(n, 600+j), 0) {
					res.infra = "HTTP ingestion did not accept a datapoint"
					finish(false)
					return
				}
			}
			if iv.Last > 0 && !postHTTP(dpID(n, 900), iv.Last) {
				res.infra = "HTTP ingestion did not accept the last batch"
				finish(false)
				return
			}
		}
		if iv.Hold > 0 {
			time.Sleep(time.Duration(iv.Hold) * time.Millisecond)
		}
		lg.add(ev{K: "done", N: n})
		if iv.Late > 0 {
			var late []int
			for j := 0; j < iv.Late; j++ {
				late = append(late, dpID(n, 500+j))
			}
			send(late, false)
		}
		for b := 0; b < iv.Extra; b++ {
			if !postTele(others(1 + b%2)) {
				finish(false)
				return
			}
		}
		pre := others(iv.Pre)
		if n == 1 && in.Cold == 3 {
			pre = append(append([]int{}, coldTriple...), pre...)
		}
		recs := append(append(pre, n), others(iv.Post)...)
		if !postTele(recs) {
			finish(false)
			return
		}
		for b := 0; b < iv.After; b++ {
			if !postTele(others(1)) {
				finish(false)
				return
			}
		}
		if !lg.waitNexts(n+1, waitLimit) {
			mon("deadlock: no GET /next within %v after the runtimeDone batch of invocation %d was handled", waitLimit, n)
			finish(false)
			return
		}
	}
	stopBG()
	waitAck()
	select {
	case release <- nextEv{shutdown: true}:
	case <-time.After(waitLimit):
		mon("fake runtime: nobody waiting in GET /next for the shutdown event")
	}
	time.Sleep(20 * time.Millisecond)
	finish(false)
	return
}

// ---------------------------------------------------------------------------------------
// the ordering monitor, evaluated directly on the log

func orderingMonitor(in input, log []ev) (mons []string) {
	nextIdx := []int{} // log index of the k-th GET /next
	doneIdx := map[int]int{}
	ackIdx := map[int]int{}
	for i, e := range log {
		switch e.K {
		case "nextcall":
			nextIdx = append(nextIdx, i)
		case "done":
			doneIdx[e.N] = i
		case "ack":
			ackIdx[e.N] = i
		}
	}
	for n := 1; n <= len(in.Invs); n++ {
		di, ok := doneIdx[n]
		if !ok || len(nextIdx) < n+1 {
			continue
		}
		p := nextIdx[n] // GET /next for invocation n+1
		for d, ai := range ackIdx {
			if ai > di {
				continue
			}
			first, last, okresp := -1, -1, false
			for i, e := range log {
				if e.K != "upreq" && e.K != "upresp" {
					continue
				}
				for _, x := range e.D {
					if x == d {
						if first < 0 {
							first = i
						}
						last = i
						okresp = e.K == "upresp"
					}
				}
			}
			switch {
			case first < 0 || first > p:
				mons = append(mons, fmt.Sprintf("ordering: datapoint %d accepted before runtimeDone %d was in no upstream POST before GET /next #%d", d, n, n+1))
			case last > p || !okresp:
				mons = append(mons, fmt.Sprintf("ordering: delivery attempt carrying datapoint %d (invocation %d) not finished before GET /next #%d", d, n, n+1))
			}
			if len(mons) > 3 {
				return
			}
		}
	}
	return
}

func startupMonitor(in input, log []ev) (mons []string) {
	cnt := map[string]int{}
	for _, e := range log {
		cnt[e.K]++
	}
	switch in.Mode {
	case "noendpoint", "telebind":
		if cnt["initerror"] != 1 {
			mons = append(mons, fmt.Sprintf("start-up: server failure within the start window reported %d times to /init/error", cnt["initerror"]))
		}
		if cnt["nextcall"] != 0 {
			mons = append(mons, "start-up: GET /next after a failed start-up")
		}
	case "regfail", "subfail":
		if cnt["nextcall"] != 0 {
			mons = append(mons, "start-up: GET /next after a failed registration / subscription")
		}
	}
	return
}

// ---------------------------------------------------------------------------------------
// Coq term

func ids(ds []int) string {
	el := make([]string, len(ds))
	for i, d := range ds {
		el[i] = hlib.N(uint64(d))
	}
	return hlib.List(el)
}

func coqObs(e ev) (string, bool) {
	switch e.K {
	case "register":
		return hlib.App("ORegister", hlib.Bool(e.Ok)), true
	case "subscribe":
		return hlib.App("OSubscribe", hlib.Bool(e.Ok)), true
	case "initerror":
		return "OInitError", true
	case "nextcall":
		return "ONextCall", true
	case "invoke":
		return hlib.App("OInvoke", hlib.Nat(e.N)), true
	case "nextret":
		if e.N == 0 {
			return "(ONextRet EvShutdown)", true
		}
		return "(ONextRet (EvInvoke " + hlib.Nat(e.N) + "))", true
	case "send":
		return hlib.App("OSend", hlib.N(uint64(e.N))), true
	case "ack":
		return hlib.App("OAck", hlib.N(uint64(e.N))), true
	case "done":
		return hlib.App("ODone", hlib.Nat(e.N)), true
	case "telbatch":
		el := make([]string, len(e.D))
		for i, r := range e.D {
			if r > 0 {
				el[i] = "(TDone " + hlib.Nat(r) + ")"
			} else {
				el[i] = "TOther"
			}
		}
		return hlib.App("OTelBatch", hlib.List(el)), true
	case "telret":
		return "OTelRet", true
	case "upreq":
		return hlib.App("OUpReq", ids(e.D)), true
	case "upresp":
		return hlib.App("OUpResp", ids(e.D), hlib.Bool(e.Ok)), true
	}
	return "", false // exiterror, upother, upbad: monitors only
}

func runOne(in input) hlib.Case {
	var r result
	for try := 0; try < 3; try++ {
		loadMu.RLock()
		r = runScenario(in)
		loadMu.RUnlock()
		if r.infra == "" {
			break
		}
	}
	// /repo has a start-up race outside C20 (notes/C20.md): under CPU starvation the heartbeat's initial
	// Flush can run before server.Run has registered the consolidator, and the extension then never asks
	// for an event.  A start-up deadlock is therefore re-run once with nothing else running; a real defect
	// (no initial flush, no notification) reproduces, a starved start window does not.
	if r.infra == "" && len(r.monitors) > 0 && strings.HasPrefix(r.monitors[0], "deadlock: no GET /next within") && strings.HasSuffix(r.monitors[0], "of start-up") {
		loadMu.Lock()
		r2 := runScenario(in)
		loadMu.Unlock()
		if r2.infra == "" {
			r = r2
		}
	}
	c := hlib.Case{Input: in, Class: in.Stream + "/" + in.Mode}
	if r.infra != "" {
		fmt.Fprintln(os.Stderr, "c20: run could not be set up:", r.infra)
		c.Class = "infra"
		return c
	}
	mons := append([]string{}, r.monitors...)
	for _, e := range r.log {
		switch e.K {
		case "upbad":
			mons = append(mons, "upstream received an undecodable /v2/raw body")
		case "exiterror":
			// shutdown is outside the property (and the script cancels the context right after the
			// SHUTDOWN answer, which may interrupt the heartbeat's last request): logged, not judged
		}
	}
	mons = append(mons, orderingMonitor(in, r.log)...)
	mons = append(mons, startupMonitor(in, r.log)...)
	var obs []string
	for _, e := range r.log {
		if s, ok := coqObs(e); ok {
			obs = append(obs, s)
		}
	}
	srverr := in.Mode == "noendpoint" || in.Mode == "telebind"
	c.Coq = hlib.App("mkCase", hlib.Bool(srverr), hlib.List(obs))
	c.Monitors = mons
	c.Obs = r.log
	if in.Mode == "dyn" {
		// items: (id, tags key) - the key is what gostatsd files the series under (sorted tags; the
		// source of a unix-socket datagram is empty)
		var items, posts []string
		for i, t := range in.Tags {
			var tags gostatsd.Tags
			if t != "" {
				tags = strings.Split(t, ",")
			}
			items = append(items, hlib.Pair(hlib.Nat(i), hlib.Bytes(gostatsd.FormatTagsKey(gostatsd.UnknownSource, tags))))
		}
		nexts := false
		for _, e := range r.log {
			if e.K == "upreq" && len(e.D) > 0 {
				el := make([]string, len(e.D))
				for i, d := range e.D {
					el[i] = hlib.Nat(d)
				}
				posts = append(posts, hlib.List(el))
			}
			if e.K == "nextcall" {
				nexts = true
			}
		}
		c.Coq = hlib.App("mkDynCase", hlib.StrList(in.Hdr), hlib.List(items), hlib.List(posts), hlib.Bool(nexts))
		c.Monitors = nil
		c.Nontrivial = len(in.Tags) >= 2
	}
	posts, retries := 0, 0
	for _, e := range r.log {
		if e.K == "upresp" && len(e.D) > 0 {
			posts++
			if !e.Ok {
				retries++
			}
		}
	}
	c.Nontrivial = in.Mode == "run" && len(in.Invs) >= 2 && posts >= 2
	_ = retries
	return c
}

// ---------------------------------------------------------------------------------------
// generator

func genCase(r *hlib.Rand, k int, tier string) input {
	in := input{Mode: "run", Slots: hlib.Pick(r, []int{1, 1, 2, 4}), Compress: r.Bool(), Stream: "invocations"}
	switch {
	case k%20 == 3 || k%20 == 16:
		// the shipped binary, configured the documented way
		in.Stream = "binary"
		in.Binary = true
		in.NoMFKey = k%20 == 3
	case k%25 == 13:
		in.Stream = "dynhdr"
		in.Mode = "dyn"
		in.Hdr = hlib.Pick(r, [][]string{{"region"}, {"region"}, {"region", "env"}, {"reg"}})
		pool := []string{"", "region:a", "region:b", "env:x,region:a", "env:y", "env:x,region:b", "other:1", "region:a,zone:1"}
		for i, n := 0, r.Range(0, 5); i < n; i++ {
			in.Tags = append(in.Tags, hlib.Pick(r, pool))
		}
		return in
	case k%10 == 9:
		in.Stream = "startup"
		in.Mode = hlib.Pick(r, []string{"noendpoint", "noendpoint", "telebind", "telebind", "regfail", "subfail"})
		// a Runtime API that is slow to answer: the start window begins only after the subscription
		in.RegLat = hlib.Pick(r, []int{0, 0, 50, 120, 200})
		in.SubLat = hlib.Pick(r, []int{0, 50, 120, 200, 200})
		return in
	case k%10 == 4 || k%10 == 8:
		in.Stream = "retry"
		in.MaxElapMs = hlib.Pick(r, []int{60, 120})
	case k%10 == 6:
		in.Stream = "latedata"
	case k%12 == 5 || k%12 == 11:
		// function goroutines POST to the extension's HTTP ingestion during the invocation; the last,
		// large batch is acknowledged immediately before runtimeDone; background batches keep coming
		in.Stream = "httpdata"
		in.HTTP = true
		in.Compress = false
		in.Slots = hlib.Pick(r, []int{2, 4, 8})
		in.BG = r.Range(2, 4)
		in.BGSize = hlib.Pick(r, []int{2000, 5000, 10000})
	case k%10 == 2 || k%10 == 7:
		// invocations that outlast the forwarder's flush interval: nothing may be flushed or notified
		// without a runtimeDone (README: flush-interval is not respected in manual-flush mode)
		in.Stream = "longinv"
		in.FlushMs = r.Range(20, 60)
	}
	in.TSeed = 1 + r.Intn(1<<30)
	if r.Chance(1, 2) {
		in.Cold = r.Range(1, 4)
	}
	if r.Chance(1, 5) {
		in.RegLat = hlib.Pick(r, []int{50, 120})
	}
	if r.Chance(1, 5) && in.Cold != 1 && in.Cold != 4 {
		in.SubLat = hlib.Pick(r, []int{50, 120, 200})
	}
	ninv := r.Range(2, 4)
	if tier == "thorough" {
		ninv = r.Range(2, 7)
	}
	if r.Chance(1, 6) {
		in.NopLat = r.Range(20, 160) // start-up POST still in flight when the start window ends
	}
	if in.Stream == "retry" && r.Chance(1, 4) {
		in.NopFails = 1
	}
	if r.Chance(1, 5) {
		in.Data0 = r.Range(1, 3)
	}
	retried := false
	for i := 0; i < ninv; i++ {
		iv := invIn{K: r.Range(0, 5), Pre: r.Range(0, 3), Post: r.Range(0, 3), Multi: r.Bool()}
		if r.Chance(1, 5) {
			iv.K = 0 // empty flush: notification without a POST
		}
		if r.Chance(1, 4) {
			iv.Extra = r.Range(1, 2)
		}
		if r.Chance(1, 5) {
			iv.After = 1
		}
		if r.Chance(2, 3) {
			iv.Lat = r.Range(3, 40)
		}
		if r.Chance(1, 4) {
			iv.Idle = r.Range(1, 15)
		}
		switch in.Stream {
		case "httpdata":
			iv.K = r.Range(0, 2)
			iv.HK = r.Range(2, 8)
			iv.Pre, iv.Extra = 0, 0 // runtimeDone goes out right after the last 202
			if r.Chance(3, 4) {
				iv.Last = hlib.Pick(r, []int{5000, 20000, 50000})
			}
			iv.Lat = r.Range(0, 5)
		case "longinv":
			if iv.K == 0 && r.Chance(2, 3) {
				iv.K = r.Range(1, 3)
			}
			if i < 2 {
				iv.Hold = in.FlushMs * r.Range(3, 6)
			}
		case "retry":
			if iv.K > 0 && !retried && r.Chance(1, 2) {
				retried = true // at most one retried delivery per run keeps the run short
				iv.Fails = r.Range(1, 2)
				iv.Kind = hlib.Pick(r, []string{"500", "reset"})
			}
		case "latedata":
			iv.Late = r.Range(1, 3)
		default:
			if r.Chance(1, 4) {
				iv.Fails = 1 // refused: no retry budget, the flush is dropped
				iv.Kind = hlib.Pick(r, []string{"500", "reset"})
			}
		}
		in.Invs = append(in.Invs, iv)
	}
	return in
}

func main() {
	a := hlib.ParseArgs()
	em := hlib.NewEmitter()
	defer em.Close()
	logrus.SetOutput(io.Discard)
	logrus.SetFormatter(nullFormatter{})
	logrus.SetLevel(logrus.InfoLevel)
	logrus.AddHook(acks)

	var inputs []input
	switch a.Mode {
	case "gen":
		r := hlib.NewRand(a.Seed)
		if a.Tier == "thorough" {
			// waits longer than any quick-tier invocation: one invocation of ~33 s and one of ~65 s, started
			// first so that they run alongside the rest of the stream (no extra wall time)
			for _, hold := range []int{65000, 33000} {
				inputs = append(inputs, input{Mode: "run", Stream: "longwait", Slots: 1, TSeed: hold,
					Invs: []invIn{{K: 2, Hold: hold, Lat: 5, Pre: 1, Post: 1}, {K: 1, Lat: 5}}})
			}
		}
		for k := 0; k < a.N; k++ {
			inputs = append(inputs, genCase(r, k, a.Tier))
		}
	case "run":
		for _, raw := range a.Inputs {
			var in input
			if err := json.Unmarshal(raw, &in); err != nil {
				fmt.Fprintln(os.Stderr, "bad input:", err)
				os.Exit(2)
			}
			inputs = append(inputs, in)
		}
	}
	for _, in := range inputs {
		if in.Binary {
			extensionBinary() // build before anything runs: the build must not compete with the 100 ms start windows
			break
		}
	}
	par := 10
	if s := os.Getenv("C20_PAR"); s != "" {
		if p, err := strconv.Atoi(s); err == nil && p > 0 {
			par = p
		}
	}
	out := make([]hlib.Case, len(inputs))
	sem := make(chan struct{}, par)
	var wg sync.WaitGroup
	for i := range inputs {
		wg.Add(1)
		sem <- struct{}{}
		go func(i int) {
			defer wg.Done()
			defer func() { <-sem }()
			out[i] = runOne(inputs[i])
		}(i)
	}
	wg.Wait()
	for _, c := range out {
		em.Emit(c)
	}
	em.Close()
	time.Sleep(20 * time.Millisecond)
	tmpMu.Lock()
	for _, d := range tmpDirs {
		os.RemoveAll(d)
	}
	tmpMu.Unlock()
}

// workDir is where scratch directories go: the harness's working directory (the driver's per-run work
// directory, removed by the driver), so that nothing is left under /tmp when the process is killed.
func workDir() string {
	wd, err := os.Getwd()
	if err != nil {
		return ""
	}
	return wd
}
