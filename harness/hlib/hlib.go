// Package hlib is the shared part of the correspondence harness: one PRNG, Coq literal
// printers, the case record every property binary emits (one JSON object per line) and the
// common command line.
//
//	<bin> gen -seed S -n N [-tier quick|thorough]   generate inputs, run the implementation
//	<bin> run -inputs FILE                          run the implementation on recorded inputs
//
// An input is whatever JSON value the property chose; `run` must reproduce the case from it
// alone (this is what corpus, replay and shrinking rely on).
package hlib

import (
	"bufio"
	"crypto/sha1"
	"encoding/hex"
	"encoding/json"
	"flag"
	"fmt"
	"math"
	"os"
	"strconv"
	"strings"
)

// ---------------------------------------------------------------------------------------
// PRNG: splitmix64; every random choice of a run derives from one state.

type Rand struct{ s uint64 }

// NewRand scrambles the seed through the splitmix64 finaliser (twice, with a constant in between) so that
// consecutive seeds give unrelated streams (seed*G + c alone makes seed n+1 the stream of seed n shifted by one).
func NewRand(seed uint64) *Rand {
	z := seed + 0x1234567
	for i := 0; i < 2; i++ {
		z = (z ^ (z >> 30)) * 0xBF58476D1CE4E5B9
		z = (z ^ (z >> 27)) * 0x94D049BB133111EB
		z = (z ^ (z >> 31)) + 0x9E3779B97F4A7C15
	}
	return &Rand{s: z}
}

func (r *Rand) U64() uint64 {
	r.s += 0x9E3779B97F4A7C15
	z := r.s
	z = (z ^ (z >> 30)) * 0xBF58476D1CE4E5B9
	z = (z ^ (z >> 27)) * 0x94D049BB133111EB
	return z ^ (z >> 31)
}

// Intn returns a value in [0, n).
func (r *Rand) Intn(n int) int {
	if n <= 0 {
		return 0
	}
	return int(r.U64() % uint64(n))
}

// Range returns a value in [lo, hi].
func (r *Rand) Range(lo, hi int) int { return lo + r.Intn(hi-lo+1) }

func (r *Rand) Bool() bool { return r.U64()&1 == 1 }

// Chance is true with probability num/den.
func (r *Rand) Chance(num, den int) bool { return r.Intn(den) < num }

func (r *Rand) Float() float64 { return float64(r.U64()>>11) / (1 << 53) }

// Fork derives an independent stream (for per-case reproducibility).
func (r *Rand) Fork() *Rand { return &Rand{s: r.U64()} }

func Pick[T any](r *Rand, xs []T) T { return xs[r.Intn(len(xs))] }

// ---------------------------------------------------------------------------------------
// Coq literals.  Numbers are printed with explicit scopes so that a case file needs no
// particular open scope.

// Bytes prints a byte string with GS.Base.Bytes.s1 / sp: chunks of up to 7 bytes packed
// big-endian into primitive 63-bit integer literals under a 0x01 sentinel byte (primitive
// integers are parsed natively; N/Z numerals and list-of-byte literals are ~8x slower).
func Bytes(s string) string {
	if len(s) == 0 {
		return "[]"
	}
	chunk := func(c string) string {
		v := uint64(1)
		for i := 0; i < len(c); i++ {
			v = v<<8 | uint64(c[i])
		}
		return strconv.FormatUint(v, 10)
	}
	if len(s) <= 7 {
		return "(s1 " + chunk(s) + ")"
	}
	var b strings.Builder
	b.WriteString("(sp [")
	for i := 0; i < len(s); i += 7 {
		j := i + 7
		if j > len(s) {
			j = len(s)
		}
		if i > 0 {
			b.WriteByte(';')
		}
		b.WriteString(chunk(s[i:j]))
	}
	b.WriteString("]%uint63)")
	return b.String()
}

func BytesB(s []byte) string { return Bytes(string(s)) }

// Z prints an integer as a Z term (GS.Base.Bytes.zi / zn / zw over primitive integer literals).
func Z(v int64) string {
	if v >= 0 {
		return ZU(uint64(v))
	}
	if v == math.MinInt64 {
		return "(-9223372036854775808)%Z"
	}
	return "(zn " + strconv.FormatUint(uint64(-v), 10) + ")"
}

// ZU prints an unsigned 64-bit value (e.g. a float64 bit pattern) as a Z term.
func ZU(v uint64) string {
	if v < 1<<62 {
		return "(zi " + strconv.FormatUint(v, 10) + ")"
	}
	return "(zw " + strconv.FormatUint(v>>32, 10) + " " + strconv.FormatUint(v&0xffffffff, 10) + ")"
}

// N prints a natural number as an N term.
func N(v uint64) string {
	if v < 1<<62 {
		return "(ni " + strconv.FormatUint(v, 10) + ")"
	}
	return strconv.FormatUint(v, 10) + "%N"
}

func Nat(v int) string { return strconv.Itoa(v) + "%nat" }

// F64 prints the IEEE bit pattern of a float64 as Z.
func F64(v float64) string { return ZU(math.Float64bits(v)) }

func Bool(b bool) string {
	if b {
		return "true"
	}
	return "false"
}

// List prints a Coq list from already printed elements.
func List(elems []string) string {
	if len(elems) == 0 {
		return "[]"
	}
	return "[" + strings.Join(elems, "; ") + "]"
}

func StrList(xs []string) string {
	el := make([]string, len(xs))
	for i, x := range xs {
		el[i] = Bytes(x)
	}
	return List(el)
}

func Option(s string, present bool) string {
	if !present {
		return "None"
	}
	return "(Some " + s + ")"
}

// App prints a constructor application.
func App(head string, args ...string) string {
	if len(args) == 0 {
		return head
	}
	return "(" + head + " " + strings.Join(args, " ") + ")"
}

func Pair(a, b string) string { return "(" + a + ", " + b + ")" }

// ---------------------------------------------------------------------------------------
// Cases

// Case is one line of a property binary's output.
type Case struct {
	ID         int         `json:"id"`
	Input      interface{} `json:"input"`           // enough to re-run the case
	Obs        interface{} `json:"obs,omitempty"`   // what the implementation did (for humans)
	Coq        string      `json:"coq"`             // the case as a Coq term of the Corr file's case type ("" = monitors only)
	Monitors   []string    `json:"monitors"`        // direct property violations seen by the harness
	Class      string      `json:"class"`           // generator stream / shape, for the distribution
	Nontrivial bool        `json:"nontrivial"`      // by the property's stated rule
	Key        string      `json:"key"`             // canonical hash of the input
	Known      string      `json:"known,omitempty"` // signature of a known finding this case reproduces
}

func HashOf(v interface{}) string {
	b, _ := json.Marshal(v)
	h := sha1.Sum(b)
	return hex.EncodeToString(h[:8])
}

type Emitter struct {
	w  *bufio.Writer
	id int
}

func NewEmitter() *Emitter { return &Emitter{w: bufio.NewWriterSize(os.Stdout, 1<<20)} }

func (e *Emitter) Emit(c Case) {
	c.ID = e.id
	e.id++
	if c.Key == "" {
		c.Key = HashOf(c.Input)
	}
	if c.Monitors == nil {
		c.Monitors = []string{}
	}
	b, err := json.Marshal(c)
	if err != nil {
		fmt.Fprintln(os.Stderr, "marshal:", err)
		os.Exit(3)
	}
	e.w.Write(b)
	e.w.WriteByte('\n')
}

func (e *Emitter) Close() { e.w.Flush() }

// Args is the parsed common command line.
type Args struct {
	Mode   string // gen | run
	Seed   uint64
	N      int
	Tier   string
	Inputs []json.RawMessage
	Extra  map[string]string
}

func ParseArgs() Args {
	if len(os.Args) < 2 {
		fmt.Fprintln(os.Stderr, "usage: gen -seed S -n N [-tier T] | run -inputs FILE")
		os.Exit(2)
	}
	a := Args{Mode: os.Args[1]}
	fs := flag.NewFlagSet(a.Mode, flag.ExitOnError)
	seed := fs.Uint64("seed", 1, "")
	n := fs.Int("n", 100, "")
	tier := fs.String("tier", "quick", "")
	inputs := fs.String("inputs", "", "")
	stream := fs.String("stream", "", "")
	fs.Parse(os.Args[2:])
	a.Seed, a.N, a.Tier = *seed, *n, *tier
	a.Extra = map[string]string{"stream": *stream}
	if a.Mode == "run" {
		f, err := os.Open(*inputs)
		if err != nil {
			fmt.Fprintln(os.Stderr, err)
			os.Exit(2)
		}
		defer f.Close()
		sc := bufio.NewScanner(f)
		sc.Buffer(make([]byte, 1<<20), 1<<28)
		for sc.Scan() {
			line := strings.TrimSpace(sc.Text())
			if line == "" {
				continue
			}
			// accept either a bare input or a full case / replay object with an "input" field
			var probe map[string]json.RawMessage
			if json.Unmarshal([]byte(line), &probe) == nil {
				if in, ok := probe["input"]; ok {
					if _, isCase := probe["coq"]; isCase {
						a.Inputs = append(a.Inputs, in)
						continue
					}
					if _, isReplay := probe["property"]; isReplay {
						a.Inputs = append(a.Inputs, in)
						continue
					}
				}
			}
			a.Inputs = append(a.Inputs, json.RawMessage(line))
		}
	}
	return a
}

// Recover runs f and reports a panic as a string ("" = none).
func Recover(f func()) (msg string) {
	defer func() {
		if r := recover(); r != nil {
			msg = fmt.Sprint(r)
		}
	}()
	f()
	return ""
}
