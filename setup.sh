#!/bin/sh
# Offline setup: build the Coq development from clean and warm the Go build cache.
set -e
cd "$(dirname "$0")"
export GOFLAGS=-mod=mod GOPROXY=off
./coq/mk.sh
cp /repo/go.sum harness/go.sum
mkdir -p harness/bin
for d in harness/cmd/*/; do
  b=$(basename "$d")
  (cd harness && go build -tags verif -o bin/$b ./cmd/$b) || echo "warning: harness $b did not build" >&2
done
# warm the build cache for the repo binaries some harnesses build and run (C09/C12: cmd/gostatsd with the
# verif hooks; C20: cmd/lambda-extension as shipped)
(cd /repo && go build -tags verif -o /dev/null ./cmd/gostatsd && go build -o /dev/null ./cmd/lambda-extension) || echo "warning: repo binaries did not build" >&2
