(* Shared helpers of the correspondence files: the verdict over a list of cases is computed
   inside Coq; the driver only reads the printed list of failing indices. *)
From GS Require Import Base.Bytes.
Local Open Scope N_scope.

Fixpoint mismatches_from {A} (chk : A -> bool) (i : N) (l : list A) : list N :=
  match l with
  | [] => []
  | c :: r => if chk c then mismatches_from chk (N.succ i) r
              else i :: mismatches_from chk (N.succ i) r
  end.
Definition mismatches {A} (chk : A -> bool) (l : list A) : list N := mismatches_from chk 0 l.

Fixpoint select {A} (idx : list N) (i : N) (l : list A) : list A :=
  match l with
  | [] => []
  | c :: r => if existsb (N.eqb i) idx then c :: select idx (N.succ i) r else select idx (N.succ i) r
  end.

(* association-list oracle tables *)
Fixpoint assoc_str {V} (k : str) (t : list (str * V)) : option V :=
  match t with
  | [] => None
  | (k', v) :: r => if str_eqb k k' then Some v else assoc_str k r
  end.
