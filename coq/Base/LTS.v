(* Labelled transition systems with partial deterministic steps: the shared kit of the
   stateful models.  A property of all interleavings is a property of all label sequences. *)
From Coq Require Import List.
Import ListNotations.

Section LTS.
  Context {S L : Type}.
  Variable step : S -> L -> option S.

  Fixpoint run (s : S) (ls : list L) : option S :=
    match ls with
    | [] => Some s
    | l :: r => match step s l with Some s' => run s' r | None => None end
    end.

  Lemma run_app s ls1 ls2 :
    run s (ls1 ++ ls2) = match run s ls1 with Some s' => run s' ls2 | None => None end.
  Proof.
    revert s; induction ls1 as [|l r IH]; intros s; cbn; [reflexivity|].
    destruct (step s l); [apply IH|reflexivity].
  Qed.

  Lemma invariant_run (I : S -> Prop) :
    (forall s l s', I s -> step s l = Some s' -> I s') ->
    forall ls s s', I s -> run s ls = Some s' -> I s'.
  Proof.
    intros Hstep; induction ls as [|l r IH]; intros s s' Hi Hr; cbn in Hr.
    - injection Hr as <-; exact Hi.
    - destruct (step s l) as [s1|] eqn:E; [|discriminate].
      eapply IH; [eapply Hstep; eauto|exact Hr].
  Qed.
End LTS.

(* total steps *)
Section Total.
  Context {S L : Type}.
  Variable step : S -> L -> S.
  Definition runT (s : S) (ls : list L) : S := fold_left step ls s.
  Lemma invariant_runT (I : S -> Prop) :
    (forall s l, I s -> I (step s l)) -> forall ls s, I s -> I (runT s ls).
  Proof.
    intros H; induction ls as [|l r IH]; intros s Hi; cbn; [exact Hi|apply IH, H, Hi].
  Qed.
End Total.
