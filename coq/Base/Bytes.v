(* Bytes and byte strings: a byte is an [N] (< 256 for everything the harness emits),
   a string is a [list N].  Stdlib only, so that every model file can import it. *)
From Coq Require Export List NArith ZArith Bool.
Export ListNotations.
Local Open Scope N_scope.

Definition str := list N.

Fixpoint str_eqb (a b : str) : bool :=
  match a, b with
  | [], [] => true
  | x :: a', y :: b' => (x =? y) && str_eqb a' b'
  | _, _ => false
  end.

Lemma str_eqb_spec a b : reflect (a = b) (str_eqb a b).
Proof.
  revert b; induction a as [|x a IH]; intros [|y b]; cbn; try (constructor; congruence).
  destruct (N.eqb_spec x y) as [->|Hn]; cbn.
  - destruct (IH b) as [->|Hn]; constructor; congruence.
  - constructor; congruence.
Qed.

Lemma str_eqb_eq a b : str_eqb a b = true <-> a = b.
Proof. destruct (str_eqb_spec a b); split; congruence. Qed.

Lemma str_eqb_refl a : str_eqb a a = true.
Proof. apply str_eqb_eq; reflexivity. Qed.

Fixpoint list_eqb {A} (eqb : A -> A -> bool) (a b : list A) : bool :=
  match a, b with
  | [], [] => true
  | x :: a', y :: b' => eqb x y && list_eqb eqb a' b'
  | _, _ => false
  end.

Definition option_eqb {A} (eqb : A -> A -> bool) (a b : option A) : bool :=
  match a, b with
  | None, None => true
  | Some x, Some y => eqb x y
  | _, _ => false
  end.

(* ASCII codes used by the models *)
Definition c_nul   : N := 0.
Definition c_tab   : N := 9.
Definition c_nl    : N := 10.
Definition c_space : N := 32.
Definition c_hash  : N := 35.
Definition c_comma : N := 44.
Definition c_dash  : N := 45.
Definition c_dot   : N := 46.
Definition c_slash : N := 47.
Definition c_0     : N := 48.
Definition c_9     : N := 57.
Definition c_colon : N := 58.
Definition c_at    : N := 64.
Definition c_bslash: N := 92.
Definition c_us    : N := 95.
Definition c_pipe  : N := 124.
Definition c_lbrace: N := 123.
Definition c_rbrace: N := 125.
Definition c_c : N := 99.
Definition c_d : N := 100.
Definition c_e : N := 101.
Definition c_g : N := 103.
Definition c_h : N := 104.
Definition c_k : N := 107.
Definition c_m : N := 109.
Definition c_n : N := 110.
Definition c_p : N := 112.
Definition c_s : N := 115.
Definition c_t : N := 116.

Definition is_digit (b : N) : bool := (c_0 <=? b) && (b <=? c_9).
Definition is_lower (b : N) : bool := (97 <=? b) && (b <=? 122).
Definition is_upper (b : N) : bool := (65 <=? b) && (b <=? 90).
Definition is_alnum (b : N) : bool := is_lower b || is_upper b || is_digit b.

(* join with a separator byte *)
Fixpoint join (sep : N) (l : list str) : str :=
  match l with
  | [] => []
  | [x] => x
  | x :: r => x ++ sep :: join sep r
  end.

(* IEEE-754 binary64 bit patterns carried as Z in [0, 2^64) *)
Local Open Scope Z_scope.
Definition f64_sign (b : Z) : Z := b / 2^63.
Definition f64_exp  (b : Z) : Z := (b / 2^52) mod 2^11.
Definition f64_mant (b : Z) : Z := b mod 2^52.
Definition f64_is_nan (b : Z) : bool := (f64_exp b =? 2047) && negb (f64_mant b =? 0).
Definition f64_is_inf (b : Z) : bool := (f64_exp b =? 2047) && (f64_mant b =? 0).
Definition f64_is_finite (b : Z) : bool := negb (f64_exp b =? 2047).
(* strictly positive and finite *)
Definition f64_finite_pos (b : Z) : bool :=
  (f64_sign b =? 0) && negb (b =? 0) && f64_is_finite b.
Definition f64_one : Z := 4607182418800017408. (* 0x3FF0000000000000 *)

(* Compact literals for the case files: a byte string is written as ONE hexadecimal numeral
   with a leading 1 sentinel, e.g. "ab" = s_ 0x16162.  (A list literal of N numerals costs
   ~100x more to parse and elaborate.) *)
Local Open Scope N_scope.
Fixpoint pos_bits (p : positive) : list bool :=
  match p with
  | xH => []
  | xO q => false :: pos_bits q
  | xI q => true :: pos_bits q
  end.
Definition bit (b : bool) (w : N) : N := if b then w else 0.
Fixpoint group8 (acc : str) (l : list bool) : str :=
  match l with
  | b0 :: b1 :: b2 :: b3 :: b4 :: b5 :: b6 :: b7 :: r =>
      group8 ((bit b0 1 + bit b1 2 + bit b2 4 + bit b3 8 + bit b4 16 + bit b5 32 + bit b6 64 + bit b7 128) :: acc) r
  | _ => acc
  end.
Definition s_ (n : N) : str :=
  match n with
  | N0 => []
  | Npos p => group8 [] (pos_bits p)
  end.

(* Faster literals (about 8x): primitive 63-bit integers are parsed natively.  A string is a
   list of chunks, each chunk = up to 7 bytes, big-endian, under a leading 0x01 sentinel byte. *)
From Coq Require Uint63.
From Coq Require Export PrimInt63.
Export PrimInt63.PrimInt63Notations.
Definition int_to_N (i : Uint63.int) : N := Z.to_N (Uint63.to_Z i).
Definition s1 (i : Uint63.int) : str := s_ (int_to_N i).
Definition sp (l : list Uint63.int) : str := concat (map s1 l).
(* integers: non-negative, negative, and 64-bit patterns as two 32-bit halves *)
Definition zi (i : Uint63.int) : Z := Uint63.to_Z i.
Definition zn (i : Uint63.int) : Z := (- Uint63.to_Z i)%Z.
Definition zw (hi lo : Uint63.int) : Z := (Uint63.to_Z hi * 4294967296 + Uint63.to_Z lo)%Z.
Definition ni (i : Uint63.int) : N := int_to_N i.
Arguments s1 i%uint63.
Arguments zi i%uint63.
Arguments zn i%uint63.
Arguments zw (hi lo)%uint63.
Arguments ni i%uint63.
