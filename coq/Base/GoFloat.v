(* Go float64 operations whose ROUNDING decides an observable (DESIGN 3.1), on Coq's primitive
   binary64 floats: vm_compute evaluates them with the hardware's IEEE-754 operations, which is
   bit-exact with Go on amd64.  float64 values travel between harness and model as their bit
   pattern in Z. *)
From Coq Require Import ZArith QArith Qcanon Floats Uint63.
Local Open Scope Z_scope.

(* ---- bit pattern <-> primitive float *)

Definition float_of_bits (b : Z) : float :=
  let s := Z.odd (b / 2^63) in
  let e := (b / 2^52) mod 2^11 in
  let m := b mod 2^52 in
  if e =? 2047 then (if m =? 0 then (if s then neg_infinity else infinity) else nan)
  else if (e =? 0) && (m =? 0) then (if s then neg_zero else zero)
  else
    let '(mm, ee) := if e =? 0 then (m, -1074) else (m + 2^52, e - 1075) in
    match mm with
    | Zpos p => SF2Prim (S754_finite s p ee)
    | _ => nan
    end.

(* normalise a spec-float mantissa to 53 bits where possible and produce the IEEE fields *)
Definition bits_of_float (f : float) : Z :=
  match Prim2SF f with
  | S754_zero s => if s then 2^63 else 0
  | S754_infinity s => (if s then 2^63 else 0) + 2047 * 2^52
  | S754_nan => 2047 * 2^52 + 2^51
  | S754_finite s m e =>
      (* Prim2SF returns a canonical mantissa: 53 bits for normal numbers (e >= -1074),
         fewer bits with e = -1074 for subnormals *)
      let mz := Zpos m in
      let sgn := if s then 2^63 else 0 in
      if mz <? 2^52 then sgn + mz
      else sgn + (e + 1075) * 2^52 + (mz - 2^52)
  end.

(* ---- operations *)

Definition fdiv_bits (a b : Z) : Z := bits_of_float (float_of_bits a / float_of_bits b).
Definition f64_one_bits : Z := 4607182418800017408.
Definition finv_bits (r : Z) : Z := fdiv_bits f64_one_bits r.

(* int64(x) as the amd64 instruction CVTTSD2SQ computes it: truncation toward zero, and the
   "integer indefinite" value -2^63 for NaN, infinities and out-of-range values *)
Definition trunc_int64 (f : float) : Z :=
  match Prim2SF f with
  | S754_zero _ => 0
  | S754_finite s m e =>
      let mag := if 0 <=? e then Zpos m * 2^e else Zpos m / 2^(-e) in
      let v := if s then - mag else mag in
      if (v <? -(2^63)) || (2^63 <=? v) then -(2^63) else v
  | _ => -(2^63)
  end.
Definition trunc_int64_bits (b : Z) : Z := trunc_int64 (float_of_bits b).

(* exact rational value of a finite float (0 for non-finite ones: callers guard) *)
Definition Q_of_float (f : float) : Q :=
  match Prim2SF f with
  | S754_finite s m e =>
      let n := if s then Zneg m else Zpos m in
      if (0 <=? e)%Z then inject_Z (n * 2^e)%Z
      else match (2^(-e))%Z with Zpos d => Qmake n d | _ => 0%Q end
  | _ => 0%Q
  end.
Definition Qc_of_bits (b : Z) : Qc := Q2Qc (Q_of_float (float_of_bits b)).

(* floor(x + 0.5) for a finite float, as math.Floor(x + 0.5) followed by int(...) *)
Definition half : float := float_of_bits 4602678819172646912.
Definition floor_int (f : float) : Z :=
  match Prim2SF f with
  | S754_zero _ => 0
  | S754_finite s m e =>
      if 0 <=? e then (if s then - (Zpos m * 2^e) else Zpos m * 2^e)
      else if s then - ((Zpos m + 2^(-e) - 1) / 2^(-e)) else Zpos m / 2^(-e)
  | _ => -(2^63)
  end.
