(* Model of pkg/cachedinstances/k8s/k8s.go (property C13): the pod index, the memoised
   instances and the cache invalidation handler, as an LTS whose labels are the atomic things
   that happen to a Provider: one informer delivery (store change + handler call, as done by
   client-go's processDeltas) or one lookup (Peek / one IP taken from IpSink).

   External code is not modelled:
   - regexp: a regex is an oracle [re_find] giving, for a key, what FindStringSubmatch and
     SubexpNames give together: None when there is no match, else the text of the whole match
     and, for every capture group in order, its name and its text ("" when it did not take part);
   - the client-go indexer: specified as a map from pod key to pod, and [ByIndex PodByIP ip] as
     the stored pods for which podByIpIndexFunc yields ip (in an order Go does not fix).
   Definitions only; proofs are in Proofs/K8s.v. *)
From stdpp Require Import gmap.
From GS Require Import Base.Bytes.

(* ---------------------------------------------------------------- pods and instances *)

(* core_v1.PodPhase is a string; the code compares it with "Succeeded" and "Failed" only *)
Inductive phase := Pending | Running | Succeeded | Failed | UnknownPhase | OtherPhase.

Record pod := MkPod {
  p_ns : str; p_name : str;            (* ObjectMeta.Namespace / Name *)
  p_ip : str; p_host_ip : str;         (* Status.PodIP / Status.HostIP *)
  p_phase : phase;                     (* Status.Phase *)
  p_deleting : bool;                   (* ObjectMeta.DeletionTimestamp != nil *)
  p_hostnet : bool;                    (* Spec.HostNetwork *)
  p_labels : list (str * str);         (* ObjectMeta.Labels (a Go map: keys distinct) *)
  p_annots : list (str * str)          (* ObjectMeta.Annotations *)
}.

(* gostatsd.Instance *)
Record instance := MkInst { i_id : str; i_tags : list str }.

Definition is_empty (s : str) : bool := match s with [] => true | _ => false end.

(* podIsFinishedRunning *)
Definition finished (p : pod) : bool :=
  match p_phase p with Succeeded | Failed => true | _ => false end || p_deleting p.

(* podIsHostNetwork *)
Definition host_network (p : pod) : bool := p_hostnet p || str_eqb (p_ip p) (p_host_ip p).

(* isIndexablePod: has an IP, not finished, not host network *)
Definition indexable (p : pod) : bool :=
  negb (is_empty (p_ip p) || finished p || host_network p).

(* the informer's key function (cache.MetaNamespaceKeyFunc) *)
Definition pod_key (p : pod) : str :=
  if is_empty (p_ns p) then p_name p else p_ns p ++ c_slash :: p_name p.

(* ---------------------------------------------------------------- tag names *)

Record regex := MkRe { re_find : str -> option (str * list (str * str)) }.

Definition tag_group : str := [116; 97; 103]%N.   (* TagNameRegexSubexp = "tag" *)

(* the loop over SubexpNames: first group named "tag" whose text is not "" *)
Fixpoint first_tag (groups : list (str * str)) : option str :=
  match groups with
  | [] => None
  | (name, text) :: r =>
      if str_eqb name tag_group && negb (is_empty text) then Some text else first_tag r
  end.

(* getTagNameFromRegex; "" means: no tag *)
Definition tag_name (re : regex) (key : str) : str :=
  match re_find re key with
  | None => []
  | Some (whole, groups) =>
      match first_tag groups with
      | Some t => t
      | None => if is_empty whole then [] else key
      end
  end.

(* one `for k, v := range m` loop of instanceFromInformer (nil regex: loop skipped) *)
Definition tags_of (re : option regex) (kvs : list (str * str)) : list str :=
  match re with
  | None => []
  | Some re =>
      flat_map (fun kv => let t := tag_name re (fst kv) in
                          if is_empty t then [] else [t ++ c_colon :: snd kv]) kvs
  end.

Record config := MkCfg { c_label_re : option regex; c_annot_re : option regex }.

(* the instance built by instanceFromInformer from a pod: labels first, then annotations
   (within each, Go iterates in map order: the order of the tags is not fixed) *)
Definition derive (cfg : config) (p : pod) : instance :=
  MkInst (p_ns p ++ c_slash :: p_name p)
         (tags_of (c_label_re cfg) (p_labels p) ++ tags_of (c_annot_re cfg) (p_annots p)).

(* ---------------------------------------------------------------- state and steps *)

Record state := MkSt {
  store : gmap str pod;                  (* informer indexer: pod key -> pod *)
  memo : gmap str (option instance)      (* Provider.cache: ip -> *Instance (None = nil entry) *)
}.

Definition init : state := MkSt ∅ ∅.

(* indexer.ByIndex(PodByIP, ip): the stored pods that podByIpIndexFunc files under ip *)
Definition candidates (st : gmap str pod) (ip : str) : list pod :=
  List.filter (fun p => indexable p && str_eqb (p_ip p) ip) (snd <$> map_to_list st).

(* maybeInvalidateCacheForPod *)
Definition invalidate (p : pod) (m : gmap str (option instance)) : gmap str (option instance) :=
  if indexable p then delete (p_ip p) m else m.

(* instanceFromCache: a non-nil memoised instance is returned as is; otherwise the answer is
   computed from the index (objs[0] when there are several) and written to the memo, nil too *)
Definition lookup (cfg : config) (s : state) (ip : str) : option instance * state :=
  match memo s !! ip with
  | Some (Some i) => (Some i, s)
  | _ =>
      let r := match candidates (store s) ip with [] => None | p :: _ => Some (derive cfg p) end in
      (r, MkSt (store s) (<[ip := r]> (memo s)))
  end.

Inductive label :=
| Add (p : pod)               (* indexer.Add(p);      handler.OnAdd(p)         *)
| Update (old new : pod)      (* indexer.Update(new); handler.OnUpdate(old,new) *)
| Delete (p : pod)            (* indexer.Delete(p);   handler.OnDelete(p)      *)
| Lookup (ip : str).          (* Peek(ip) or ip received from IpSink            *)

Definition step (cfg : config) (s : state) (l : label) : state :=
  match l with
  | Add p => MkSt (<[pod_key p := p]> (store s)) (memo s)
  | Update old new => MkSt (<[pod_key new := new]> (store s)) (invalidate old (memo s))
  | Delete p => MkSt (delete (pod_key p) (store s)) (invalidate p (memo s))
  | Lookup ip => snd (lookup cfg s ip)
  end.

(* ---------------------------------------------------------------- specification vocabulary *)

(* pod [p] is the current version of some pod, is indexable and holds [ip] *)
Definition holds (st : gmap str pod) (ip : str) (p : pod) : Prop :=
  exists k, st !! k = Some p /\ indexable p = true /\ p_ip p = ip.

(* at most one indexable pod holds [ip] *)
Definition unique_holder (st : gmap str pod) (ip : str) : Prop :=
  forall p q, holds st ip p -> holds st ip q -> p = q.

(* what client-go's processDeltas guarantees about the deliveries it makes: Add for a key that
   is not stored, Update with [old] = the stored version of the same key, Delete with the final
   state = the stored version (all fields this package reads) *)
Definition informer_ok (st : gmap str pod) (l : label) : Prop :=
  match l with
  | Add p => st !! pod_key p = None
  | Update old new => pod_key old = pod_key new /\ st !! pod_key new = Some old
  | Delete p => st !! pod_key p = Some p
  | Lookup _ => True
  end.

(* a history all of whose deliveries are informer deliveries *)
Fixpoint history_ok (cfg : config) (s : state) (ls : list label) : Prop :=
  match ls with
  | [] => True
  | l :: r => informer_ok (store s) l /\ history_ok cfg (step cfg s l) r
  end.

Definition run (cfg : config) (s : state) (ls : list label) : state := fold_left (step cfg) ls s.

(* every memoised instance is the one derived from a pod that holds the IP now *)
Definition coherent (cfg : config) (s : state) : Prop :=
  forall ip i, memo s !! ip = Some (Some i) -> exists p, holds (store s) ip p /\ i = derive cfg p.

(* the text captured by the group named "tag": the first such group whose text is not "" *)
Definition tag_capture (groups : list (str * str)) (t : str) : Prop :=
  exists pre post, groups = pre ++ (tag_group, t) :: post /\ t <> [] /\
                   Forall (fun g => fst g <> tag_group \/ snd g = []) pre.

(* there is no group named "tag", or none of them captured any text *)
Definition no_tag_capture (groups : list (str * str)) : Prop :=
  Forall (fun g => fst g <> tag_group \/ snd g = []) groups.

(* what the memo invariant really needs from a delivery (implied by [informer_ok]): the stored
   version that the delivery replaces or removes, if it is indexable, is announced to the handler
   as an indexable pod with the same IP (so its memo entry is dropped); an Add never overwrites
   an indexable stored version.  Deliveries for keys that are not stored are harmless. *)
Definition delivery_safe (st : gmap str pod) (l : label) : Prop :=
  match l with
  | Add p => forall q, st !! pod_key p = Some q -> indexable q = false
  | Update old new =>
      forall q, st !! pod_key new = Some q -> indexable q = true ->
                indexable old = true /\ p_ip old = p_ip q
  | Delete p =>
      forall q, st !! pod_key p = Some q -> indexable q = true ->
                indexable p = true /\ p_ip p = p_ip q
  | Lookup _ => True
  end.

Fixpoint history_safe (cfg : config) (s : state) (ls : list label) : Prop :=
  match ls with
  | [] => True
  | l :: r => delivery_safe (store s) l /\ history_safe cfg (step cfg s l) r
  end.
