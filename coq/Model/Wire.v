(* The forwarder -> ingestion-server wire, structurally: model of
     pkg/statsd/handler_http_forwarder_v2.go  translateToProtobufV2, dispatchEvent (message
                                              construction), constructPost / serializeAndCompress
     pkg/web/http_receiver_v2.go              readBody, MetricHandler, EventHandler,
                                              translateFromProtobufV2
     pkg/web/compression.go                   ReadCompressionType, IsValidCompressionLevel,
                                              the two Content-Encoding constants
     pb/gostatsd.proto                        the message types (as pb.go's Go structs)
   Definitions only.  The byte-level codecs (proto.Marshal/Unmarshal, zlib, lz4) are Section
   variables here; Model/PbWire.v gives a concrete protobuf codec for this schema.

   Go's map[name]map[tagsKey]V is the flat gmap (name, tagsKey) of Model/MetricMap.v on the
   MetricMap side and a NESTED gmap on the protobuf side (pb.go: map[string]*CounterTagV2 with
   TagMap map[string]*RawCounterV2): the translation is gmap_curry / gmap_uncurry.  The inner key
   (tags key) is copied verbatim in both directions; it is never recomputed from tags/hostname. *)
From stdpp Require Import gmap.
From Coq Require Import QArith Qcanon Ascii String.
From GS Require Import Base.Bytes Base.GoFloat Model.Series Model.MetricMap.

(* ASCII literal -> byte string *)
Definition bs (s : string) : str := List.map N_of_ascii (list_ascii_of_string s).

(* ---------------------------------------------------------------------------------------- *)
(* pb.go message structs.  float64 fields are bit patterns (Z in [0,2^64)), int64 fields Z. *)

Record pb_counter := MkPbC { pc_tags : list str; pc_host : str; pc_val : Z }.
Record pb_gauge   := MkPbG { pg_tags : list str; pg_host : str; pg_val : Z }.
Record pb_set     := MkPbS { ps_tags : list str; ps_host : str; ps_vals : list str }.
Record pb_timer   := MkPbT { pt_tags : list str; pt_host : str; pt_samp : Z; pt_vals : list Z }.

Record pbmsg := MkPb {
  pb_counters : gmap str (gmap str pb_counter);
  pb_gauges   : gmap str (gmap str pb_gauge);
  pb_sets     : gmap str (gmap str pb_set);
  pb_timers   : gmap str (gmap str pb_timer)
}.

(* ---------------------------------------------------------------------------------------- *)
(* Sampled counts.  Model/MetricMap.v carries gostatsd.Timer.SampledCount (a float64) by its
   exact rational value; on the wire it is the double itself.  [bits_of_Qc q] is the bit pattern
   of the double whose exact value is q, and the NaN pattern when no double has that value, so
   that [Qc_of_bits (bits_of_Qc q) = q] holds exactly for the rationals that are doubles
   ([is_f64]); every SampledCount of the Go program is one. *)
Local Open Scope Z_scope.
Definition f64_nan_bits : Z := 9221120237041090560. (* 0x7FF8000000000000 *)

Definition bits_of_Qc (q : Qc) : Z :=
  let n := Qnum (this q) in
  let d := Zpos (Qden (this q)) in
  if n =? 0 then 0 else
  let k := Z.log2 d in
  if negb (2 ^ k =? d) then f64_nan_bits else
  let s := if n <? 0 then 2 ^ 63 else 0 in
  let a := Z.abs n in
  let L := Z.log2 a in
  let E := L - k in
  if 1023 <? E then f64_nan_bits
  else if -1022 <=? E then
    if L <=? 52 then s + (E + 1023) * 2 ^ 52 + (a * 2 ^ (52 - L) - 2 ^ 52)
    else if a mod 2 ^ (L - 52) =? 0 then s + (E + 1023) * 2 ^ 52 + (a / 2 ^ (L - 52) - 2 ^ 52)
    else f64_nan_bits
  else
    if k <=? 1074 then s + a * 2 ^ (1074 - k)
    else if a mod 2 ^ (k - 1074) =? 0 then s + a / 2 ^ (k - 1074)
    else f64_nan_bits.

Definition is_f64 (q : Qc) : Prop := Qc_of_bits (bits_of_Qc q) = q.

(* ---------------------------------------------------------------------------------------- *)
(* translateToProtobufV2 *)

Definition counter_to_pb (c : counter) : pb_counter := MkPbC (c_tags c) (c_src c) (c_val c).
Definition gauge_to_pb (g : gauge) : pb_gauge := MkPbG (g_tags g) (g_src g) (g_val g).
(* `for key := range metric.Values { values = append(values, key) }`: Go's map order is free;
   the model takes the canonical order, Proofs/Wire.v shows the receiver does not depend on it *)
Definition set_to_pb (s : mset) : pb_set := MkPbS (s_tags s) (s_src s) (elements (s_vals s)).
Definition timer_to_pb (t : timer) : pb_timer :=
  MkPbT (t_tags t) (t_src t) (bits_of_Qc (t_samp t)) (t_vals t).

Definition to_pb (m : mmap) : pbmsg :=
  MkPb (gmap_curry (counter_to_pb <$> counters m))
       (gmap_curry (gauge_to_pb <$> gauges m))
       (gmap_curry (set_to_pb <$> sets m))
       (gmap_curry (timer_to_pb <$> timers m)).

(* translateFromProtobufV2; [now] is the single time.Now() taken at its start *)
Definition counter_from_pb (now : Z) (c : pb_counter) : counter := MkCounter (pc_val c) now (pc_host c) (pc_tags c).
Definition gauge_from_pb (now : Z) (g : pb_gauge) : gauge := MkGauge (pg_val g) now (pg_host g) (pg_tags g).
Definition set_from_pb (now : Z) (s : pb_set) : mset := MkSet (list_to_set (ps_vals s)) now (ps_host s) (ps_tags s).
Definition timer_from_pb (now : Z) (t : pb_timer) : timer :=
  MkTimer (pt_vals t) (Qc_of_bits (pt_samp t)) now (pt_host t) (pt_tags t).

Definition from_pb (now : Z) (p : pbmsg) : mmap :=
  MkMap (counter_from_pb now <$> gmap_uncurry (pb_counters p))
        (timer_from_pb now <$> gmap_uncurry (pb_timers p))
        (gauge_from_pb now <$> gmap_uncurry (pb_gauges p))
        (set_from_pb now <$> gmap_uncurry (pb_sets p)).

(* what the property allows to change: every timestamp becomes the receive time *)
Definition retime (now : Z) (m : mmap) : mmap :=
  MkMap ((fun c => MkCounter (c_val c) now (c_src c) (c_tags c)) <$> counters m)
        ((fun t => MkTimer (t_vals t) (t_samp t) now (t_src t) (t_tags t)) <$> timers m)
        ((fun g => MkGauge (g_val g) now (g_src g) (g_tags g)) <$> gauges m)
        ((fun s => MkSet (s_vals s) now (s_src s) (s_tags s)) <$> sets m).

(* ---------------------------------------------------------------------------------------- *)
(* Events.  gostatsd.Priority and gostatsd.AlertType are bytes; the pb enums are int32. *)

Record event := MkEvent {
  e_title : str; e_text : str; e_date : Z; e_aggkey : str; e_srctype : str;
  e_tags : list str; e_source : str; e_priority : N; e_alert : N
}.
Record pb_event := MkPbE {
  pe_title : str; pe_text : str; pe_date : Z; pe_hostname : str; pe_aggkey : str;
  pe_srctype : str; pe_tags : list str; pe_sourceip : str; pe_priority : Z; pe_type : Z
}.

Definition pri_normal : N := 0%N.   Definition pri_low : N := 1%N.
Definition alert_info : N := 0%N.   Definition alert_warning : N := 1%N.
Definition alert_error : N := 2%N.  Definition alert_success : N := 3%N.

(* dispatchEvent: the two switches have no default arm, so any other byte leaves the zero enum *)
Definition priority_to_pb (p : N) : Z := if (p =? pri_low)%N then 1 else 0.
Definition alert_to_pb (a : N) : Z :=
  if (a =? alert_warning)%N then 1 else if (a =? alert_error)%N then 2
  else if (a =? alert_success)%N then 3 else 0.

Definition event_to_pb (e : event) : pb_event :=
  MkPbE (e_title e) (e_text e) (e_date e) (e_source e) (e_aggkey e) (e_srctype e) (e_tags e)
        (e_source e) (priority_to_pb (e_priority e)) (alert_to_pb (e_alert e)).

(* EventHandler: default arms map every unknown enum value to Normal / Info; SourceIP is ignored *)
Definition priority_from_pb (p : Z) : N := if p =? 1 then pri_low else pri_normal.
Definition alert_from_pb (a : Z) : N :=
  if a =? 1 then alert_warning else if a =? 2 then alert_error
  else if a =? 3 then alert_success else alert_info.

Definition event_from_pb (p : pb_event) : event :=
  MkEvent (pe_title p) (pe_text p) (pe_date p) (pe_aggkey p) (pe_srctype p) (pe_tags p)
          (pe_hostname p) (priority_from_pb (pe_priority p)) (alert_from_pb (pe_type p)).

Definition valid_priority (p : N) : bool := (p <=? 1)%N.
Definition valid_alert (a : N) : bool := (a <=? 3)%N.
(* an event with out-of-range enum bytes arrives with the defaults *)
Definition normalise_event (e : event) : event :=
  MkEvent (e_title e) (e_text e) (e_date e) (e_aggkey e) (e_srctype e) (e_tags e) (e_source e)
          (if valid_priority (e_priority e) then e_priority e else pri_normal)
          (if valid_alert (e_alert e) then e_alert e else alert_info).

(* ---------------------------------------------------------------------------------------- *)
(* Transport: compression choice, Content-Encoding header, body decoding, status. *)

Inductive ctype := CtNone | CtZlib | CtLz4.
Definition ctype_eqb (a b : ctype) : bool :=
  match a, b with CtNone, CtNone | CtZlib, CtZlib | CtLz4, CtLz4 => true | _, _ => false end.

(* web.ReadCompressionType (None = the constructor returns the error) *)
Definition read_compression_type (s : str) : option ctype :=
  if str_eqb s (bs "none") then Some CtNone
  else if str_eqb s (bs "lz4") then Some CtLz4
  else if str_eqb s [] || str_eqb s (bs "zlib") then Some CtZlib
  else None.
(* web.IsValidCompressionLevel *)
Definition valid_level (l : Z) : bool := (0 <=? l) && (l <=? 9).

Definition enc_deflate : str := bs "deflate".
Definition enc_lz4 : str := bs "lz4".
Definition enc_identity : str := bs "identity".

Record fwd_cfg := MkCfg { f_compress : bool; f_ctype : ctype; f_level : Z }.

(* NewHttpForwarderHandlerV2's checks on (compress, compression-type, compression-level) *)
Definition new_forwarder (compress : bool) (ctype_s : str) (level : Z) : option fwd_cfg :=
  match read_compression_type ctype_s with
  | None => None
  | Some ct => if valid_level level then Some (MkCfg compress ct level) else None
  end.

Inductive codec := Zlib | Lz4.
(* constructPost / serializeAndCompress: which codec the sender applies *)
Definition sender_codec (c : fwd_cfg) : option codec :=
  if f_compress c && negb (ctype_eqb (f_ctype c) CtNone)
  then Some (match f_ctype c with CtLz4 => Lz4 | _ => Zlib end)
  else None.
(* ... and the header it sets *)
Definition sender_header (c : fwd_cfg) : str :=
  match sender_codec c with Some Lz4 => enc_lz4 | Some Zlib => enc_deflate | None => enc_identity end.

(* readBody's switch on the header: Some (Some k) = decompress with k, Some None = use as is,
   None = "invalid encoding" (400) *)
Definition receiver_codec (enc : str) : option (option codec) :=
  if str_eqb enc enc_deflate then Some (Some Zlib)
  else if str_eqb enc enc_lz4 then Some (Some Lz4)
  else if str_eqb enc enc_identity || str_eqb enc [] then Some None
  else None.

Definition st_accepted : Z := 202.
Definition st_bad_request : Z := 400.
Definition st_internal : Z := 500.

Section Transport.
  (* library behaviour (DESIGN 3.3): compress with a level, decompress (None = error) *)
  Variable compress : codec -> Z -> str -> str.
  Variable decompress : codec -> str -> option str.
  (* proto.Marshal / proto.Unmarshal for the two message types (None = error) *)
  Variable ser : pbmsg -> option str.
  Variable deser : str -> option pbmsg.
  Variable ser_e : pb_event -> option str.
  Variable deser_e : str -> option pb_event.

  (* constructPost: (Content-Encoding, body); compression into a bytes.Buffer cannot fail *)
  Definition construct_post (c : fwd_cfg) (raw : str) : str * str :=
    match sender_codec c with
    | Some k => (sender_header c, compress k (f_level c) raw)
    | None => (sender_header c, raw)
    end.

  (* postMetrics / dispatchEvent up to the request; None = counted as http.forwarder.invalid,
     nothing is sent *)
  Definition post_metrics (c : fwd_cfg) (m : mmap) : option (str * str) :=
    match ser (to_pb m) with Some raw => Some (construct_post c raw) | None => None end.
  Definition post_event (c : fwd_cfg) (e : event) : option (str * str) :=
    match ser_e (event_to_pb e) with Some raw => Some (construct_post c raw) | None => None end.

  (* readBody: body = None models a failing read of the request body *)
  Definition read_body (enc : str) (body : option str) : str + Z :=
    match body with
    | None => inr st_internal
    | Some b =>
        match receiver_codec enc with
        | Some (Some k) => match decompress k b with Some raw => inl raw | None => inr st_bad_request end
        | Some None => inl b
        | None => inr st_bad_request
        end
    end.

  (* MetricHandler / EventHandler: status written and what is dispatched to the pipeline *)
  Definition metric_handler (now : Z) (enc : str) (body : option str) : Z * option mmap :=
    match read_body enc body with
    | inr st => (st, None)
    | inl raw => match deser raw with
                 | None => (st_bad_request, None)
                 | Some p => (st_accepted, Some (from_pb now p))
                 end
    end.
  Definition event_handler (enc : str) (body : option str) : Z * option event :=
    match read_body enc body with
    | inr st => (st, None)
    | inl raw => match deser_e raw with
                 | None => (st_bad_request, None)
                 | Some p => (st_accepted, Some (event_from_pb p))
                 end
    end.
End Transport.
