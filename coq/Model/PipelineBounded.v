(* The pipeline of Model/Pipeline.v with its configuration made explicit (C01 growth): P parser
   goroutines, per-shard queue capacity q, the flusher handing the process command to the workers
   one after the other, workers that are busy while they execute a command.

   pkg/statsd/parser.go Run: a parser takes ONE batch, builds the map, calls DispatchMetricMap
       and only then loops.  So a parser holds at most one batch.
   pkg/statsd/handler_backend.go DispatchMetricMap: `for aggrIdx, mmSplit := range maps` in
       worker-index order, every non-empty split is sent with a blocking `w.metricMapQueue <-
       mmSplit` (channel of capacity perWorkerBufferSize = q).  The parser's remaining splits are
       an ordered list; only its head can be sent, and only when that queue has room.  With
       q = 0 the channel is unbuffered: the send completes exactly when the worker receives, and
       the worker then calls ReceiveMap: one step (BRdv).
   pkg/statsd/handler_backend.go Process: `for _, worker := range bh.workers { worker.processChan
       <- cmd }`, processChan unbuffered: the command is handed to worker 0, then 1, ... each
       hand-over waits until that worker is in its select and takes it (BCmd i); the flusher does
       NOT wait for the execution before it goes on: execution is fan-out, `wg.Wait` afterwards
       (flusher.go flushData: processWait()).  A worker that took the command runs Flush;
       Process; Reset (BExec i) and touches nothing else meanwhile (busy).
   pkg/statsd/worker.go work(): select between the queue (BMerge i / BRdv) and the command
       (BCmd i); both need the worker not to be busy.

   Labels map to those of Model/Pipeline.v: BParse -> Parse, BEnq -> Enq, BRdv -> Enq; Merge,
   BMerge -> Merge, BTick -> Tick, BCmd -> (nothing), BExec -> FlushShard.
   Proofs/PipelineBounded.v shows that every run here is a run there (refinement), so every
   theorem of Props/C01.v holds for every configuration, and that the blocking sends and the
   command hand-over cannot wedge each other. *)
From stdpp Require Import gmap.
From GS Require Import Base.Bytes Base.LTS Model.Lexer Model.Series Model.MetricMap Model.Content Model.Pipeline.

Record bconfig := MkBCfg {
  bc_cfg : config;        (* shards, expiry intervals *)
  bc_parsers : nat;       (* number of DatagramParser goroutines *)
  bc_qcap : nat           (* capacity of every worker's map channel *)
}.

Record bstate := MkB {
  bs_input : list datapoint;
  bs_pending : list (list (nat * mmap));   (* per parser: splits still to be sent, head first *)
  bs_queue : list (list mmap);
  bs_aggr : list mmap;
  bs_busy : list bool;                     (* per worker: executing a process command *)
  bs_nflush : nat;
  bs_flush : option (nat * nat);           (* flush id, next worker to hand the command to *)
  bs_out : list (nat * nat * mmap)
}.

Inductive blabel :=
| BParse (p : nat) (ds : list datapoint)
| BEnq (p : nat)
| BRdv (p : nat)
| BMerge (i : nat)
| BTick (f : nat)
| BCmd (i : nat)
| BExec (i : nat) (now : Z).

Definition binit (bc : bconfig) : bstate :=
  let n := cfg_shards (bc_cfg bc) in
  MkB [] (replicate (bc_parsers bc) []) (replicate n []) (replicate n empty_map) (replicate n false) 0 None [].

(* processWait() has returned: every worker was handed the command and has executed it *)
Definition bflush_idle (n : nat) (busy : list bool) (fl : option (nat * nat)) : bool :=
  match fl with
  | None => true
  | Some (_, nx) => (n <=? nx) && forallb negb busy
  end.

Definition bstep (bc : bconfig) (b : bstate) (l : blabel) : option bstate :=
  let c := bc_cfg bc in
  match l with
  | BParse p ds =>
      match bs_pending b !! p with
      | Some [] =>
          Some (MkB (bs_input b ++ ds)
                    (<[p := nonempty_splits (cfg_shards c) (receive_all empty_map ds)]> (bs_pending b))
                    (bs_queue b) (bs_aggr b) (bs_busy b) (bs_nflush b) (bs_flush b) (bs_out b))
      | _ => None
      end
  | BEnq p =>
      match bs_pending b !! p with
      | Some ((i, m) :: rest) =>
          match bs_queue b !! i with
          | Some q =>
              if (length q <? bc_qcap bc)
              then Some (MkB (bs_input b) (<[p := rest]> (bs_pending b)) (<[i := q ++ [m]]> (bs_queue b))
                             (bs_aggr b) (bs_busy b) (bs_nflush b) (bs_flush b) (bs_out b))
              else None
          | None => None
          end
      | _ => None
      end
  | BRdv p =>
      match bc_qcap bc, bs_pending b !! p with
      | O, Some ((i, m) :: rest) =>
          match bs_queue b !! i, bs_busy b !! i, bs_aggr b !! i with
          | Some [], Some false, Some a =>
              Some (MkB (bs_input b) (<[p := rest]> (bs_pending b)) (bs_queue b)
                        (<[i := merge a m]> (bs_aggr b)) (bs_busy b) (bs_nflush b) (bs_flush b) (bs_out b))
          | _, _, _ => None
          end
      | _, _ => None
      end
  | BMerge i =>
      match bs_queue b !! i, bs_busy b !! i, bs_aggr b !! i with
      | Some (m :: q), Some false, Some a =>
          Some (MkB (bs_input b) (bs_pending b) (<[i := q]> (bs_queue b)) (<[i := merge a m]> (bs_aggr b))
                    (bs_busy b) (bs_nflush b) (bs_flush b) (bs_out b))
      | _, _, _ => None
      end
  | BTick f =>
      if bool_decide (f = bs_nflush b) && bflush_idle (cfg_shards c) (bs_busy b) (bs_flush b)
      then Some (MkB (bs_input b) (bs_pending b) (bs_queue b) (bs_aggr b) (bs_busy b) (S f) (Some (f, 0)) (bs_out b))
      else None
  | BCmd i =>
      match bs_flush b, bs_busy b !! i with
      | Some (f, nx), Some false =>
          if bool_decide (nx = i)
          then Some (MkB (bs_input b) (bs_pending b) (bs_queue b) (bs_aggr b) (<[i := true]> (bs_busy b))
                         (bs_nflush b) (Some (f, S i)) (bs_out b))
          else None
      | _, _ => None
      end
  | BExec i now =>
      match bs_flush b, bs_busy b !! i, bs_aggr b !! i with
      | Some (f, nx), Some true, Some a =>
          let r := agg_flush a in
          Some (MkB (bs_input b) (bs_pending b) (bs_queue b) (<[i := agg_reset c now r]> (bs_aggr b))
                    (<[i := false]> (bs_busy b)) (bs_nflush b) (Some (f, nx)) (bs_out b ++ [(f, i, r)]))
      | _, _, _ => None
      end
  end.

(* ---- the map into Model/Pipeline.v ---- *)

(* shards whose command has not run to completion: not yet handed over, or still executing *)
Definition still_pending (nx : nat) (busy : list bool) (i : nat) : bool :=
  (nx <=? i) || default false (busy !! i).

Definition abs_flush (n : nat) (busy : list bool) (fl : option (nat * nat)) : option (nat * list nat) :=
  (λ '(f, nx), (f, base.filter (λ i, still_pending nx busy i = true) (seq 0 n))) <$> fl.

(* the unbounded state a bounded state stands for; the splits held by the parsers are listed
   parser by parser (the unbounded model keeps them in arrival order: equal up to permutation) *)
Definition abs_state (bc : bconfig) (b : bstate) : state :=
  MkState (bs_input b) (concat (bs_pending b)) (bs_queue b) (bs_aggr b) (bs_nflush b)
          (abs_flush (cfg_shards (bc_cfg bc)) (bs_busy b) (bs_flush b)) (bs_out b).

Definition related (bc : bconfig) (b : bstate) (s : state) : Prop :=
  st_input s = bs_input b ∧ st_inflight s ≡ₚ concat (bs_pending b) ∧ st_queue s = bs_queue b
  ∧ st_aggr s = bs_aggr b ∧ st_nflush s = bs_nflush b
  ∧ st_flushing s = abs_flush (cfg_shards (bc_cfg bc)) (bs_busy b) (bs_flush b) ∧ st_out s = bs_out b.

(* which unbounded labels a bounded label stands for *)
Definition label_image (l : blabel) (ls : list label) : Prop :=
  match l with
  | BParse _ ds => ls = [Parse ds]
  | BEnq _ => ∃ j, ls = [Enq j]
  | BRdv _ => ∃ j i, ls = [Enq j; Merge i]
  | BMerge i => ls = [Merge i]
  | BTick f => ls = [Tick f]
  | BCmd _ => ls = []
  | BExec i now => ls = [FlushShard i now]
  end.

(* ---- vocabulary of the bounded theorems ---- *)

Definition bquiescent (bc : bconfig) (b : bstate) : Prop :=
  (∀ l, l ∈ bs_pending b → l = []) ∧ (∀ q, q ∈ bs_queue b → q = []).

(* nothing at all is going on *)
Definition bidle (bc : bconfig) (b : bstate) : Prop :=
  bquiescent bc b ∧ (∀ x, x ∈ bs_busy b → x = false)
  ∧ bflush_idle (cfg_shards (bc_cfg bc)) (bs_busy b) (bs_flush b) = true.

(* steps the pipeline takes by itself (not the arrival of a batch, not a flush tick) *)
Definition is_internal (l : blabel) : Prop :=
  match l with BParse _ _ | BTick _ => False | _ => True end.
Definition is_bflush_label (l : blabel) : Prop :=
  match l with BTick _ | BCmd _ | BExec _ _ => True | _ => False end.
Definition is_bshard_label (l : blabel) : Prop :=
  match l with BCmd _ | BExec _ _ => True | _ => False end.
Definition bflush_complete (bc : bconfig) (f : nat) (b : bstate) : Prop :=
  ∃ nx, bs_flush b = Some (f, nx) ∧ cfg_shards (bc_cfg bc) ≤ nx ∧ ∀ x, x ∈ bs_busy b → x = false.
