(* Model of pkg/statsd/latency_histogram.go (properties C08 and C04).

   A timer whose tags contain one that starts with "gsd_histogram:" is aggregated into buckets.
   The text after the prefix is split on '_'; every item strconv.ParseFloat accepts becomes a
   bound (items it rejects are skipped - ParseFloat is an oracle [pf], DESIGN 3.3; it ACCEPTS
   "nan", "inf", "-inf"); the list is truncated to the configured limit (a uint32); the result
   is a Go [map[float64]int], modelled as an association list under Go's float [==]: NaN keys
   never coincide (every NaN item makes a new entry), +0 and -0 do.

   Parametric in the carrier [V] of timer values and the comparison [value <= bound], so that
   the no-panic theorems of C04 hold for every carrier (in particular for non-finite floats). *)
From Coq Require Import String.
From Coq Require Import List ZArith.
From GS Require Import Base.Bytes Model.GoPartial.
Import ListNotations.
Local Open Scope Z_scope.

(* a parsed bucket bound; [BFin] carries the IEEE-754 bit pattern of a finite double *)
Inductive bound := BNaN | BPInf | BNInf | BFin (bits : Z).

Definition f64_is_zero (b : Z) : bool := (b =? 0) || (b =? 2^63).

(* Go's == on float64 map keys *)
Definition bound_eqb (a b : bound) : bool :=
  match a, b with
  | BPInf, BPInf | BNInf, BNInf => true
  | BFin x, BFin y => (x =? y) || (f64_is_zero x && f64_is_zero y)
  | _, _ => false
  end.

(* Timer.Histogram: a nil map, or a map (possibly empty) *)
Inductive hist := HNil | HMap (h : list (bound * Z)).

(* m[k] = v *)
Fixpoint hset (k : bound) (v : Z) (h : list (bound * Z)) : list (bound * Z) :=
  match h with
  | [] => [(k, v)]
  | (k', v') :: r => if bound_eqb k' k then (k, v) :: r else (k', v') :: hset k v r
  end.

(* v, ok := m[k] *)
Fixpoint hget (k : bound) (h : list (bound * Z)) : option Z :=
  match h with
  | [] => None
  | (k', v') :: r => if bound_eqb k' k then Some v' else hget k r
  end.

Definition hist_prefix : str := bs "gsd_histogram:".

(* findTag *)
Fixpoint find_tag (tags : list str) : option str :=
  match tags with
  | [] => None
  | t :: r => if has_prefix hist_prefix t then Some t else find_tag r
  end.

Definition has_histogram_tag (tags : list str) : bool :=
  match find_tag tags with Some _ => true | None => false end.

Section Histogram.
  Variable pf : str -> option bound.          (* strconv.ParseFloat: None = error *)

  (* mapToThresholds *)
  Fixpoint map_to_thresholds (items : list str) : list bound :=
    match items with
    | [] => []
    | s :: r => match pf s with
                | Some b => b :: map_to_thresholds r
                | None => map_to_thresholds r
                end
    end.

  (* the bounds a tag list asks for, before truncation *)
  Definition tag_items (tag : str) : outcome (list str) :=
    let! v := slice_from tag (len hist_prefix) in Ok (split_on c_us v).

  (* retrieveThresholds: None = nil slice (no histogram tag) *)
  Definition retrieve_thresholds (tags : list str) (limit : Z) : outcome (option (list bound)) :=
    match find_tag tags with
    | None => Ok None
    | Some tag =>
        let! items := tag_items tag in
        let fl := map_to_thresholds items in
        let! tr := slice_to fl (Z.min (len fl mod 2^32) limit) in
        Ok (Some tr)
    end.

  (* emptyHistogram *)
  Definition empty_histogram (tags : list str) (limit : Z) : outcome hist :=
    if limit =? 0 then Ok (HMap [])
    else
      let! th := retrieve_thresholds tags limit in
      match th with
      | None => Ok HNil
      | Some tr => Ok (HMap (hset BPInf 0 (fold_left (fun h b => hset b 0 h) tr [])))
      end.

  Context {V : Type}.
  Variable le_bound : V -> bound -> bool.     (* value <= float64(bucket) *)

  Definition bump (v : V) (e : bound * Z) : bound * Z :=
    if le_bound v (fst e) then (fst e, snd e + 1) else e.

  (* latencyHistogram *)
  Definition latency_histogram (tags : list str) (limit : Z) (values : list V) : outcome hist :=
    let! e := empty_histogram tags limit in
    match e with
    | HNil => Ok HNil
    | HMap [] => Ok (HMap [])
    | HMap h =>
        let h' := fold_left (fun h v => map (bump v) h) values h in
        Ok (HMap (hset BPInf (len values) h'))
    end.

  (* ---- specification: per bound the number of values not greater than it *)

  Definition count_le (b : bound) (xs : list V) : Z :=
    len (filter (fun v => le_bound v b) xs).

  Definition spec_bounds (tags : list str) (limit : Z) : list bound :=
    match find_tag tags with
    | None => []
    | Some tag =>
        firstn (Z.to_nat limit)
          (map_to_thresholds (split_on c_us (skipn (length hist_prefix) tag)))
    end.

  Definition hist_spec (tags : list str) (limit : Z) (xs : list V) : hist :=
    if limit =? 0 then HMap []
    else if has_histogram_tag tags then
      HMap (hset BPInf (len xs)
              (fold_left (fun h b => hset b (count_le b xs) h) (spec_bounds tags limit) []))
    else HNil.
End Histogram.
