(* The k8s provider at the granularity of its critical sections (property C13, boundary).

   Model/K8s.v treats one informer delivery (store change + handler call) and one lookup as
   atomic: C13 quantifies over histories.  The real code is finer (pkg/cachedinstances/k8s/k8s.go
   and client-go's sharedIndexInformer):
   - the informer changes its indexer under the indexer's own lock and only *queues* a
     notification for the listener; cacheInvalidationHandler.OnAdd/OnUpdate/OnDelete runs later,
     on the listener's goroutine, in FIFO order, and takes Provider.rw (write) just around the
     `delete(p.cache, ip)`;
   - instanceFromCache has three critical sections and holds no lock between them:
       rw.RLock   { instance := p.cache[ip] }                (a non-nil hit returns at once)
       indexer lock { ByIndex(PodByIP, ip) }  + derive        (instanceFromInformer, Provider.rw NOT held)
       rw.Lock    { p.cache[ip] = instance }                 (then return instance)
   - Peek can be called by several goroutines, Provider.Run by one more: lookups overlap.
   The labels below are exactly these sections; every interleaving of the Go code is a label
   sequence.  Definitions only; proofs in Proofs/K8sAsync.v. *)
From stdpp Require Import gmap.
From GS Require Import Base.Bytes Model.K8s.

(* what the informer delivers *)
Inductive delivery := DAdd (p : pod) | DUpdate (old new : pod) | DDelete (p : pod).

Definition label_of (d : delivery) : label :=
  match d with DAdd p => Add p | DUpdate o n => Update o n | DDelete p => Delete p end.

(* the store half and the handler half of a delivery (together: K8s.step on [label_of d]) *)
Definition apply_store (d : delivery) (st : gmap str pod) : gmap str pod :=
  match d with
  | DAdd p => <[pod_key p := p]> st
  | DUpdate _ new => <[pod_key new := new]> st
  | DDelete p => delete (pod_key p) st
  end.
Definition apply_handler (d : delivery) (m : gmap str (option instance)) : gmap str (option instance) :=
  match d with
  | DAdd _ => m
  | DUpdate old _ => invalidate old m
  | DDelete p => invalidate p m
  end.

(* the handler call for [d] drops the memo entry of [ip] *)
Definition invalidates (d : delivery) (ip : str) : Prop :=
  match d with
  | DAdd _ => False
  | DUpdate old _ => indexable old = true /\ p_ip old = ip
  | DDelete p => indexable p = true /\ p_ip p = ip
  end.

(* a lookup in flight (identified by a caller-chosen id), after its ... *)
Inductive pend :=
| PHit (ip : str) (i : instance)               (* ... memo read hit: will return i *)
| PMiss (ip : str)                             (* ... memo read missed: index not read yet *)
| PComputed (ip : str) (r : option instance).  (* ... index read: r not yet written to the memo *)

Record astate := MkA {
  a_store : gmap str pod;                      (* the informer's indexer *)
  a_memo : gmap str (option instance);         (* Provider.cache *)
  a_queue : list delivery;                     (* notifications not yet handled, oldest first *)
  a_pending : gmap N pend;                     (* lookups in flight *)
  a_out : list (N * str * option instance)     (* answers returned so far: (lookup id, ip, answer) *)
}.

Definition ainit : astate := MkA ∅ ∅ [] ∅ [].

(* instanceFromInformer: objs[0] of ByIndex, derived *)
Definition index_read (cfg : config) (st : gmap str pod) (ip : str) : option instance :=
  match candidates st ip with [] => None | p :: _ => Some (derive cfg p) end.

Inductive alabel :=
| IndexUpdate (d : delivery)          (* informer: indexer.Add/Update/Delete, notification queued *)
| HandlerCall                         (* listener: oldest queued notification -> OnAdd/OnUpdate/OnDelete *)
| LookupReadMemo (t : N) (ip : str)   (* lookup t starts: p.cache[ip] under RLock *)
| LookupReturnHit (t : N)             (* ... it was a non-nil hit: return it *)
| LookupReadIndex (t : N)             (* ... it was a miss: instanceFromInformer *)
| LookupWriteMemo (t : N).            (* ... p.cache[ip] = instance under Lock; return instance *)

(* None = the label is not enabled in this state *)
Definition astep (cfg : config) (s : astate) (l : alabel) : option astate :=
  match l with
  | IndexUpdate d =>
      Some (MkA (apply_store d (a_store s)) (a_memo s) (a_queue s ++ [d]) (a_pending s) (a_out s))
  | HandlerCall =>
      match a_queue s with
      | [] => None
      | d :: q => Some (MkA (a_store s) (apply_handler d (a_memo s)) q (a_pending s) (a_out s))
      end
  | LookupReadMemo t ip =>
      match a_pending s !! t with
      | Some _ => None
      | None =>
          let st := match a_memo s !! ip with Some (Some i) => PHit ip i | _ => PMiss ip end in
          Some (MkA (a_store s) (a_memo s) (a_queue s) (<[t := st]> (a_pending s)) (a_out s))
      end
  | LookupReturnHit t =>
      match a_pending s !! t with
      | Some (PHit ip i) =>
          Some (MkA (a_store s) (a_memo s) (a_queue s) (delete t (a_pending s)) (a_out s ++ [(t, ip, Some i)]))
      | _ => None
      end
  | LookupReadIndex t =>
      match a_pending s !! t with
      | Some (PMiss ip) =>
          Some (MkA (a_store s) (a_memo s) (a_queue s)
                    (<[t := PComputed ip (index_read cfg (a_store s) ip)]> (a_pending s)) (a_out s))
      | _ => None
      end
  | LookupWriteMemo t =>
      match a_pending s !! t with
      | Some (PComputed ip r) =>
          Some (MkA (a_store s) (<[ip := r]> (a_memo s)) (a_queue s) (delete t (a_pending s))
                    (a_out s ++ [(t, ip, r)]))
      | _ => None
      end
  end.

Fixpoint arun (cfg : config) (s : astate) (ls : list alabel) : option astate :=
  match ls with
  | [] => Some s
  | l :: r => match astep cfg s l with Some s' => arun cfg s' r | None => None end
  end.

(* ---------------------------------------------------------------- specification vocabulary *)

(* the label sequences of the synchronous model, seen at this granularity: every HandlerCall
   immediately follows its IndexUpdate and the sections of every lookup are adjacent *)
Inductive serial : list alabel -> list label -> Prop :=
| serial_nil : serial [] []
| serial_delivery d r ls :
    serial r ls -> serial (IndexUpdate d :: HandlerCall :: r) (label_of d :: ls)
| serial_hit t ip r ls :
    serial r ls -> serial (LookupReadMemo t ip :: LookupReturnHit t :: r) (Lookup ip :: ls)
| serial_miss t ip r ls :
    serial r ls ->
    serial (LookupReadMemo t ip :: LookupReadIndex t :: LookupWriteMemo t :: r) (Lookup ip :: ls).

(* the answers of the synchronous model along a history *)
Fixpoint sync_answers (cfg : config) (s : state) (ls : list label) : list (str * option instance) :=
  match ls with
  | [] => []
  | Lookup ip :: r => (ip, fst (lookup cfg s ip)) :: sync_answers cfg (step cfg s (Lookup ip)) r
  | l :: r => sync_answers cfg (step cfg s l) r
  end.

(* deliveries are informer deliveries w.r.t. the store at the moment of the IndexUpdate *)
Fixpoint ahistory_ok (cfg : config) (s : astate) (ls : list alabel) : Prop :=
  match ls with
  | [] => True
  | l :: r =>
      match l with IndexUpdate d => informer_ok (a_store s) (label_of d) | _ => True end /\
      match astep cfg s l with Some s' => ahistory_ok cfg s' r | None => True end
  end.

(* instance [i] for [ip] is current (derived from a pod that holds ip now) or doomed (a queued
   notification will drop ip's memo entry) *)
Definition justified (cfg : config) (st : gmap str pod) (q : list delivery) (ip : str) (i : instance) : Prop :=
  (exists p, holds st ip p /\ i = derive cfg p) \/ (exists d, In d q /\ invalidates d ip).

(* the invariant that replaces memo coherence: every memoised instance, and every instance a
   lookup has computed and is about to memoise, is justified *)
Definition ainv (cfg : config) (s : astate) : Prop :=
  (forall ip i, a_memo s !! ip = Some (Some i) -> justified cfg (a_store s) (a_queue s) ip i) /\
  (forall t ip i, a_pending s !! t = Some (PComputed ip (Some i)) ->
                  justified cfg (a_store s) (a_queue s) ip i).

(* memo coherence as in Model/K8s.v *)
Definition acoherent (cfg : config) (s : astate) : Prop :=
  forall ip i, a_memo s !! ip = Some (Some i) -> exists p, holds (a_store s) ip p /\ i = derive cfg p.

(* handling the oldest notification now is harmless: whatever a lookup in flight has computed
   stays justified without that notification *)
Definition handler_safe (cfg : config) (s : astate) : Prop :=
  forall d q t ip i, a_queue s = d :: q -> a_pending s !! t = Some (PComputed ip (Some i)) ->
                     justified cfg (a_store s) q ip i.

(* in particular when no lookup is between its index read and its memo write *)
Definition no_computed_pending (s : astate) : Prop :=
  forall t ip r, a_pending s !! t <> Some (PComputed ip r).

(* a schedule all of whose handler calls are harmless / happen with no lookup past its index read *)
Fixpoint handlers_safe (cfg : config) (s : astate) (ls : list alabel) : Prop :=
  match ls with
  | [] => True
  | l :: r =>
      match l with HandlerCall => handler_safe cfg s | _ => True end /\
      match astep cfg s l with Some s' => handlers_safe cfg s' r | None => True end
  end.
Fixpoint handlers_calm (cfg : config) (s : astate) (ls : list alabel) : Prop :=
  match ls with
  | [] => True
  | l :: r =>
      match l with HandlerCall => no_computed_pending s | _ => True end /\
      match astep cfg s l with Some s' => handlers_calm cfg s' r | None => True end
  end.

(* label sequences without informer activity *)
Definition no_index_update (ls : list alabel) : Prop :=
  Forall (fun l => match l with IndexUpdate _ => False | _ => True end) ls.
