(* The standalone server end to end, as the composition of the component models:

     Model/Receiver.v          DatagramReceiver.Receive: ReadBatch results -> batches of datagrams
                               handed to the parsers' channel (b-c03)
     Model/Datagram.v          DatagramParser.Run on one batch: bytes -> lines -> lexer -> metrics with
                               source and receive time, events, bad-line count (b-c05)
     Model/PipelineBounded.v   parsers holding one batch, blocking sends in worker order, queues of
                               capacity q, the flusher's command hand-over, busy workers (C01)
     Model/Aggregator.v        the whole MetricAggregator: ReceiveMap, Flush with every timer
                               statistic, Reset (b-c08)

   State = the receiver's state, how many of the batches it handed over have been taken by a parser
   (the channel between them is FIFO), the parser counters, and the bounded pipeline whose
   aggregators are Aggregator.v states; each aggregator carries the history of operations applied
   to it (ghost), and every map handed to the backends is logged together with the history and
   the flush interval it was computed from (ghost).
   Labels: SRead / SDone are the receiver's; SParse p = parser p takes the next batch from the
   channel, parses it and becomes the holder of its splits; the others are PipelineBounded's.
   Go panics of any component (receiver slot / slice, nil datagram, lexer, Flush / Reset indexing)
   are the explicit outcome [SCrash].
   The glue between the builders' models is here: [to_dg] (Receiver.datagram -> Datagram.datagram:
   same three fields, the receive buffer identity dropped), [sy_pipe] (the expiry intervals of
   the aggregator configuration as the pipeline's), FIFO order of the channel. *)
From stdpp Require Import gmap.
From Coq Require Import QArith Qcanon.
From GS Require Import Base.Bytes Base.LTS Model.Lexer Model.Series Model.MetricMap Model.Content.
From GS Require Import Model.GoPartial Model.Histogram Model.Stats Model.Aggregator.
From GS Require Import Model.Pipeline Model.PipelineBounded.
From GS Require Model.Receiver Model.Datagram.

Record sysconfig := MkSys {
  sy_parsers : nat;            (* max-parsers *)
  sy_shards : nat;             (* max-workers *)
  sy_qcap : nat;               (* per-worker queue size *)
  sy_acfg : aconfig;           (* percentile thresholds, disabled subtypes, histogram limit, expiry *)
  sy_ns : str;                 (* namespace *)
  sy_ignore_host : bool;
  sy_unix : bool;              (* the socket is a unix socket: no sender address *)
  sy_batch : nat               (* receive-batch-size *)
}.

Definition sy_pipe (sc : sysconfig) : config :=
  MkCfg (sy_shards sc) (ak_exp_counter (sy_acfg sc)) (ak_exp_timer (sy_acfg sc))
        (ak_exp_gauge (sy_acfg sc)) (ak_exp_set (sy_acfg sc)).
Definition sy_bc (sc : sysconfig) : bconfig := MkBCfg (sy_pipe sc) (sy_parsers sc) (sy_qcap sc).
Definition sy_dcfg (sc : sysconfig) : Datagram.config := Datagram.Cfg (sy_ns sc) (sy_ignore_host sc).
Definition sy_rcfg (sc : sysconfig) : Receiver.config := Receiver.current (sy_unix sc).

Definition to_dg (d : Receiver.datagram) : Datagram.datagram :=
  Datagram.Dg (Receiver.d_ip d) (Receiver.d_ts d) (Receiver.d_msg d).

(* one entry of the out log: flush id, worker, the aggregate after Flush (what Process hands to
   the backends), and (ghost) the history and interval it was flushed from *)
Record flushed := MkFl { fl_id : nat; fl_worker : nat; fl_agg : agg; fl_ops : list aop; fl_dt : Z }.

Record sstate := MkSS {
  ss_recv : Receiver.rstate;
  ss_taken : nat;                          (* batches of r_handed already taken by parsers *)
  ss_bad : N;                              (* parser.bad_lines_seen *)
  ss_events : list event;                  (* events dispatched *)
  ss_input : list datapoint;               (* ghost: every metric parsed so far *)
  ss_pending : list (list (nat * mmap));
  ss_queue : list (list mmap);
  ss_aggr : list agg;
  ss_hist : list (list aop);               (* ghost: per aggregator, the operations applied to it *)
  ss_busy : list bool;
  ss_nflush : nat;
  ss_flush : option (nat * nat);
  ss_out : list flushed
}.

Inductive sstatus := SRun (s : sstate) | SCrash.

Inductive slabel :=
| SRead (r : Receiver.read_result)     (* ReadBatch returned *)
| SDone (b : N)                        (* a DoneFunc: receive buffer b goes back to the pool *)
| SParse (p : nat)
| SEnq (p : nat) | SRdv (p : nat) | SMerge (i : nat)
| STick (f : nat) | SCmd (i : nat)
| SExec (i : nat) (dt now : Z).        (* Flush(dt); Process; Reset at clock now *)

Definition sinit (sc : sysconfig) : sstate :=
  let n := sy_shards sc in
  MkSS (Receiver.init (sy_batch sc)) 0%nat 0%N [] [] (replicate (sy_parsers sc) []) (replicate n [])
       (replicate n agg_empty) (replicate n []) (replicate n false) 0%nat None [].

Section System.
  Variable pf : str → pfres.            (* strconv.ParseFloat as the lexer uses it *)
  Variable hpf : str → option bound.    (* strconv.ParseFloat on a histogram bucket item *)
  Variable rank : Z → Z → Z.            (* int(round(|p| / 100 * n)) *)
  Variable sc : sysconfig.

  Definition set_recv (s : sstate) (r : Receiver.rstate) : sstate :=
    MkSS r (ss_taken s) (ss_bad s) (ss_events s) (ss_input s) (ss_pending s) (ss_queue s) (ss_aggr s)
         (ss_hist s) (ss_busy s) (ss_nflush s) (ss_flush s) (ss_out s).

  Definition recv_step (s : sstate) (l : Receiver.label) : option sstatus :=
    match Receiver.step (sy_rcfg sc) (Receiver.Running (ss_recv s)) l with
    | Some (Receiver.Running r) => Some (SRun (set_recv s r))
    | Some Receiver.Crashed => Some SCrash
    | None => None
    end.

  (* what a parser makes of one batch: None = it dereferences a nil slot or the lexer panics *)
  Definition parse_batch (bt : Receiver.batch) : option Datagram.dg_result :=
    match Receiver.deref bt with
    | Some ds => match Datagram.parse_all pf (sy_dcfg sc) (to_dg <$> ds) with
                 | Datagram.DgOk r => Some r
                 | _ => None
                 end
    | None => None
    end.

  Definition sstep_run (s : sstate) (l : slabel) : option sstatus :=
    let n := sy_shards sc in
    match l with
    | SRead r => recv_step s (Receiver.LRead r)
    | SDone b => recv_step s (Receiver.LDone b)
    | SParse p =>
        match Receiver.r_handed (ss_recv s) !! ss_taken s, ss_pending s !! p with
        | Some bt, Some [] =>
            match parse_batch bt with
            | Some r =>
                let ds := Datagram.dg_metrics r in
                Some (SRun (MkSS (ss_recv s) (S (ss_taken s)) (ss_bad s + Datagram.dg_bad r)%N
                                 (ss_events s ++ Datagram.dg_events r) (ss_input s ++ ds)
                                 (<[p := nonempty_splits n (MetricMap.receive_all empty_map ds)]> (ss_pending s))
                                 (ss_queue s) (ss_aggr s) (ss_hist s) (ss_busy s) (ss_nflush s) (ss_flush s) (ss_out s)))
            | None => Some SCrash
            end
        | _, _ => None
        end
    | SEnq p =>
        match ss_pending s !! p with
        | Some ((i, m) :: rest) =>
            match ss_queue s !! i with
            | Some q =>
                if (length q <? sy_qcap sc)
                then Some (SRun (MkSS (ss_recv s) (ss_taken s) (ss_bad s) (ss_events s) (ss_input s)
                                      (<[p := rest]> (ss_pending s)) (<[i := q ++ [m]]> (ss_queue s))
                                      (ss_aggr s) (ss_hist s) (ss_busy s) (ss_nflush s) (ss_flush s) (ss_out s)))
                else None
            | None => None
            end
        | _ => None
        end
    | SRdv p =>
        match sy_qcap sc, ss_pending s !! p with
        | O, Some ((i, m) :: rest) =>
            match ss_queue s !! i, ss_busy s !! i, ss_aggr s !! i, ss_hist s !! i with
            | Some [], Some false, Some a, Some h =>
                Some (SRun (MkSS (ss_recv s) (ss_taken s) (ss_bad s) (ss_events s) (ss_input s)
                                 (<[p := rest]> (ss_pending s)) (ss_queue s)
                                 (<[i := receive_map a m]> (ss_aggr s)) (<[i := h ++ [ARecv m]]> (ss_hist s))
                                 (ss_busy s) (ss_nflush s) (ss_flush s) (ss_out s)))
            | _, _, _, _ => None
            end
        | _, _ => None
        end
    | SMerge i =>
        match ss_queue s !! i, ss_busy s !! i, ss_aggr s !! i, ss_hist s !! i with
        | Some (m :: q), Some false, Some a, Some h =>
            Some (SRun (MkSS (ss_recv s) (ss_taken s) (ss_bad s) (ss_events s) (ss_input s) (ss_pending s)
                             (<[i := q]> (ss_queue s)) (<[i := receive_map a m]> (ss_aggr s))
                             (<[i := h ++ [ARecv m]]> (ss_hist s)) (ss_busy s) (ss_nflush s) (ss_flush s) (ss_out s)))
        | _, _, _, _ => None
        end
    | STick f =>
        if bool_decide (f = ss_nflush s) && bflush_idle n (ss_busy s) (ss_flush s)
        then Some (SRun (MkSS (ss_recv s) (ss_taken s) (ss_bad s) (ss_events s) (ss_input s) (ss_pending s)
                              (ss_queue s) (ss_aggr s) (ss_hist s) (ss_busy s) (S f) (Some (f, 0%nat)) (ss_out s)))
        else None
    | SCmd i =>
        match ss_flush s, ss_busy s !! i with
        | Some (f, nx), Some false =>
            if bool_decide (nx = i)
            then Some (SRun (MkSS (ss_recv s) (ss_taken s) (ss_bad s) (ss_events s) (ss_input s) (ss_pending s)
                                  (ss_queue s) (ss_aggr s) (ss_hist s) (<[i := true]> (ss_busy s)) (ss_nflush s)
                                  (Some (f, S i)) (ss_out s)))
            else None
        | _, _ => None
        end
    | SExec i dt now =>
        match ss_flush s, ss_busy s !! i, ss_aggr s !! i, ss_hist s !! i with
        | Some (f, nx), Some true, Some a, Some h =>
            match flush hpf rank (sy_acfg sc) dt a with
            | GoPartial.Ok a1 =>
                match reset hpf (sy_acfg sc) now a1 with
                | GoPartial.Ok a2 =>
                    Some (SRun (MkSS (ss_recv s) (ss_taken s) (ss_bad s) (ss_events s) (ss_input s) (ss_pending s)
                                     (ss_queue s) (<[i := a2]> (ss_aggr s))
                                     (<[i := h ++ [AFlush dt; AReset now]]> (ss_hist s))
                                     (<[i := false]> (ss_busy s)) (ss_nflush s) (Some (f, nx))
                                     (ss_out s ++ [MkFl f i a1 h dt])))
                | GoPartial.Panic => Some SCrash
                end
            | GoPartial.Panic => Some SCrash
            end
        | _, _, _, _ => None
        end
    end.

  Definition sstep (st : sstatus) (l : slabel) : option sstatus :=
    match st with SCrash => Some SCrash | SRun s => sstep_run s l end.
End System.

(* ---- the bounded pipeline inside the system ---- *)
Definition sproj (s : sstate) : bstate :=
  MkB (ss_input s) (ss_pending s) (ss_queue s) (to_mmap <$> ss_aggr s) (ss_busy s) (ss_nflush s) (ss_flush s)
      ((λ x, (fl_id x, fl_worker x, to_mmap (fl_agg x))) <$> ss_out s).

(* ---- specification vocabulary: the bytes read, as lines ---- *)

(* the labels the receiver sees *)
Definition recv_labels (ls : list slabel) : list Receiver.label :=
  omap (λ l, match l with SRead r => Some (Receiver.LRead r) | SDone b => Some (Receiver.LDone b) | _ => None end) ls.

(* every datagram read, in order: sender (getIP of its address; unknown on a unix socket), receive
   time of its ReadBatch, bytes *)
Definition datagrams_read (sc : sysconfig) (ls : list slabel) : list (str * str * Z) :=
  concat (Receiver.expected (sy_rcfg sc) (recv_labels ls)).

(* what one line of a datagram means *)
Definition line_metric (pf : str → pfres) (sc : sysconfig) (ip : str) (ts : Z) (line : str) : option datapoint :=
  match lex pf (sy_ns sc) line with
  | OMetric m => Some (Datagram.stamp (sy_dcfg sc) ip ts m)
  | _ => None
  end.
Definition line_rejected (pf : str → pfres) (sc : sysconfig) (line : str) : bool :=
  match lex pf (sy_ns sc) line with OReject _ => true | _ => false end.

(* the accepted metric lines of everything read (as the datapoints they denote), and the number of
   rejected lines *)
Definition accepted_lines (pf : str → pfres) (sc : sysconfig) (ls : list slabel) : list datapoint :=
  concat ((λ '(ip, msg, ts), omap (line_metric pf sc ip ts) (Datagram.lines msg)) <$> datagrams_read sc ls).
Definition rejected_lines (pf : str → pfres) (sc : sysconfig) (ls : list slabel) : N :=
  N.of_nat (length (concat ((λ '(ip, msg, ts), List.filter (line_rejected pf sc) (Datagram.lines msg))
                              <$> datagrams_read sc ls))).

(* nothing between the socket and the aggregators *)
Definition squiescent (s : sstate) : Prop :=
  ss_taken s = length (Receiver.r_handed (ss_recv s))
  ∧ (∀ l, l ∈ ss_pending s → l = []) ∧ (∀ q, q ∈ ss_queue s → q = []).

Definition is_sflush_label (l : slabel) : Prop :=
  match l with STick _ | SCmd _ | SExec _ _ _ => True | _ => False end.
Definition is_sshard_label (l : slabel) : Prop :=
  match l with SCmd _ | SExec _ _ _ => True | _ => False end.
Definition sflush_complete (sc : sysconfig) (f : nat) (s : sstate) : Prop :=
  ∃ nx, ss_flush s = Some (f, nx) ∧ (sy_shards sc ≤ nx)%nat ∧ ∀ x, x ∈ ss_busy s → x = false.

(* the hypotheses of C08_full_flush_spec on the histories the aggregators have seen *)
Definition histories_within (bound : Z) (s : sstate) : Prop :=
  ∀ x, x ∈ ss_out s → (ops_values (fl_ops x) < bound)%Z ∧ sane_ops (fl_ops x).
