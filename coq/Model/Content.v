(* The content abstraction of a metric map (DESIGN 11 "Content algebra"), merge trees and the
   specification vocabulary of C07.  Definitions only; the lemmas are in
   Proofs/MetricMapMerge.v (homomorphisms, exported for C01 / C10 / C11 / C15) and
   Proofs/MetricMapMergeTree.v (trees, consolidator slots).

   content  = what a series means for counters / timers / sets: counter total, multiset of timer
              value bit patterns, sampled-count sum (exact, Qc), set of members; a commutative
              monoid under [⊕].  Gauges are not a monoid (ties) and timestamps are a max: both
              are specified separately ([gauge_newest], [is_newest]). *)
From stdpp Require Import gmap gmultiset.
From Coq Require Import QArith Qcanon.
From GS Require Import Base.Bytes Base.LTS Model.Lexer Model.Series Model.MetricMap.

Record content := MkContent { ctr : Z; vals : gmultiset Z; samp : Qc; mem : gset str }.

Definition content_unit : content := MkContent 0%Z ∅ 0%Qc ∅.
Definition content_op (a b : content) : content :=
  MkContent (ctr a + ctr b)%Z (vals a ⊎ vals b) (samp a + samp b)%Qc (mem a ∪ mem b).
Infix "⊕" := content_op (at level 50, left associativity).

(* content per series; a series that is absent is absent (not the unit) *)
Notation cmap := (gmap skey content) (only parsing).
Definition cmap_op (x y : cmap) : cmap := union_with (λ a b, Some (a ⊕ b)) x y.
Infix "⊕ₘ" := cmap_op (at level 50, left associativity).
Definition cmap_sum (l : list cmap) : cmap := foldr cmap_op ∅ l.

Definition of_counter (c : counter) : content := MkContent (c_val c) ∅ 0%Qc ∅.
Definition of_timer (t : timer) : content := MkContent 0%Z (list_to_set_disj (t_vals t)) (t_samp t) ∅.
Definition of_set (s : mset) : content := MkContent 0%Z ∅ 0%Qc (s_vals s).

(* a name/key that is used by several metric types has the contents added: the components
   are disjoint (a counter only has [ctr], a timer [vals]/[samp], a set [mem]) *)
Definition abs (m : mmap) : cmap :=
  (of_counter <$> counters m) ⊕ₘ (of_timer <$> timers m) ⊕ₘ (of_set <$> sets m).

(* the map holding exactly one datapoint *)
Definition singleton (d : datapoint) : mmap := receive empty_map d.

(* what one datapoint contributes: int64(value/rate) to a counter, the value and 1/rate to a
   timer, the member to a set, nothing (in [content]) for a gauge *)
Definition content_of_dp (d : datapoint) : content :=
  match dp_type d with
  | Counter => MkContent (counter_increment d) ∅ 0%Qc ∅
  | Timer => MkContent 0%Z {[+ dp_value d +]} (sample_weight d) ∅
  | MSet => MkContent 0%Z ∅ 0%Qc {[ dp_strval d ]}
  | Gauge => content_unit
  end.
Definition abs_dp (d : datapoint) : cmap :=
  match dp_type d with Gauge => ∅ | _ => {[ dp_key d := content_of_dp d ]} end.

(* ---------------------------------------------------------------------------------------- *)
(* Merge trees: every way of combining batches by pairwise Merge (any bracketing, any order)
   and by Receive of single datapoints into an intermediate result. *)
Inductive mtree :=
| Leaf (m : mmap)
| Node (l r : mtree)                 (* eval l .Merge (eval r) *)
| Recv (t : mtree) (d : datapoint).  (* eval t .Receive d *)

Fixpoint eval (t : mtree) : mmap :=
  match t with
  | Leaf m => m
  | Node l r => merge (eval l) (eval r)
  | Recv t d => receive (eval t) d
  end.

Fixpoint leaves (t : mtree) : list mmap :=
  match t with
  | Leaf m => [m]
  | Node l r => leaves l ++ leaves r
  | Recv t d => leaves t ++ [singleton d]
  end.

(* ---------------------------------------------------------------------------------------- *)
(* Specification vocabulary: what the leaves hold for one series *)

(* the values of those leaves that hold the series *)
Definition held {A} (xs : list (option A)) : list A := omap id xs.
(* absent if no leaf holds the series, otherwise the combination of what the holders hold *)
Definition combined {A B} (f : list A → B) (xs : list (option A)) : option B :=
  match held xs with [] => None | l => Some (f l) end.

(* the entries the maps [ms] hold for series [k] in one of the four fields, in list order *)
Definition series_at {V} (fld : mmap → gmap skey V) (ms : list mmap) (k : skey) : list V :=
  held ((λ m, fld m !! k) <$> ms).

(* the merged entry [r] exists iff some leaf holds the series, and then relates to the
   held entries [hs] by [ok] *)
Definition merged_as {V} (ok : list V → V → Prop) (hs : list V) (r : option V) : Prop :=
  match r with Some v => hs ≠ [] ∧ ok hs v | None => hs = [] end.

Definition zsum (l : list Z) : Z := foldr Z.add 0%Z l.
Definition qsum (l : list Qc) : Qc := foldr Qcplus 0%Qc l.

(* [r] is the newest of the timestamps [xs] (absent iff all are absent) *)
Definition is_newest (xs : list (option Z)) (r : option Z) : Prop :=
  match r with
  | Some ts => In (Some ts) xs ∧ ∀ ts', In (Some ts') xs → (ts' ≤ ts)%Z
  | None => ∀ x, In x xs → x = None
  end.

Definition ts_at (ty : mtype) (m : mmap) (k : skey) : option Z :=
  match ty with
  | Counter => c_ts <$> counters m !! k
  | Gauge => g_ts <$> gauges m !! k
  | Timer => t_ts <$> timers m !! k
  | MSet => s_ts <$> sets m !! k
  end.

(* [r] carries the newest timestamp among the gauges the maps [ms] hold for series [k], and its
   value is the value of one of the gauges with that timestamp *)
Definition gauge_newest (ms : list mmap) (k : skey) (r : option gauge) : Prop :=
  match r with
  | Some g =>
      (∃ m g', In m ms ∧ gauges m !! k = Some g' ∧ g_ts g' = g_ts g ∧ g_val g' = g_val g)
      ∧ (∀ m g', In m ms → gauges m !! k = Some g' → (g_ts g' ≤ g_ts g)%Z)
  | None => ∀ m, In m ms → gauges m !! k = None
  end.

(* ---------------------------------------------------------------------------------------- *)
(* metric_consolidator.go: [n] maps circulate through a channel; a receiver takes one (any one:
   whichever is at the head when it arrives), merges a map into it (ReceiveMetricMap) or
   receives a slice of datapoints into it (ReceiveMetrics) and puts it back.  While a receiver
   holds a map nobody else can touch it, so each label is atomic; which slot a batch lands in
   is the label's index.  Drain collects the slots in channel order (any order), the forwarder
   then applies MergeMaps. *)
Inductive slot_op :=
| SlotMap (i : nat) (m : mmap)
| SlotMetrics (i : nat) (ds : list datapoint).

Definition slot_step (slots : list mmap) (o : slot_op) : option (list mmap) :=
  match o with
  | SlotMap i m => (λ s, <[i := merge s m]> slots) <$> slots !! i
  | SlotMetrics i ds => (λ s, <[i := receive_all s ds]> slots) <$> slots !! i
  end.

Definition slots_init (n : nat) : list mmap := replicate n empty_map.

(* the batches a label sequence delivered, datapoints as one-datapoint maps *)
Definition slot_batches (o : slot_op) : list mmap :=
  match o with
  | SlotMap _ m => [m]
  | SlotMetrics _ ds => singleton <$> ds
  end.
