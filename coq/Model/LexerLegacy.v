(* The event-body state function of internal/lexer/lexer.go as it was BEFORE the repair of
   defect D1 (/repo commit 409dd76), kept as documentation of the fixed finding:

     func lexEventBody(l *Lexer) stateFn {
       if l.len-l.pos < l.eventTitleLen+1+l.eventTextLen { l.err = errNotEnoughData; return nil }
       if l.input[l.pos+l.eventTitleLen] != '|' { l.err = errInvalidFormat; return nil }
       l.e.Title = string(l.input[l.pos : l.pos+l.eventTitleLen])
       l.pos += l.eventTitleLen + 1
       l.e.Text = string(bytes.Replace(l.input[l.pos:l.pos+l.eventTextLen], escapedNewline, newline, -1))
       l.pos += l.eventTextLen
       return lexEventAttributes }

   with len, pos, eventTitleLen, eventTextLen all uint32: every + and - wraps modulo 2^32.
   Unlike [Lexer.event_body true] (which only wraps the right-hand side of the test), this
   model performs *every* operation on absolute positions in uint32, so it also covers the
   inputs where the index l.pos+l.eventTitleLen itself wraps and lands in the header.
   Slice bounds are checked against len(input) (the capacity of the line is taken to be its
   length, which is what verifhooks.LexLine's callers pass; inside a datagram the capacity is
   larger and some of the out-of-range reads would return bytes of later lines instead). *)
From GS Require Import Base.Bytes Model.Lexer.
Local Open Scope N_scope.

Definition u32 (n : N) : N := n mod two32.

(* [Lexer.index_checked], with the range test done in N first: the same function, but it does
   not build a unary numeral of 2^32 under vm_compute when the index is far out of range *)
Definition index_checked_fast (l : str) (i : N) : option N :=
  if i <? N.of_nat (length l) then nth_error l (N.to_nat i) else None.

(* [input] is the whole line, [pos] the absolute read position (pos <= len input < 2^32) *)
Definition event_body_u32 (input : str) (pos tl xl : N) : result (str * str * str) :=
  let len := u32 (N.of_nat (length input)) in
  if u32 (len + two32 - pos) <? u32 (u32 (tl + 1) + xl) then Rej ENotEnoughData
  else match index_checked_fast input (u32 (pos + tl)) with
       | None => Pan
       | Some b =>
           if negb (b =? c_pipe) then Rej EInvalidFormat
           else match slice_checked input pos (u32 (pos + tl)) with
                | None => Pan
                | Some title =>
                    let pos1 := u32 (pos + u32 (tl + 1)) in
                    match slice_checked input pos1 (u32 (pos1 + xl)) with
                    | None => Pan
                    | Some text =>
                        let pos2 := u32 (pos1 + xl) in
                        Ok (title, unescape text, skipn (N.to_nat pos2) input)
                    end
                end
       end.

(* lexDatadogSpecial onwards for a line that starts with "_e"; [r0] is the suffix after it *)
Definition lex_event_legacy_u32 (line r0 : str) : outcome :=
  let res :=
    bind (lex_assert c_lbrace r0) (fun r1 =>
    bind (lex_uint32 r1) (fun '(tl, r2) =>
    bind (lex_assert c_comma r2) (fun r3 =>
    bind (lex_uint32 r3) (fun '(xl, r4) =>
    bind (lex_assert c_rbrace r4) (fun r5 =>
    bind (lex_assert c_colon r5) (fun r6 =>
    let pos := N.of_nat (length line - length r6) in
    bind (event_body_u32 line pos tl xl) (fun '(title, text, r7) =>
    lex_eattrs EAttrs (empty_event title text) [] r7))))))) in
  match res with
  | Ok (e, tags) => OEvent (with_tags e (rev tags))
  | Rej x => OReject x
  | Pan => OPanic
  end.

(* the whole pre-fix lexer: identical to the current one except for event bodies *)
Definition lex_legacy_u32 (pf : str -> pfres) (ns : str) (line : str) : outcome :=
  match line with
  | b :: b2 :: r0 =>
      if (b =? c_us) && (b2 =? c_e) then lex_event_legacy_u32 line r0 else lex pf ns line
  | _ => lex pf ns line
  end.

(* "_e{5,4294967290}:abcde|xyz" *)
Definition d1_witness : str :=
  [95;101;123;53;44;52;50;57;52;57;54;55;50;57;48;125;58;97;98;99;100;101;124;120;121;122].
