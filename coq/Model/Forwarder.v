(* C15: pkg/statsd/handler_http_forwarder_v2.go (Run's flush loop, postMetrics / post / constructPost,
   the two semaphores, the five delivery counters) and metric_map.go tagsMatch / SplitByTags.

   Part 1 (pure): tagsMatch, SplitByTags on Model.MetricMap.mmap, the request headers constructPost
   derives from a part's key, NewHttpForwarderHandlerV2's filtering of the dynamic header names, and
   the serialiser's precondition (proto.Marshal rejects a string field or map key that is not valid
   UTF-8; utf8.Valid is an oracle [utf8ok]).
   Part 2: one request (`post`) as an LTS over a fault script: Construct, Attempt outcome, Backoff |
   Stop (cenkalti/backoff's NextBackOff is the oracle that chooses), CtxDone (only the start-up
   "nop" request runs under a cancellable context; flush requests use context.Background()).
   Part 3: the handler: Run's `for metricMaps := range consolidatedMetrics` loop, one goroutine per
   flush (MergeMaps, SplitByTags, release of the merging token, then per part: skip if empty, else
   acquire a request token and start a goroutine running postMetrics, notifyFlush, releaseSem).
   Slot contents are bags of items (one item = one dispatched datapoint with the strings the
   serialiser will see); merging is ++ (Proofs tie ++ to Model.MetricMap.merge through the key of a
   series only: SplitByTags routes by (name, tagsKey) and nothing else).

   Not modelled: net/http, compression, backoff timing, post-latency gauges, events (/v2/event). *)
From stdpp Require Import gmap.
From GS Require Import Base.Bytes Model.Lexer Model.Series Model.MetricMap.
Local Open Scope N_scope.

(* ------------------------------------------------------------------------------------------ *)
(* Part 1 *)

(* strings.Split(s, sep) for a one-byte separator: never empty, "" |-> [""] *)
Fixpoint split_on (c : N) (s : str) : list str :=
  match s with
  | [] => [[]]
  | x :: r => if x =? c then [] :: split_on c r
              else match split_on c r with h :: t => (x :: h) :: t | [] => [[x]] end
  end.

Fixpoint has_prefix (p s : str) : bool :=
  match p, s with
  | [], _ => true
  | a :: p', b :: s' => (a =? b) && has_prefix p' s'
  | _ :: _, [] => false
  end.

(* the inner loop of tagsMatch: `if tagName == "" { break }; if HasPrefix(tv, tagName) { append; break }` *)
Fixpoint first_match (names : list str) (tv : str) : bool :=
  match names with
  | [] => false
  | [] :: _ => false
  | n :: r => if has_prefix n tv then true else first_match r tv
  end.

Definition tags_match (names : list str) (key : str) : str :=
  join c_comma (List.filter (first_match names) (split_on c_comma key)).

(* the key under which SplitByTags files a series *)
Definition part_key (names : list str) (k : skey) : str := tags_match names (snd k).

Definition part_of (names : list str) (pk : str) (m : mmap) : mmap :=
  MkMap (base.filter (λ kv, part_key names (fst kv) = pk) (counters m))
        (base.filter (λ kv, part_key names (fst kv) = pk) (timers m))
        (base.filter (λ kv, part_key names (fst kv) = pk) (gauges m))
        (base.filter (λ kv, part_key names (fst kv) = pk) (sets m)).

Definition series_keys (m : mmap) : list skey :=
  (map_to_list (counters m)).*1 ++ (map_to_list (gauges m)).*1
  ++ (map_to_list (timers m)).*1 ++ (map_to_list (sets m)).*1.

Definition part_keys (names : list str) (m : mmap) : list str :=
  remove_dups (part_key names <$> series_keys m).

(* SplitByTags: `if len(tagNames) == 0 { maps[""] = mm }`, else one map per key that occurs *)
Definition split_by_tags (names : list str) (m : mmap) : list (str * mmap) :=
  match names with
  | [] => [([], m)]
  | _ => (λ pk, (pk, part_of names pk m)) <$> part_keys names m
  end.

(* a series of any of the four types, for statements that do not care which *)
Inductive sval := VC (c : counter) | VT (t : timer) | VG (g : gauge) | VS (s : mset).
Definition series_at (m : mmap) (ty : mtype) (k : skey) : option sval :=
  match ty with
  | Counter => VC <$> counters m !! k
  | Timer => VT <$> timers m !! k
  | Gauge => VG <$> gauges m !! k
  | MSet => VS <$> sets m !! k
  end.

(* NewHttpForwarderHandlerV2: empty names and names that are also (verbatim) custom header keys are
   not dynamic; the rest get a ':' appended *)
Definition effective_dyn (xheaders : list (str * str)) (names : list str) : list str :=
  (λ n, n ++ [c_colon]) <$>
  List.filter (λ n, negb (str_eqb n []) && negb (existsb (λ kv, str_eqb (fst kv) n) xheaders)) names.

(* strings.SplitN(tv, ":", 2) with len > 1 *)
Fixpoint cut_colon (s : str) : option (str * str) :=
  match s with
  | [] => None
  | x :: r => if x =? c_colon then Some ([], r)
              else match cut_colon r with Some (a, b) => Some (x :: a, b) | None => None end
  end.

Definition us_to_dash (s : str) : str := map (λ b, if b =? c_us then c_dash else b) s.

(* constructPost: the Header.Set calls in order: per tag of the part key, then hfh.headers, then
   Content-Encoding.  net/http canonicalises names, so a later Set of the same name (ASCII
   case-insensitively) replaces an earlier one. *)
Definition dyn_header_sets (pk : str) : list (str * str) :=
  omap (λ tv, match cut_colon tv with Some (n, v) => Some (us_to_dash n, v) | None => None end)
       (split_on c_comma pk).

Definition to_lower (s : str) : str := map (λ b, if is_upper b then b + 32 else b) s.

Definition std_headers : list (str * str) :=
  [ ([67;111;110;116;101;110;116;45;84;121;112;101],                       (* Content-Type *)
     [97;112;112;108;105;99;97;116;105;111;110;47;120;45;112;114;111;116;111;98;117;102]);
    ([85;115;101;114;45;65;103;101;110;116],                                (* User-Agent *)
     [103;111;115;116;97;116;115;100;32;40;104;116;116;112;32;102;111;114;119;97;114;100;101;114;41]) ].
Definition content_encoding : str := [67;111;110;116;101;110;116;45;69;110;99;111;100;105;110;103].

Definition header_sets (xheaders : list (str * str)) (enc pk : str) : list (str * str) :=
  dyn_header_sets pk ++ std_headers ++ xheaders ++ [(content_encoding, enc)].

(* the value a header (lower-case name) finally has: the last Set wins *)
Fixpoint last_set (n : str) (sets : list (str * str)) (acc : option str) : option str :=
  match sets with
  | [] => acc
  | (n', v) :: r => last_set n r (if str_eqb (to_lower n') n then Some v else acc)
  end.
Definition header_value (xheaders : list (str * str)) (enc pk n : str) : option str :=
  last_set n (header_sets xheaders enc pk) None.
Definition header_names (xheaders : list (str * str)) (enc pk : str) : list str :=
  remove_dups (to_lower ∘ fst <$> header_sets xheaders enc pk).

(* ------------------------------------------------------------------------------------------ *)
(* items and bags *)

Record item := Item {
  it_id : nat;
  it_name : str; it_key : str;      (* series: metric name, tags key *)
  it_strs : list str                (* the other strings serialised with it: tags, source, set member *)
}.
Definition bag := list item.

Definition item_pkey (names : list str) (it : item) : str := tags_match names (it_key it).
Definition bag_part (names : list str) (pk : str) (b : bag) : bag :=
  List.filter (λ it, str_eqb (item_pkey names it) pk) b.
Definition bag_split (names : list str) (b : bag) : list (str * bag) :=
  match names with
  | [] => [([], b)]
  | _ => (λ pk, (pk, bag_part names pk b)) <$> remove_dups (item_pkey names <$> b)
  end.

Section Serialise.
  Variable utf8ok : str -> bool.
  Definition item_ok (it : item) : bool :=
    utf8ok (it_name it) && utf8ok (it_key it) && forallb utf8ok (it_strs it).
  (* proto.Marshal(translateToProtobufV2(part)) succeeds *)
  Definition serialisable (b : bag) : bool := forallb item_ok b.
End Serialise.

(* ------------------------------------------------------------------------------------------ *)
(* Part 2: one request *)

Inductive outcome := Ok2xx | Failed.   (* post() returned nil | an error (status outside 2xx, transport error, timeout) *)
Inductive pphase := PNew | PTry | PFailed | PEnd.
Inductive pstatus := SNone | SInvalid | SSent | SDropped | SAbandoned.
Record counters := Ctr { n_created : nat; n_sent : nat; n_retried : nat; n_dropped : nat; n_invalid : nat }.
Definition ctr0 : counters := Ctr 0 0 0 0 0.
Definition ctr_add (a b : counters) : counters :=
  Ctr (n_created a + n_created b) (n_sent a + n_sent b) (n_retried a + n_retried b)
      (n_dropped a + n_dropped b) (n_invalid a + n_invalid b).

Record pstate := P {
  p_phase : pphase; p_status : pstatus;
  p_hist : list outcome;        (* attempts made, newest first *)
  p_ctr : counters              (* this request's contribution to the handler's atomics *)
}.
Definition pinit : pstate := P PNew SNone [] ctr0.

Inductive plabel :=
| Construct (ok : bool)     (* constructPost returned a closure | an error *)
| Attempt (o : outcome)     (* one call of the closure *)
| Backoff                   (* NextBackOff() <> Stop: messagesRetried++, wait for the timer *)
| Stop                      (* NextBackOff() = Stop: messagesDropped++, return *)
| CtxDone.                  (* `case <-ctx.Done(): return` while waiting for the timer *)

Definition post_step (cancellable : bool) (s : pstate) (l : plabel) : option pstate :=
  let c := p_ctr s in
  match p_phase s, l with
  | PNew, Construct true =>
      Some (P PTry SNone [] (Ctr (S (n_created c)) (n_sent c) (n_retried c) (n_dropped c) (n_invalid c)))
  | PNew, Construct false =>
      Some (P PEnd SInvalid [] (Ctr (n_created c) (n_sent c) (n_retried c) (n_dropped c) (S (n_invalid c))))
  | PTry, Attempt Ok2xx =>
      Some (P PEnd SSent (Ok2xx :: p_hist s) (Ctr (n_created c) (S (n_sent c)) (n_retried c) (n_dropped c) (n_invalid c)))
  | PTry, Attempt Failed => Some (P PFailed SNone (Failed :: p_hist s) c)
  | PFailed, Backoff =>
      Some (P PTry SNone (p_hist s) (Ctr (n_created c) (n_sent c) (S (n_retried c)) (n_dropped c) (n_invalid c)))
  | PFailed, Stop =>
      Some (P PEnd SDropped (p_hist s) (Ctr (n_created c) (n_sent c) (n_retried c) (S (n_dropped c)) (n_invalid c)))
  | PTry, CtxDone =>
      match cancellable, p_hist s with
      | true, _ :: _ => Some (P PEnd SAbandoned (p_hist s) c)
      | _, _ => None
      end
  | _, _ => None
  end.

Definition failures (h : list outcome) : nat :=
  length (List.filter (λ o, match o with Failed => true | Ok2xx => false end) h).
Definition count_label (f : plabel -> bool) (ls : list plabel) : nat := length (List.filter f ls).
Definition is_stop l := match l with Stop => true | _ => false end.
Definition is_backoff l := match l with Backoff => true | _ => false end.

(* When may the oracle say Stop?  post() creates a fresh ExponentialBackOff for every request
   (`b := backoff.NewExponentialBackOff(); b.MaxElapsedTime = hfh.maxRequestElapsedTime`), whose
   NextBackOff returns Stop iff `MaxElapsedTime != 0 && elapsed > MaxElapsedTime`, elapsed being measured
   from that creation, i.e. from just before the request's own first attempt (window -1 = retries
   disabled: always Stop; the constructor rejects 0).  Times in nanoseconds. *)
Definition stop_allowed (window elapsed : Z) : bool :=
  negb (window =? 0)%Z && (window <? elapsed)%Z.

Definition in_flight (s : pstate) : nat :=
  match p_phase s with PTry | PFailed => 1 | _ => 0 end.

(* the label sequence of a request whose attempts had the outcomes [os] (oldest first) and that has
   come to rest: used by the correspondence to replay an observed request through [post_step] *)
Fixpoint attempts_labels (os : list outcome) : list plabel :=
  match os with
  | [] => []
  | [Ok2xx] => [Attempt Ok2xx]
  | [Failed] => [Attempt Failed; Stop]
  | o :: r => Attempt o :: Backoff :: attempts_labels r
  end.

(* ---- the retry window: who says Stop ----
   cenkalti/backoff v2.2.1 (the version in go.mod), exponential.go:
     NewExponentialBackOff() ... b.Reset()            Reset: startTime = Clock.Now()   (SystemClock)
     NextBackOff(): if MaxElapsedTime != 0 && GetElapsedTime() > MaxElapsedTime { return Stop }
   (this version does not add the next interval to the elapsed time; MaxElapsedTime = 0 never stops,
   the forwarder's constructor rejects 0 and maps "retries disabled" to -1, for which every
   elapsed time >= 0 stops).  [stop_allowed] above is that test.  post() creates the policy right after
   constructPost succeeded; the timed LTS below carries the clock readings as label arguments (an
   arbitrary script of times) and lets the library's rule choose between Stop and Backoff.
   [legacy = true] is the seeded variant /tmp/seed-out/C15/b: one policy built in the constructor at
   time [hstart], copied by value per request and never Reset. *)
Inductive tlabel :=
| TConstruct (ok : bool) (now : Z)   (* constructPost; if ok, the request's policy is created at clock reading now *)
| TAttempt (o : outcome)
| TNext (now : Z)                    (* b.NextBackOff() called at clock reading now *)
| TCtxDone.

Record tstate := T {
  t_p : pstate;
  t_created : option Z;      (* ghost: when this request's post loop began *)
  t_start : Z;               (* b.startTime *)
  t_decided : option Z       (* ghost: clock reading of the NextBackOff call that returned Stop *)
}.
Definition tinit : tstate := T pinit None 0 None.

Definition tstep (legacy cancellable : bool) (window hstart : Z) (s : tstate) (l : tlabel) : option tstate :=
  match l with
  | TConstruct ok now =>
      match post_step cancellable (t_p s) (Construct ok) with
      | Some p => Some (T p (Some now) (if legacy then hstart else now) None)
      | None => None
      end
  | TAttempt o =>
      match post_step cancellable (t_p s) (Attempt o) with
      | Some p => Some (T p (t_created s) (t_start s) (t_decided s))
      | None => None
      end
  | TNext now =>
      if stop_allowed window (now - t_start s)
      then match post_step cancellable (t_p s) Stop with
           | Some p => Some (T p (t_created s) (t_start s) (Some now))
           | None => None
           end
      else match post_step cancellable (t_p s) Backoff with
           | Some p => Some (T p (t_created s) (t_start s) (t_decided s))
           | None => None
           end
  | TCtxDone =>
      match post_step cancellable (t_p s) CtxDone with
      | Some p => Some (T p (t_created s) (t_start s) (t_decided s))
      | None => None
      end
  end.

(* ------------------------------------------------------------------------------------------ *)
(* Part 3: the handler *)

Record request := Req {
  r_key : str; r_part : bag;
  r_tok : bool;            (* holds a token of metricsSem (false only for the start-up nop) *)
  r_released : bool;
  r_post : pstate
}.
Inductive gor :=
| GMerging (ms : list bag)              (* holds a merging token; MergeMaps + SplitByTags *)
| GPosting (parts : list (str * bag)).  (* `for dynHeaderTags, mm := range mms`; [] = finished *)

Record hstate := H {
  merge_free : nat; req_free : nat;      (* len(metricsMergingSem), len(metricsSem) *)
  loop : option (list bag);              (* Run's loop received a flush and waits for a merging token *)
  gors : list gor; reqs : list request;
  notified : nat;                        (* notifyFlush calls *)
  received : list (list bag)             (* ghost: everything read from the sink, oldest first *)
}.

Inductive hlabel :=
| SinkRecv (ms : list bag)          (* `range hfh.consolidatedMetrics` yields (rendezvous with DrainEmit) *)
| LoopSpawn                         (* acquireMergingSem(); go func() *)
| MergeSplit (g : nat)              (* MergeMaps; SplitByTags; releaseMergingSem() *)
| PartSkip (g j : nat)              (* the j-th remaining part IsEmpty(): notifyFlush(); continue *)
| PartPost (g j : nat)              (* acquireSem(); go postMetrics(...) *)
| ReqStep (q : nat) (l : plabel)
| Release (q : nat).                (* notifyFlush(); releaseSem()  (nop: postMetrics returns) *)

Fixpoint upd {A} (n : nat) (x : A) (l : list A) : list A :=
  match l, n with
  | [], _ => []
  | _ :: r, O => x :: r
  | y :: r, S n' => y :: upd n' x r
  end.
Fixpoint del {A} (n : nat) (l : list A) : list A :=
  match l, n with
  | [], _ => []
  | _ :: r, O => r
  | y :: r, S n' => y :: del n' r
  end.

Section Handler.
  Variable cm mr : nat.               (* concurrent-merge, max-requests *)
  Variable dyn : list str.            (* hfh.dynHeaderNames *)
  Variable utf8ok : str -> bool.

  Definition nop : request := Req [] [] false false pinit.
  Definition hinit : hstate := H cm mr None [] [nop] 0 [].

  Definition nop_returned (s : hstate) : bool :=
    match reqs s with r :: _ => r_released r | [] => false end.

  Definition hstep (s : hstate) (l : hlabel) : option hstate :=
    match l with
    | SinkRecv ms =>
        match loop s with
        | None => if nop_returned s
                  then Some (H (merge_free s) (req_free s) (Some ms) (gors s) (reqs s) (notified s) (received s ++ [ms]))
                  else None
        | Some _ => None
        end
    | LoopSpawn =>
        match loop s, merge_free s with
        | Some ms, S n => Some (H n (req_free s) None (gors s ++ [GMerging ms]) (reqs s) (notified s) (received s))
        | _, _ => None
        end
    | MergeSplit g =>
        match nth_error (gors s) g with
        | Some (GMerging ms) =>
            if (merge_free s <? cm)%nat
            then Some (H (S (merge_free s)) (req_free s) (loop s)
                         (upd g (GPosting (bag_split dyn (concat ms))) (gors s)) (reqs s) (notified s) (received s))
            else None
        | _ => None
        end
    | PartSkip g j =>
        match nth_error (gors s) g with
        | Some (GPosting parts) =>
            match nth_error parts j with
            | Some (_, []) => Some (H (merge_free s) (req_free s) (loop s) (upd g (GPosting (del j parts)) (gors s))
                                      (reqs s) (S (notified s)) (received s))
            | _ => None
            end
        | _ => None
        end
    | PartPost g j =>
        match nth_error (gors s) g with
        | Some (GPosting parts) =>
            match nth_error parts j, req_free s with
            | Some (pk, (_ :: _) as p), S n =>
                Some (H (merge_free s) n (loop s) (upd g (GPosting (del j parts)) (gors s))
                        (reqs s ++ [Req pk p true false pinit]) (notified s) (received s))
            | _, _ => None
            end
        | _ => None
        end
    | ReqStep q pl =>
        match nth_error (reqs s) q with
        | Some r =>
            let fits := match pl with Construct ok => Bool.eqb ok (serialisable utf8ok (r_part r)) | _ => true end in
            match post_step (negb (r_tok r)) (r_post r) pl with
            | Some p' => if fits
                         then Some (H (merge_free s) (req_free s) (loop s) (gors s)
                                      (upd q (Req (r_key r) (r_part r) (r_tok r) (r_released r) p') (reqs s))
                                      (notified s) (received s))
                         else None
            | None => None
            end
        | None => None
        end
    | Release q =>
        match nth_error (reqs s) q with
        | Some r =>
            match p_phase (r_post r), r_released r with
            | PEnd, false =>
                let rs := upd q (Req (r_key r) (r_part r) (r_tok r) true (r_post r)) (reqs s) in
                if r_tok r
                then (if (req_free s <? mr)%nat
                      then Some (H (merge_free s) (S (req_free s)) (loop s) (gors s) rs (S (notified s)) (received s))
                      else None)
                else Some (H (merge_free s) (req_free s) (loop s) (gors s) rs (notified s) (received s))
            | _, _ => None
            end
        | None => None
        end
    end.

  (* the handler's atomics = the sum of the requests' contributions *)
  Definition hcounters (s : hstate) : counters :=
    fold_right (λ r acc, ctr_add (p_ctr (r_post r)) acc) ctr0 (reqs s).

  Definition merging (s : hstate) : nat :=
    length (List.filter (λ g, match g with GMerging _ => true | _ => false end) (gors s)).
  Definition holding_req (s : hstate) : nat :=
    length (List.filter (λ r, r_tok r && negb (r_released r)) (reqs s)).
  Definition gor_items (g : gor) : bag :=
    match g with GMerging ms => concat ms | GPosting parts => concat (snd <$> parts) end.
  (* every item the handler has been given and where it is now *)
  Definition items_received (s : hstate) : bag := concat (map (@concat item) (received s)).
  Definition items_held (s : hstate) : bag :=
    match loop s with Some ms => concat ms | None => [] end
    ++ concat (gor_items <$> gors s) ++ concat (r_part <$> reqs s).
  (* nothing is running: no flush is being merged or posted, every request has returned *)
  Definition at_rest (s : hstate) : bool :=
    match loop s with None => true | _ => false end
    && forallb (λ g, match g with GPosting [] => true | _ => false end) (gors s)
    && forallb r_released (reqs s).

  (* ---- flush notifications (flush.Coordinator.NotifyFlush; the Lambda extension's WaitForFlush
     consumes one per invocation) ----
     one call per part of a flush: `notifyFlush(); continue` for an empty part, `notifyFlush()` after
     postMetrics for a posted one.  A flush has as many parts as SplitByTags returns. *)
  Definition parts_of (ms : list bag) : nat := length (bag_split dyn (concat ms)).
  Definition gor_owes (g : gor) : nat :=
    match g with GMerging ms => parts_of ms | GPosting parts => length parts end.
  (* notifications still to come for flushes already read from the sink *)
  Definition notif_pending (s : hstate) : nat :=
    match loop s with Some ms => parts_of ms | None => 0 end
    + list_sum (map gor_owes (gors s)) + holding_req s.
  Definition notif_total (s : hstate) : nat := list_sum (map parts_of (received s)).

  (* ---- shutdown: Run after ctx.Done ----
     wg.StartWithContext(...){ <-ctx.Done() | consolidator.Run returns; hfh.Close() } closes
     consolidatedMetrics; the `for range` loop ends once it is back at the receive; then Run's first
     goroutine re-acquires every token: `for i < cap(metricsSem) { acquireSem() }`, then the same for
     metricsMergingSem, and Run returns.  Nothing makes that tail wait for a flush goroutine that has
     not yet called acquireSem() itself.  [patched = true] is the proposed repair: a WaitGroup over the
     flush goroutines, waited for between the loop and the tail (notes/C15.md). *)
  Record rstate := R {
    r_h : hstate;
    r_closed : bool;
    r_treq : nat; r_tmerge : nat;     (* tokens the tail holds *)
    r_returned : bool
  }.
  Inductive rlabel :=
  | RH (l : hlabel)
  | RClose            (* hfh.Close() *)
  | RTailReq          (* one acquireSem() of the tail *)
  | RTailMerge        (* one acquireMergingSem() of the tail *)
  | RReturn.          (* wg.Wait() returns: Run returns *)

  Definition rinit : rstate := R hinit false 0 0 false.

  Definition flushes_done (h : hstate) : bool :=
    match loop h with None => true | _ => false end
    && forallb (λ g, match g with GPosting [] => true | _ => false end) (gors h).

  Definition rstep (patched : bool) (s : rstate) (l : rlabel) : option rstate :=
    let h := r_h s in
    match l with
    | RH hl =>
        match hl, r_closed s with
        | SinkRecv _, true => None          (* the channel is closed; the consolidator no longer flushes *)
        | _, _ => match hstep h hl with
                  | Some h' => Some (R h' (r_closed s) (r_treq s) (r_tmerge s) (r_returned s))
                  | None => None
                  end
        end
    | RClose =>
        if negb (r_closed s) && nop_returned h      (* both goroutines of Run start after sendNop *)
        then Some (R h true (r_treq s) (r_tmerge s) (r_returned s)) else None
    | RTailReq =>
        match req_free h with
        | S n =>
            if r_closed s && match loop h with None => true | _ => false end
               && (negb patched || flushes_done h) && (r_treq s <? mr)%nat
            then Some (R (H (merge_free h) n (loop h) (gors h) (reqs h) (notified h) (received h))
                         true (S (r_treq s)) (r_tmerge s) (r_returned s))
            else None
        | O => None
        end
    | RTailMerge =>
        match merge_free h with
        | S n =>
            if r_closed s && (r_treq s =? mr)%nat && (r_tmerge s <? cm)%nat
            then Some (R (H n (req_free h) (loop h) (gors h) (reqs h) (notified h) (received h))
                         true (r_treq s) (S (r_tmerge s)) (r_returned s))
            else None
        | O => None
        end
    | RReturn =>
        if r_closed s && (r_treq s =? mr)%nat && (r_tmerge s =? cm)%nat
        then Some (R h true (r_treq s) (r_tmerge s) true) else None
    end.
End Handler.
