(* Model of the timer part of MetricAggregator.Flush (pkg/statsd/aggregator.go), properties
   C08 and C04.

   [flush_timer] is IMPLEMENTATION-SHAPED: sort, the two cumulative arrays, the percentile loop
   with its loop-carried variables, and the same index arithmetic as the Go code, every index
   expression through the checked [idx] (out of range = [Panic]).  It is parametric in the
   carrier [V] of float64 values and its operations ([vops]): C08 instantiates it with exact
   rationals ([qc_ops]: the real-number meaning of the statistics is the property, DESIGN 3.1),
   C04 proves absence of [Panic] for EVERY carrier, using of the sort only that it preserves
   the length (so the theorem covers NaN / +-Inf values and Go's float arithmetic as well).

   The percentile rank [int(round(math.Abs(pct) / 100 * count))], whose float64 ROUNDING decides
   an index, is [go_rank]: the same operations on Coq's primitive binary64 floats (bit-exact).

   [timer_spec] is the SPECIFICATION written against the multiset of values (C08's text).
   [legacy = true] selects the code before the repair of D3 (commit e5869c1), kept so that the
   refutation of the old code can be stated (C04_legacy_refuted_D3). *)
From Coq Require Import String.
From Coq Require Import List ZArith QArith Qcanon Qround Floats Uint63.
From GS Require Import Base.Bytes Base.GoFloat Model.GoPartial Model.Histogram.
Import ListNotations.
Local Open Scope Z_scope.

(* ---------------------------------------------------------------------------------------- *)
(* rank: int(round(math.Abs(pct) / 100 * count)),  round v = math.Floor(v + 0.5) *)

Definition float_of_Z (z : Z) : float := of_uint63 (Uint63.of_Z z).   (* exact for 0 <= z < 2^53 *)

Definition go_rank (p n : Z) : Z :=
  floor_int (float_of_Z (Z.abs p) / float_of_Z 100 * float_of_Z n + half)%float.

(* the same number in exact arithmetic: floor(|p| * n / 100 + 1/2) *)
Definition exact_rank (p n : Z) : Z := (2 * Z.abs p * n + 100) / 200.

(* ---------------------------------------------------------------------------------------- *)
(* configuration and timer *)

(* the TimerSubtypes bits Flush reads (true = disabled) *)
Record pmask := {
  d_count_pct : bool; d_mean_pct : bool; d_sum_pct : bool;
  d_sumsq_pct : bool; d_upper_pct : bool; d_lower_pct : bool
}.

Record config (V : Type) := {
  c_pcts : list Z;          (* percentThresholds: the KEYS of the Go map, so duplicates collapse *)
  c_mask : pmask;
  c_limit : Z;              (* histogramLimit, a uint32 *)
  c_interval : V            (* float64(flushInterval) / float64(time.Second) *)
}.
Arguments c_pcts {V}. Arguments c_mask {V}. Arguments c_limit {V}. Arguments c_interval {V}.

Record timer (V : Type) := {
  t_count : Z;
  t_sampled : V;
  t_persec : V;
  t_mean : V;
  t_median : V;
  t_min : V;
  t_max : V;
  t_var : V;                (* sumOfDiffs / count; Go stores math.Sqrt of it in StdDev (not modelled) *)
  t_sum : V;
  t_sumsq : V;
  t_values : list V;
  t_pcts : list (str * V);  (* Percentiles, in the order appended *)
  t_tags : list str;
  t_hist : hist
}.
Arguments t_count {V}. Arguments t_sampled {V}. Arguments t_persec {V}. Arguments t_mean {V}.
Arguments t_median {V}. Arguments t_min {V}. Arguments t_max {V}. Arguments t_var {V}.
Arguments t_sum {V}. Arguments t_sumsq {V}. Arguments t_values {V}. Arguments t_pcts {V}.
Arguments t_tags {V}. Arguments t_hist {V}.

(* operations of the carrier *)
Record vops (V : Type) := {
  v0 : V;
  vadd : V -> V -> V;
  vsub : V -> V -> V;
  vmul : V -> V -> V;
  vdiv : V -> V -> V;
  vofZ : Z -> V;                     (* float64(int) *)
  vround : V -> Z;                   (* int(math.Floor(v + 0.5)) *)
  vsort : list V -> list V;          (* sort.Float64s *)
  vle_bound : V -> bound -> bool     (* v <= float64(bucket) *)
}.
Arguments v0 {V}. Arguments vadd {V}. Arguments vsub {V}. Arguments vmul {V}. Arguments vdiv {V}.
Arguments vofZ {V}. Arguments vround {V}. Arguments vsort {V}. Arguments vle_bound {V}.

(* the names NewMetricAggregator precomputes for a threshold: "count_" + strconv.Itoa(int(pct)) … *)
Definition nm (prefix : String.string) (p : Z) : str := bs prefix ++ itoa p.
Arguments nm prefix%string p%Z.

(* list without repeated elements, first occurrence kept: the key set of the Go map *)
Fixpoint dedupZ (l : list Z) : list Z :=
  match l with
  | [] => []
  | x :: r => x :: filter (fun y => negb (y =? x)) (dedupZ r)
  end.

Section Flush.
  Context {V : Type}.
  Variable O : vops V.
  Variable pf : str -> option bound.
  Variable rank : Z -> Z -> Z.
  Variable legacy : bool.

  (* cumulative[0] = values[0]; cumulative[i] = values[i] + cumulative[i-1] *)
  Fixpoint cum_from (f : V -> V) (acc : V) (l : list V) : list V :=
    match l with
    | [] => []
    | x :: r => let a := vadd O (f x) acc in a :: cum_from f a r
    end.
  Definition cumulative (f : V -> V) (l : list V) : list V :=
    match l with
    | [] => []
    | x :: r => f x :: cum_from f (f x) r
    end.

  (* loop-carried variables of the percentile loop *)
  Record pvars := { pv_sumsq : V; pv_mean : V; pv_sum : V; pv_bound : V }.

  Definition opt (disabled : bool) (name : str) (v : V) : list (str * V) :=
    if disabled then [] else [(name, v)].

  (* the six conditional Percentiles.Set calls at the end of one iteration *)
  Definition emit (m : pmask) (p k : Z) (s : pvars) : list (str * V) :=
    opt (d_count_pct m) (nm "count_" p) (vofZ O k)
    ++ opt (d_mean_pct m) (nm "mean_" p) (pv_mean s)
    ++ opt (d_sum_pct m) (nm "sum_" p) (pv_sum s)
    ++ opt (d_sumsq_pct m) (nm "sum_squares_" p) (pv_sumsq s)
    ++ (if 0 <? p then opt (d_upper_pct m) (nm "upper_" p) (pv_bound s)
        else opt (d_lower_pct m) (nm "lower_" p) (pv_bound s)).

  (* one iteration of  for pct, pctStruct := range a.percentThresholds  *)
  Definition pct_step (m : pmask) (vs cum cumsq : list V) (n : Z)
             (st : pvars * list (str * V)) (p : Z) : outcome (pvars * list (str * V)) :=
    let '(s, out) := st in
    if 1 <? n then
      let k := rank p n in
      if k =? 0 then Ok st
      else
        let! s1 :=
          (if 0 <? p then
             let! b := idx vs (k - 1) in
             let! sm := idx cum (k - 1) in
             let! sq := idx cumsq (k - 1) in
             Ok {| pv_sumsq := sq; pv_mean := pv_mean s; pv_sum := sm; pv_bound := b |}
           else
             let! b := idx vs (n - k) in
             let! sm := idx cum (n - 1) in
             let! sq := idx cumsq (n - 1) in
             if legacy || (k <? n) then
               let! sm' := idx cum (n - k - 1) in
               let! sq' := idx cumsq (n - k - 1) in
               Ok {| pv_sumsq := vsub O sq sq'; pv_mean := pv_mean s;
                     pv_sum := vsub O sm sm'; pv_bound := b |}
             else
               Ok {| pv_sumsq := sq; pv_mean := pv_mean s; pv_sum := sm; pv_bound := b |}) in
        let s2 := {| pv_sumsq := pv_sumsq s1; pv_mean := vdiv O (pv_sum s1) (vofZ O k);
                     pv_sum := pv_sum s1; pv_bound := pv_bound s1 |} in
        Ok (s2, out ++ emit m p k s2)
    else Ok (s, out ++ emit m p n s).

  (* for i := 0; i < n; i++ { sumOfDiffs += (v[i] - mean) * (v[i] - mean) } *)
  Definition sum_of_diffs (mean : V) (vs : list V) : V :=
    fold_left (fun acc v => vadd O acc (vmul O (vsub O v mean) (vsub O v mean))) vs (v0 O).

  Definition flush_timer (c : config V) (t : timer V) : outcome (timer V) :=
    if has_histogram_tag (t_tags t) then
      let! h := latency_histogram pf (vle_bound O) (t_tags t) (c_limit c) (t_values t) in
      Ok {| t_count := t_count t; t_sampled := t_sampled t; t_persec := t_persec t;
            t_mean := t_mean t; t_median := t_median t; t_min := t_min t; t_max := t_max t;
            t_var := t_var t; t_sum := t_sum t; t_sumsq := t_sumsq t; t_values := t_values t;
            t_pcts := t_pcts t; t_tags := t_tags t; t_hist := h |}
    else
      let n := len (t_values t) in
      if 0 <? n then
        let vs := vsort O (t_values t) in
        let! mn := idx vs 0 in
        let! mx := idx vs (n - 1) in
        let sq := fun x => vmul O x x in
        let cum := cumulative (fun x => x) vs in
        let cumsq := cumulative sq vs in
        let s0 := {| pv_sumsq := sq mn; pv_mean := mn; pv_sum := mn; pv_bound := mx |} in
        let! r := foldM (pct_step (c_mask c) vs cum cumsq n) (s0, t_pcts t) (dedupZ (c_pcts c)) in
        let! sum := idx cum (n - 1) in
        let! sumsq := idx cumsq (n - 1) in
        let mean := vdiv O sum (vofZ O n) in
        let sod := sum_of_diffs mean vs in
        let mid := n / 2 in
        let! median :=
          (if n mod 2 =? 0 then
             let! a := idx vs (mid - 1) in
             let! b := idx vs mid in
             Ok (vdiv O (vadd O a b) (vofZ O 2))
           else idx vs mid) in
        Ok {| t_count := vround O (t_sampled t); t_sampled := t_sampled t;
              t_persec := vdiv O (t_sampled t) (c_interval c);
              t_mean := mean; t_median := median; t_min := mn; t_max := mx;
              t_var := vdiv O sod (vofZ O n); t_sum := sum; t_sumsq := sumsq;
              t_values := vs; t_pcts := snd r; t_tags := t_tags t; t_hist := t_hist t |}
      else
        Ok {| t_count := 0; t_sampled := v0 O; t_persec := v0 O;
              t_mean := t_mean t; t_median := t_median t; t_min := t_min t; t_max := t_max t;
              t_var := t_var t; t_sum := t_sum t; t_sumsq := t_sumsq t; t_values := t_values t;
              t_pcts := t_pcts t; t_tags := t_tags t; t_hist := t_hist t |}.

  (* a timer as MetricMap.Receive / Merge build it and as Reset leaves it: values, the sampled
     count and tags; every other field is Go's zero value *)
  Definition fresh (xs : list V) (sampled : V) (tags : list str) (h : hist) : timer V :=
    {| t_count := 0; t_sampled := sampled; t_persec := v0 O; t_mean := v0 O; t_median := v0 O;
       t_min := v0 O; t_max := v0 O; t_var := v0 O; t_sum := v0 O; t_sumsq := v0 O;
       t_values := xs; t_pcts := []; t_tags := tags; t_hist := h |}.
End Flush.

(* ---------------------------------------------------------------------------------------- *)
(* the exact-rational carrier *)

Definition Qcleb (a b : Qc) : bool := Qle_bool a b.

Fixpoint insert_sorted (x : Qc) (l : list Qc) : list Qc :=
  match l with
  | [] => [x]
  | y :: r => if Qcleb x y then x :: l else y :: insert_sorted x r
  end.
Fixpoint qsort (l : list Qc) : list Qc :=
  match l with
  | [] => []
  | x :: r => insert_sorted x (qsort r)
  end.

Definition Qc_of_Z (z : Z) : Qc := Q2Qc (inject_Z z).
Definition Qcfloor (q : Qc) : Z := Qfloor q.
Definition qhalf : Qc := Q2Qc (1 # 2).

(* a finite rational is below +Inf, above -Inf, unordered with NaN *)
Definition qc_le_bound (v : Qc) (b : bound) : bool :=
  match b with
  | BNaN | BNInf => false
  | BPInf => true
  | BFin bits => Qcleb v (Qc_of_bits bits)
  end.

Definition qc_ops : vops Qc :=
  {| v0 := 0%Qc; vadd := Qcplus; vsub := Qcminus; vmul := Qcmult; vdiv := Qcdiv;
     vofZ := Qc_of_Z; vround := fun q => Qcfloor (q + qhalf)%Qc; vsort := qsort;
     vle_bound := qc_le_bound |}.

(* ---------------------------------------------------------------------------------------- *)
(* specification against the multiset of values *)

Definition qsum (l : list Qc) : Qc := fold_right Qcplus 0%Qc l.
Definition qsumsq (l : list Qc) : Qc := qsum (map (fun x => x * x)%Qc l).
Definition qmin (a b : Qc) : Qc := if Qcleb a b then a else b.
Definition qmax (a b : Qc) : Qc := if Qcleb a b then b else a.
Definition qnat (n : nat) : Qc := Qc_of_Z (Z.of_nat n).
Definition qmean (l : list Qc) : Qc := (qsum l / qnat (length l))%Qc.
(* population variance *)
Definition qvariance (l : list Qc) : Qc :=
  (qsum (map (fun x => (x - qmean l) * (x - qmean l)) l) / qnat (length l))%Qc.
(* the middle element of the sorted list, or the mean of the two middle elements *)
Definition qmedian (l : list Qc) : Qc :=
  let n := length l in
  qmean (firstn (if Nat.even n then 2 else 1) (skipn ((n - 1) / 2) (qsort l))).

Section Spec.
  Variable rank : Z -> Z -> Z.

  (* the values a percentile aggregates: the k lowest (p > 0) or the k highest, k = rank p n
     (k = 1 when n = 1) *)
  Definition selected (p : Z) (xs : list Qc) : list Qc :=
    let n := length xs in
    let k := if (n =? 1)%nat then 1%nat else Z.to_nat (rank p (Z.of_nat n)) in
    if 0 <? p then firstn k (qsort xs) else skipn (n - k) (qsort xs).

  (* what one percentile reports; nothing when no value is selected *)
  Definition pct_spec (m : pmask) (p : Z) (xs : list Qc) : list (str * Qc) :=
    match selected p xs with
    | [] => []
    | y :: r =>
        let sel := y :: r in
        (if d_count_pct m then [] else [(nm "count_" p, qnat (length sel))])
        ++ (if d_mean_pct m then [] else [(nm "mean_" p, qmean sel)])
        ++ (if d_sum_pct m then [] else [(nm "sum_" p, qsum sel)])
        ++ (if d_sumsq_pct m then [] else [(nm "sum_squares_" p, qsumsq sel)])
        ++ (if 0 <? p
            then (if d_upper_pct m then [] else [(nm "upper_" p, fold_right qmax y r)])
            else (if d_lower_pct m then [] else [(nm "lower_" p, fold_right qmin y r)]))
    end.

  Definition timer_spec (pf : str -> option bound) (c : config Qc)
             (xs : list Qc) (sampled : Qc) (tags : list str) (h : hist) : timer Qc :=
    if has_histogram_tag tags then
      (* buckets only, none of the summary statistics *)
      {| t_count := 0; t_sampled := sampled; t_persec := 0; t_mean := 0; t_median := 0;
         t_min := 0; t_max := 0; t_var := 0; t_sum := 0; t_sumsq := 0; t_values := xs;
         t_pcts := []; t_tags := tags; t_hist := hist_spec pf qc_le_bound tags (c_limit c) xs |}%Qc
    else
      match xs with
      | [] =>
          {| t_count := 0; t_sampled := 0; t_persec := 0; t_mean := 0; t_median := 0;
             t_min := 0; t_max := 0; t_var := 0; t_sum := 0; t_sumsq := 0; t_values := [];
             t_pcts := []; t_tags := tags; t_hist := h |}%Qc
      | x :: r =>
          {| t_count := Qcfloor (sampled + qhalf);
             t_sampled := sampled;
             t_persec := sampled / c_interval c;
             t_mean := qmean xs;
             t_median := qmedian xs;
             t_min := fold_right qmin x r;
             t_max := fold_right qmax x r;
             t_var := qvariance xs;
             t_sum := qsum xs;
             t_sumsq := qsumsq xs;
             t_values := qsort xs;
             t_pcts := flat_map (fun p => pct_spec (c_mask c) p xs) (dedupZ (c_pcts c));
             t_tags := tags;
             t_hist := h |}%Qc
      end.
End Spec.

(* sampled count of a sequence of received datapoints: SampledCount += 1.0 / m.Rate *)
Definition sampled_count (rates : list Qc) : Qc := qsum (map Qcinv rates).

(* what MetricMap.Receive accumulates for one timer series from its datapoints (value, rate) in
   arrival order: Values = append(Values, value), SampledCount += 1.0 / rate *)
Definition receive_all (pts : list (Qc * Qc)) : list Qc * Qc :=
  fold_left (fun acc vr => (fst acc ++ [fst vr], (snd acc + / snd vr)%Qc)) pts ([], 0%Qc).

(* a report up to the order of its Values (they are a multiset): Values sorted *)
Definition sorted_values (t : timer Qc) : timer Qc :=
  {| t_count := t_count t; t_sampled := t_sampled t; t_persec := t_persec t; t_mean := t_mean t;
     t_median := t_median t; t_min := t_min t; t_max := t_max t; t_var := t_var t;
     t_sum := t_sum t; t_sumsq := t_sumsq t; t_values := qsort (t_values t);
     t_pcts := t_pcts t; t_tags := t_tags t; t_hist := t_hist t |}.

(* a report with its Percentiles replaced (Percentiles.Set only ever appends: a Flush that was not
   followed by Reset leaves its block in front of the next one) *)
Definition with_pcts (t : timer Qc) (p : list (str * Qc)) : timer Qc :=
  {| t_count := t_count t; t_sampled := t_sampled t; t_persec := t_persec t; t_mean := t_mean t;
     t_median := t_median t; t_min := t_min t; t_max := t_max t; t_var := t_var t;
     t_sum := t_sum t; t_sumsq := t_sumsq t; t_values := t_values t;
     t_pcts := p; t_tags := t_tags t; t_hist := t_hist t |}.
