(* Model of metric_map.go: MetricMap with Receive, Merge, MergeMaps, Split, SplitByTags.
   Go's nested map[name]map[tagsKey]V is flattened to a std++ gmap keyed by (name, tagsKey).

   Numbers: counter values are unbounded Z (Go: int64; the theorems carry the no-overflow
   hypothesis of the property), float64 data (gauge and timer values) are bit patterns in Z and
   are never computed on; `int64(value/rate)` and `1/rate` are computed bit-exactly with
   primitive floats (Base/GoFloat.v); sampled counts are summed exactly in Qc (DESIGN 3.1). *)
From stdpp Require Import gmap.
From Coq Require Import QArith Qcanon.
From GS Require Import Base.Bytes Base.GoFloat Model.Lexer Model.Series.

Definition skey : Type := str * str.

Record counter := MkCounter { c_val : Z; c_ts : Z; c_src : str; c_tags : list str }.
Record gauge := MkGauge { g_val : Z; g_ts : Z; g_src : str; g_tags : list str }.
Record timer := MkTimer { t_vals : list Z; t_samp : Qc; t_ts : Z; t_src : str; t_tags : list str }.
Record mset := MkSet { s_vals : gset str; s_ts : Z; s_src : str; s_tags : list str }.

Record mmap := MkMap {
  counters : gmap skey counter;
  timers : gmap skey timer;
  gauges : gmap skey gauge;
  sets : gmap skey mset
}.

Definition empty_map : mmap := MkMap ∅ ∅ ∅ ∅.

Definition mm_is_empty (m : mmap) : bool :=
  bool_decide (counters m = ∅) && bool_decide (timers m = ∅)
  && bool_decide (gauges m = ∅) && bool_decide (sets m = ∅).

(* a parsed datapoint as the parser hands it to Receive *)
Record datapoint := MkDp {
  dp_name : str; dp_type : mtype; dp_value : Z; dp_strval : str; dp_rate : Z;
  dp_tags : list str; dp_src : str; dp_ts : Z
}.

Definition dp_key (d : datapoint) : skey := (dp_name d, tags_key (dp_src d) (dp_tags d)).

(* int64(m.Value / m.Rate) *)
Definition counter_increment (d : datapoint) : Z := trunc_int64_bits (fdiv_bits (dp_value d) (dp_rate d)).
(* 1.0 / m.Rate, then exact *)
Definition sample_weight (d : datapoint) : Qc := Qc_of_bits (finv_bits (dp_rate d)).

Definition receive (m : mmap) (d : datapoint) : mmap :=
  let k := dp_key d in
  let stags := sort_tags (dp_tags d) in
  match dp_type d with
  | Counter =>
      let v := counter_increment d in
      let c' := match counters m !! k with
                | Some c => MkCounter (c_val c + v) (Z.max (c_ts c) (dp_ts d)) (c_src c) (c_tags c)
                | None => MkCounter v (dp_ts d) (dp_src d) stags
                end in
      MkMap (<[k := c']> (counters m)) (timers m) (gauges m) (sets m)
  | Gauge =>
      let g' := match gauges m !! k with
                | Some g => if (g_ts g <=? dp_ts d)%Z
                            then MkGauge (dp_value d) (dp_ts d) (g_src g) (g_tags g) else g
                | None => MkGauge (dp_value d) (dp_ts d) (dp_src d) stags
                end in
      MkMap (counters m) (timers m) (<[k := g']> (gauges m)) (sets m)
  | Timer =>
      let w := sample_weight d in
      let t' := match timers m !! k with
                | Some t => MkTimer (t_vals t ++ [dp_value d]) (t_samp t + w)%Qc
                                    (Z.max (t_ts t) (dp_ts d)) (t_src t) (t_tags t)
                | None => MkTimer [dp_value d] w (dp_ts d) (dp_src d) stags
                end in
      MkMap (counters m) (<[k := t']> (timers m)) (gauges m) (sets m)
  | MSet =>
      let s' := match sets m !! k with
                | Some s => MkSet (s_vals s ∪ {[dp_strval d]}) (Z.max (s_ts s) (dp_ts d)) (s_src s) (s_tags s)
                | None => MkSet {[dp_strval d]} (dp_ts d) (dp_src d) stags
                end in
      MkMap (counters m) (timers m) (gauges m) (<[k := s']> (sets m))
  end.

Definition receive_all (m : mmap) (ds : list datapoint) : mmap := fold_left receive ds m.

(* MergeCounter / MergeGauge / MergeSet / MergeTimer on a series present on both sides *)
Definition merge_counter (into from : counter) : counter :=
  MkCounter (c_val into + c_val from) (Z.max (c_ts into) (c_ts from)) (c_src into) (c_tags into).
Definition merge_gauge (into from : gauge) : gauge :=
  if (g_ts into <? g_ts from)%Z then MkGauge (g_val from) (g_ts from) (g_src into) (g_tags into) else into.
Definition merge_timer (into from : timer) : timer :=
  MkTimer (t_vals into ++ t_vals from) (t_samp into + t_samp from)%Qc
          (Z.max (t_ts into) (t_ts from)) (t_src into) (t_tags into).
Definition merge_set (into from : mset) : mset :=
  MkSet (s_vals into ∪ s_vals from) (Z.max (s_ts into) (s_ts from)) (s_src into) (s_tags into).

(* mm.Merge(mmFrom) *)
Definition merge (into from : mmap) : mmap :=
  MkMap (union_with (λ a b, Some (merge_counter a b)) (counters into) (counters from))
        (union_with (λ a b, Some (merge_timer a b)) (timers into) (timers from))
        (union_with (λ a b, Some (merge_gauge a b)) (gauges into) (gauges from))
        (union_with (λ a b, Some (merge_set a b)) (sets into) (sets from)).

(* MergeMaps: fold into a fresh map, in order *)
Definition merge_maps (ms : list mmap) : mmap := fold_left merge ms empty_map.

(* Split(count): shard i receives exactly the series whose bucket is i *)
Definition in_shard (n i : N) (k : skey) : bool := N.eqb (bucket (fst k) (snd k) n) i.
Definition shard_of (n i : N) (m : mmap) : mmap :=
  MkMap (base.filter (λ kv, in_shard n i (fst kv) = true) (counters m))
        (base.filter (λ kv, in_shard n i (fst kv) = true) (timers m))
        (base.filter (λ kv, in_shard n i (fst kv) = true) (gauges m))
        (base.filter (λ kv, in_shard n i (fst kv) = true) (sets m)).
Definition split (n : nat) (m : mmap) : list mmap :=
  map (λ i, shard_of (N.of_nat n) (N.of_nat i) m) (seq 0 n).

(* ---------------------------------------------------------------------------------------- *)
(* canonical dumps for the correspondence: entry lists in the map's canonical order *)

Inductive entry :=
| EC (name key : str) (val ts : Z) (src : str) (tags : list str)
| EG (name key : str) (bits ts : Z) (src : str) (tags : list str)
| ET (name key : str) (vals : list Z) (samp_num : Z) (samp_den : positive) (ts : Z) (src : str) (tags : list str)
| ES (name key : str) (members : list str) (ts : Z) (src : str) (tags : list str).

Definition counter_entries (m : mmap) : list entry :=
  (λ '((n, k), c), EC n k (c_val c) (c_ts c) (c_src c) (c_tags c)) <$> map_to_list (counters m).
Definition gauge_entries (m : mmap) : list entry :=
  (λ '((n, k), g), EG n k (g_val g) (g_ts g) (g_src g) (g_tags g)) <$> map_to_list (gauges m).
Definition timer_entries (m : mmap) : list entry :=
  (λ '((n, k), t), ET n k (t_vals t) (Qnum (this (t_samp t))) (Qden (this (t_samp t))) (t_ts t) (t_src t) (t_tags t))
    <$> map_to_list (timers m).
Definition set_entries (m : mmap) : list entry :=
  (λ '((n, k), s), ES n k (elements (s_vals s)) (s_ts s) (s_src s) (s_tags s)) <$> map_to_list (sets m).
Definition entries (m : mmap) : list entry :=
  counter_entries m ++ gauge_entries m ++ timer_entries m ++ set_entries m.

(* building a map from a dump (what the harness observed) *)
Definition add_entry (m : mmap) (e : entry) : mmap :=
  match e with
  | EC n k v ts src tags => MkMap (<[(n, k) := MkCounter v ts src tags]> (counters m)) (timers m) (gauges m) (sets m)
  | EG n k v ts src tags => MkMap (counters m) (timers m) (<[(n, k) := MkGauge v ts src tags]> (gauges m)) (sets m)
  | ET n k vs sn sd ts src tags =>
      MkMap (counters m) (<[(n, k) := MkTimer vs (Q2Qc (Qmake sn sd)) ts src tags]> (timers m)) (gauges m) (sets m)
  | ES n k ms ts src tags => MkMap (counters m) (timers m) (gauges m) (<[(n, k) := MkSet (list_to_set ms) ts src tags]> (sets m))
  end.
Definition map_of_entries (es : list entry) : mmap := fold_left add_entry es empty_map.
