(* Model of the standalone ingestion pipeline (C01): DatagramParser.Run -> BackendHandler.
   DispatchMetricMap -> worker.work -> MetricFlusher.flushData, as a labelled transition system
   whose labels are the atomic actions of the Go code.  Definitions only.

   pkg/statsd/parser.go  Run: the metrics of one batch of datagrams are folded through
       MetricMap.Receive into one fresh map, which is dispatched iff the batch had a metric.
   pkg/statsd/handler_backend.go  DispatchMetricMap: maps := mm.Split(numWorkers); every
       NON-EMPTY split is sent on the channel of its worker (`w.metricMapQueue <- mmSplit`,
       blocking; the ctx.Done arm is shutdown and not modelled).
   pkg/statsd/worker.go  work(): one goroutine per worker selects between its map queue
       (-> aggr.ReceiveMap = metricMap.Merge) and its process channel (-> the command's function
       with its own aggregator).  Nothing else touches the aggregator: both arms are atomic with
       respect to the shard.
   pkg/statsd/flusher.go  flushData: ONE process command per worker whose function does
       aggr.Flush(interval); aggr.Process(send to every backend); aggr.Reset(), then waits for
       all workers.  The backend sees the aggregator's own map (after Flush, before Reset).
   pkg/statsd/aggregator.go  Flush (in place: derived statistics, and SampledCount = 0 for a
       timer without values), Process, Reset (expired series deleted, the others zeroed:
       counter value 0, timer values[:0] / sampled count 0, fresh set; gauges kept).

   Labels:  Parse ds | Enq j | Merge i | Tick f | FlushShard i now.
   Queue capacities, the number of parser goroutines and the order in which DispatchMetricMap /
   Process walk over the workers only restrict which labels are enabled; the model drops those
   restrictions (any held split may be enqueued next, the pending shards of a flush may execute
   in any order), so it has more interleavings than any configuration and a safety theorem
   about it covers all of them.

   Not modelled: derived statistics written by Flush (per-second rates, percentiles, the
   Histogram bucket counts of gsd_histogram timers, the in-place sort of timer values: values
   are a multiset here), int64 wrap-around of counter sums (Z here), shutdown.  Which branch
   Flush / Reset take for a histogram-tagged timer IS modelled (flush_timer, agg_reset). *)
From stdpp Require Import gmap gmultiset.
From Coq Require Import QArith Qcanon.
From GS Require Import Base.Bytes Base.LTS Model.Lexer Model.Series Model.MetricMap Model.Content.

(* ---------------------------------------------------------------------------------------- *)
(* What a map / a datapoint means for one series: the content of Model/Content.v read at a key,
   the unit where the series is absent. *)

Definition content_at (x : cmap) (k : skey) : content := default content_unit (x !! k).
Definition cnt (m : mmap) (k : skey) : content := content_at (abs m) k.

(* one parsed sample: int64(value/rate) for a counter, the value and 1/rate for a timer, the
   member for a set (Content.content_of_dp), at its own series only *)
Definition dp_cnt (d : datapoint) (k : skey) : content :=
  if decide (dp_key d = k) then content_of_dp d else content_unit.

Definition csum (l : list content) : content := foldr content_op content_unit l.
(* total content of a list of things at series k *)
Definition total {A} (f : A → skey → content) (l : list A) (k : skey) : content :=
  csum ((λ x, f x k) <$> l).

(* a series is identified by metric type, name and tags key *)
Definition holds (m : mmap) (ty : mtype) (k : skey) : Prop :=
  match ty with
  | Counter => is_Some (counters m !! k)
  | Timer => is_Some (timers m !! k)
  | Gauge => is_Some (gauges m !! k)
  | MSet => is_Some (sets m !! k)
  end.
Definition holdsb (m : mmap) (ty : mtype) (k : skey) : bool :=
  match ty with
  | Counter => bool_decide (is_Some (counters m !! k))
  | Timer => bool_decide (is_Some (timers m !! k))
  | Gauge => bool_decide (is_Some (gauges m !! k))
  | MSet => bool_decide (is_Some (sets m !! k))
  end.

(* the datapoint belongs to series (ty, k) *)
Definition dp_of_series (ty : mtype) (k : skey) (d : datapoint) : Prop :=
  dp_type d = ty ∧ dp_key d = k.

(* ---------------------------------------------------------------------------------------- *)
(* aggregator.go *)

Record config := MkCfg {
  cfg_shards : nat;            (* number of workers / aggregators *)
  cfg_exp_counter : Z;         (* expiry intervals in ns; 0 = never *)
  cfg_exp_timer : Z;
  cfg_exp_gauge : Z;
  cfg_exp_set : Z
}.

(* isExpired(interval, now, ts) *)
Definition is_expired (interval now ts : Z) : bool :=
  negb (interval =? 0)%Z && (interval <? now - ts)%Z.

(* latency_histogram.go hasHistogramTag: some stored tag starts with "gsd_histogram:" *)
Fixpoint str_has_prefix (p s : str) : bool :=
  match p, s with
  | [], _ => true
  | x :: p', y :: s' => N.eqb x y && str_has_prefix p' s'
  | _ :: _, [] => false
  end.
Definition histogram_prefix : str := [103; 115; 100; 95; 104; 105; 115; 116; 111; 103; 114; 97; 109; 58]%N.
Definition has_histogram_tag (tags : list str) : bool := existsb (str_has_prefix histogram_prefix) tags.

(* Flush, as far as the reported content goes.  A histogram timer (hasHistogramTag) only gets
   its Histogram field filled: Values and SampledCount are reported as they are.  Any other
   timer without values is reported with Count = 0, SampledCount = 0. *)
Definition flush_timer (t : timer) : timer :=
  if has_histogram_tag (t_tags t) then t
  else match t_vals t with
       | [] => MkTimer [] 0%Qc (t_ts t) (t_src t) (t_tags t)
       | _ => t
       end.
Definition agg_flush (m : mmap) : mmap :=
  MkMap (counters m) (flush_timer <$> timers m) (gauges m) (sets m).

Definition live {V} (ts : V → Z) (interval now : Z) (x : gmap skey V) : gmap skey V :=
  base.filter (λ kv, is_expired interval now (ts kv.2) = false) x.

(* Reset at clock [now].  Both timer branches of the Go code (histogram tag or not) put back a
   timer with Values[:0] and SampledCount 0; they differ only in the Histogram field (an empty
   histogram vs none), which the model does not carry. *)
Definition agg_reset (c : config) (now : Z) (m : mmap) : mmap :=
  MkMap ((λ x, MkCounter 0 (c_ts x) (c_src x) (c_tags x)) <$> live c_ts (cfg_exp_counter c) now (counters m))
        ((λ x, MkTimer [] 0%Qc (t_ts x) (t_src x) (t_tags x)) <$> live t_ts (cfg_exp_timer c) now (timers m))
        (live g_ts (cfg_exp_gauge c) now (gauges m))
        ((λ x, MkSet ∅ (s_ts x) (s_src x) (s_tags x)) <$> live s_ts (cfg_exp_set c) now (sets m)).

(* ---------------------------------------------------------------------------------------- *)
(* the transition system *)

Record state := MkState {
  st_input : list datapoint;              (* ghost: every datapoint parsed so far, in order *)
  st_inflight : list (nat * mmap);        (* (shard, split) held by a parser, not yet queued *)
  st_queue : list (list mmap);            (* per shard: the map channel, head first *)
  st_aggr : list mmap;                    (* per shard: MetricAggregator.metricMap *)
  st_nflush : nat;                        (* number of flushes started *)
  st_flushing : option (nat * list nat);  (* flush id, shards whose command has not run yet *)
  st_out : list (nat * nat * mmap)        (* (flush id, shard, map handed to the backends) *)
}.

Inductive label :=
| Parse (ds : list datapoint)   (* a parser: batch -> map -> Split; holds the non-empty splits *)
| Enq (j : nat)                 (* the j-th held split goes into the queue of its worker *)
| Merge (i : nat)               (* worker i: mm := <-queue; aggr.ReceiveMap(mm) *)
| Tick (f : nat)                (* flusher: flushData starts flush f *)
| FlushShard (i : nat) (now : Z). (* worker i runs the process command: Flush; Process; Reset *)

Definition init (c : config) : state :=
  MkState [] [] (replicate (cfg_shards c) []) (replicate (cfg_shards c) empty_map) 0 None [].

Definition nonempty_splits (n : nat) (m : mmap) : list (nat * mmap) :=
  base.filter (λ p, mm_is_empty p.2 = false) (imap (λ i s, (i, s)) (split n m)).

Definition flush_idle (fl : option (nat * list nat)) : bool :=
  match fl with None => true | Some (_, []) => true | _ => false end.

Definition step (c : config) (s : state) (l : label) : option state :=
  match l with
  | Parse ds =>
      let parts := nonempty_splits (cfg_shards c) (receive_all empty_map ds) in
      Some (MkState (st_input s ++ ds) (st_inflight s ++ parts) (st_queue s) (st_aggr s)
                    (st_nflush s) (st_flushing s) (st_out s))
  | Enq j =>
      match st_inflight s !! j with
      | Some (i, m) =>
          match st_queue s !! i with
          | Some q => Some (MkState (st_input s) (delete j (st_inflight s)) (<[i := q ++ [m]]> (st_queue s))
                                    (st_aggr s) (st_nflush s) (st_flushing s) (st_out s))
          | None => None
          end
      | None => None
      end
  | Merge i =>
      match st_queue s !! i, st_aggr s !! i with
      | Some (m :: q), Some a =>
          Some (MkState (st_input s) (st_inflight s) (<[i := q]> (st_queue s)) (<[i := merge a m]> (st_aggr s))
                        (st_nflush s) (st_flushing s) (st_out s))
      | _, _ => None
      end
  | Tick f =>
      if bool_decide (f = st_nflush s) && flush_idle (st_flushing s)
      then Some (MkState (st_input s) (st_inflight s) (st_queue s) (st_aggr s) (S f)
                         (Some (f, seq 0 (cfg_shards c))) (st_out s))
      else None
  | FlushShard i now =>
      match st_flushing s, st_aggr s !! i with
      | Some (f, pend), Some a =>
          if bool_decide (i ∈ pend)
          then let r := agg_flush a in
               Some (MkState (st_input s) (st_inflight s) (st_queue s) (<[i := agg_reset c now r]> (st_aggr s))
                             (st_nflush s) (Some (f, base.filter (λ x, x ≠ i) pend)) (st_out s ++ [(f, i, r)]))
          else None
      | _, _ => None
      end
  end.

(* ---------------------------------------------------------------------------------------- *)
(* specification vocabulary *)

(* content of everything parsed so far *)
Definition input_total (s : state) : skey → content := total dp_cnt (st_input s).
Definition out_total (s : state) : skey → content := total cnt ((λ x, x.2) <$> st_out s).
Definition aggr_total (s : state) : skey → content := total cnt (st_aggr s).
Definition queue_total (s : state) : skey → content := total cnt (concat (st_queue s)).
Definition inflight_total (s : state) : skey → content := total cnt ((λ x, x.2) <$> st_inflight s).

(* nothing between the parsers and the aggregators *)
Definition quiescent (s : state) : Prop :=
  st_inflight s = [] ∧ ∀ q, q ∈ st_queue s → q = [].

Definition is_flush_label (l : label) : Prop :=
  match l with Tick _ | FlushShard _ _ => True | _ => False end.
Definition is_shard_label (l : label) : Prop :=
  match l with FlushShard _ _ => True | _ => False end.

(* the label sequence contains a complete flush: flush f starts somewhere in it and nothing is
   parsed; that every shard has executed it is read off the final state *)
Definition flush_follows (f : nat) (ls : list label) : Prop :=
  ∃ pre post, ls = pre ++ Tick f :: post ∧ Forall is_flush_label pre ∧ Forall is_shard_label post.
Definition flush_complete (f : nat) (s : state) : Prop := st_flushing s = Some (f, []).

(* shard of a series *)
Definition shard_of_key (c : config) (k : skey) : nat :=
  N.to_nat (bucket k.1 k.2 (N.of_nat (cfg_shards c))).

(* ---- the property's own words, component by component ---- *)

(* the samples of series (ty, k) among the parsed datapoints, in order *)
Definition samples_of (ty : mtype) (k : skey) (ds : list datapoint) : list datapoint :=
  List.filter (λ d, mtype_eqb (dp_type d) ty && bool_decide (dp_key d = k)) ds.

Definition msum (l : list (gmultiset Z)) : gmultiset Z := foldr (⊎) ∅ l.

(* what a map reports for series k, per metric type (nothing if absent) *)
Definition counter_at (m : mmap) (k : skey) : Z := from_option c_val 0%Z (counters m !! k).
Definition timer_values_at (m : mmap) (k : skey) : gmultiset Z :=
  from_option (λ t, list_to_set_disj (t_vals t)) ∅ (timers m !! k).
Definition sampled_at (m : mmap) (k : skey) : Qc := from_option t_samp 0%Qc (timers m !! k).
Definition members_at (m : mmap) (k : skey) : gset str := from_option s_vals ∅ (sets m !! k).
