(* C15: metric_consolidator.go as a labelled transition system.

   The Go object: a buffered channel `maps` of capacity k that circulates k *MetricMap "slots";
   any number of dispatcher goroutines in ReceiveMetricMap (`mmTo := <-mc.maps; mmTo.Merge(mm);
   mc.maps <- mmTo`); one flusher at a time in Flush (`mc.sink <- mc.Drain(); mc.Fill()`), whether
   it is called by Run's ticker, by Run's ctx.Done arm or by the flush coordinator.  NewMetricConsolidator
   ends with Fill(), so the initial channel holds k empty maps.

   One label = one channel operation of that code:
     Take d b    dispatcher d (with batch b) receives a slot from the channel
     Put d       d has merged b into the slot it holds and sends it back (ReceiveMetricMap returns
                 after this send)
     DrainStart  Flush -> Drain entered (mms allocated, i = 0)
     DrainTake   one `mm := <-mc.maps` of Drain's loop
     DrainEmit   the loop has run k times; `mc.sink <- mms` completes (rendezvous with the sink's reader)
     FillOne     one `mc.maps <- NewMetricMap()` of Fill's loop; after the k-th the flusher is idle

   A blocked channel operation is a label that is not enabled ([step] = None).  The sends of Put and
   FillOne are guarded by `length chan < k` exactly as a send on a full channel blocks; that they are
   in fact never blocked is a theorem (Proofs/Consolidator.v).

   The carrier M of a slot's contents is a parameter (instances: Model.MetricMap.mmap with merge; a
   bag of datapoint ids with ++).  Ghost state, not in the Go code: every Take numbers its batch; a
   slot carries the numbers of the batches merged into it; [taken]/[puts]/[pute] remember the batch and how
   many DrainEmits / DrainStarts had happened at its Take / Put.

   Not modelled: DrainWithContext's ctx.Done arm (Flush uses context.Background()); two concurrent
   calls of Flush (documented "not thread-safe"). *)
From Coq Require Import List Arith Bool.
Import ListNotations.

Section Consolidator.
  Context {M : Type}.
  Variable mempty : M.
  Variable mmerge : M -> M -> M.   (* into.Merge(from) *)
  Variable k : nat.                (* cap(mc.maps) *)

  Record slot := Slot { s_map : M; s_ids : list nat }.

  Inductive fphase :=
  | Idle
  | Draining (got : list slot)     (* mms so far *)
  | Filling (left : nat).          (* sends of Fill still to do, > 0 *)

  Record holding := Hold { h_slot : slot; h_id : nat; h_batch : M }.

  Record state := St {
    chan : list slot;                  (* mc.maps, head = next to be received *)
    held : list (nat * holding);       (* dispatchers between their receive and their send *)
    fl : fphase;
    flushes : list (list slot);        (* what went into the sink, oldest first *)
    started : nat;                     (* ghost: DrainStarts so far *)
    next_id : nat;                     (* ghost *)
    taken : list (nat * (M * nat));    (* ghost: batch id |-> (batch, DrainEmits before its Take) *)
    puts : list (nat * nat);           (* ghost: batch id |-> DrainStarts before its Put *)
    pute : list (nat * nat)            (* ghost: batch id |-> DrainEmits before its Put *)
  }.

  Definition init : state :=
    St (repeat (Slot mempty []) k) [] Idle [] 0 0 [] [] [].

  Inductive label :=
  | Take (d : nat) (b : M) | Put (d : nat)
  | DrainStart | DrainTake | DrainEmit | FillOne.

  Fixpoint lookup {A} (d : nat) (l : list (nat * A)) : option A :=
    match l with
    | [] => None
    | (d', a) :: r => if Nat.eqb d d' then Some a else lookup d r
    end.
  Fixpoint remove_key {A} (d : nat) (l : list (nat * A)) : list (nat * A) :=
    match l with
    | [] => []
    | (d', a) :: r => if Nat.eqb d d' then r else (d', a) :: remove_key d r
    end.

  Definition after_fill (n : nat) : fphase := match n with 0 => Idle | S _ => Filling n end.

  Definition step (s : state) (l : label) : option state :=
    match l with
    | Take d b =>
        match lookup d (held s), chan s with
        | None, sl :: r =>
            Some (St r ((d, Hold sl (next_id s) b) :: held s) (fl s) (flushes s) (started s)
                     (S (next_id s)) ((next_id s, (b, length (flushes s))) :: taken s) (puts s) (pute s))
        | _, _ => None
        end
    | Put d =>
        match lookup d (held s) with
        | Some h =>
            if length (chan s) <? k then
              Some (St (chan s ++ [Slot (mmerge (s_map (h_slot h)) (h_batch h)) (h_id h :: s_ids (h_slot h))])
                       (remove_key d (held s)) (fl s) (flushes s) (started s) (next_id s) (taken s)
                       ((h_id h, started s) :: puts s) ((h_id h, length (flushes s)) :: pute s))
            else None
        | None => None
        end
    | DrainStart =>
        match fl s with
        | Idle => Some (St (chan s) (held s) (Draining []) (flushes s) (S (started s)) (next_id s) (taken s) (puts s) (pute s))
        | _ => None
        end
    | DrainTake =>
        match fl s, chan s with
        | Draining got, sl :: r =>
            if length got <? k
            then Some (St r (held s) (Draining (got ++ [sl])) (flushes s) (started s) (next_id s) (taken s) (puts s) (pute s))
            else None
        | _, _ => None
        end
    | DrainEmit =>
        match fl s with
        | Draining got =>
            if length got =? k
            then Some (St (chan s) (held s) (after_fill k) (flushes s ++ [got]) (started s) (next_id s) (taken s) (puts s) (pute s))
            else None
        | _ => None
        end
    | FillOne =>
        match fl s with
        | Filling (S n) =>
            if length (chan s) <? k
            then Some (St (chan s ++ [Slot mempty []]) (held s) (after_fill n) (flushes s) (started s) (next_id s) (taken s) (puts s) (pute s))
            else None
        | _ => None
        end
    end.

  (* ---- derived notions used by the statements ---- *)

  (* slots the flusher has collected or still owes to the channel *)
  Definition owed (p : fphase) : nat :=
    match p with Idle => 0 | Draining got => length got | Filling n => n end.
  Definition got_of (p : fphase) : list slot := match p with Draining got => got | _ => [] end.

  (* every slot that is not yet in the sink *)
  Definition resident (s : state) : list slot :=
    chan s ++ map (fun dh => h_slot (snd dh)) (held s) ++ got_of (fl s).
  Definition ids_of (l : list slot) : list nat := concat (map s_ids l).
  (* batch ids of the f-th flush, f = 1, 2, ... *)
  Definition flush_ids (s : state) (f : nat) : list nat :=
    match f with 0 => [] | S f' => ids_of (nth f' (flushes s) []) end.
  Definition flushed_ids (s : state) : list nat := concat (map ids_of (flushes s)).
  Definition pending_ids (s : state) : list nat := map (fun dh => h_id (snd dh)) (held s).
  (* ghost stamps of batch i *)
  Definition put_stamp (s : state) (i : nat) : option nat := lookup i (puts s).
  Definition put_emitted (s : state) (i : nat) : option nat := lookup i (pute s).
  Definition take_stamp (s : state) (i : nat) : option nat :=
    match lookup i (taken s) with Some (_, t) => Some t | None => None end.
  Definition batch_of (s : state) (i : nat) : option M :=
    match lookup i (taken s) with Some (b, _) => Some b | None => None end.
End Consolidator.

Arguments Slot {M}.
Arguments Idle {M}.
Arguments Take {M}.
Arguments Put {M}.
Arguments DrainStart {M}.
Arguments DrainTake {M}.
Arguments DrainEmit {M}.
Arguments FillOne {M}.
