(* C16: the retry loops behind "post returned e" of Model/Collector.v:
     pkg/backends/datadog/datadog.go   Client.post
     pkg/backends/influxdb/influxdb.go Client.post
     pkg/backends/newrelic/newrelic.go Client.post          (incl. the Retry-After handling)
     pkg/backends/otlp/backend.go      Backend.postMetrics  (max_retries, partial success)
   as ONE function over three scripts, each indexed by the attempt number i = 0, 1, ...:
     srv i : what the i-th attempt got (the transport's answer),
     bo i  : what the i-th call of backoff.NextBackOff returns, None = backoff.Stop (every failed
             attempt calls it exactly once, so call i follows attempt i),
     cx i  : whether, in the select after attempt i, the ctx.Done() arm is taken instead of timer.C.
   cenkalti/backoff (interval arithmetic, the decision elapsed > MaxElapsedTime => Stop), net/http and
   the clock are not modelled: they are these scripts.  Durations are Z (nanoseconds).
   The loop is structurally recursive on [fuel]; running out of fuel is the explicit outcome
   [OutOfFuel], which the theorems exclude (or, for the defective variant, establish). *)
From Coq Require Import List ZArith Bool Arith.
Import ListNotations.
Local Open Scope Z_scope.

(* what one attempt got *)
Inductive answer :=
| A2xx                      (* status 200..204 (otlp: 2xx), body without complaints *)
| APartial                  (* otlp only: a parsable body reporting rejected data points (partial success) *)
| ABad                      (* any other status, or a transport error (reset, refused, timeout, ctx) *)
| A429 (ra : option Z).     (* 429; ra = Some k: header Retry-After: k parsed as an integer (k in ns) *)

Inductive backend :=
| Datadog
| Influxdb
| Newrelic (guard : bool) (window : Z)
    (* window = maxRequestElapsedTime; guard = the conjunct `next != backoff.Stop` of
       `if next != backoff.Stop && errors.As(err, &retryAfterErr)`: true in the code, false = the
       variant without it *)
| Otlp (max_retries : nat).

Inductive verdict := VSuccess | VFatal | VRetry (ra : option Z).

(* `err == nil` / which error the attempt produced *)
Definition classify (b : backend) (a : answer) : verdict :=
  match b, a with
  | _, A2xx => VSuccess
  | Otlp _, APartial => VFatal            (* dropped > 0: "If partial data points were dropped, it shouldn't retry" *)
  | _, APartial => VSuccess               (* the others look at the status only *)
  | _, ABad => VRetry None
  | Newrelic _ _, A429 (Some k) => if 0 <? k then VRetry (Some k) else VRetry None   (* &RetryAfterError{...} only if > 0 *)
  | _, A429 _ => VRetry None
  end.

(* `next` after the lines between b.NextBackOff() and `if next == backoff.Stop`; backoff.Stop = -1 *)
Definition adjust (b : backend) (next : option Z) (ra : option Z) : option Z :=
  match b, ra with
  | Newrelic guard window, Some k =>
      let cap d := if 0 <? window then Z.min d window else d in
      match next with
      | Some n => Some (cap (Z.max n k))
      | None => if guard then None else Some (cap (Z.max (-1) k))
      end
  | _, _ => next
  end.

(* otlp: `if next == backoff.Stop || retries >= c.maxRetries`; retries = number of sleeps so far = i *)
Definition exhausted (b : backend) (i : nat) : bool :=
  match b with Otlp m => (m <=? i)%nat | _ => false end.

Inductive result := RNil | RErr | RCtx.    (* nil / the (wrapped) error of the last attempt / ctx.Err() *)

Inductive outcome :=
| Done (r : result) (attempts : nat) (sleeps : list Z)   (* sleeps: the durations of the timers created *)
| OutOfFuel.

Fixpoint loop (b : backend) (srv : nat -> answer) (bo : nat -> option Z) (cx : nat -> bool)
              (fuel : nat) (i : nat) (sl : list Z) : outcome :=
  match fuel with
  | O => OutOfFuel
  | S f =>
      match classify b (srv i) with
      | VSuccess => Done RNil (S i) sl
      | VFatal => Done RErr (S i) sl
      | VRetry ra =>
          match adjust b (bo i) ra with
          | None => Done RErr (S i) sl
          | Some d =>
              if exhausted b i then Done RErr (S i) sl
              else if cx i then Done RCtx (S i) (sl ++ [d])
              else loop b srv bo cx f (S i) (sl ++ [d])
          end
      end
  end.

Definition post (b : backend) srv bo cx (fuel : nat) : outcome := loop b srv bo cx fuel 0%nat [].

(* the code as it is: every backend except newrelic without the guard *)
Definition as_written (b : backend) : Prop :=
  match b with Newrelic guard _ => guard = true | _ => True end.

Definition is_success (b : backend) (a : answer) : bool :=
  match classify b a with VSuccess => true | _ => false end.
Definition is_retry (b : backend) (a : answer) : bool :=
  match classify b a with VRetry _ => true | _ => false end.

(* attempt i ends in a wait: a retryable answer, NextBackOff (after the Retry-After lines) is not
   Stop, otlp's max_retries not reached *)
Definition waits (b : backend) (srv : nat -> answer) (bo : nat -> option Z) (i : nat) : bool :=
  match classify b (srv i) with
  | VRetry ra => match adjust b (bo i) ra with Some _ => negb (exhausted b i) | None => false end
  | _ => false
  end.


(* ---------------------------------------------------------------------------------------- *)
(* Composition with the collector of Model/Collector.v: the result a worker hands to the collector is
   no longer a free label argument but what its post loop returns on the worker's own scripts. *)
From GS Require Import Model.Collector.

Definition cerr_of (r : result) : cerr :=
  match r with RNil => ENil | RErr => EPost | RCtx => ECtx end.

Record wenv := WEnv { w_b : backend; w_srv : nat -> answer; w_bo : nat -> option Z; w_cx : nat -> bool }.

Inductive llabel :=
| LBase (l : clabel)               (* any collector label except WPost *)
| LPost (i : nat) (fuel : nat).    (* worker i's post returns: its loop finished within [fuel] attempts *)

Definition lower (env : nat -> wenv) (l : llabel) : option clabel :=
  match l with
  | LBase (WPost _ _) => None
  | LBase l' => Some l'
  | LPost i fuel =>
      match post (w_b (env i)) (w_srv (env i)) (w_bo (env i)) (w_cx (env i)) fuel with
      | Done r _ _ => Some (WPost i (cerr_of r))
      | OutOfFuel => None
      end
  end.

Definition cstepL (env : nat -> wenv) (s : cstate) (l : llabel) : option cstate :=
  match lower env l with Some l' => cstep s l' | None => None end.
