(* The documented statsd / dogstatsd line grammar as a *generator*: structured specs, the line
   each spec renders to, and the result the documentation promises for that line.  These are
   the specification side of property C02; the lexer model itself is Model/Lexer.v.
   Definitions only.  (README "Sending metrics"; lexer.go comments on the event form.)

     metric:  <raw name>:<value>|<type>{|@<rate> | |#<tag>,<tag>,... | |<other field>}*
     event:   _e{<len title>,<len text>}:<title>|<text>{|d:<n> | |h:.. | |k:.. | |p:low|normal
                                           | |s:.. | |t:info|warning|error|success | |#tags | |other}* *)
From GS Require Import Base.Bytes Model.Lexer.
Local Open Scope N_scope.

(* ---------------------------------------------------------------------------------------- *)
(* metric lines *)

(* the five type tokens *)
Inductive tytok := TokC | TokG | TokMs | TokH | TokS.

Definition tytok_str (t : tytok) : str :=
  match t with
  | TokC => [c_c] | TokG => [c_g] | TokMs => [c_m; c_s] | TokH => [c_h] | TokS => [c_s]
  end.

Definition tytok_type (t : tytok) : mtype :=
  match t with TokC => Counter | TokG => Gauge | TokMs | TokH => Timer | TokS => MSet end.

(* one optional '|'-separated field *)
Inductive attr :=
| ARate (s : str)            (* @s *)
| ATags (ts : list str)      (* #t1,t2,... *)
| AOther (s : str).          (* anything else: ignored *)

Definition render_attr (a : attr) : str :=
  match a with
  | ARate s => c_at :: s
  | ATags ts => c_hash :: join c_comma ts
  | AOther s => s
  end.

Fixpoint render_attrs (l : list attr) : str :=
  match l with
  | [] => []
  | a :: r => c_pipe :: render_attr a ++ render_attrs r
  end.

Definition render_metric (raw val : str) (ty : tytok) (attrs : list attr) : str :=
  raw ++ c_colon :: val ++ c_pipe :: tytok_str ty ++ render_attrs attrs.

(* side conditions under which the pieces are what the rendered line's separators delimit *)
Definition wf_raw_name (raw : str) : Prop :=
  ~ In c_colon raw /\ ~ In c_nul raw /\ (forall r, raw <> c_us :: r).
Definition wf_value (val : str) : Prop := ~ In c_pipe val /\ ~ In c_nul val.
Definition wf_tag (t : str) : Prop := ~ In c_comma t /\ ~ In c_pipe t /\ ~ In c_nul t.
Definition wf_attr (a : attr) : Prop :=
  match a with
  | ARate s => ~ In c_pipe s
  | ATags ts => Forall wf_tag ts
  | AOther s => ~ In c_pipe s /\ exists b r, s = b :: r /\ b <> c_at /\ b <> c_hash
      (* non-empty: an EMPTY field makes the lexer skip the field after it, see
         [swallow] in Proofs/LexerGrammar.v *)
  end.

Definition nonempty (s : str) : bool := match s with [] => false | _ => true end.

(* tags: the non-empty tags of all '#' fields, in order of appearance *)
Fixpoint attrs_tags (l : list attr) : list str :=
  match l with
  | [] => []
  | ATags ts :: r => filter nonempty ts ++ attrs_tags r
  | _ :: r => attrs_tags r
  end.

(* sample rate: every '@' field is converted when it is met (a field that does not convert
   rejects the line even when a later one would); the last one wins; [cur] is the default *)
Inductive rate_result := RateOk (bits : Z) | RateBad (e : reject).

Section WithOracle.
  Variable pf : str -> pfres.

  Fixpoint attrs_rate (cur : Z) (l : list attr) : rate_result :=
    match l with
    | [] => RateOk cur
    | ARate s :: r =>
        match pf s with
        | PFVal v => attrs_rate v r
        | PFErr => RateBad EParseFloat
        | PFMiss => RateBad EOracleMiss
        end
    | _ :: r => attrs_rate cur r
    end.

  (* what the documentation promises for [render_metric raw val ty attrs] under namespace [ns];
     [finish_metric] (Model/Lexer.v) is the numeric conversion at the end of Lexer.Run *)
  Definition expected_metric (ns raw val : str) (ty : tytok) (attrs : list attr) : outcome :=
    match normalise raw with
    | [] => OReject EEmptyKey
    | key =>
        match attrs_rate f64_one attrs with
        | RateBad e => OReject e
        | RateOk rate =>
            finish_metric pf (with_ns ns key) (tytok_type ty) val rate (attrs_tags attrs)
        end
    end.
End WithOracle.

(* the strings of the '@' fields, in order *)
Fixpoint rate_strings (l : list attr) : list str :=
  match l with
  | [] => []
  | ARate s :: r => s :: rate_strings r
  | _ :: r => rate_strings r
  end.

(* ---------------------------------------------------------------------------------------- *)
(* normalisation of names, as a specification *)

Definition allowed_byte (b : N) : bool :=
  is_alnum b || (b =? c_dot) || (b =? c_dash) || (b =? c_us).

Definition norm_spec_byte (b : N) : list N :=
  if b =? c_slash then [c_dash]
  else if (b =? c_space) || (b =? c_tab) then [c_us]
  else if allowed_byte b then [b]
  else [].

(* ---------------------------------------------------------------------------------------- *)
(* event lines *)

(* decimal numerals *)
Definition digit_step (v b : N) : N := v * 10 + (b - c_0).
Definition digit_value (ds : str) : N := fold_left digit_step ds 0.
Definition is_number (ds : str) : Prop := ds <> [] /\ Forall (fun b => is_digit b = true) ds.

(* the usual decimal rendering (no leading zeros); fuel = number of binary digits + 1, always
   enough: Proofs/LexerGrammar.v [digit_value_dec] *)
Fixpoint dec_fuel (fuel : nat) (n : N) (acc : str) : str :=
  match fuel with
  | O => acc
  | S f =>
      if n <? 10 then (c_0 + n) :: acc
      else dec_fuel f (n / 10) ((c_0 + n mod 10) :: acc)
  end.
Definition dec (n : N) : str := dec_fuel (S (N.to_nat (N.size n))) n [].

Inductive alert := AInfo | AWarning | AError | ASuccess.
Definition alert_str (a : alert) : str :=
  match a with AInfo => str_info | AWarning => str_warning | AError => str_error | ASuccess => str_success end.
Definition alert_code (a : alert) : N :=
  match a with AInfo => 0 | AWarning => 1 | AError => 2 | ASuccess => 3 end.

Inductive eattr :=
| EADate (ds : str)          (* d:<decimal> *)
| EAHost (s : str)           (* h:s *)
| EAKey (s : str)            (* k:s *)
| EAPri (low : bool)         (* p:low | p:normal *)
| EASrc (s : str)            (* s:s *)
| EAAlert (a : alert)        (* t:info|warning|error|success *)
| EATags (ts : list str)     (* #t1,t2 *)
| EAOther (s : str).         (* ignored *)

Definition render_eattr (a : eattr) : str :=
  match a with
  | EADate ds => c_d :: c_colon :: ds
  | EAHost s => c_h :: c_colon :: s
  | EAKey s => c_k :: c_colon :: s
  | EAPri low => c_p :: c_colon :: (if low then str_low else str_normal)
  | EASrc s => c_s :: c_colon :: s
  | EAAlert a => c_t :: c_colon :: alert_str a
  | EATags ts => c_hash :: join c_comma ts
  | EAOther s => s
  end.

Fixpoint render_eattrs (l : list eattr) : str :=
  match l with
  | [] => []
  | a :: r => c_pipe :: render_eattr a ++ render_eattrs r
  end.

(* [dt], [dx]: the numerals written for the two lengths *)
Definition render_event_digits (dt dx title text : str) (attrs : list eattr) : str :=
  c_us :: c_e :: c_lbrace :: dt ++ c_comma :: dx ++ c_rbrace :: c_colon ::
  title ++ c_pipe :: text ++ render_eattrs attrs.

Definition render_event (title text : str) (attrs : list eattr) : str :=
  render_event_digits (dec (N.of_nat (length title))) (dec (N.of_nat (length text))) title text attrs.

Definition wf_eattr (a : eattr) : Prop :=
  match a with
  | EADate ds => is_number ds /\ digit_value ds <= max_int64
  | EAHost s | EAKey s | EASrc s => ~ In c_pipe s
  | EAPri _ | EAAlert _ => True
  | EATags ts => Forall wf_tag ts
  | EAOther s => ~ In c_pipe s /\ exists b r, s = b :: r /\ b <> c_hash /\ b <> c_d /\ is_field_key b = false
  end.

Definition set_host (e : event) (s : str) : event :=
  {| e_title := e_title e; e_text := e_text e; e_date := e_date e; e_host := s; e_key := e_key e;
     e_pri := e_pri e; e_stype := e_stype e; e_alert := e_alert e; e_tags := e_tags e |}.
Definition set_key (e : event) (s : str) : event :=
  {| e_title := e_title e; e_text := e_text e; e_date := e_date e; e_host := e_host e; e_key := s;
     e_pri := e_pri e; e_stype := e_stype e; e_alert := e_alert e; e_tags := e_tags e |}.
Definition set_stype (e : event) (s : str) : event :=
  {| e_title := e_title e; e_text := e_text e; e_date := e_date e; e_host := e_host e; e_key := e_key e;
     e_pri := e_pri e; e_stype := s; e_alert := e_alert e; e_tags := e_tags e |}.
Definition set_pri (e : event) (p : N) : event :=
  {| e_title := e_title e; e_text := e_text e; e_date := e_date e; e_host := e_host e; e_key := e_key e;
     e_pri := p; e_stype := e_stype e; e_alert := e_alert e; e_tags := e_tags e |}.
Definition set_alert (e : event) (a : N) : event :=
  {| e_title := e_title e; e_text := e_text e; e_date := e_date e; e_host := e_host e; e_key := e_key e;
     e_pri := e_pri e; e_stype := e_stype e; e_alert := a; e_tags := e_tags e |}.
Definition set_date_z (e : event) (d : Z) : event :=
  {| e_title := e_title e; e_text := e_text e; e_date := d; e_host := e_host e; e_key := e_key e;
     e_pri := e_pri e; e_stype := e_stype e; e_alert := e_alert e; e_tags := e_tags e |}.

(* effect of one attribute on the event: a later attribute of the same kind overrides an
   earlier one, except that p:normal and t:info leave the field as it is *)
Definition apply_eattr (e : event) (a : eattr) : event :=
  match a with
  | EADate ds => set_date_z e (Z.of_N (digit_value ds))
  | EAHost s => set_host e s
  | EAKey s => set_key e s
  | EAPri low => if low then set_pri e 1 else e
  | EASrc s => set_stype e s
  | EAAlert a => match a with AInfo => e | _ => set_alert e (alert_code a) end
  | EATags _ | EAOther _ => e
  end.

Fixpoint eattrs_tags (l : list eattr) : list str :=
  match l with
  | [] => []
  | EATags ts :: r => filter nonempty ts ++ eattrs_tags r
  | _ :: r => eattrs_tags r
  end.

(* the event the documentation promises: literal "\n" pairs of the text become newlines *)
Definition expected_event (title text : str) (attrs : list eattr) : event :=
  with_tags (fold_left apply_eattr attrs (empty_event title (unescape text))) (eattrs_tags attrs).

(* inverse of [unescape] on texts that contain no backslash *)
Fixpoint escape_nl (l : str) : str :=
  match l with
  | [] => []
  | b :: r => if b =? c_nl then c_bslash :: c_n :: escape_nl r else b :: escape_nl r
  end.

(* well-formedness of accepted tags *)
Definition good_tag (t : str) : Prop := t <> [] /\ ~ In c_comma t /\ ~ In c_pipe t.

(* ======================================================================================== *)
(* The EXACT accepted language (lines without NUL).

   The lexer's slack beyond the documented grammar is only in what an ignored field may be:
   it is recognised by its FIRST byte alone, so an EMPTY field takes the '|' that ends it as that
   first byte and skips the field after it; and an empty field may end the line (trailing '|').
   Both are "other" fields of the same rendering function under a weaker side condition
   (nothing else differs: results are [expected_metric] / [expected_event] as before):
   [AOther (c_pipe :: g)] is an empty field followed by the swallowed field [g], [AOther []] is
   the empty field after a trailing '|' (last position only). *)

Definition is_nil {A} (l : list A) : bool := match l with [] => true | _ => false end.

Definition wf_attr' (last : bool) (a : attr) : Prop :=
  match a with
  | ARate s => ~ In c_pipe s
  | ATags ts => Forall wf_tag ts
  | AOther s =>
      match s with
      | [] => last = true
      | b :: r => b <> c_at /\ b <> c_hash /\ ~ In c_pipe r          (* b may be '|' *)
      end
  end.

Fixpoint wf_attrs' (l : list attr) : Prop :=
  match l with
  | [] => True
  | a :: r => wf_attr' (is_nil r) a /\ wf_attrs' r
  end.

(* same rendering; the generalisation is [wf_attrs'] instead of [Forall wf_attr] *)
Definition render_metric' (raw val : str) (ty : tytok) (attrs : list attr) : str :=
  render_metric raw val ty attrs.

(* numerals: lexUint's accumulation with its overflow test (value > (MaxUint64 - d) / 10 before
   multiplying); [None] = overflow.  On digit strings this is [digit_value] with the bound
   2^64 - 1 (Proofs/LexerGrammarExactEvent.v [uint_acc_spec]). *)
Fixpoint uint_acc (v : N) (ds : str) : option N :=
  match ds with
  | [] => Some v
  | b :: r => let d := b - c_0 in
              if (max_uint64 - d) / 10 <? v then None else uint_acc (v * 10 + d) r
  end.

Definition wf_eattr' (last : bool) (a : eattr) : Prop :=
  match a with
  | EADate ds => is_number ds /\ digit_value ds <= max_int64
  | EAHost s | EAKey s | EASrc s => ~ In c_pipe s
  | EAPri _ | EAAlert _ => True
  | EATags ts => Forall wf_tag ts
  | EAOther s =>
      match s with
      | [] => last = true
      | b :: r => b <> c_hash /\ b <> c_d /\ is_field_key b = false /\ ~ In c_pipe r   (* b may be '|' *)
      end
  end.

Fixpoint wf_eattrs' (l : list eattr) : Prop :=
  match l with
  | [] => True
  | a :: r => wf_eattr' (is_nil r) a /\ wf_eattrs' r
  end.

Definition render_event' (dt dx title text : str) (attrs : list eattr) : str :=
  render_event_digits dt dx title text attrs.

(* header side condition: the two numerals denote the lengths *)
Definition wf_event_header (dt dx title text : str) : Prop :=
  is_number dt /\ digit_value dt = N.of_nat (length title) /\ N.of_nat (length title) <= max_uint32 /\
  is_number dx /\ digit_value dx = N.of_nat (length text) /\ N.of_nat (length text) <= max_uint32.

(* ---------------------------------------------------------------------------------------- *)
(* parse_to_spec: the derivation of a line, computed without the lexer's state machine (split
   at the first ':' / '|', split the rest at every '|').  Proofs/LexerGrammarExact*.v:
   [parse_to_spec l = Some s -> render_spec s = l], and every accepted NUL-free line parses. *)

Inductive spec :=
| SMetric (raw val : str) (ty : tytok) (attrs : list attr)
| SEvent (dt dx title text : str) (attrs : list eattr).

Definition render_spec (s : spec) : str :=
  match s with
  | SMetric raw val ty attrs => render_metric' raw val ty attrs
  | SEvent dt dx title text attrs => render_event' dt dx title text attrs
  end.

Fixpoint split_first (c : N) (l : str) : option (str * str) :=
  match l with
  | [] => None
  | b :: r =>
      if b =? c then Some ([], r)
      else match split_first c r with Some (u, r') => Some (b :: u, r') | None => None end
  end.

(* all the fields between separators [c]; never the empty list *)
Fixpoint split_all (c : N) (l : str) : list str :=
  match l with
  | [] => [[]]
  | b :: r =>
      if b =? c then [] :: split_all c r
      else match split_all c r with f :: fs => (b :: f) :: fs | [] => [[b]] end
  end.

Definition parse_type (l : str) : option (tytok * str) :=
  match l with
  | [] => None
  | b :: r =>
      if b =? c_c then Some (TokC, r)
      else if b =? c_g then Some (TokG, r)
      else if b =? c_m then
        match r with b2 :: r2 => if b2 =? c_s then Some (TokMs, r2) else None | [] => None end
      else if b =? c_h then Some (TokH, r)
      else if b =? c_s then Some (TokS, r)
      else None
  end.

Fixpoint fields_to_attrs (fs : list str) : list attr :=
  match fs with
  | [] => []
  | f :: rest =>
      match f with
      | [] => match rest with
              | [] => [AOther []]
              | g :: rest' => AOther (c_pipe :: g) :: fields_to_attrs rest'
              end
      | b :: r =>
          (if b =? c_at then ARate r
           else if b =? c_hash then ATags (split_all c_comma r)
           else AOther f) :: fields_to_attrs rest
      end
  end.

Definition parse_metric (l : str) : option spec :=
  match split_first c_colon l with
  | None => None
  | Some (raw, r1) =>
      match split_first c_pipe r1 with
      | None => None
      | Some (val, r2) =>
          match parse_type r2 with
          | None => None
          | Some (ty, r3) =>
              match r3 with
              | [] => Some (SMetric raw val ty [])
              | b :: x => if b =? c_pipe
                          then Some (SMetric raw val ty (fields_to_attrs (split_all c_pipe x)))
                          else None
              end
          end
      end
  end.

Fixpoint span_digits (l : str) : str * str :=
  match l with
  | [] => ([], [])
  | b :: r => if is_digit b then let (d, k) := span_digits r in (b :: d, k) else ([], l)
  end.

Definition expect (c : N) (l : str) : option str :=
  match l with b :: r => if b =? c then Some r else None | [] => None end.

(* a numeral, its value (bounded by [bound]) and the rest *)
Definition parse_num (bound : N) (l : str) : option (str * N * str) :=
  let (ds, k) := span_digits l in
  if nonempty ds then
    match uint_acc 0 ds with
    | Some v => if v <=? bound then Some (ds, v, k) else None
    | None => None
    end
  else None.

Definition alert_of (s : str) : option alert :=
  if str_eqb s str_error then Some AError
  else if str_eqb s str_warning then Some AWarning
  else if str_eqb s str_success then Some ASuccess
  else if str_eqb s str_info then Some AInfo
  else None.

(* the non-empty field b :: r *)
Definition field_to_eattr (b : N) (r : str) : option eattr :=
  if b =? c_hash then Some (EATags (split_all c_comma r))
  else if (b =? c_d) || is_field_key b then
    match r with
    | [] => None
    | c :: data =>
        if negb (c =? c_colon) then None
        else if b =? c_d then
          match parse_num max_int64 data with
          | Some (_, _, []) => Some (EADate data)
          | _ => None
          end
        else if b =? c_h then Some (EAHost data)
        else if b =? c_k then Some (EAKey data)
        else if b =? c_s then Some (EASrc data)
        else if b =? c_p then
          if str_eqb data str_low then Some (EAPri true)
          else if str_eqb data str_normal then Some (EAPri false)
          else None
        else option_map EAAlert (alert_of data)
    end
  else Some (EAOther (b :: r)).

Fixpoint fields_to_eattrs (fs : list str) : option (list eattr) :=
  match fs with
  | [] => Some []
  | f :: rest =>
      match f with
      | [] => match rest with
              | [] => Some [EAOther []]
              | g :: rest' => option_map (cons (EAOther (c_pipe :: g))) (fields_to_eattrs rest')
              end
      | b :: r =>
          match field_to_eattr b r, fields_to_eattrs rest with
          | Some a, Some l => Some (a :: l)
          | _, _ => None
          end
      end
  end.

(* [r0]: the line after "_e" *)
Definition parse_event (r0 : str) : option spec :=
  match expect c_lbrace r0 with None => None | Some r1 =>
  match parse_num max_uint32 r1 with None => None | Some (dt, tl, r2) =>
  match expect c_comma r2 with None => None | Some r3 =>
  match parse_num max_uint32 r3 with None => None | Some (dx, xl, r4) =>
  match expect c_rbrace r4 with None => None | Some r5 =>
  match expect c_colon r5 with None => None | Some r6 =>
  if N.of_nat (length r6) <? tl + 1 + xl then None else
  match nth_error r6 (N.to_nat tl) with
  | None => None
  | Some b =>
      if negb (b =? c_pipe) then None else
      let title := firstn (N.to_nat tl) r6 in
      let text := firstn (N.to_nat xl) (skipn (N.to_nat (tl + 1)) r6) in
      match skipn (N.to_nat (tl + 1 + xl)) r6 with
      | [] => Some (SEvent dt dx title text [])
      | b7 :: x =>
          if b7 =? c_pipe
          then option_map (SEvent dt dx title text) (fields_to_eattrs (split_all c_pipe x))
          else None
      end
  end end end end end end end.

Definition parse_to_spec (l : str) : option spec :=
  match l with
  | [] => None
  | b :: r =>
      if b =? c_us then
        match r with
        | b2 :: r0 => if b2 =? c_e then parse_event r0 else None
        | [] => None
        end
      else parse_metric l
  end.
