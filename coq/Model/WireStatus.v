(* Model of the decision logic of the HTTP ingestion handlers, pkg/web/http_receiver_v2.go:
   readBody, MetricHandler (/v2/raw) and EventHandler (/v2/event).  Both handlers have the same
   shape: read the body, decode it according to the Content-Encoding header, proto.Unmarshal it,
   dispatch, answer.  The handler is modelled as the *trace of externally visible actions* it
   performs (w.WriteHeader(code), handler.Dispatch...), so that "answers with exactly one status"
   and "dispatches exactly once" are statements about the trace.

   Library code (net/http body reader, compress/zlib, pierrec/lz4, protobuf) is not modelled:
   its outcome on the request at hand is the record [wire_oracle] (DESIGN 3.3).  The oracle is
   independent of the encoding header: it says what *each* decoder would do with the body, the
   model chooses which one is consulted. *)
From GS Require Import Base.Bytes.
Local Open Scope N_scope.

Inductive encoding := EncIdentity | EncEmpty | EncDeflate | EncLz4 | EncOther.

Definition str_deflate : str := [100;101;102;108;97;116;101].        (* "deflate" *)
Definition str_lz4 : str := [108;122;52].                              (* "lz4" *)
Definition str_identity : str := [105;100;101;110;116;105;116;121].    (* "identity" *)

(* the switch in readBody on req.Header.Get("Content-Encoding"): exact, case-sensitive match *)
Definition classify (h : str) : encoding :=
  if str_eqb h str_deflate then EncDeflate
  else if str_eqb h str_lz4 then EncLz4
  else if str_eqb h str_identity then EncIdentity
  else match h with [] => EncEmpty | _ => EncOther end.

Inductive endpoint := EpRaw | EpEvent.

Record wire_oracle := WO {
  w_read : bool;          (* ioutil.ReadAll(req.Body) returned without error *)
  w_zlib : option bool;   (* DecompressWithZlib(body): None = error; Some u = decoded, and
                             proto.Unmarshal of the decoded bytes into the endpoint's message
                             succeeds iff u *)
  w_lz4 : option bool;    (* same for DecompressWithLz4 *)
  w_plain : bool          (* proto.Unmarshal of the body as received succeeds *)
}.

Definition status_accepted : N := 202.
Definition status_bad_request : N := 400.
Definition status_internal_error : N := 500.

Inductive action :=
| WriteHeader (code : N)
| Dispatch.               (* DispatchMetricMap resp. DispatchEvent on the pipeline handler *)

(* readBody: an error code, or the body (represented by what Unmarshal will say about it) *)
Inductive body_result := BodyErr (code : N) | BodyOk (unmarshals : bool).

Definition read_body (h : str) (o : wire_oracle) : body_result :=
  if negb (w_read o) then BodyErr status_internal_error
  else match classify h with
       | EncDeflate => match w_zlib o with
                       | None => BodyErr status_bad_request
                       | Some u => BodyOk u
                       end
       | EncLz4 => match w_lz4 o with
                   | None => BodyErr status_bad_request
                   | Some u => BodyOk u
                   end
       | EncIdentity | EncEmpty => BodyOk (w_plain o)
       | EncOther => BodyErr status_bad_request
       end.

(* MetricHandler / EventHandler *)
Definition handle (ep : endpoint) (h : str) (o : wire_oracle) : list action :=
  match read_body h o with
  | BodyErr code => [WriteHeader code]
  | BodyOk false => [WriteHeader status_bad_request]
  | BodyOk true => [Dispatch; WriteHeader status_accepted]
  end.

(* ---- specification vocabulary used by Props/C03.v ---- *)

Definition statuses (t : list action) : list N :=
  flat_map (fun a => match a with WriteHeader c => [c] | Dispatch => [] end) t.

Definition dispatches (t : list action) : N :=
  N.of_nat (length (filter (fun a => match a with Dispatch => true | _ => false end) t)).

(* every stage on the path selected by the header succeeds *)
Definition all_stages_ok (h : str) (o : wire_oracle) : Prop :=
  w_read o = true /\
  (   (h = str_deflate /\ w_zlib o = Some true)
   \/ (h = str_lz4 /\ w_lz4 o = Some true)
   \/ ((h = str_identity \/ h = []) /\ w_plain o = true)).

Definition is_4xx_5xx (c : N) : Prop := 400 <= c < 600.
