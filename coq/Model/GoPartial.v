(* Go's partial operations as explicit outcomes (shared by Model/Histogram.v, Model/Stats.v and
   Model/PayloadPartial.v; properties C08 and C04).

   An index expression [s[i]], a slice expression [s[:k]] / [s[k:]], [&s[0]], [make([]T, k)]
   and a write to a nil map panic in Go when their side condition fails.  They are modelled by
   the checked operations below, which return [Panic] in exactly those cases, so that "does not
   panic" is a theorem about the model and not an artefact of total list functions. *)
From Coq Require Import String Ascii.
From Coq Require Import List ZArith.
From GS Require Import Base.Bytes.
Import ListNotations.
Local Open Scope Z_scope.

Inductive outcome (A : Type) : Type :=
| Ok (a : A)
| Panic.
Arguments Ok {A} a.
Arguments Panic {A}.

Definition bind {A B} (o : outcome A) (f : A -> outcome B) : outcome B :=
  match o with Ok a => f a | Panic => Panic end.
Notation "'let!' x ':=' e 'in' f" := (bind e (fun x => f))
  (at level 200, x name, e at level 100, f at level 200, right associativity).

Definition is_panic {A} (o : outcome A) : bool := match o with Panic => true | Ok _ => false end.

Definition len {A} (l : list A) : Z := Z.of_nat (length l).

(* s[i] *)
Definition idx {A} (l : list A) (i : Z) : outcome A :=
  if i <? 0 then Panic
  else match nth_error l (Z.to_nat i) with Some a => Ok a | None => Panic end.

(* s[:k]   (every slice the models cut has cap = len) *)
Definition slice_to {A} (l : list A) (k : Z) : outcome (list A) :=
  if (k <? 0) || (len l <? k) then Panic else Ok (firstn (Z.to_nat k) l).

(* s[k:] *)
Definition slice_from {A} (l : list A) (k : Z) : outcome (list A) :=
  if (k <? 0) || (len l <? k) then Panic else Ok (skipn (Z.to_nat k) l).

(* make([]T, k): panics for a negative length *)
Definition make_len (k : Z) : outcome Z := if k <? 0 then Panic else Ok k.

(* mapM over the outcome monad, left to right *)
Fixpoint mapM {A B} (f : A -> outcome B) (l : list A) : outcome (list B) :=
  match l with
  | [] => Ok []
  | a :: r => let! b := f a in let! bs := mapM f r in Ok (b :: bs)
  end.

Fixpoint foldM {A S} (f : S -> A -> outcome S) (s : S) (l : list A) : outcome S :=
  match l with
  | [] => Ok s
  | a :: r => let! s' := f s a in foldM f s' r
  end.

(* ---- byte strings from Coq string literals, decimal printing (strconv.Itoa) *)

Fixpoint bs (s : string) : str :=
  match s with
  | EmptyString => []
  | String a r => N_of_ascii a :: bs r
  end.
Arguments bs s%string.

Fixpoint uint_bytes (u : Decimal.uint) : str :=
  match u with
  | Decimal.Nil => []
  | Decimal.D0 r => 48%N :: uint_bytes r
  | Decimal.D1 r => 49%N :: uint_bytes r
  | Decimal.D2 r => 50%N :: uint_bytes r
  | Decimal.D3 r => 51%N :: uint_bytes r
  | Decimal.D4 r => 52%N :: uint_bytes r
  | Decimal.D5 r => 53%N :: uint_bytes r
  | Decimal.D6 r => 54%N :: uint_bytes r
  | Decimal.D7 r => 55%N :: uint_bytes r
  | Decimal.D8 r => 56%N :: uint_bytes r
  | Decimal.D9 r => 57%N :: uint_bytes r
  end.

(* strconv.Itoa *)
Definition itoa (z : Z) : str :=
  match Z.to_int z with
  | Decimal.Pos u => uint_bytes u
  | Decimal.Neg u => c_dash :: uint_bytes u
  end.

(* strings.HasPrefix *)
Fixpoint has_prefix (p s : str) : bool :=
  match p, s with
  | [], _ => true
  | a :: p', b :: s' => (a =? b)%N && has_prefix p' s'
  | _ :: _, [] => false
  end.

(* strings.Split(s, sep) for a one-byte separator: always at least one item *)
Fixpoint split_acc (sep : N) (cur : str) (s : str) : list str :=
  match s with
  | [] => [rev cur]
  | c :: r => if (c =? sep)%N then rev cur :: split_acc sep [] r else split_acc sep (c :: cur) r
  end.
Definition split_on (sep : N) (s : str) : list str := split_acc sep [] s.

(* strings.LastIndex(s, "_") as an index from the left, -1 when absent *)
Fixpoint last_index_from (c : N) (s : str) (i : Z) (best : Z) : Z :=
  match s with
  | [] => best
  | x :: r => last_index_from c r (i + 1) (if (x =? c)%N then i else best)
  end.
Definition last_index (c : N) (s : str) : Z := last_index_from c s 0 (-1).
