(* The cloud stage at the level of the MetricMaps it builds (property C11, collisions).

   Every dispatch path of handler_cloud.go (the cache hits in DispatchMetricMap, updateAndDispatchMetrics
   for released slots) creates a fresh MetricMap and merges every updated series into it with
   MergeCounter / MergeGauge / MergeTimer / MergeSet under the key FormatTagsKey(source, tags) computed
   AFTER the update, while iterating the Go maps of the source batch.  Two series that differ before the
   update can have the same name and key afterwards (two addresses that resolve to one instance, tags that
   differ only in what the instance adds, an instance id that equals another batch member's address): they
   are then merged into one series, in the order the iteration happens to meet them.
   [abs_entries ord] (Model/Cloud.v) is that fold for the order [ord]; MetricMap.v's [merge] of a one-series
   map is exactly MergeX on that series.  The order is not determined by the code, so a dispatched map is any
   [abs_entries ord] with [ord] a permutation of the delivered series ([dispatch_of]).
   Definitions only; proofs in Proofs/CloudMaps.v. *)
From stdpp Require Import gmap gmultiset.
From GS Require Import Base.Bytes Base.LTS Model.Series Model.MetricMap Model.Content Model.Cloud.

(* the map holding one series, and the content it contributes under its (name, key) *)
Definition entry_map (e : entry) : mmap := add_entry empty_map e.
Definition entry_cmap (e : entry) : cmap := abs (entry_map e).

(* the metric series among what a list of downstream records delivered *)
Definition metrics_of (xs : list item) : list entry :=
  omap (λ x, match x with IM e => Some e | IE _ => None end) xs.
Definition delivered_metrics (b : list drec) : list entry := metrics_of (delivered <$> b).

(* [m] is a map the code may dispatch for the batch [b] *)
Definition dispatch_of (b : list drec) (m : mmap) : Prop :=
  ∃ ord, ord ≡ₚ delivered_metrics b ∧ m = abs_entries ord.

(* the batches of downstream records, label by label, along a run *)
Fixpoint batches (st : state) (ls : list label) : list (list drec) :=
  match ls with
  | [] => []
  | l :: r => match step st l with
              | Some st' => drop (length (down st)) (down st') :: batches st' r
              | None => []
              end
  end.
