(* Model of the cloud enrichment stage of gostatsd (property C11):
     pkg/statsd/handler_cloud.go   CloudHandler: DispatchMetricMap, DispatchEvent, Run,
                                   handleIncomingMetrics / prepareMetricQueue, handleIncomingEvent,
                                   handleInstanceInfo, updateAndDispatchMetrics / Events, emit
   as a labelled transition system.  One label = one atomic action of the Go code:

     ArriveMetrics es peek   a caller runs DispatchMetricMap(mm): per series, an empty source or a hit of
                             cachedInstances.Peek updates the series in place and it is dispatched downstream
                             at once; the missed series travel over incomingMetrics and Run's arm calls
                             handleIncomingMetrics.  [es] = the series of mm, [peek] = the cache as this
                             caller saw it (any function: "all cache contents at each arrival").  The caller
                             side touches nothing but the downstream handler, so it commutes with every other
                             label and is merged with the arm that receives its misses.
     ArriveEvent e peek      DispatchEvent(e): same, through handleIncomingEvent.
     SendLookup s            Run's arm `toLookupC <- toLookupIP`: the source in the send register is received by
                             the cache on IpSink().  The register is loaded by the refill at the bottom of Run's
                             loop (after EVERY arm: [step] = arm, then [refill]) from the top of the stack
                             toLookupIPs; see [lstate] for how the stack is modelled (LIFO between arms, any
                             order among the sources one handleIncomingMetrics call pushed).
     Info s io               Run's arm `info := <-infoSource`: handleInstanceInfo(info) with info.IP = s and
                             info.Instance = io (None = lookup failed or found nothing).
     Emit                    Run's arm `statser := <-emitChan`: emit.

   Parked metrics are kept as the list of series that were parked, in arrival order; the real
   awaitingMetrics[s] is the MetricMap obtained by merging them (Corr/C11.v compares through that
   projection, [abs_entries]).  A series is a [MetricMap.entry] (name, key, payload, source, tags).
   [sent], [pushed], [popped] are ghosts (lookups outstanding at the cache; every push; every send).  The three queue gauges are uint64: arithmetic
   modulo 2^64, so that an underflow shows as 2^64-1 exactly as in Go.  [down] is the log of everything
   handed to the downstream handler: for every item the item as it ENTERED the stage and the instance that
   was applied (ghost pair); what downstream receives is [delivered].

   The flag [lg] selects the gauge accounting before fix 0b11cb1 (defect D7) for the refutation.
   No operation of the anchored code can panic (the only index expression is guarded by len > 0), so there
   is no Panic outcome.  Definitions only; proofs are in Proofs/Cloud*.v. *)
From stdpp Require Import gmap.
From GS Require Import Base.Bytes Model.Series Model.MetricMap.
Local Open Scope Z_scope.

Definition source := str.
(* gostatsd.Instance *)
Record instance := Inst { inst_id : source; inst_tags : list str }.
(* gostatsd.Event *)
Record cevent := CEvent {
  ev_title : str; ev_text : str; ev_date : Z; ev_agg : str; ev_stn : str;
  ev_tags : list str; ev_src : source; ev_prio : Z; ev_alert : Z }.

(* what travels through the stage: one series of a metric map, or one event *)
Inductive item := IM (e : entry) | IE (e : cevent).

Definition entry_src (e : entry) : source :=
  match e with EC _ _ _ _ s _ | EG _ _ _ _ s _ | ET _ _ _ _ _ _ s _ | ES _ _ _ _ s _ => s end.
Definition entry_tags (e : entry) : list str :=
  match e with EC _ _ _ _ _ t | EG _ _ _ _ _ t | ET _ _ _ _ _ _ _ t | ES _ _ _ _ _ t => t end.
(* the series with another source and tag list, stored under FormatTagsKey(source, tags).
   FormatTagsKey calls tags.SortedString(), which sorts the slice IN PLACE: the series that is
   dispatched carries its tags sorted. *)
Definition entry_retag (s : source) (t : list str) (e : entry) : entry :=
  match e with
  | EC n _ v ts _ _ => EC n (tags_key s t) v ts s (sort_tags t)
  | EG n _ v ts _ _ => EG n (tags_key s t) v ts s (sort_tags t)
  | ET n _ vs sn sd ts _ _ => ET n (tags_key s t) vs sn sd ts s (sort_tags t)
  | ES n _ ms ts _ _ => ES n (tags_key s t) ms ts s (sort_tags t)
  end.
Definition event_retag (s : source) (t : list str) (e : cevent) : cevent :=
  CEvent (ev_title e) (ev_text e) (ev_date e) (ev_agg e) (ev_stn e) t s (ev_prio e) (ev_alert e).

Definition entry_key (e : entry) : str :=
  match e with EC _ k _ _ _ _ | EG _ k _ _ _ _ | ET _ k _ _ _ _ _ _ | ES _ k _ _ _ _ => k end.

Definition item_src (x : item) : source := match x with IM e => entry_src e | IE e => ev_src e end.
Definition item_tags (x : item) : list str := match x with IM e => entry_tags e | IE e => ev_tags e end.
Definition retag (s : source) (t : list str) (x : item) : item :=
  match x with IM e => IM (entry_retag s t e) | IE e => IE (event_retag s t e) end.

(* everything but source, tags and series key: name, type, values, timestamp, event fields *)
Definition item_body (x : item) : item := retag [] [] x.

(* updateInplace(obj, instance) followed, for a series, by the re-keying MergeX(name,
   FormatTagsKey(source, tags), x) that every dispatch path performs.
   AddTagsSetSource: tags = tags.Concat(instance.Tags), source = instance.ID. *)
Definition update_inplace (io : option instance) (x : item) : item :=
  match io with
  | Some i => retag (inst_id i) (item_tags x ++ inst_tags i) x
  | None => retag (item_src x) (item_tags x) x
  end.

(* one record of the downstream log *)
Record drec := Drec { d_orig : item; d_inst : option instance }.
Definition delivered (r : drec) : item := update_inplace (d_inst r) (d_orig r).

(* cachedInstances.Peek as one caller sees it: miss | negative hit | positive hit *)
Definition peekfn := source -> option (option instance).
(* getInstance: the empty source is "a hit without instance" and never reaches the cache *)
Definition resolve (peek : peekfn) (s : source) : option (option instance) :=
  match s with [] => Some None | _ => peek s end.

Definition u64 (z : Z) : Z := z mod 2 ^ 64.
Definition inc64 (z : Z) : Z := u64 (z + 1).
Definition dec64 (z : Z) : Z := u64 (z - 1).

(* The lookup side of the handler: toLookupIPs together with the one-slot send register of Run
   (toLookupIP / toLookupC), and ghost logs.

   toLookupIPs is a stack.  handleIncomingEvent pushes at most one source, so its position is determined;
   handleIncomingMetrics pushes one source per NEW source met while iterating Go maps, in an order the code does
   not determine.  The stack is therefore kept as a list of GROUPS (head = top): the sources pushed by one arm, in
   unknown relative order.  Groups are strictly LIFO; inside a group any order is possible.
   After every arm Run refills its register: if it is empty and the stack is not, the top element is popped into
   it.  Which element of the top group that is cannot be observed until it is sent, so the model only FLAGS the
   group the register was loaded from (at most one group is flagged): one unknown element of the flagged group
   sits in the register, the rest of the group still lies at its place in the stack.  The send arm
   `toLookupC <- toLookupIP` (label SendLookup s) takes s out of the flagged group. *)
Record lstate := Lk {
  stack : list (bool * list source);   (* toLookupIPs + register, as groups; flag = register loaded from here *)
  sent : list source;                  (* ghost: received by the cache through IpSink(), not yet answered *)
  pushed : list source;                (* ghost: every append to toLookupIPs, in order *)
  popped : list source                 (* ghost: every source handed to IpSink(), in order *)
}.

(* everything queued for lookup and not yet handed to the cache (stack and register) *)
Definition lk_pending (k : lstate) : list source := mjoin (snd <$> stack k).

(* an arm that iterates a map opens a group, pushes into it, and closes it (an empty group vanishes) *)
Definition lk_open (k : lstate) : lstate := Lk ((false, []) :: stack k) (sent k) (pushed k) (popped k).
Definition lk_push (s : source) (k : lstate) : lstate :=
  Lk (match stack k with
      | (f, g) :: r => (f, s :: g) :: r
      | [] => [(false, [s])]
      end) (sent k) (pushed k ++ [s]) (popped k).
Definition drop_empty_top (stk : list (bool * list source)) : list (bool * list source) :=
  match stk with (_, []) :: r => r | _ => stk end.
Definition lk_close (k : lstate) : lstate := Lk (drop_empty_top (stack k)) (sent k) (pushed k) (popped k).
(* a single push is a group of its own *)
Definition lk_push1 (s : source) (k : lstate) : lstate :=
  Lk ((false, [s]) :: stack k) (sent k) (pushed k ++ [s]) (popped k).

Fixpoint remove_one (s : source) (l : list source) : list source :=
  match l with
  | [] => []
  | x :: r => if decide (x = s) then r else x :: remove_one s r
  end.
Fixpoint count (s : source) (l : list source) : nat :=
  match l with
  | [] => 0
  | x :: r => (if decide (x = s) then 1 else 0) + count s r
  end.

(* the send arm: s leaves the flagged group (an emptied group vanishes); None = the register cannot hold s *)
Fixpoint send_from (stk : list (bool * list source)) (s : source) : option (list (bool * list source)) :=
  match stk with
  | [] => None
  | (true, g) :: r =>
      if bool_decide (s ∈ g)
      then Some (match remove_one s g with [] => r | g' => (false, g') :: r end)
      else None
  | (false, g) :: r => cons (false, g) <$> send_from r s
  end.
Definition lk_send (s : source) (k : lstate) : option lstate :=
  (λ stk, Lk stk (s :: sent k) (pushed k) (popped k ++ [s])) <$> send_from (stack k) s.

(* the refill at the bottom of Run's loop: register empty and stack not -> load from the top *)
Definition refill_stack (stk : list (bool * list source)) : list (bool * list source) :=
  if existsb fst stk then stk
  else match stk with (_, g) :: r => (true, g) :: r | [] => [] end.
Definition lk_refill (k : lstate) : lstate := Lk (refill_stack (stack k)) (sent k) (pushed k) (popped k).

(* a lookup result for s: one outstanding lookup of s is answered (ghost) *)
Definition lk_answer (s : source) (k : lstate) : lstate :=
  Lk (stack k) (remove_one s (sent k)) (pushed k) (popped k).

Record state := St {
  awaitM : gmap source (list entry);   (* awaitingMetrics, as the series merged into each slot *)
  awaitE : gmap source (list cevent);  (* awaitingEvents *)
  lk : lstate;                         (* toLookupIPs, register, ghosts *)
  hostsM : Z;                          (* statsMetricHostsQueued *)
  hostsE : Z;                          (* statsEventHostsQueued *)
  itemsE : Z;                          (* statsEventItemsQueued *)
  down : list drec;                    (* everything dispatched downstream, in order *)
  emitted : list (Z * Z * Z)           (* (hosts_queued{metric}, hosts_queued{event}, items_queued) per emit *)
}.

Definition init : state := St ∅ ∅ (Lk [] [] [] []) 0 0 0 [] [].

Definition pending (st : state) : list source := lk_pending (lk st).
Definition with_lk (st : state) (k : lstate) : state :=
  St (awaitM st) (awaitE st) k (hostsM st) (hostsE st) (itemsE st) (down st) (emitted st).

Inductive label :=
| ArriveMetrics (es : list entry) (peek : peekfn)
| ArriveEvent (e : cevent) (peek : peekfn)
| SendLookup (s : source)
| Info (s : source) (io : option instance)
| Emit.

Definition push_down (st : state) (rs : list drec) : state :=
  St (awaitM st) (awaitE st) (lk st) (hostsM st) (hostsE st) (itemsE st) (down st ++ rs) (emitted st).

(* len(ch.awaitingEvents[source]) == 0 *)
Definition no_events (st : state) (s : source) : bool :=
  match awaitE st !! s with Some (_ :: _) => false | _ => true end.

(* prepareMetricQueue(source).MergeX(name, tagsKey, x) for one missed series *)
Definition park_metric (lg : bool) (st : state) (e : entry) : state :=
  let s := entry_src e in
  match awaitM st !! s with
  | Some q =>
      St (<[s := q ++ [e]]> (awaitM st)) (awaitE st) (lk st)
         (hostsM st) (hostsE st) (itemsE st) (down st) (emitted st)
  | None =>
      let ne := no_events st s in
      St (<[s := [e]]> (awaitM st)) (awaitE st)
         (if ne then lk_push s (lk st) else lk st)
         (if lg && negb ne then hostsM st else inc64 (hostsM st))
         (hostsE st) (itemsE st) (down st) (emitted st)
  end.

(* handleIncomingEvent *)
Definition park_event (lg : bool) (st : state) (e : cevent) : state :=
  let s := ev_src e in
  let q := default [] (awaitE st !! s) in
  let first := match q with [] => true | _ => false end in
  let nom := match awaitM st !! s with None => true | Some _ => false end in
  St (awaitM st) (<[s := q ++ [e]]> (awaitE st))
     (if first && nom then lk_push1 s (lk st) else lk st)
     (hostsM st)
     (if first && (nom || negb lg) then inc64 (hostsE st) else hostsE st)
     (inc64 (itemsE st)) (down st) (emitted st).

Definition is_miss (peek : peekfn) (s : source) : bool :=
  match resolve peek s with None => true | Some _ => false end.

(* DispatchMetricMap: the hits, updated and dispatched by the caller *)
Definition metric_hits (peek : peekfn) (es : list entry) : list drec :=
  omap (λ e, Drec (IM e) <$> resolve peek (entry_src e)) es.
Definition metric_misses (peek : peekfn) (es : list entry) : list entry :=
  List.filter (λ e, is_miss peek (entry_src e)) es.

(* handleIncomingMetrics: all sources it pushes form one group *)
Definition open_group (st : state) : state := with_lk st (lk_open (lk st)).
Definition close_group (st : state) : state := with_lk st (lk_close (lk st)).

Definition arrive_metrics (lg : bool) (st : state) (es : list entry) (peek : peekfn) : state :=
  close_group (fold_left (park_metric lg) (metric_misses peek es)
                         (open_group (push_down st (metric_hits peek es)))).

Definition arrive_event (lg : bool) (st : state) (e : cevent) (peek : peekfn) : state :=
  match resolve peek (ev_src e) with
  | Some io => push_down st [Drec (IE e) io]
  | None => park_event lg st e
  end.

(* handleInstanceInfo: release the metric slot, then the event slot, of info.IP *)
Definition release_metrics (st : state) (s : source) (io : option instance) : state :=
  match awaitM st !! s with
  | Some q =>
      St (delete s (awaitM st)) (awaitE st) (lk st)
         (dec64 (hostsM st)) (hostsE st) (itemsE st)
         (down st ++ map (λ e, Drec (IM e) io) q) (emitted st)
  | None => st
  end.
Definition release_events (st : state) (s : source) (io : option instance) : state :=
  match awaitE st !! s with
  | Some (e :: q) =>
      St (awaitM st) (delete s (awaitE st)) (lk st)
         (hostsM st) (dec64 (hostsE st)) (u64 (itemsE st - Z.of_nat (length (e :: q))))
         (down st ++ map (λ e, Drec (IE e) io) (e :: q)) (emitted st)
  | _ => st
  end.
Definition answer (st : state) (s : source) : state := with_lk st (lk_answer s (lk st)).

(* one arm of Run's select, without the refill *)
Definition arm (lg : bool) (st : state) (l : label) : option state :=
  match l with
  | ArriveMetrics es peek => Some (arrive_metrics lg st es peek)
  | ArriveEvent e peek => Some (arrive_event lg st e peek)
  | SendLookup s => with_lk st <$> lk_send s (lk st)
  | Info s io => Some (answer (release_events (release_metrics st s io) s io) s)
  | Emit =>
      Some (St (awaitM st) (awaitE st) (lk st) (hostsM st) (hostsE st) (itemsE st)
               (down st) (emitted st ++ [(hostsM st, hostsE st, itemsE st)]))
  end.
Definition refill (st : state) : state := with_lk st (lk_refill (lk st)).

(* one iteration of Run's loop: the arm, then the refill *)
Definition step_gen (lg : bool) (st : state) (l : label) : option state := refill <$> arm lg st l.

(* the code as it is (after fix 0b11cb1) and as it was *)
Definition step : state -> label -> option state := step_gen false.
Definition step_legacy : state -> label -> option state := step_gen true.

(* the environment of C11_one_lookup: a result arrives only for a source whose lookup was handed
   to the cache and is still unanswered *)
Definition step_env (st : state) (l : label) : option state :=
  match l with
  | Info s _ => if bool_decide (s ∈ sent (lk st)) then step st l else None
  | _ => step st l
  end.

(* ---- specification vocabulary ---------------------------------------------------------------- *)

(* all values of a park map, as one list *)
Definition slots {A} (m : gmap source (list A)) : list A := mjoin (map_to_list m).*2.
Definition parked_metrics (st : state) : list entry := slots (awaitM st).
Definition parked_events (st : state) : list cevent := slots (awaitE st).
Definition parked (st : state) : list item := (IM <$> parked_metrics st) ++ (IE <$> parked_events st).
(* what is parked for one source *)
Definition parked_for (st : state) (s : source) : list item :=
  (IM <$> default [] (awaitM st !! s)) ++ (IE <$> default [] (awaitE st !! s)).

(* everything that entered the stage *)
Definition items_of (l : label) : list item :=
  match l with
  | ArriveMetrics es _ => IM <$> es
  | ArriveEvent e _ => [IE e]
  | _ => []
  end.
Definition items_in (ls : list label) : list item := mjoin (items_of <$> ls).

(* the answer a label gives for a source: the instance to apply, if the label releases that source *)
Definition label_answer (l : label) (s : source) : option (option instance) :=
  match l with
  | ArriveMetrics _ peek | ArriveEvent _ peek => resolve peek s
  | Info s' io => if decide (s = s') then Some io else None
  | _ => None
  end.

(* a source has something parked *)
Definition waiting (st : state) (s : source) : bool :=
  bool_decide (is_Some (awaitM st !! s)) || bool_decide (is_Some (awaitE st !! s)).

(* ---- projection onto the real maps (used by Corr/C11.v) ---------------------------------------- *)
(* the MetricMap obtained by merging the series one by one, as MergeCounter / MergeGauge / ... do *)
Definition abs_entries (es : list entry) : mmap :=
  fold_left (λ m e, merge m (add_entry empty_map e)) es empty_map.
