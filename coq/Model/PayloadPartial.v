(* The PARTIAL operations (index, slice, make with a computed length) of every backend payload
   builder under pkg/backends/, over the checked operations of Model/GoPartial.v: property C04.
   Only the skeleton that decides whether such an operation is in range is modelled: which
   strings are cut where, how long a buffer or a map is.  Formatted numbers are abstracted to the
   empty text (they only lengthen a buffer), encoders (JSON, protobuf, gzip) and HTTP are not
   modelled.  The complete list of index / slice expressions found in pkg/backends is in
   notes/C04.md; datadog, graphite, stdout and statsdaemon contain none on the metrics path.

   [legacy = true] selects the code before the repairs 8d5afaa (InfluxDB, D4) and 06b6d16
   (OTLP, D5), kept so that the refutations of the old code can be stated. *)
From Coq Require Import String.
From Coq Require Import List ZArith.
From GS Require Import Base.Bytes.
From GS Require Import Model.GoPartial.
From GS Require Import Model.Histogram.
From GS Require Import Model.Stats.
From GS Require Import Model.FlushPartial.
Import ListNotations.
Local Open Scope Z_scope.

(* ---------------------------------------------------------------------------------------- *)
(* what a payload builder reads of a flushed map *)

Record rtimer := {
  rt_tags : list str; rt_src : str;
  rt_nvalues : Z;              (* len(timer.Values) *)
  rt_pcts : list str;          (* the names of timer.Percentiles *)
  rt_hist : hist               (* timer.Histogram *)
}.
Record reported := { r_timers : list rtimer; r_others : list other }.

Definition report_entry {V} (e : entry V) : rtimer :=
  {| rt_tags := t_tags (e_timer e); rt_src := e_src e; rt_nvalues := len (t_values (e_timer e));
     rt_pcts := map fst (t_pcts (e_timer e)); rt_hist := t_hist (e_timer e) |}.
Definition report_of {V} (a : agg V) : reported :=
  {| r_timers := map report_entry (a_timers a); r_others := a_others a |}.

(* the invariant of every map Flush can report *)
Definition has_us (s : str) : Prop := 0 <= last_index c_us s.
Definition is_pinf (b : bound) : bool := match b with BPInf => true | _ => false end.
Definition pinf_count (h : list (bound * Z)) : nat := length (filter (fun e => is_pinf (fst e)) h).
Definition hist_ok (h : hist) : Prop :=
  match h with HNil => True | HMap l => l = [] \/ pinf_count l = 1%nat end.
Definition rtimer_ok (t : rtimer) : Prop :=
  Forall has_us (rt_pcts t) /\ hist_ok (rt_hist t) /\ 0 <= rt_nvalues t.
Definition Reported (r : reported) : Prop := Forall rtimer_ok (r_timers r).

(* the nine TimerSubtypes bits the builders read (true = disabled) *)
Record bmask := {
  b_lower : bool; b_upper : bool; b_count : bool; b_count_ps : bool; b_mean : bool;
  b_median : bool; b_stddev : bool; b_sum : bool; b_sumsq : bool
}.
Definition enabled (m : bmask) : list bool :=
  map negb [b_lower m; b_upper m; b_count m; b_count_ps m; b_mean m; b_median m; b_stddev m; b_sum m; b_sumsq m].
Definition n_enabled (m : bmask) : Z := len (filter (fun b => b) (enabled m)).

(* ---------------------------------------------------------------------------------------- *)
(* string helpers *)

Definition c_eq : N := 61%N.

(* strings.Index(s, c), -1 when absent *)
Fixpoint index_from (c : N) (s : str) (i : Z) : Z :=
  match s with
  | [] => -1
  | x :: r => if (x =? c)%N then i else index_from c r (i + 1)
  end.
Definition index_of (c : N) (s : str) : Z := index_from c s 0.
Definition contains (c : N) (s : str) : bool := 0 <=? index_of c s.

(* strings.SplitN(s, c, 2): one item when c is absent, else the text before and after the first c *)
Definition splitn2 (c : N) (s : str) : list str :=
  let i := index_of c s in
  if i <? 0 then [s] else [firstn (Z.to_nat i) s; skipn (Z.to_nat (i + 1)) s].

(* s[i] on a slice of which only the length n matters *)
Definition idx_len (n i : Z) : outcome unit := if (i <? 0) || (n <=? i) then Panic else Ok tt.

(* s[i] = a *)
Definition set_idx {A} (l : list A) (i : Z) (a : A) : outcome (list A) :=
  if (i <? 0) || (len l <=? i) then Panic
  else Ok (firstn (Z.to_nat i) l ++ a :: skipn (Z.to_nat (i + 1)) l).

(* s[a:b] *)
Definition slice_range {A} (l : list A) (a b : Z) : outcome (list A) :=
  if (a <? 0) || (b <? a) || (len l <? b) then Panic
  else Ok (firstn (Z.to_nat (b - a)) (skipn (Z.to_nat a) l)).

Definition each {A} (f : A -> outcome unit) (l : list A) : outcome unit :=
  foldM (fun _ a => f a) tt l.

(* tags.go parseTag (used by Tags.Exists) *)
Definition parse_tag (tag : str) : outcome (str * str) :=
  let tokens := splitn2 c_colon tag in
  if len tokens =? 2 then let! k := idx tokens 0 in let! v := idx tokens 1 in Ok (k, v)
  else let! v := idx tokens 0 in Ok (bs "unknown", v).

(* Tags.Exists(key): stops at the first match *)
Fixpoint tags_exists (key : str) (tags : list str) : outcome bool :=
  match tags with
  | [] => Ok false
  | t :: r => let! kv := parse_tag t in if str_eqb (fst kv) key then Ok true else tags_exists key r
  end.

(* ---------------------------------------------------------------------------------------- *)
(* InfluxDB: influxdb/flush.go *)

(* formatNameTags: kv := strings.SplitN(tag, ":", 2); kv[0] / kv[0], kv[1] *)
Definition influx_tag (tag : str) : outcome (str * str) :=
  let kv := splitn2 c_colon tag in
  if len kv =? 1 then let! v := idx kv 0 in Ok (bs "unnamed", v)
  else let! k := idx kv 0 in let! v := idx kv 1 in Ok (k, v).
Definition influx_name (tags : list str) : outcome unit :=
  let! _ := mapM influx_tag tags in Ok tt.

Definition field (disabled : bool) (name : String.string) : str :=
  if disabled then [] else bs name ++ [c_eq; c_comma].

(* addBaseTimer: the strings.Builder content (numbers abstracted), buf[:len(buf)-1] *)
Definition influx_base_fields (m : bmask) (pcts : list str) : str :=
  field (b_lower m) "lower" ++ field (b_upper m) "upper" ++ field (b_count m) "count"
  ++ field (b_count_ps m) "rate" ++ field (b_mean m) "mean" ++ field (b_median m) "median"
  ++ field (b_stddev m) "stddev" ++ field (b_sum m) "sum" ++ field (b_sumsq m) "sum_squares"
  ++ concat (map (fun p => p ++ [c_eq; c_comma]) pcts).
Definition influx_base_timer (m : bmask) (t : rtimer) : outcome Z :=
  let buf := influx_base_fields m (rt_pcts t) in
  if len buf =? 0 then Ok 0
  else
    let! _ := influx_name (rt_tags t) in
    let! _ := slice_to buf (len buf - 1) in Ok 1.

(* addHistogramTimer: "le.<bound>=<count>," per bucket, buf[:len(buf)-1] *)
Definition influx_hist_fields (h : list (bound * Z)) : str :=
  concat (map (fun e => bs "le." ++ [c_eq] ++ itoa (snd e) ++ [c_comma]) h).
Definition influx_hist_timer (legacy : bool) (t : rtimer) (h : list (bound * Z)) : outcome Z :=
  if negb legacy && (len h =? 0) then Ok 0
  else
    let! _ := influx_name (rt_tags t) in
    let buf := influx_hist_fields h in
    let! _ := slice_to buf (len buf - 1) in Ok 1.

Definition influx_timer (legacy : bool) (m : bmask) (t : rtimer) : outcome Z :=
  match rt_hist t with
  | HNil => influx_base_timer m t
  | HMap h => influx_hist_timer legacy t h
  end.

Definition sumM {A} (f : A -> outcome Z) (l : list A) : outcome Z :=
  foldM (fun acc a => let! k := f a in Ok (acc + k)) 0 l.

(* processMetrics: the number of lines written *)
Definition influx_payload (legacy : bool) (m : bmask) (r : reported) : outcome Z :=
  let! a := sumM (fun o => let! _ := influx_name (o_tags o) in Ok 1) (r_others r) in
  let! b := sumM (influx_timer legacy m) (r_timers r) in
  Ok (a + b).

(* ---------------------------------------------------------------------------------------- *)
(* New Relic: newrelic/flush.go, newrelic/newrelic.go *)

Inductive nr_type := NRInfra | NRInsights | NRMetrics.

(* maybeAddSource *)
Definition nr_source_tags (src : str) (tags : list str) : list str :=
  match src with
  | [] => tags
  | _ => if existsb (has_prefix (bs "statsdSource:")) tags then tags
         else tags ++ [bs "statsdSource:" ++ src]
  end.

(* setTags: keyvalpair := strings.SplitN(tag, ":", 2); keyvalpair[1], keyvalpair[0] *)
Definition nr_set_tag (tag : str) : outcome unit :=
  if contains c_colon tag then
    let kv := splitn2 c_colon tag in
    let! _ := idx kv 1 in let! _ := idx kv 0 in Ok tt
  else Ok tt.
Definition nr_set_tags (tags : list str) : outcome unit := each nr_set_tag tags.

(* pct.Str[:lastUnderscore], pct.Str[lastUnderscore+1:] *)
Definition nr_pct (name : str) : outcome unit :=
  let lu := last_index c_us name in
  let! _ := slice_to name lu in
  let! _ := slice_from name (lu + 1) in Ok tt.

(* every metric set of a series is built with the same setTags call; it is modelled once *)
Definition nr_timer (ty : nr_type) (t : rtimer) : outcome unit :=
  match rt_hist t with
  | HMap h =>
      each (fun _ => nr_set_tags (nr_source_tags (rt_src t) (rt_tags t ++ [bs "le:"]))) h
  | HNil =>
      let! _ := nr_set_tags (nr_source_tags (rt_src t) (rt_tags t)) in
      match ty with
      | NRMetrics => each nr_pct (rt_pcts t)
      | _ => Ok tt
      end
  end.

Definition nr_payload (ty : nr_type) (r : reported) : outcome unit :=
  let! _ := each (fun o => nr_set_tags (nr_source_tags (o_src o) (o_tags o))) (r_others r) in
  each (nr_timer ty) (r_timers r).

(* ---------------------------------------------------------------------------------------- *)
(* OTLP: otlp/backend.go, otlp/group.go, otlp/internal/data/{splitby,map,histograms}.go *)

(* if !Tags.Exists("host") && Source != "" { Tags = Tags.Concat({"host:" + Source}) } *)
Definition otlp_host_tags (src : str) (tags : list str) : outcome (list str) :=
  let! ex := tags_exists (bs "host") tags in
  if negb ex && negb (len src =? 0) then Ok (tags ++ [bs "host:" ++ src]) else Ok tags.

(* splitTagsByKeys: the in-place partition; one iteration of the inner loop over t *)
Definition split_inner (key : str) (st : list str * Z) (t : Z) : outcome (list str * Z) :=
  let '(tags, split) := st in
  let! x := idx tags t in
  if has_prefix (key ++ [c_colon]) x then
    let! y := idx tags split in
    let! tags1 := set_idx tags split x in
    let! tags2 := set_idx tags1 t y in
    Ok (tags2, split + 1)
  else Ok st.
(* t := split; t < len(tags); t++ : the index range is fixed when the loop is entered *)
Definition zrange (lo hi : Z) : list Z := map (fun i => lo + Z.of_nat i) (seq 0 (Z.to_nat (hi - lo))).
Definition split_outer (st : list str * Z) (key : str) : outcome (list str * Z) :=
  foldM (split_inner key) st (zrange (snd st) (len (fst st))).
Definition split_tags_by_keys (tags keys : list str) : outcome (list str * list str) :=
  let! st := (if negb (len keys =? 0) && negb (len tags =? 0) then foldM split_outer (tags, 0) keys
              else Ok (tags, 0)) in
  let! a := slice_to (fst st) (snd st) in
  let! b := slice_from (fst st) (snd st) in
  Ok (a, b).

(* WithDelimitedStrings: idx := strings.Index(kv, ":"); kv[:idx], kv[idx+1:] *)
Definition otlp_kv (kv : str) : outcome unit :=
  let i := index_of c_colon kv in
  if i =? -1 then Ok tt
  else let! _ := slice_to kv i in let! _ := slice_from kv (i + 1) in Ok tt.

Definition otlp_tags (keys : list str) (src : str) (tags : list str) : outcome unit :=
  let! tags' := otlp_host_tags src tags in
  let! ab := split_tags_by_keys tags' keys in
  let! _ := each otlp_kv (fst ab) in
  each otlp_kv (snd ab).

(* groups.insert: g.batches[len(g.batches)-1]; a batch is modelled by its number of metrics *)
Definition group_insert (batch : Z) (bs : list Z) : outcome (list Z) :=
  let! cur := idx bs (len bs - 1) in
  let! bs' := set_idx bs (len bs - 1) (cur + 1) in
  if batch <=? cur + 1 then Ok (bs' ++ [0]) else Ok bs'.
Fixpoint group_inserts (k : nat) (batch : Z) (bs : list Z) : outcome (list Z) :=
  match k with
  | O => Ok bs
  | S k' => let! bs' := group_insert batch bs in group_inserts k' batch bs'
  end.

(* WithHistogramDataPointStatistics: &values[0], &values[len(values)-1] *)
Definition otlp_statistics (legacy : bool) (n : Z) : outcome unit :=
  if negb legacy && (n =? 0) then Ok tt
  else let! _ := idx_len n 0 in idx_len n (n - 1).

(* slices.Sort on float64 keys: NaN first, then by value (-0 = +0), +Inf last *)
Definition bound_key (b : bound) : Z * Z :=
  match b with
  | BNaN => (0, 0) | BNInf => (1, 0)
  | BFin x => (2, if x <? 2^63 then x else 2^63 - x)
  | BPInf => (3, 0)
  end.
Definition bound_leb (a b : bound) : bool :=
  let '(a1, a2) := bound_key a in let '(b1, b2) := bound_key b in
  (a1 <? b1) || ((a1 =? b1) && (a2 <=? b2)).
Fixpoint bound_insert (x : bound) (l : list bound) : list bound :=
  match l with
  | [] => [x]
  | y :: r => if bound_leb x y then x :: l else y :: bound_insert x r
  end.
Definition bound_sort (l : list bound) : list bound := fold_right bound_insert [] l.

(* WithHistogramDataPointCumulativeBucketValues: make([]uint64, len), make([]float64, len-1),
   BucketCounts[i] = ..., ExplicitBounds[i] = ... unless the bound is +Inf *)
Definition otlp_buckets (h : list (bound * Z)) : outcome unit :=
  let bounds := bound_sort (map fst h) in
  let! nc := make_len (len h) in
  let! ne := make_len (len h - 1) in
  let! _ := foldM (fun i b =>
              let! _ := idx_len nc i in
              let! _ := (if is_pinf b then Ok tt else idx_len ne i) in
              Ok (i + 1)) 0 bounds in
  Ok tt.

Definition hist_len (h : hist) : Z := match h with HNil => 0 | HMap l => len l end.

(* one timer: the number of metrics inserted into the groups *)
Definition otlp_timer (legacy as_hist : bool) (m : bmask) (t : rtimer) : outcome Z :=
  if as_hist then
    let! _ := otlp_statistics legacy (rt_nvalues t) in
    let! _ := (match rt_hist t with
               | HMap (e :: l) => otlp_buckets (e :: l)
               | _ => Ok tt
               end) in
    Ok 1
  else if negb (hist_len (rt_hist t) =? 0) then Ok (hist_len (rt_hist t))
  else Ok (n_enabled m + len (rt_pcts t)).

(* SendMetricsAsync up to the posts: the metrics per batch; one HTTP request per batch *)
Definition otlp_payload (legacy as_hist : bool) (m : bmask) (keys : list str) (batch : Z)
           (r : reported) : outcome (list Z) :=
  let! g1 := foldM (fun g o =>
               let! _ := otlp_tags keys (o_src o) (o_tags o) in
               group_inserts (if o_counter o then 2 else 1) batch g) [0] (r_others r) in
  foldM (fun g t =>
    let! _ := otlp_tags keys (rt_src t) (rt_tags t) in
    let! k := otlp_timer legacy as_hist m t in
    group_inserts (Z.to_nat k) batch g) g1 (r_timers r).

(* ---------------------------------------------------------------------------------------- *)
(* CloudWatch: cloudwatch/cloudwatch.go *)

(* extractDimensions: segments := strings.SplitN(tag, ":", 2); segments[0], segments[1];
   dimensions[:MAX_DIMENSIONS] *)
Definition cw_dim (tag : str) : outcome (str * str) :=
  if contains c_colon tag then
    let seg := splitn2 c_colon tag in
    let! k := idx seg 0 in let! v := idx seg 1 in Ok (k, v)
  else Ok (tag, bs "set").
Definition cw_dims (tags : list str) : outcome (list (str * str)) :=
  let! d := mapM cw_dim tags in
  if 10 <? len d then slice_to d 10 else Ok d.

(* buildMetricData: the number of datums of one timer *)
Definition cw_timer (m : bmask) (t : rtimer) : outcome Z :=
  match rt_hist t with
  | HMap h => let! _ := each (fun _ => let! _ := cw_dims (rt_tags t ++ [bs "le:"]) in Ok tt) h in Ok (len h)
  | HNil => let! _ := cw_dims (rt_tags t) in Ok (n_enabled m + len (rt_pcts t))
  end.

(* the sending loop: data := metricData[start:end] in steps of 20; [todo] bounds the iterations
   (the loop ends when start reaches length), exhaustion is an outcome of its own *)
Inductive loop (A : Type) := Done (a : A) | OutOfFuel.
Arguments Done {A} a. Arguments OutOfFuel {A}.
Fixpoint cw_batches (fuel : nat) (length start : Z) (acc : list Z) : outcome (loop (list Z)) :=
  if start <? length then
    match fuel with
    | O => Ok OutOfFuel
    | S f =>
        let e := if length <? start + 20 then length else start + 20 in
        if e <=? start then Ok (Done (rev acc))
        else
          let! _ := slice_range (repeat tt (Z.to_nat length)) start e in
          cw_batches f length e ((e - start) :: acc)
    end
  else Ok (Done (rev acc)).

(* the sizes of the PutMetricData requests *)
Definition cw_payload (m : bmask) (r : reported) : outcome (loop (list Z)) :=
  let! a := sumM (fun o => let! _ := cw_dims (o_tags o) in Ok (if o_counter o then 2 else 1)) (r_others r) in
  let! b := sumM (cw_timer m) (r_timers r) in
  let n := a + b in
  if n <? 1 then Ok (Done []) else cw_batches (Z.to_nat n) n 0 [].
