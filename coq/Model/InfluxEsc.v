(* Model of pkg/backends/influxdb/flush.go: the three escapers, formatNameTags and the line each
   series becomes.  The Go escapers iterate over runes and write each rune back; on valid UTF-8
   that is the identity on every byte they do not escape, so they are modelled on bytes
   (not modelled: invalid UTF-8, which `range` turns into U+FFFD -- outside C17's alphabets).

   [unescape_*] are the specification-side left inverses used by C17_influx_escape_injective. *)
From GS Require Import Base.Bytes Model.Series Model.Batching.
Local Open Scope N_scope.

Definition c_cr : N := 13.
Definition c_eq : N := 61.
Definition c_dq : N := 34.
Definition c_r : N := 114.

(* the part common to escapeTagToBuilder and escapeNameToBuilder; [special] = the bytes that
   get a backslash in front *)
Fixpoint escape_with (special : N -> bool) (s : str) : str :=
  match s with
  | [] => []
  | ch :: r =>
      if ch =? c_nl then c_bslash :: c_n :: escape_with special r
      else if ch =? c_cr then c_bslash :: c_r :: escape_with special r
      else if ch =? c_tab then c_bslash :: c_t :: escape_with special r
      else if special ch then c_bslash :: ch :: escape_with special r
      else ch :: escape_with special r
  end.
Definition tag_special (ch : N) : bool :=
  (ch =? c_space) || (ch =? c_comma) || (ch =? c_bslash) || (ch =? c_eq).
Definition name_special (ch : N) : bool :=
  (ch =? c_space) || (ch =? c_comma) || (ch =? c_bslash).
Definition escape_tag : str -> str := escape_with tag_special.
Definition escape_name : str -> str := escape_with name_special.
(* escapeStringToBuilder: quotes around, backslash before backslash and double quote *)
Fixpoint escape_string_body (s : str) : str :=
  match s with
  | [] => []
  | ch :: r => if (ch =? c_bslash) || (ch =? c_dq) then c_bslash :: ch :: escape_string_body r
               else ch :: escape_string_body r
  end.
Definition escape_string (s : str) : str := c_dq :: escape_string_body s ++ [c_dq].

(* left inverses: a backslash takes the next byte with it; n, r, t after a backslash stand for
   the control characters (tag / name), every other byte for itself *)
Fixpoint unescape_nt (s : str) : str :=
  match s with
  | [] => []
  | ch :: r =>
      if ch =? c_bslash then
        match r with
        | [] => [ch]
        | x :: r' => (if x =? c_n then c_nl else if x =? c_r then c_cr else if x =? c_t then c_tab else x)
                     :: unescape_nt r'
        end
      else ch :: unescape_nt r
  end.
Definition unescape_tag : str -> str := unescape_nt.
Definition unescape_name : str -> str := unescape_nt.
Fixpoint unescape_string_body (s : str) : str :=
  match s with
  | [] => []
  | ch :: r =>
      if ch =? c_bslash then
        match r with [] => [ch] | x :: r' => x :: unescape_string_body r' end
      else ch :: unescape_string_body r
  end.
(* strips the surrounding quotes *)
Definition unescape_string (s : str) : str :=
  match s with
  | [] => []
  | _ :: r => unescape_string_body (removelast r)
  end.

(* ---- formatNameTags *)
(* strings.SplitN(tag, ":", 2): a tag without ':' is a value of the key "unnamed" *)
Definition influx_split (tag : str) : str * str :=
  match split_colon tag with Some (k, v) => (k, v) | None => (n_unnamed, tag) end.
(* the map key -> values, kept sorted by key (sort.Strings(keys)) with each value list sorted
   (sort.Strings(values); duplicates stay) *)
Fixpoint grp_insert (k v : str) (m : list (str * list str)) : list (str * list str) :=
  match m with
  | [] => [(k, [v])]
  | (k', vs) :: r =>
      if str_eqb k k' then (k', insert_sorted v vs) :: r
      else if str_leb k k' then (k, [v]) :: m
      else (k', vs) :: grp_insert k v r
  end.
Definition influx_groups (tags : list str) : list (str * list str) :=
  fold_left (fun m t => let kv := influx_split t in grp_insert (fst kv) (snd kv) m) tags [].
Definition s_uu : str := [c_us; c_us].
Fixpoint join_str (sep : str) (l : list str) : str :=
  match l with
  | [] => []
  | [x] => x
  | x :: r => x ++ sep ++ join_str sep r
  end.
Definition format_name_tags (name : str) (tags : list str) : str :=
  escape_name name
  ++ concat (map (fun kv => c_comma :: escape_tag (fst kv) ++ c_eq :: join_str s_uu (map escape_tag (snd kv)))
                 (influx_groups tags))
  ++ [c_space].

(* ---- the line of each series.  A pre-line is (measurement, tags, fields in order with each value
   as printed); an item: it_name = "measurement,tags " as written, it_kind = the timestamp,
   it_vals = the fields. *)
Definition ipre : Type := str * list str * list (str * str).
Definition influx_item (now : Z) (p : ipre) : item :=
  let '(name, tags, fields) := p in
  MkItem (format_name_tags name tags) (dec_Z now) [] [] (map (fun f => (fst f, VS (snd f))) fields).
(* the bytes of a line *)
Definition influx_print (now : Z) (p : ipre) : str :=
  let '(name, tags, fields) := p in
  format_name_tags name tags
  ++ join c_comma (map (fun f => fst f ++ c_eq :: snd f) fields)
  ++ c_space :: dec_Z now ++ [c_nl].

Section WithPrinters.
  Variable fmt_g : Z -> str.      (* fmt.Sprintf("%g", v) *)
  Variable fmt_s : Z -> str.      (* strconv.FormatFloat(v, 'f', -1, 64) *)

  Definition k_rate : str := n_rate.
  Definition k_le_dot : str := [108;101;46].
  Definition pr (v : val) : str :=
    match v with VI z => dec_Z z | VF b => fmt_g b | VS s => s end.

  Definition influx_counter (c : fcounter) : list ipre :=
    [ (fc_name c, fc_tags c, [(n_count, dec_Z (fc_value c)); (k_rate, fmt_g (fc_ps c))]) ].
  Definition influx_gauge (g : fgauge) : list ipre :=
    [ (fg_name g, fg_tags g, [(n_value, fmt_g (fg_value g))]) ].
  Definition influx_set (s : fset) : list ipre :=
    [ (fs_name s, fs_tags s, [(n_count, dec_Z (Z.of_nat (length (fs_members s))))]) ].
  (* addBaseTimer: field names differ from the other backends' suffixes *)
  Definition influx_timer_fields (mk : mask) (t : ftimer) : list (str * str) :=
    map (fun x => (snd (fst x), pr (snd x)))
        (filter (fun x => negb (fst (fst x)))
           [ (d_lower mk, n_lower, VF (ft_min t)); (d_upper mk, n_upper, VF (ft_max t));
             (d_count mk, n_count, VI (ft_count t)); (d_count_ps mk, k_rate, VF (ft_ps t));
             (d_mean mk, n_mean, VF (ft_mean t)); (d_median mk, n_median, VF (ft_median t));
             (d_stddev mk, n_stddev, VF (ft_stddev t)); (d_sum mk, n_sum, VF (ft_sum t));
             (d_sumsq mk, n_sum_squares, VF (ft_sumsq t)) ])
    ++ map (fun p => (fst p, fmt_g (snd p))) (ft_pcts t).
  Definition influx_timer (mk : mask) (t : ftimer) : list ipre :=
    match ft_hist t with
    | None =>
        match influx_timer_fields mk t with
        | [] => []                                   (* "if sb.Len() == 0 { return }" *)
        | fs => [ (ft_name t, ft_tags t, fs) ]
        end
    | Some [] => []
    | Some h =>
        [ (ft_name t, ft_tags t,
           map (fun b => (k_le_dot ++ (if (fst b =? inf_bits)%Z then s_plus_inf else fmt_s (fst b)),
                          dec_Z (snd b))) h) ]
    end.

  (* processMetrics' order: counters, timers, gauges, sets; one line per pre-line *)
  Definition influx_pres (mk : mask) (m : fmap) : list ipre :=
    concat (map influx_counter (fm_counters m)) ++ concat (map (influx_timer mk) (fm_timers m))
    ++ concat (map influx_gauge (fm_gauges m)) ++ concat (map influx_set (fm_sets m)).
  Definition influx_items (mk : mask) (now : Z) (m : fmap) : list item :=
    map (influx_item now) (influx_pres mk m).
  Definition influx_payloads (pb : N) (mk : mask) (now : Z) (m : fmap) : list (list item) :=
    influx_batches pb (influx_items mk now m).
End WithPrinters.
