(* The aggregate state of one MetricAggregator (pkg/statsd/aggregator.go) as a labelled transition
   system over the partial operations of Model/Stats.v and Model/Histogram.v: property C04.

     LMerge batch   ReceiveMap -> MetricMap.Merge -> MergeTimer for every timer of the batch
     LFlush         MetricAggregator.Flush: Timers.Each (flush_timer)
     LReset gone    MetricAggregator.Reset: expired series ([gone k = true]; the clock is not
                    modelled, so EVERY expiry pattern is a label) are deleted, the others are
                    replaced by a timer that keeps the tags only, with Values[:0] and, for a
                    timer with a histogram tag, emptyHistogram(...)

   A step returns [Panic] when one of the Go index / slice expressions on its way is out of range.
   Counters, gauges and sets are kept as (tags, source) only: Flush and Reset perform no partial
   operation on them (map writes to an existing inner map, a division by the flush interval),
   the payload builders of Model/PayloadPartial.v read their tags.

   The carrier [V] of float64 values and its operations are a parameter ([Stats.vops]). *)
From Coq Require Import String.
From Coq Require Import List ZArith.
From GS Require Import Base.Bytes.
From GS Require Import Model.GoPartial.
From GS Require Import Model.Histogram.
From GS Require Import Model.Stats.
Import ListNotations.
Local Open Scope Z_scope.

(* series identity: (name, tagsKey) *)
Definition skey : Type := (str * str)%type.
Definition skey_eqb (a b : skey) : bool := str_eqb (fst a) (fst b) && str_eqb (snd a) (snd b).

(* a series of another type: what the payload builders read of it *)
(* [o_counter]: a counter is reported as two metrics (value and rate), a gauge or a set as one *)
Record other := { o_key : skey; o_tags : list str; o_src : str; o_counter : bool }.

Section Agg.
  Context {V : Type}.
  Variable O : vops V.
  Variable pf : str -> option bound.
  Variable rank : Z -> Z -> Z.
  Variable legacy : bool.

  Record entry := { e_key : skey; e_src : str; e_timer : timer V }.
  Record agg := { a_timers : list entry; a_others : list other }.
  Definition agg_empty : agg := {| a_timers := []; a_others := [] |}.

  (* one timer of an incoming map, as MetricMap.Receive / translateFromProtobuf build it: values,
     sampled count, tags, source; every other field is Go's zero value *)
  Record incoming := { i_key : skey; i_src : str; i_tags : list str; i_values : list V; i_sampled : V }.

  (* MergeTimer on a series present on both sides: append the values, add the sampled counts,
     keep everything else of the aggregator's timer (tags, percentiles, histogram) *)
  Definition merge_into (t : timer V) (i : incoming) : timer V :=
    {| t_count := t_count t; t_sampled := vadd O (t_sampled t) (i_sampled i); t_persec := t_persec t;
       t_mean := t_mean t; t_median := t_median t; t_min := t_min t; t_max := t_max t;
       t_var := t_var t; t_sum := t_sum t; t_sumsq := t_sumsq t;
       t_values := t_values t ++ i_values i; t_pcts := t_pcts t; t_tags := t_tags t;
       t_hist := t_hist t |}.

  Fixpoint merge1 (l : list entry) (i : incoming) : list entry :=
    match l with
    | [] => [{| e_key := i_key i; e_src := i_src i;
                e_timer := fresh O (i_values i) (i_sampled i) (i_tags i) HNil |}]
    | e :: r => if skey_eqb (e_key e) (i_key i)
                then {| e_key := e_key e; e_src := e_src e; e_timer := merge_into (e_timer e) i |} :: r
                else e :: merge1 r i
    end.

  Fixpoint add_other (l : list other) (o : other) : list other :=
    match l with
    | [] => [o]
    | x :: r => if skey_eqb (o_key x) (o_key o) then x :: r else x :: add_other r o
    end.

  Definition merge (a : agg) (ts : list incoming) (os : list other) : agg :=
    {| a_timers := fold_left merge1 ts (a_timers a); a_others := fold_left add_other os (a_others a) |}.

  Definition flush_entry (c : config V) (e : entry) : outcome entry :=
    let! t := flush_timer O pf rank legacy c (e_timer e) in
    Ok {| e_key := e_key e; e_src := e_src e; e_timer := t |}.

  Definition flush (c : config V) (a : agg) : outcome agg :=
    let! ts := mapM (flush_entry c) (a_timers a) in
    Ok {| a_timers := ts; a_others := a_others a |}.

  Definition reset_entry (c : config V) (e : entry) : outcome entry :=
    let t := e_timer e in
    let! vs := slice_to (t_values t) 0 in                            (* timer.Values[:0] *)
    let! h := (if has_histogram_tag (t_tags t) then empty_histogram pf (t_tags t) (c_limit c)
               else Ok HNil) in
    Ok {| e_key := e_key e; e_src := e_src e; e_timer := fresh O vs (v0 O) (t_tags t) h |}.

  Definition reset (c : config V) (gone : skey -> bool) (a : agg) : outcome agg :=
    let! ts := mapM (reset_entry c) (filter (fun e => negb (gone (e_key e))) (a_timers a)) in
    Ok {| a_timers := ts; a_others := a_others a |}.

  Inductive label :=
  | LMerge (ts : list incoming) (os : list other)
  | LFlush
  | LReset (gone : skey -> bool).

  Definition step (c : config V) (a : agg) (l : label) : outcome agg :=
    match l with
    | LMerge ts os => Ok (merge a ts os)
    | LFlush => flush c a
    | LReset gone => reset c gone a
    end.

  (* a history from the empty aggregator *)
  Definition run (c : config V) (ls : list label) : outcome agg := foldM (step c) agg_empty ls.

  (* number of timer values a history hands to the aggregator (bounds every timer's count) *)
  Definition label_values (l : label) : Z :=
    match l with
    | LMerge ts _ => fold_right (fun i acc => len (i_values i) + acc) 0 ts
    | _ => 0
    end.
  Definition history_values (ls : list label) : Z := fold_right (fun l acc => label_values l + acc) 0 ls.
End Agg.

Arguments entry V : clear implicits.
Arguments agg V : clear implicits.
Arguments incoming V : clear implicits.
Arguments label V : clear implicits.

(* configurations the server accepts: |p| <= 100 for every threshold, a uint32 bucket limit *)
Definition config_ok {V} (c : config V) : Prop :=
  Forall (fun p => -100 <= p <= 100) (c_pcts c) /\ 0 <= c_limit c.
