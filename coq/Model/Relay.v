(* Model of the statsd relay backend's printers (pkg/backends/statsdaemon/statsdaemon.go):
   writeLine / processMetrics for metrics, constructEventMessage for events.  The batching of
   lines into datagrams is Batching.relay_run.  fmt's %f is an oracle ([fmt_f], a Section
   variable); %d and strconv.Itoa / FormatInt are Batching.dec_Z. *)
From GS Require Import Base.Bytes Model.Lexer Model.Series Model.Batching.
Local Open Scope N_scope.

Definition type_token (ty : mtype) : str :=
  match ty with
  | Counter => [c_c] | Gauge => [c_g] | Timer => [c_m; c_s] | MSet => [c_s]
  end.

(* writeLine(format, name, tags, value) without the final newline: "<name>:<value>|<type>" and,
   when the tags key is non-empty and tags are not disabled, "|#<tags key>" *)
Definition tag_part (disable_tags : bool) (tags : str) : str :=
  match tags with
  | [] => []
  | _ => if disable_tags then [] else c_pipe :: c_hash :: tags
  end.
Definition relay_line (disable_tags : bool) (name tags value : str) (ty : mtype) : str :=
  name ++ c_colon :: value ++ c_pipe :: type_token ty ++ tag_part disable_tags tags.

Section WithPrinter.
  Variable fmt_f : Z -> str.      (* fmt.Sprintf("%f", v) of a float64 bit pattern *)

  Definition nl (l : str) : str := l ++ [c_nl].
  Definition relay_counter (dt : bool) (c : fcounter) : list str :=
    if has_prefix s_statsd_dot (fc_name c) then []
    else [nl (relay_line dt (fc_name c) (fc_key c) (dec_Z (fc_value c)) Counter)].
  Definition relay_timer (dt : bool) (t : ftimer) : list str :=
    map (fun v => nl (relay_line dt (ft_name t) (ft_key t) (fmt_f v) Timer)) (ft_values t).
  Definition relay_gauge (dt : bool) (g : fgauge) : list str :=
    [nl (relay_line dt (fg_name g) (fg_key g) (fmt_f (fg_value g)) Gauge)].
  Definition relay_set (dt : bool) (s : fset) : list str :=
    map (fun k => nl (relay_line dt (fs_name s) (fs_key s) k MSet)) (fs_members s).

  (* processMetrics' order: counters, timers, gauges, sets *)
  Definition relay_lines (dt : bool) (m : fmap) : list str :=
    concat (map (relay_counter dt) (fm_counters m)) ++ concat (map (relay_timer dt) (fm_timers m))
    ++ concat (map (relay_gauge dt) (fm_gauges m)) ++ concat (map (relay_set dt) (fm_sets m)).

  (* the datagrams of one flush; each is the list of its lines *)
  Definition relay_payloads (ps : N) (dt : bool) (m : fmap) : list (list str) :=
    relay_batches ps (relay_lines dt m).
End WithPrinter.

(* ---------------------------------------------------------------------------------------- *)
(* constructEventMessage *)

(* strings.Replace(e.Text, "\n", "\\n", -1) *)
Fixpoint escape_nl (s : str) : str :=
  match s with
  | [] => []
  | b :: r => if b =? c_nl then c_bslash :: c_n :: escape_nl r else b :: escape_nl r
  end.

Definition opt_field (k : N) (v : str) : str :=
  match v with [] => [] | _ => c_pipe :: k :: c_colon :: v end.

(* Priority.String / AlertType.String *)
Definition pri_string (p : N) : str := if p =? 1 then str_low else str_normal.
Definition alert_string (a : N) : str :=
  if a =? 1 then str_warning else if a =? 2 then str_error else if a =? 3 then str_success else str_info.

Definition relay_event (e : event) : str :=
  let text := escape_nl (e_text e) in
  c_us :: c_e :: c_lbrace :: dec_N (N.of_nat (length (e_title e))) ++ c_comma ::
  dec_N (N.of_nat (length text)) ++ c_rbrace :: c_colon :: e_title e ++ c_pipe :: text
  ++ (if (e_date e =? 0)%Z then [] else c_pipe :: c_d :: c_colon :: dec_Z (e_date e))
  ++ opt_field c_h (e_host e)
  ++ opt_field c_k (e_key e)
  ++ opt_field c_s (e_stype e)
  ++ (if e_pri e =? 0 then [] else c_pipe :: c_p :: c_colon :: pri_string (e_pri e))
  ++ (if e_alert e =? 0 then [] else c_pipe :: c_t :: c_colon :: alert_string (e_alert e))
  ++ match e_tags e with
     | [] => []
     | _ => c_pipe :: c_hash :: join c_comma (e_tags e)
     end.

(* ---------------------------------------------------------------------------------------- *)
(* specification side of the round-trip theorems (Props/C17.v) *)

(* ---- alphabets of the property *)
Definition name_byte (b : N) : bool := is_alnum b || (b =? c_us) || (b =? c_dot) || (b =? c_dash).
Definition tag_byte (b : N) : bool :=
  is_alnum b || (b =? c_us) || (b =? c_dot) || (b =? c_colon) || (b =? c_slash) || (b =? c_dash).
Definition name_ok (name : str) : Prop :=
  forallb name_byte name = true /\ match name with [] => False | b :: _ => b <> c_us end.
Definition tag_ok (t : str) : Prop := t <> [] /\ forallb tag_byte t = true.

(* what the proofs need of a tag: non-empty, no ',', '|', NUL *)
Definition sep_free (b : N) : bool := negb (b =? c_comma) && negb (b =? c_pipe) && negb (b =? c_nul).
Definition tag_good (t : str) : Prop := t <> [] /\ forallb sep_free t = true.

Definition value_ok (v : str) : Prop := forallb (fun b => negb (b =? c_pipe) && negb (b =? c_nul)) v = true.
(* the tags the parser must deliver for a series: the sorted tags, then the source as s:<source> *)
Definition source_tag (src : str) : list str := match src with [] => [] | _ => [c_s :: c_colon :: src] end.
Definition series_tags (src : str) (tags : list str) : list str := sort_tags tags ++ source_tag src.

(* no backslash immediately followed by 'n' *)
Fixpoint no_bsn (s : str) : bool :=
  match s with
  | [] => true
  | b :: r => match r with
              | b2 :: _ => negb ((b =? c_bslash) && (b2 =? c_n)) && no_bsn r
              | [] => true
              end
  end.

Definition no_pipe (s : str) : bool := forallb (fun b => negb (b =? c_pipe)) s.

(* an event gostatsd's parser can produce, whose text has no literal backslash-n pair *)
Record event_ok (e : event) : Prop := {
  ok_title_len : N.of_nat (length (e_title e)) <= max_uint32;
  ok_text_len : N.of_nat (length (escape_nl (e_text e))) <= max_uint32;
  ok_text : no_bsn (e_text e) = true;
  ok_date : (0 <= e_date e <= Z.of_N max_int64)%Z;
  ok_host : no_pipe (e_host e) = true;
  ok_key : no_pipe (e_key e) = true;
  ok_stype : no_pipe (e_stype e) = true;
  ok_pri : e_pri e <= 1;
  ok_alert : e_alert e <= 3;
  ok_tags : Forall tag_good (e_tags e)
}.

