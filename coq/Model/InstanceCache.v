(* Model of the instance cache of gostatsd (property C12):
     pkg/cachedinstances/cloudprovider/cached_cloud_provider.go         (Run, Peek, doRefresh, handleInstanceInfo)
     pkg/cachedinstances/cloudprovider/cached_cloud_provider_lookup.go  (run, doLookup)
   as a labelled transition system.  One label = one atomic action of the Go code:

     Submit s        a client's send on IpSink() meets the dispatcher's `case ip := <-ld.ipSource`
     SendLookup      Run's arm `toLookupC <- toLookupIP` meets the same receive
     Batch res err   the dispatcher leaves its select (batch full or 10 ms timer) and doLookup calls
                     cloudProvider.Instance(ctx, ips...), which returns the map [res] and maybe an error
     HandleInfo now  doLookup's `ld.infoSink <- res` meets Run's `case info := <-ownInfoSource`:
                     handleInstanceInfo(info), with time.Now() = now
     Return          Run's arm `toReturnInfoC <- toReturnInfo` meets the consumer's receive on InfoSource()
     Refresh t ord   Run's arm `t := <-refreshTicker.C`: doRefresh(t); [ord] is the order in which Go's map
                     iteration met the expired entries (the code is free to choose it; the model checks that
                     it is a permutation of the expired entries)
     Peek s now      another goroutine calls Peek(s), with time.Now() = now

   After every arm of Run's select the loop refills its two one-slot send registers from the stacks
   ([refill]).  Times are nanoseconds in Z (time.Time / UnixNano; int64 overflow is not modelled).  The four
   statistics counters are uint64: arithmetic modulo 2^64, so that an underflow would show as 2^64-1 as in
   Go.  No operation of the anchored code can panic (the only index expressions are guarded by len > 0;
   reading a nil map is defined in Go), so there is no Panic outcome.

   Definitions only; lemmas are in Proofs/InstanceCache*.v. *)
From GS Require Import Base.Bytes.
From stdpp Require Import gmap.
Local Open Scope Z_scope.

Definition source := str.
Record instance := Inst { i_id : str; i_tags : list str }.
(* gostatsd.InstanceInfo: IP and Instance (nil = lookup error or not found) *)
Definition info := (source * option instance)%type.

(* instanceHolder *)
Record holder := Holder { h_inst : option instance; h_expires : Z; h_access : Z }.

(* gostatsd.CacheOptions (the refresh period only drives the ticker: it is the label Refresh) and the
   provider's MaxInstancesBatch() *)
Record config := Config { c_ttl : Z; c_negttl : Z; c_idle : Z; c_limit : Z }.

(* what cloudProvider.Instance returned: a Go map source -> *Instance, given as an association list; a key
   bound to a nil pointer is [(s, None)] *)
Definition result := list (source * option instance).

Fixpoint res_get (res : result) (s : source) : option instance :=
  match res with
  | [] => None
  | (k, v) :: r => if decide (k = s) then v else res_get r s
  end.

(* doLookup: one InstanceInfo per position of ips, carrying instances[ip] *)
Definition answers (ips : list source) (res : result) : list info :=
  map (λ ip, (ip, res_get res ip)) ips.

Definition u64 (z : Z) : Z := z mod 2 ^ 64.
Definition inc64 (z : Z) : Z := u64 (z + 1).
Definition dec64 (z : Z) : Z := u64 (z - 1).

(* the fields of CachedCloudProvider that handleInstanceInfo / doRefresh / Peek / emit work on *)
Record core := Core {
  k_cache : gmap source holder;
  k_pos : Z;   (* statsCachePositive *)
  k_neg : Z;   (* statsCacheNegative *)
  k_rpos : Z;  (* statsCacheRefreshPositive *)
  k_rneg : Z   (* statsCacheRefreshNegative *)
}.

(* handleInstanceInfo without its last line (the append to toReturnInfo is in [step]) *)
Definition handle_info (c : config) (now : Z) (i : info) (k : core) : core :=
  let '(ip, io) := i in
  let ttl := match io with None => c_negttl c | Some _ => c_ttl c end in
  let expires := now + ttl in
  match k_cache k !! ip with
  | None =>
      (* not in cache: count it *)
      let ca := <[ip := Holder io expires now]> (k_cache k) in
      match io with
      | None => Core ca (k_pos k) (inc64 (k_neg k)) (k_rpos k) (k_rneg k)
      | Some _ => Core ca (inc64 (k_pos k)) (k_neg k) (k_rpos k) (k_rneg k)
      end
  | Some cur =>
      match io with
      | None =>
          (* lookup failed: keep the old instance *)
          Core (<[ip := Holder (h_inst cur) expires (h_access cur)]> (k_cache k))
               (k_pos k) (k_neg k) (k_rpos k) (inc64 (k_rneg k))
      | Some _ =>
          let ca := <[ip := Holder io expires (h_access cur)]> (k_cache k) in
          match h_inst cur with
          | None => Core ca (inc64 (k_pos k)) (dec64 (k_neg k)) (inc64 (k_rpos k)) (k_rneg k)
          | Some _ => Core ca (k_pos k) (k_neg k) (inc64 (k_rpos k)) (k_rneg k)
          end
      end
  end.

Definition positive_entry (kh : source * holder) : Prop := is_Some (h_inst kh.2).
Definition negative_entry (kh : source * holder) : Prop := h_inst kh.2 = None.
(* now-holder.lastAccess() > idleNano *)
Definition idle_entry (c : config) (t : Z) (kh : source * holder) : Prop := c_idle c < t - h_access kh.2.
(* else if t.After(holder.expires) *)
Definition expired_entry (c : config) (t : Z) (kh : source * holder) : Prop :=
  ¬ idle_entry c t kh ∧ h_expires kh.2 < t.

Global Instance positive_entry_dec kh : Decision (positive_entry kh) := decide (is_Some (h_inst kh.2)).
Global Instance negative_entry_dec kh : Decision (negative_entry kh) := decide (h_inst kh.2 = None).
Global Instance idle_entry_dec c t kh : Decision (idle_entry c t kh) := decide (c_idle c < t - h_access kh.2).
Global Instance expired_entry_dec c t kh : Decision (expired_entry c t kh) :=
  decide (¬ idle_entry c t kh ∧ h_expires kh.2 < t).

Definition keys {V} (m : gmap source V) : list source := (map_to_list m).*1.

(* doRefresh: new core, the evicted sources, the sources to query again (in the model's own order) *)
Definition do_refresh (c : config) (t : Z) (k : core) : core * list source * list source :=
  let ev := filter (idle_entry c t) (k_cache k) in
  let keep := filter (λ kh, ¬ idle_entry c t kh) (k_cache k) in
  (Core keep
        (Nat.iter (size (filter positive_entry ev)) dec64 (k_pos k))   (* one -- per evicted entry *)
        (Nat.iter (size (filter negative_entry ev)) dec64 (k_neg k))
        (k_rpos k) (k_rneg k),
   keys ev,
   keys (filter (expired_entry c t) (k_cache k))).

(* what Peek returns: None = miss, Some None = negative hit, Some (Some i) = hit *)
Definition peek_result (ca : gmap source holder) (s : source) : option (option instance) :=
  h_inst <$> ca !! s.

(* Peek's side effect: holder.updateAccess() *)
Definition touch (now : Z) (s : source) (ca : gmap source holder) : gmap source holder :=
  match ca !! s with
  | None => ca
  | Some h => <[s := Holder (h_inst h) (h_expires h) now]> ca
  end.

Record state := State {
  st_core : core;
  (* Run's loop state.  Stacks: head of the list = last element of the Go slice = next to be popped *)
  to_lookup : list source;        (* ccp.toLookupIPs *)
  lookup_reg : option source;     (* toLookupIP while toLookupC != nil *)
  to_return : list info;          (* ccp.toReturnInfo *)
  return_reg : option info;       (* toReturnInfo while toReturnInfoC != nil *)
  (* the lookup dispatcher *)
  pending : list source;          (* ips collected by run, in arrival order *)
  inflight : list info;           (* answers doLookup still has to send, in order *)
  (* history (ghost: never read by [step]), newest first *)
  submitted : list source;                        (* every Submit *)
  requeued : list source;                         (* every source queued by a refresh *)
  batches : list (list source * result * bool);   (* every provider call: ips, returned map, error? *)
  handled : list info;                            (* every info given to handleInstanceInfo *)
  evicted : list source;                          (* every eviction *)
  delivered : list info;                          (* every info received by the consumer *)
  peeked : list (source * option (option instance)) (* every Peek and its result *)
}.

Definition cache (st : state) : gmap source holder := k_cache (st_core st).
Definition gauge_pos (st : state) : Z := k_pos (st_core st).
Definition gauge_neg (st : state) : Z := k_neg (st_core st).

Definition init : state :=
  State (Core ∅ 0 0 0 0) [] None [] None [] [] [] [] [] [] [] [] [].

Inductive label :=
| Submit (s : source)
| SendLookup
| Batch (res : result) (err : bool)
| HandleInfo (now : Z)
| Return
| Refresh (t : Z) (order : list source)
| Peek (s : source) (now : Z).

(* the dispatcher sits in its select and can take one more ip: doLookup is not running and the batch is
   not full (run leaves the select as soon as len(ips) >= MaxInstancesBatch()) *)
Definition can_receive (c : config) (pe : list source) (inf : list info) : bool :=
  match inf, pe with
  | [], [] => true
  | [], _ :: _ => bool_decide (Z.of_nat (length pe) < c_limit c)
  | _ :: _, _ => false
  end.

(* the two `if ... == nil && len(...) > 0` blocks at the end of Run's loop body *)
Definition refill {A} (stack : list A) (reg : option A) : list A * option A :=
  match reg, stack with
  | None, x :: r => (r, Some x)
  | _, _ => (stack, reg)
  end.

(* the end of Run's loop body, executed after every arm of its select *)
Definition loop_tail (st : state) : state :=
  let 'State k tl lr tr rr pe inf sub req bat han evi del pk := st in
  let '(tl', lr') := refill tl lr in
  let '(tr', rr') := refill tr rr in
  State k tl' lr' tr' rr' pe inf sub req bat han evi del pk.

Definition step (c : config) (st : state) (l : label) : option state :=
  let 'State k tl lr tr rr pe inf sub req bat han evi del pk := st in
  match l with
  | Submit s =>
      if can_receive c pe inf
      then Some (State k tl lr tr rr (pe ++ [s]) inf (s :: sub) req bat han evi del pk)
      else None
  | SendLookup =>
      match lr with
      | Some s =>
          if can_receive c pe inf
          then Some (loop_tail (State k tl None tr rr (pe ++ [s]) inf sub req bat han evi del pk))
          else None
      | None => None
      end
  | Batch res err =>
      match inf, pe with
      | [], _ :: _ => Some (State k tl lr tr rr [] (answers pe res) sub req ((pe, res, err) :: bat) han evi del pk)
      | _, _ => None
      end
  | HandleInfo now =>
      match inf with
      | i :: inf' =>
          Some (loop_tail (State (handle_info c now i k) tl lr (i :: tr) rr pe inf' sub req bat (i :: han) evi del pk))
      | [] => None
      end
  | Return =>
      match rr with
      | Some i => Some (loop_tail (State k tl lr tr None pe inf sub req bat han evi (i :: del) pk))
      | None => None
      end
  | Refresh t order =>
      let '(k', ev, rq) := do_refresh c t k in
      if decide (order ≡ₚ rq)
      then Some (loop_tail (State k' (rev order ++ tl) lr tr rr pe inf sub (rev order ++ req) bat han (ev ++ evi) del pk))
      else None
  | Peek s now =>
      Some (State (Core (touch now s (k_cache k)) (k_pos k) (k_neg k) (k_rpos k) (k_rneg k))
                  tl lr tr rr pe inf sub req bat han evi del ((s, peek_result (k_cache k) s) :: pk))
  end.

(* ---- vocabulary of the property statements ------------------------------------------------------ *)

Definition opt_list {A} (o : option A) : list A := match o with Some x => [x] | None => [] end.

(* sources accepted for lookup that no provider call has contained yet *)
Definition waiting (st : state) : list source := pending st ++ opt_list (lookup_reg st) ++ to_lookup st.
(* answers produced by doLookup that the consumer has not received yet *)
Definition in_transit (st : state) : list info := inflight st ++ to_return st ++ opt_list (return_reg st).
(* all positions of all provider calls *)
Definition queried (st : state) : list source := concat (map (λ b, b.1.1) (batches st)).
(* the answers the property demands: one per position of each provider call, carrying that call's
   result for the position's source (nothing if the map has no instance for it) *)
Definition due_answers (st : state) : list info := concat (map (λ b, answers b.1.1 b.1.2) (batches st)).

Definition serves (st : state) (s : source) (i : instance) : Prop := peek_result (cache st) s = Some (Some i).

(* the instance of the newest positive answer for s among [new] (newest first), else [i] *)
Fixpoint latest_positive (s : source) (new : list info) (i : instance) : instance :=
  match new with
  | [] => i
  | (s', Some i') :: r => if decide (s' = s) then i' else latest_positive s r i
  | (_, None) :: r => latest_positive s r i
  end.
