(* The lexer as it was BEFORE the repair of defect D11 (/repo 162b292): lexUint multiplied in uint64
   first and tested "n < value" afterwards, which misses the wrap-arounds with
   2^64/9 <= value.  Verbatim copies of the five definitions of Model/Lexer.v that contain or
   reach that test (suffix _wrap), everything else is shared.  Used only for the refutation
   example C02_legacy_refuted_uint_wrap. *)
From GS Require Import Base.Bytes Model.Lexer.
Local Open Scope N_scope.

Fixpoint lex_uint_wrap (v : N) (consumed : bool) (l : str) : result (N * str) :=
  match l with
  | [] => if consumed then Ok (v, []) else Rej EInvalidFormat
  | b :: r =>
      if is_digit b then
        let n := (v * 10 + (b - c_0)) mod two64 in
        if n <? v then Rej EOverflow else lex_uint_wrap n true r
      else if b =? c_nul then Ok (v, r)
      else if consumed then Ok (v, l) else Rej EInvalidFormat
  end.

Definition lex_uint32_wrap (l : str) : result (N * str) :=
  match lex_uint_wrap 0 false l with
  | Ok (v, r) => if max_uint32 <? v then Rej EOverflow else Ok (v, r)
  | e => e
  end.

(* [tags] reversed *)
Fixpoint lex_eattrs_wrap (st : estate) (e : event) (tags : list str) (l : str)
  : result (event * list str) :=
  match l with
  | [] =>
      match st with
      | EAttrs | EAttr | EOther => Ok (e, tags)
      | EColon _ => Rej EInvalidFormat
      | EDate v consumed =>
          if consumed then
            match set_date v e with Ok e' => Ok (e', tags) | Rej x => Rej x | Pan => Pan end
          else Rej EInvalidFormat
      | EField k acc =>
          match set_field k (rev acc) e with Ok e' => Ok (e', tags) | Rej x => Rej x | Pan => Pan end
      | ETags cur => Ok (e, add_tag cur tags)
      end
  | b :: r =>
      match st with
      | EAttrs =>
          if b =? c_pipe then lex_eattrs_wrap EAttr e tags r
          else if b =? c_nul then Ok (e, tags)
          else Rej EInvalidAttributes
      | EAttr =>
          if (b =? c_d) || is_field_key b then lex_eattrs_wrap (EColon b) e tags r
          else if b =? c_hash then lex_eattrs_wrap (ETags []) e tags r
          else lex_eattrs_wrap EOther e tags r
      | EColon k =>
          if b =? c_colon then
            if k =? c_d then lex_eattrs_wrap (EDate 0 false) e tags r
            else lex_eattrs_wrap (EField k []) e tags r
          else Rej EInvalidFormat
      | EDate v consumed =>
          if is_digit b then
            let n := (v * 10 + (b - c_0)) mod two64 in
            if n <? v then Rej EOverflow else lex_eattrs_wrap (EDate n true) e tags r
          else if b =? c_nul then
            match set_date v e with
            | Ok e' => lex_eattrs_wrap EAttrs e' tags r | Rej x => Rej x | Pan => Pan end
          else if consumed then
            match set_date v e with
            | Ok e' => if b =? c_pipe then lex_eattrs_wrap EAttr e' tags r else Rej EInvalidAttributes
            | Rej x => Rej x | Pan => Pan end
          else Rej EInvalidFormat
      | EField k acc =>
          if b =? c_pipe then
            match set_field k (rev acc) e with
            | Ok e' => lex_eattrs_wrap EAttr e' tags r | Rej x => Rej x | Pan => Pan end
          else lex_eattrs_wrap (EField k (b :: acc)) e tags r
      | ETags cur =>
          if b =? c_comma then lex_eattrs_wrap (ETags []) e (add_tag cur tags) r
          else if b =? c_pipe then lex_eattrs_wrap EAttr e (add_tag cur tags) r
          else if b =? c_nul then lex_eattrs_wrap EAttrs e (add_tag (b :: cur) tags) r
          else lex_eattrs_wrap (ETags (b :: cur)) e tags r
      | EOther =>
          if b =? c_pipe then lex_eattrs_wrap EAttr e tags r
          else lex_eattrs_wrap EOther e tags r
      end
  end.

(* lexDatadogSpecial onwards; [l] is the suffix after the leading '_' *)
Definition lex_event_gen_wrap (wrap32 : bool) (l : str) : outcome :=
  match l with
  | [] => OReject EInvalidType
  | b :: r0 =>
      if negb (b =? c_e) then OReject EInvalidType
      else
        let res :=
          bind (lex_assert c_lbrace r0) (fun r1 =>
          bind (lex_uint32_wrap r1) (fun '(tl, r2) =>
          bind (lex_assert c_comma r2) (fun r3 =>
          bind (lex_uint32_wrap r3) (fun '(xl, r4) =>
          bind (lex_assert c_rbrace r4) (fun r5 =>
          bind (lex_assert c_colon r5) (fun r6 =>
          bind (event_body wrap32 tl xl r6) (fun '(title, text, r7) =>
          lex_eattrs_wrap EAttrs (empty_event title text) [] r7))))))) in
        match res with
        | Ok (e, tags) => OEvent (with_tags e (rev tags))
        | Rej x => OReject x
        | Pan => OPanic
        end
  end.

Definition lex_gen_wrap (wrap32 : bool) (pf : str -> pfres) (ns : str) (l : str) : outcome :=
  match l with
  | [] => OReject EInvalidType
  | b :: r =>
      if b =? c_us then lex_event_gen_wrap wrap32 r
      else if b =? c_nul then OReject EInvalidType
      else lex_metric pf ns l
  end.


(* the pre-D11 lexer (with the D1 repair) *)
Definition lex_uint_wrap_legacy := lex_gen_wrap false.
