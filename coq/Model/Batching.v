(* Model of the payload builders and batching state machines of the backends
   (pkg/backends/{datadog,newrelic,influxdb,otlp,cloudwatch,graphite,stdout,statsdaemon}).

   A flushed metric map is four lists of series in the order in which Go's nested-map iteration
   (Counters.Each, Timers.Each, ...) happens to visit them: the batchers below are functions of
   that order, the theorems hold for every order.

   Part 1: the open-batch state machines, generic in the item type.
   Part 2: the flushed series, the sub-metric mask, and the item list each backend emits for
   each series (which sub-metrics under which mask, histogram vs summary, tag/host encoding).

   Value printing (fmt %f, %g, strconv.FormatFloat(v,'f',-1,64)) is external code: Section
   variables here, a per-case table in the correspondence (DESIGN 3.3).  %d is modelled
   ([dec_Z]).  JSON / protobuf encoding and compression are not modelled: items of those backends
   are the decoded records. *)
From GS Require Import Base.Bytes.
From Coq Require Decimal DecimalN.
Local Open Scope N_scope.

(* ======================================================================================== *)
(* Part 1: batching state machines *)

Section Batchers.
  Context {A : Type}.

  Definition len (l : list A) : N := N.of_nat (length l).

  (* ---- Datadog and New Relic: flush.go.  After every *series* (all of its sub-metrics are
     appended first) maybeFlush emits the open batch when len + 20 >= metricsPerBatch; finish
     emits what is left when it is non-empty.  [groups]: one item list per series. *)
  Fixpoint dd_run (pb : N) (open : list A) (groups : list (list A)) : list (list A) :=
    match groups with
    | [] => match open with [] => [] | _ => [open] end
    | g :: r =>
        let open' := open ++ g in
        if pb <=? len open' + 20 then open' :: dd_run pb [] r else dd_run pb open' r
    end.
  Definition dd_batches (pb : N) (groups : list (list A)) : list (list A) := dd_run pb [] groups.

  (* ---- InfluxDB: flush.go.  Every written line increments metricCount; maybeFlush emits when
     metricCount >= metricsPerBatch and resets the counter; finish emits when metricCount > 0.
     The counter is a separate variable in the Go code and is kept separate here. *)
  Fixpoint cnt_run (pb : N) (open : list A) (count : N) (items : list A) : list (list A) :=
    match items with
    | [] => if 0 <? count then [open] else []
    | x :: r =>
        let open' := open ++ [x] in
        let count' := count + 1 in
        if pb <=? count' then open' :: cnt_run pb [] 0 r else cnt_run pb open' count' r
    end.
  Definition influx_batches (pb : N) (items : list A) : list (list A) := cnt_run pb [] 0 items.

  (* ---- OTLP: group.go.  groups.batches always has a last element (newGroups creates one);
     insert appends the metric to the last batch and, when that batch then holds >= batchSize
     metrics, appends a fresh empty batch.  Every element of batches is posted, including a
     trailing empty one.  State: closed batches (in order) and the current last batch. *)
  Definition otlp_state : Type := list (list A) * list A.
  Definition otlp_new : otlp_state := ([], []).
  Definition otlp_insert (bs : N) (st : otlp_state) (x : A) : otlp_state :=
    let cur := snd st ++ [x] in
    if bs <=? len cur then (fst st ++ [cur], []) else (fst st, cur).
  Definition otlp_batches (bs : N) (items : list A) : list (list A) :=
    let st := fold_left (otlp_insert bs) items otlp_new in fst st ++ [snd st].

  (* ---- CloudWatch: SendMetricsAsync.  metricData[start:end] with end = min(start+20, length)
     while start < length.  The loop is modelled with explicit fuel and Go's checked slice
     expression; [None] = out of fuel or a slice out of range. *)
  Definition go_slice (l : list A) (lo hi : nat) : option (list A) :=
    if (Nat.leb lo hi && Nat.leb hi (length l))%bool then Some (firstn (hi - lo) (skipn lo l)) else None.
  Fixpoint cw_loop (fuel : nat) (chunk : nat) (data : list A) (start : nat) : option (list (list A)) :=
    if Nat.ltb start (length data) then
      match fuel with
      | O => None
      | S f =>
          let e := Nat.min (start + chunk) (length data) in
          if Nat.leb e start then Some []     (* "if start >= end { break }" *)
          else match go_slice data start e, cw_loop f chunk data e with
               | Some b, Some r => Some (b :: r)
               | _, _ => None
               end
      end
    else Some [].
  Definition cw_batches (chunk : nat) (data : list A) : option (list (list A)) :=
    if Nat.ltb (length data) 1 then Some [] else cw_loop (length data) chunk data 0.
End Batchers.

(* ---- statsdaemon relay: processMetrics.  Items are lines (byte strings).  A line that would
   make the buffer exceed the packet size first hands the buffer to the overflow handler --
   also when the buffer is empty, which sends an empty datagram -- and starts a new one; what is
   left at the end is emitted when buf.Len() > 0.  A datagram is the list of its lines. *)
Definition blen (d : list str) : N := fold_right (fun l n => N.of_nat (length l) + n) 0 d.
Fixpoint relay_run (ps : N) (buf : list str) (lines : list str) : list (list str) :=
  match lines with
  | [] => if 0 <? blen buf then [buf] else []
  | l :: r =>
      if ps <? blen buf + N.of_nat (length l) then buf :: relay_run ps [l] r
      else relay_run ps (buf ++ [l]) r
  end.
Definition relay_batches (ps : N) (lines : list str) : list (list str) := relay_run ps [] lines.

(* ======================================================================================== *)
(* Part 2: flushed series and items *)

(* float64 data are IEEE bit patterns in Z; int64 / int data are Z *)
Record fcounter := MkFC { fc_name : str; fc_key : str; fc_tags : list str; fc_src : str;
                          fc_value : Z; fc_ps : Z }.
Record fgauge := MkFG { fg_name : str; fg_key : str; fg_tags : list str; fg_src : str; fg_value : Z }.
Record fset := MkFS { fs_name : str; fs_key : str; fs_tags : list str; fs_src : str;
                      fs_members : list str }.
Record ftimer := MkFT {
  ft_name : str; ft_key : str; ft_tags : list str; ft_src : str;
  ft_count : Z; ft_ps : Z; ft_mean : Z; ft_median : Z; ft_min : Z; ft_max : Z;
  ft_stddev : Z; ft_sum : Z; ft_sumsq : Z;
  ft_values : list Z;
  ft_pcts : list (str * Z);                    (* Percentile.Str, Percentile.Float *)
  ft_hist : option (list (Z * Z))              (* nil map = None; threshold bits, count *)
}.
Record fmap := MkFM { fm_counters : list fcounter; fm_timers : list ftimer;
                      fm_gauges : list fgauge; fm_sets : list fset }.

(* gostatsd.TimerSubtypes as far as the backends read it; true = disabled *)
Record mask := MkMask { d_lower : bool; d_upper : bool; d_count : bool; d_count_ps : bool;
                        d_mean : bool; d_median : bool; d_stddev : bool; d_sum : bool; d_sumsq : bool }.

(* a decoded payload element *)
Inductive val := VI (z : Z) | VF (bits : Z) | VS (s : str).
Record item := MkItem { it_name : str; it_kind : str; it_host : str; it_tags : list str;
                        it_vals : list (str * val) }.
Definition line_item (l : str) : item := MkItem l [] [] [] [].

(* ---- %d *)
Fixpoint uint_bytes (d : Decimal.uint) : str :=
  match d with
  | Decimal.Nil => []
  | Decimal.D0 r => 48 :: uint_bytes r | Decimal.D1 r => 49 :: uint_bytes r
  | Decimal.D2 r => 50 :: uint_bytes r | Decimal.D3 r => 51 :: uint_bytes r
  | Decimal.D4 r => 52 :: uint_bytes r | Decimal.D5 r => 53 :: uint_bytes r
  | Decimal.D6 r => 54 :: uint_bytes r | Decimal.D7 r => 55 :: uint_bytes r
  | Decimal.D8 r => 56 :: uint_bytes r | Decimal.D9 r => 57 :: uint_bytes r
  end.
Definition dec_N (n : N) : str := uint_bytes (N.to_uint n).
Definition dec_Z (z : Z) : str :=
  match z with
  | Zneg p => c_dash :: dec_N (Npos p)
  | _ => dec_N (Z.to_N z)
  end.

(* ---- string helpers (strings.HasPrefix, strings.SplitN(tag, ":", 2), strings.Replace) *)
Fixpoint has_prefix (p s : str) : bool :=
  match p, s with
  | [], _ => true
  | a :: p', b :: s' => (a =? b) && has_prefix p' s'
  | _ :: _, [] => false
  end.
(* None: no ':' in the tag *)
Fixpoint split_colon (s : str) : option (str * str) :=
  match s with
  | [] => None
  | b :: r => if b =? c_colon then Some ([], r)
              else match split_colon r with Some (k, v) => Some (b :: k, v) | None => None end
  end.
Fixpoint replace_all (a b : N) (s : str) : str :=
  match s with [] => [] | x :: r => (if x =? a then b else x) :: replace_all a b r end.
Fixpoint replace_first (a b : N) (s : str) : str :=
  match s with [] => [] | x :: r => if x =? a then b :: r else x :: replace_first a b r end.

Definition inf_bits : Z := 9218868437227405312.       (* 0x7FF0000000000000 *)
Definition neg_inf_bits : Z := 18442240474082181120.  (* 0xFFF0000000000000 *)
Definition max_f64_bits : Z := 9218868437227405311.   (* 0x7FEFFFFFFFFFFFFF *)
Definition neg_max_f64_bits : Z := 18442240474082181119.
Definition neg_one_bits : Z := 13830554455654793216.  (* 0xBFF0000000000000 *)

Definition s_statsd_dot : str := [115;116;97;116;115;100;46].             (* "statsd." *)
Definition s_le : str := [108;101;58].                                     (* "le:" *)
Definition s_plus_inf : str := [43;73;110;102].                            (* "+Inf" *)
Definition sfx (s : str) (name : str) : str := name ++ c_dot :: s.
Definition n_count : str := [99;111;117;110;116].
Definition n_lower : str := [108;111;119;101;114].
Definition n_upper : str := [117;112;112;101;114].
Definition n_count_ps : str := [99;111;117;110;116;95;112;115].
Definition n_mean : str := [109;101;97;110].
Definition n_median : str := [109;101;100;105;97;110].
Definition n_std : str := [115;116;100].
Definition n_stddev : str := [115;116;100;100;101;118].
Definition n_sum : str := [115;117;109].
Definition n_sum_squares : str := [115;117;109;95;115;113;117;97;114;101;115].
Definition n_histogram : str := [104;105;115;116;111;103;114;97;109].
Definition n_rate : str := [114;97;116;101].
Definition n_gauge : str := [103;97;117;103;101].
Definition n_per_second : str := [112;101;114;95;115;101;99;111;110;100].
Definition n_value : str := [118;97;108;117;101].
Definition n_host : str := [104;111;115;116].
Definition s_host_colon : str := [104;111;115;116;58].
Definition n_unnamed : str := [117;110;110;97;109;101;100].
Definition n_set : str := [115;101;116].
Definition k_v : str := [118].

Section WithPrinters.
  (* strconv.FormatFloat(v, 'f', -1, 64) of a bit pattern: histogram bucket tags *)
  Variable fmt_s : Z -> str.

  Definition bucket_tag (inf_text : str) (thr : Z) : str :=
    s_le ++ (if (thr =? inf_bits)%Z then inf_text else fmt_s thr).

  (* the nine optional timer sub-metrics in the order every backend writes them:
     (disabled flag, suffix, value); count is an int *)
  Definition timer_subs (mk : mask) (t : ftimer) : list (bool * str * val) :=
    [ (d_lower mk, n_lower, VF (ft_min t)); (d_upper mk, n_upper, VF (ft_max t));
      (d_count mk, n_count, VI (ft_count t)); (d_count_ps mk, n_count_ps, VF (ft_ps t));
      (d_mean mk, n_mean, VF (ft_mean t)); (d_median mk, n_median, VF (ft_median t));
      (d_stddev mk, n_std, VF (ft_stddev t)); (d_sum mk, n_sum, VF (ft_sum t));
      (d_sumsq mk, n_sum_squares, VF (ft_sumsq t)) ].
  Definition enabled_subs (mk : mask) (t : ftimer) : list (str * val) :=
    map (fun x => (snd (fst x), snd x)) (filter (fun x => negb (fst (fst x))) (timer_subs mk t))
    ++ map (fun p => (fst p, VF (snd p))) (ft_pcts t).

  (* at least one of the nine sub-metrics is enabled *)
  Definition some_enabled (mk : mask) : bool :=
    negb (d_lower mk && d_upper mk && d_count mk && d_count_ps mk && d_mean mk && d_median mk
          && d_stddev mk && d_sum mk && d_sumsq mk).

  (* ---- Datadog (datadog.go processMetrics, flush.go addMetric).  Values are float64 in the
     payload: ints are converted ([VI] stays an int here, the correspondence converts),
     non-finite values are coerced. *)
  Definition dd_coerce (b : Z) : Z :=
    if f64_is_nan b then neg_one_bits
    else if (b =? inf_bits)%Z then max_f64_bits
    else if (b =? neg_inf_bits)%Z then neg_max_f64_bits else b.
  Definition dd_val (v : val) : val := match v with VF b => VF (dd_coerce b) | _ => v end.
  Definition dd_item (kind : str) (v : val) (src : str) (tags : list str) (name : str) : item :=
    MkItem name kind src tags [(k_v, dd_val v)].
  Definition dd_counter (c : fcounter) : list item :=
    [ dd_item n_rate (VF (fc_ps c)) (fc_src c) (fc_tags c) (fc_name c);
      dd_item n_gauge (VI (fc_value c)) (fc_src c) (fc_tags c) (sfx n_count (fc_name c)) ].
  Definition dd_timer (mk : mask) (t : ftimer) : list item :=
    match ft_hist t with
    | Some h =>
        map (fun b => dd_item n_count (VI (snd b)) (ft_src t)
                        (ft_tags t ++ [bucket_tag s_plus_inf (fst b)]) (sfx n_histogram (ft_name t))) h
    | None =>
        map (fun sv => dd_item (if str_eqb (fst sv) n_count_ps then n_rate else n_gauge) (snd sv)
                         (ft_src t) (ft_tags t) (sfx (fst sv) (ft_name t))) (enabled_subs mk t)
    end.
  Definition dd_gauge (g : fgauge) : list item :=
    [ dd_item n_gauge (VF (fg_value g)) (fg_src g) (fg_tags g) (fg_name g) ].
  Definition dd_set (s : fset) : list item :=
    [ dd_item n_gauge (VI (Z.of_nat (length (fs_members s)))) (fs_src s) (fs_tags s) (fs_name s) ].
  (* one group per series, in processMetrics' order: counters, timers, gauges, sets *)
  Definition dd_groups (mk : mask) (m : fmap) : list (list item) :=
    map dd_counter (fm_counters m) ++ map (dd_timer mk) (fm_timers m)
    ++ map dd_gauge (fm_gauges m) ++ map dd_set (fm_sets m).
  Definition datadog_payloads (pb : N) (mk : mask) (m : fmap) : list (list item) :=
    dd_batches pb (dd_groups mk m).

  (* ---- CloudWatch (cloudwatch.go buildMetricData, extractDimensions) *)
  Definition u_count : str := [67;111;117;110;116].                                 (* Count *)
  Definition u_count_sec : str := [67;111;117;110;116;47;83;101;99;111;110;100].    (* Count/Second *)
  Definition u_ms : str := [77;105;108;108;105;115;101;99;111;110;100;115].         (* Milliseconds *)
  Definition u_none : str := [78;111;110;101].                                      (* None *)
  Definition p_counter : str := [115;116;97;116;115;46;99;111;117;110;116;101;114;46].  (* stats.counter. *)
  Definition p_timers : str := [115;116;97;116;115;46;116;105;109;101;114;115;46].      (* stats.timers. *)
  Definition p_gauge : str := [115;116;97;116;115;46;103;97;117;103;101;46].            (* stats.gauge. *)
  Definition p_set : str := [115;116;97;116;115;46;115;101;116;46].                     (* stats.set. *)
  Definition cw_dim (tag : str) : str :=
    match split_colon tag with
    | Some (k, v) => k ++ 61 :: v
    | None => tag ++ 61 :: n_set
    end.
  Definition cw_dims (tags : list str) : list str := firstn 10 (map cw_dim tags).
  Definition cw_item (prefix name unit : str) (v : val) (tags : list str) : item :=
    MkItem (prefix ++ name) unit [] (cw_dims tags) [(k_v, v)].
  Definition cw_counter (c : fcounter) : list item :=
    [ cw_item p_counter (sfx n_count (fc_name c)) u_count (VI (fc_value c)) (fc_tags c);
      cw_item p_counter (sfx n_per_second (fc_name c)) u_count_sec (VF (fc_ps c)) (fc_tags c) ].
  Definition cw_timer (mk : mask) (t : ftimer) : list item :=
    match ft_hist t with
    | Some h =>
        map (fun b => cw_item p_timers (sfx n_histogram (ft_name t)) u_count (VI (snd b))
                        (ft_tags t ++ [bucket_tag s_plus_inf (fst b)])) h
    | None =>
        map (fun sv => cw_item p_timers (sfx (fst sv) (ft_name t))
                         (if str_eqb (fst sv) n_count then u_count
                          else if str_eqb (fst sv) n_count_ps then u_count_sec else u_ms)
                         (snd sv) (ft_tags t)) (enabled_subs mk t)
    end.
  Definition cw_gauge (g : fgauge) : list item :=
    [ cw_item p_gauge (fg_name g) u_none (VF (fg_value g)) (fg_tags g) ].
  Definition cw_set (s : fset) : list item :=
    [ cw_item p_set (fs_name s) u_none (VI (Z.of_nat (length (fs_members s)))) (fs_tags s) ].
  Definition cw_groups (mk : mask) (m : fmap) : list (list item) :=
    map cw_counter (fm_counters m) ++ map (cw_timer mk) (fm_timers m)
    ++ map cw_gauge (fm_gauges m) ++ map cw_set (fm_sets m).
  Definition cloudwatch_payloads (mk : mask) (m : fmap) : option (list (list item)) :=
    cw_batches 20 (concat (cw_groups mk m)).

  (* ---- OTLP, conversion AsGauge, no resource keys (backend.go SendMetricsAsync).
     A "host:<source>" tag is added when no tag has key "host" (Tags.Exists: a tag without ':'
     has key "unknown") and the source is non-empty.  Attributes: data.Map keeps keys sorted and
     distinct, a repeated key collects its distinct non-empty values in sorted order. *)
  Definition n_unknown : str := [117;110;107;110;111;119;110].
  Definition tag_key (tag : str) : str :=
    match split_colon tag with Some (k, _) => k | None => n_unknown end.
  Definition otlp_tags (tags : list str) (src : str) : list str :=
    if existsb (fun t => str_eqb (tag_key t) n_host) tags then tags
    else match src with [] => tags | _ => tags ++ [s_host_colon ++ src] end.
  (* strings.Compare order on keys *)
  Fixpoint str_ltb (a b : str) : bool :=
    match a, b with
    | _, [] => false
    | [], _ :: _ => true
    | x :: a', y :: b' => if x <? y then true else if y <? x then false else str_ltb a' b'
    end.
  (* KeyValue.InsertValue: an empty value is ignored, the others are kept sorted and distinct *)
  Fixpoint ins_uniq (v : str) (vs : list str) : list str :=
    match vs with
    | [] => [v]
    | x :: r => if str_eqb v x then vs else if str_ltb v x then v :: vs else x :: ins_uniq v r
    end.
  Fixpoint attr_insert (k v : str) (m : list (str * list str)) : list (str * list str) :=
    match m with
    | [] => [(k, [v])]
    | (k', vs) :: r =>
        if str_eqb k k' then (k', match v with [] => vs | _ => ins_uniq v vs end) :: r
        else if str_ltb k k' then (k, [v]) :: m
        else (k', vs) :: attr_insert k v r
    end.
  (* WithDelimitedStrings(":"): no delimiter -> key = whole tag, value "" *)
  Definition attr_of_tag (m : list (str * list str)) (tag : str) : list (str * list str) :=
    match split_colon tag with
    | Some (k, v) => attr_insert k v m
    | None => attr_insert tag [] m
    end.
  Definition otlp_attrs (tags : list str) : list (str * list str) := fold_left attr_of_tag tags [].
  Definition render_attr (kv : str * list str) : str := fst kv ++ 61 :: join c_pipe (snd kv).
  Definition k_sum : str := [115;117;109].
  Definition otlp_item (name kind : str) (attrs : list (str * list str)) (v : val) : item :=
    MkItem name kind [] (map render_attr attrs) [(k_v, v)].
  Definition otlp_counter (c : fcounter) : list item :=
    let ats := otlp_attrs (otlp_tags (fc_tags c) (fc_src c)) in
    [ otlp_item (fc_name c) n_gauge ats (VF (fc_ps c));
      otlp_item (sfx n_count (fc_name c)) k_sum ats (VI (fc_value c)) ].
  Definition otlp_gauge (g : fgauge) : list item :=
    [ otlp_item (fg_name g) n_gauge (otlp_attrs (otlp_tags (fg_tags g) (fg_src g))) (VF (fg_value g)) ].
  Definition otlp_set (s : fset) : list item :=
    [ otlp_item (fs_name s) n_gauge (otlp_attrs (otlp_tags (fs_tags s) (fs_src s)))
        (VI (Z.of_nat (length (fs_members s)))) ].
  Definition n_le : str := [108;101].
  Definition otlp_timer (mk : mask) (t : ftimer) : list item :=
    let ats := otlp_attrs (otlp_tags (ft_tags t) (ft_src t)) in
    match ft_hist t with
    | Some (b0 :: h) =>
        map (fun b => otlp_item (sfx n_histogram (ft_name t)) n_gauge
                        (attr_insert n_le (if (fst b =? inf_bits)%Z then s_plus_inf else fmt_s (fst b)) ats)
                        (VI (snd b))) (b0 :: h)
    | _ => map (fun sv => otlp_item (sfx (fst sv) (ft_name t)) n_gauge ats (snd sv)) (enabled_subs mk t)
    end.
  (* SendMetricsAsync's order: counters, gauges, sets, timers *)
  Definition otlp_items (mk : mask) (m : fmap) : list item :=
    concat (map otlp_counter (fm_counters m)) ++ concat (map otlp_gauge (fm_gauges m))
    ++ concat (map otlp_set (fm_sets m)) ++ concat (map (otlp_timer mk) (fm_timers m)).
  Definition otlp_payloads (bs : N) (mk : mask) (m : fmap) : list (list item) :=
    otlp_batches bs (otlp_items mk m).

End WithPrinters.

(* ======================================================================================== *)
(* Part 3: the text backends that write one payload per flush (no batching): Graphite
   (graphite.go preparePayload / prepareName / normalizeMetricName, default prefixes) and stdout
   (stdout.go preparePayload / composeMetricName).  Items are lines. *)

(* Go regexp \s is [\t\n\f\r ]; regWhitespace replaces each maximal run by one '_' *)
Definition is_space (b : N) : bool := (b =? 9) || (b =? 10) || (b =? 12) || (b =? 13) || (b =? 32).
Fixpoint collapse_ws (in_ws : bool) (s : str) : str :=
  match s with
  | [] => []
  | b :: r => if is_space b then (if in_ws then collapse_ws true r else c_us :: collapse_ws true r)
              else b :: collapse_ws false r
  end.
(* regNonAlphaNum = [^a-zA-Z\d_.-] is deleted *)
Definition keep_byte (b : N) : bool := is_alnum b || (b =? c_us) || (b =? c_dot) || (b =? c_dash).
Definition normalize_metric_name (s : str) : str :=
  filter keep_byte (replace_all c_slash c_dash (collapse_ws false s)).

Definition c_semi : N := 59.
Definition as_graphite_tag (tag : str) : str :=
  if existsb (N.eqb c_colon) tag then replace_first c_colon 61 tag else n_unnamed ++ 61 :: tag.

Record gcfg := MkG { g_legacy : bool; g_tags : bool; g_suffix : str }.
Definition ns_stats : str := [115;116;97;116;115].
Definition ns_counts : str := [115;116;97;116;115;95;99;111;117;110;116;115].      (* stats_counts *)
Definition ns_counters (c : gcfg) : str :=
  if g_legacy c then ns_stats else ns_stats ++ c_dot :: [99;111;117;110;116;101;114;115].
Definition ns_timers : str := ns_stats ++ c_dot :: [116;105;109;101;114;115].
Definition ns_gauges : str := ns_stats ++ c_dot :: [103;97;117;103;101;115].
Definition ns_sets : str := ns_stats ++ c_dot :: [115;101;116;115].

Definition prepare_name (c : gcfg) (ns name suffix src : str) (tags : list str) : str :=
  (match ns with [] => [] | _ => ns ++ [c_dot] end)
  ++ normalize_metric_name name
  ++ (match suffix with [] => [] | _ => c_dot :: suffix end)
  ++ (match g_suffix c with [] => [] | _ => c_dot :: g_suffix c end)
  ++ (if g_tags c then
        concat (map (fun t => c_semi :: as_graphite_tag t) tags)
        ++ (if existsb (has_prefix s_host_colon) tags then []
            else match src with [] => [] | _ => c_semi :: n_host ++ 61 :: src end)
      else []).

Fixpoint split_on (sep : N) (cur : str) (s : str) : list str :=
  match s with
  | [] => [rev cur]
  | b :: r => if b =? sep then rev cur :: split_on sep [] r else split_on sep (b :: cur) r
  end.
(* stdout composeMetricName *)
Definition compose_metric_name (key tags_key : str) : str :=
  fold_left (fun k tag => match tag with [] => k | _ => k ++ c_dot :: replace_all c_colon c_dot tag end)
            (split_on c_comma [] tags_key) key.

Section TextBackends.
  Variable fmt_f : Z -> str.      (* fmt %f *)
  Variable fmt_s : Z -> str.      (* strconv.FormatFloat(v, 'f', -1, 64) *)

  Definition prv (v : val) : str := match v with VI z => dec_Z z | VF b => fmt_f b | VS s => s end.
  (* "<path> <value> <now>\n" *)
  Definition text_line (path : str) (v : val) (now : Z) : item :=
    line_item (path ++ c_space :: prv v ++ c_space :: dec_Z now ++ [c_nl]).

  (* one Graphite line before printing: namespace, series name, suffix, source, tags, value *)
  Record gentry := MkGE { ge_ns : str; ge_name : str; ge_suffix : str; ge_src : str; ge_tags : list str; ge_val : val }.
  Definition text_bytes (path : str) (v : val) (now : Z) : str :=
    path ++ c_space :: prv v ++ c_space :: dec_Z now ++ [c_nl].
  Definition gr_print (c : gcfg) (now : Z) (e : gentry) : str :=
    text_bytes (prepare_name c (ge_ns e) (ge_name e) (ge_suffix e) (ge_src e) (ge_tags e)) (ge_val e) now.

  Definition gr_counter (c : gcfg) (x : fcounter) : list gentry :=
    if g_legacy c then
      [ MkGE ns_counts (fc_name x) [] (fc_src x) (fc_tags x) (VI (fc_value x));
        MkGE (ns_counters c) (fc_name x) [] (fc_src x) (fc_tags x) (VF (fc_ps x)) ]
    else
      [ MkGE (ns_counters c) (fc_name x) n_count (fc_src x) (fc_tags x) (VI (fc_value x));
        MkGE (ns_counters c) (fc_name x) n_rate (fc_src x) (fc_tags x) (VF (fc_ps x)) ].
  Definition gr_timer (c : gcfg) (mk : mask) (t : ftimer) : list gentry :=
    match ft_hist t with
    | Some h =>
        map (fun b => MkGE (ns_counters c) (ft_name t) n_histogram (ft_src t)
                           (ft_tags t ++ [bucket_tag fmt_s s_plus_inf (fst b)]) (VI (snd b))) h
    | None =>
        map (fun sv => MkGE ns_timers (ft_name t) (fst sv) (ft_src t) (ft_tags t) (snd sv)) (enabled_subs mk t)
    end.
  Definition gr_gauge (g : fgauge) : list gentry :=
    [ MkGE ns_gauges (fg_name g) [] (fg_src g) (fg_tags g) (VF (fg_value g)) ].
  Definition gr_set (s : fset) : list gentry :=
    [ MkGE ns_sets (fs_name s) [] (fs_src s) (fs_tags s) (VI (Z.of_nat (length (fs_members s)))) ].
  Definition graphite_entries (c : gcfg) (mk : mask) (m : fmap) : list gentry :=
    concat (map (gr_counter c) (fm_counters m)) ++ concat (map (gr_timer c mk) (fm_timers m))
    ++ concat (map gr_gauge (fm_gauges m)) ++ concat (map gr_set (fm_sets m)).
  Definition graphite_payload (c : gcfg) (mk : mask) (now : Z) (m : fmap) : list item :=
    map (fun e => line_item (gr_print c now e)) (graphite_entries c mk m).

  Definition so_counter (now : Z) (x : fcounter) : list item :=
    let nk := compose_metric_name (fc_name x) (fc_key x) in
    [ text_line (p_counter ++ sfx n_count nk) (VI (fc_value x)) now;
      text_line (p_counter ++ sfx n_per_second nk) (VF (fc_ps x)) now ].
  Definition so_timer (mk : mask) (now : Z) (t : ftimer) : list item :=
    let nk := compose_metric_name (ft_name t) (ft_key t) in
    match ft_hist t with
    | Some h =>
        map (fun b => text_line (p_timers ++ sfx (bucket_tag fmt_s s_plus_inf (fst b)) (sfx n_histogram nk))
                        (VI (snd b)) now) h
    | None => map (fun sv => text_line (p_timers ++ sfx (fst sv) nk) (snd sv) now) (enabled_subs mk t)
    end.
  Definition so_gauge (now : Z) (g : fgauge) : list item :=
    [ text_line (p_gauge ++ compose_metric_name (fg_name g) (fg_key g)) (VF (fg_value g)) now ].
  Definition so_set (now : Z) (s : fset) : list item :=
    [ text_line (p_set ++ compose_metric_name (fs_name s) (fs_key s))
        (VI (Z.of_nat (length (fs_members s)))) now ].
  Definition stdout_payload (mk : mask) (now : Z) (m : fmap) : list item :=
    concat (map (so_counter now) (fm_counters m)) ++ concat (map (so_timer mk now) (fm_timers m))
    ++ concat (map (so_gauge now) (fm_gauges m)) ++ concat (map (so_set now) (fm_sets m)).
End TextBackends.

(* ======================================================================================== *)
(* Part 4: New Relic (newrelic.go processMetrics / setTags / maybeAddSource, flush.go addMetric /
   addTimerMetric / newMetricSet / newDimensionalMetricSet), default field names, event type
   "GoStatsD".  A metric set of the "infra" / "insights" flush types is a Go map that
   encoding/json writes as an object: modelled as the association list of its keys, a later
   assignment to a key replacing the earlier one -- tags are assigned after the fixed keys and so
   replace them, the sub-metric fields after the tags.  An item carries the object in [it_vals]
   (numbers as float64 bits or ints, strings as [VS]).  For the "metrics" flush type an item is
   the NRMetric struct: name, type, value (or the summary map) and the attribute map
   (keys prefixed with '@' in [it_vals]).  Processing order: gauges, counters, sets, timers. *)
Fixpoint nr_put (k : str) (v : val) (m : list (str * val)) : list (str * val) :=
  match m with
  | [] => [(k, v)]
  | (k', v') :: r => if str_eqb k k' then (k, v) :: r else (k', v') :: nr_put k v r
  end.
(* pct.Str[:strings.LastIndex(pct.Str, "_")] and the rest; None: no '_' (Go panics on [: -1]) *)
Fixpoint split_last_us (s : str) : option (str * str) :=
  match s with
  | [] => None
  | b :: r => match split_last_us r with
              | Some (p, q) => Some (b :: p, q)
              | None => if b =? c_us then Some ([], r) else None
              end
  end.
Fixpoint opt_all {A} (l : list (option A)) : option (list A) :=
  match l with
  | [] => Some []
  | Some x :: r => match opt_all r with Some r' => Some (x :: r') | None => None end
  | None :: _ => None
  end.

Definition s_true : str := [116;114;117;101].
Definition s_statsd_source : str := [115;116;97;116;115;100;83;111;117;114;99;101;58].   (* statsdSource: *)
Definition s_infinity : str := [105;110;102;105;110;105;116;121].
Definition k_timestamp : str := [116;105;109;101;115;116;97;109;112].
Definition k_interval : str := [105;110;116;101;114;118;97;108].
Definition k_integration_version : str := [105;110;116;101;103;114;97;116;105;111;110;95;118;101;114;115;105;111;110].
Definition s_version : str := [50;46;52;46;48].
Definition k_eventType : str := [101;118;101;110;116;84;121;112;101].
Definition k_event_type : str := [101;118;101;110;116;95;116;121;112;101].
Definition s_gostatsd : str := [71;111;83;116;97;116;115;68].
Definition k_type : str := [116;121;112;101].
Definition k_name : str := [110;97;109;101].
Definition k_min : str := [109;105;110].
Definition k_max : str := [109;97;120].
Definition n_timer : str := [116;105;109;101;114].
Definition n_counter : str := [99;111;117;110;116;101;114].
Definition n_summary : str := [115;117;109;109;97;114;121].
Definition n_percentiles : str := [112;101;114;99;101;110;116;105;108;101;115].
Definition n_percentile : str := [112;101;114;99;101;110;116;105;108;101].
Definition n_std_dev : str := [115;116;100;95;100;101;118].
Definition k_statsdType : str := [115;116;97;116;115;100;84;121;112;101].
Definition zero_bits : Z := 0%Z.

Section NewRelic.
  Variable fmt_s : Z -> str.             (* strconv.FormatFloat(v, 'f', -1, 64) *)
  Variable parse : str -> option Z.      (* strconv.ParseFloat(s, 64): None = error, else the bits *)
  Variable now : Z.                      (* unix seconds *)
  Variable interval : Z.                 (* flush interval in seconds, float64 bits *)
  Variable prefix : str.                 (* tag-prefix *)

  Definition nr_tag_value (v : str) : val :=
    match parse v with
    | Some b => if f64_is_finite b then VF b else VS v
    | None => VS v
    end.
  Definition nr_set_tags (tags : list str) (m : list (str * val)) : list (str * val) :=
    fold_left (fun m tag => match split_colon tag with
                            | Some (k, v) => nr_put (prefix ++ k) (nr_tag_value v) m
                            | None => nr_put (prefix ++ tag) (VS s_true) m
                            end) tags m.
  Definition maybe_add_source (src : str) (tags : list str) : list str :=
    match src with
    | [] => tags
    | _ => if existsb (has_prefix s_statsd_source) tags then tags else tags ++ [s_statsd_source ++ src]
    end.

  (* ---- flush types infra / insights *)
  Definition nr_metric_set (insights : bool) (name ty : str) (v : val) (tags : list str) : list (str * val) :=
    nr_set_tags tags
      [ (k_timestamp, VI now); (k_interval, VF interval); (k_integration_version, VS s_version);
        ((if insights then k_eventType else k_event_type), VS s_gostatsd);
        (k_type, VS ty); (k_name, VS name); (n_value, v) ].
  Definition nr_obj (m : list (str * val)) : item := MkItem [] [] [] [] m.
  Definition nr_simple (insights : bool) (name ty : str) (v : val) (ps : option Z) (tags : list str) : item :=
    let m := nr_metric_set insights name ty v tags in
    nr_obj (match ps with Some p => nr_put n_per_second (VF p) m | None => m end).
  Definition nr_timer_set (insights : bool) (mk : mask) (t : ftimer) : item :=
    let m := nr_metric_set insights (ft_name t) n_timer (VI (ft_count t)) (maybe_add_source (ft_src t) (ft_tags t)) in
    let subs := [ (d_lower mk, k_min, VF (ft_min t)); (d_upper mk, k_max, VF (ft_max t));
                  (d_count mk, n_count, VI (ft_count t)); (d_sum mk, n_sum, VF (ft_sum t));
                  (d_count_ps mk, n_per_second, VF (ft_ps t)); (d_mean mk, n_mean, VF (ft_mean t));
                  (d_median mk, n_median, VF (ft_median t)); (d_stddev mk, n_std_dev, VF (ft_stddev t));
                  (d_sumsq mk, n_sum_squares, VF (ft_sumsq t)) ] in
    let m := fold_left (fun (m : list (str * val)) (x : bool * str * val) => if fst (fst x) then m else nr_put (snd (fst x)) (snd x) m) subs m in
    nr_obj (fold_left (fun (m : list (str * val)) (p : str * Z) => nr_put (fst p) (VF (snd p)) m) (ft_pcts t) m).

  (* ---- flush type metrics *)
  Definition nr_dim (name ty : str) (v : val) (tags : list str) : item :=
    let attrs := map (fun kv => (64 :: fst kv, snd kv)) (nr_set_tags tags [(k_statsdType, VS ty)]) in
    if str_eqb ty n_timer then MkItem (sfx n_summary name) n_summary [] [] attrs
    else if str_eqb ty n_counter then MkItem name n_count [] [] ((n_value, v) :: attrs)
    else if str_eqb ty n_gauge then MkItem name n_gauge [] [] ((n_value, v) :: attrs)
    else MkItem name [] [] [] attrs.         (* "set": neither type nor value is filled in *)
  Definition nr_dim_metric (name ty : str) (v : val) (ps : Z) (tags : list str) : list item :=
    (if str_eqb ty n_counter then [nr_dim (sfx n_per_second name) n_gauge (VF ps) tags] else [])
    ++ [nr_dim name ty v tags].
  Definition nr_dim_timer (mk : mask) (t : ftimer) : option (list item) :=
    let name := ft_name t in
    let tags := maybe_add_source (ft_src t) (ft_tags t) in
    let subs := [ (d_count_ps mk, n_per_second, ft_ps t); (d_mean mk, n_mean, ft_mean t);
                  (d_median mk, n_median, ft_median t); (d_stddev mk, n_std_dev, ft_stddev t);
                  (d_sumsq mk, n_sum_squares, ft_sumsq t) ] in
    let gauges := map (fun x => nr_dim (sfx (snd (fst x)) name) n_gauge (VF (snd x)) tags)
                      (filter (fun x => negb (fst (fst x))) subs) in
    let pct (p : str * Z) := match split_last_us (fst p) with
                 | None => None
                 | Some (pre, suf) =>
                     let g := nr_dim (sfx n_percentiles (sfx pre name)) n_gauge (VF (snd p)) tags in
                     Some (match parse suf with
                           | Some b => [MkItem (it_name g) (it_kind g) [] []
                                          (it_vals g ++ [(64 :: n_percentile, VF b)])]
                           | None => []
                           end)
                 end in
    match opt_all (map pct (ft_pcts t)) with
    | None => None
    | Some ps =>
        let s := nr_dim name n_timer (VI (ft_count t)) tags in
        let summary := MkItem (it_name s) (it_kind s) [] []
                         ([(n_count, VI (ft_count t)); (n_sum, VF (ft_sum t)); (k_min, VF (ft_min t));
                           (k_max, VF (ft_max t))] ++ it_vals s) in
        Some (gauges ++ concat ps ++ [summary])
    end.

  (* one group per series; [mode]: 0 infra, 1 insights, 2 metrics *)
  Definition nr_metric (mode : N) (name ty : str) (v : val) (ps : Z) (tags : list str) : list item :=
    if mode =? 2 then nr_dim_metric name ty v ps tags
    else [nr_simple (mode =? 1) name ty v (if str_eqb ty n_counter then Some ps else None) tags].
  Definition nr_timer (mode : N) (mk : mask) (t : ftimer) : option (list item) :=
    match ft_hist t with
    | Some h =>
        Some (concat (map (fun b => nr_metric mode (sfx n_histogram (ft_name t)) n_counter (VI (snd b)) zero_bits
                                      (maybe_add_source (ft_src t) (ft_tags t ++ [bucket_tag fmt_s s_infinity (fst b)]))) h))
    | None => if mode =? 2 then nr_dim_timer mk t else Some [nr_timer_set (mode =? 1) mk t]
    end.
  Definition nr_groups (mode : N) (mk : mask) (m : fmap) : option (list (list item)) :=
    match opt_all (map (nr_timer mode mk) (fm_timers m)) with
    | None => None
    | Some ts =>
        Some (map (fun g => nr_metric mode (fg_name g) n_gauge (VF (fg_value g)) zero_bits
                              (maybe_add_source (fg_src g) (fg_tags g))) (fm_gauges m)
              ++ map (fun c => nr_metric mode (fc_name c) n_counter (VI (fc_value c)) (fc_ps c)
                                 (maybe_add_source (fc_src c) (fc_tags c))) (fm_counters m)
              ++ map (fun s => nr_metric mode (fs_name s) n_set (VI (Z.of_nat (length (fs_members s)))) zero_bits
                                 (maybe_add_source (fs_src s) (fs_tags s))) (fm_sets m)
              ++ ts)
    end.
  Definition newrelic_payloads (pb mode : N) (mk : mask) (m : fmap) : option (list (list item)) :=
    match nr_groups mode mk m with Some gs => Some (dd_batches pb gs) | None => None end.
End NewRelic.
