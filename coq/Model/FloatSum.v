(* The float64 accumulation loops of MetricAggregator.Flush (pkg/statsd/aggregator.go) on Coq's
   primitive binary64 floats (round to nearest even, bit-exact with Go on amd64, no fused
   multiply-add):

       cumulativeValues[0] = Values[0]
       cumulSumSquaresValues[0] = Values[0] * Values[0]
       for i := 1; i < n; i++ {
           cumulativeValues[i] = Values[i] + cumulativeValues[i-1]
           cumulSumSquaresValues[i] = Values[i]*Values[i] + cumulSumSquaresValues[i-1]
       }
       sum = cumulativeValues[n-1]; sumSquares = cumulSumSquaresValues[n-1]; mean = sum / float64(n)
       (pct > 0)  sum_pct = cumulativeValues[k-1]
       (pct < 0)  sum_pct = cumulativeValues[n-1] - cumulativeValues[n-k-1]        (k < n)

   Definitions only; the forward error bounds are in Proofs/FloatSum*.v (properties C08 / C04). *)
From Coq Require Import List ZArith Floats.
Import ListNotations.

(* the accumulators after each further value: acc, then term x + acc for every x in turn *)
Fixpoint partials (term : float -> float) (acc : float) (l : list float) : list float :=
  match l with
  | [] => []
  | x :: r => let a := (term x + acc)%float in a :: partials term a r
  end.

(* the last accumulator *)
Definition accumulate (term : float -> float) (acc : float) (l : list float) : float :=
  fold_left (fun a x => (term x + a)%float) l acc.

Definition ident (x : float) : float := x.
Definition square (x : float) : float := (x * x)%float.

(* cumulativeValues / cumulSumSquaresValues *)
Definition go_cumulative (xs : list float) : list float :=
  match xs with [] => [] | x :: r => x :: partials ident x r end.
Definition go_cumul_squares (xs : list float) : list float :=
  match xs with [] => [] | x :: r => square x :: partials square (square x) r end.

(* sum, sumSquares (0 for an empty timer: Flush does not compute them then) *)
Definition go_sum (xs : list float) : float :=
  match xs with [] => 0%float | x :: r => accumulate ident x r end.
Definition go_sumsq (xs : list float) : float :=
  match xs with [] => 0%float | x :: r => accumulate square (square x) r end.

(* mean = sum / float64(n); [count] is float64(n) *)
Definition go_mean (xs : list float) (count : float) : float := (go_sum xs / count)%float.

(* the sum of the k highest values of the sorted list: cumulative[n-1] - cumulative[n-k-1] *)
Definition go_sum_top (xs : list float) (k : nat) : float :=
  (go_sum xs - go_sum (firstn (length xs - k) xs))%float.

(* the deviation, second pass with the COMPUTED mean:
       var sumOfDiffs float64
       for i := 0; i < n; i++ { sumOfDiffs += (Values[i] - mean) * (Values[i] - mean) }
       StdDev = math.Sqrt(sumOfDiffs / count)
   (IEEE addition is commutative in value; the accumulator is written term + acc as above) *)
Definition dev_term (mean x : float) : float := ((x - mean) * (x - mean))%float.
Definition go_sum_of_diffs (xs : list float) (mean : float) : float := accumulate (dev_term mean) 0%float xs.
Definition go_variance (xs : list float) (count : float) : float :=
  (go_sum_of_diffs xs (go_mean xs count) / count)%float.
Definition go_stddev (xs : list float) (count : float) : float := sqrt (go_variance xs count).
