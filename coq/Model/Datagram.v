(* Model of pkg/statsd/parser.go: DatagramParser.handleDatagram (the loop that cuts a datagram
   into lines and lexes each of them) and DatagramParser.Run (one batch of datagrams -> one
   MetricMap, events, the three counters).

   handleDatagram, line by line:
     idx := bytes.IndexByte(msg, '\n')
     idx == -1 : len(msg) == 0 -> break;  otherwise line = msg, msg = nil      (final segment)
     otherwise : line = msg[:idx], msg = msg[idx+1:]
   so a datagram "a\n" has ONE line, "a\n\n" has two (the second is empty), "" has none: an
   empty FINAL segment ends the loop, an empty segment in front of a '\n' is a line like any
   other and is handed to the lexer, which rejects it (lexSpecial reads eof: errInvalidType), so
   it is counted as a bad line.

   Each line goes through the lexer ([Lexer.lex]).  A rejected line increments the bad-line
   count.  An accepted metric gets Timestamp = the datagram's receive time and
   Source = the sender IP, or, with ignore-host, the value of its first tag that starts with
   "host:" (that tag is removed; no such tag: the source stays "" as the pool left it).  An
   accepted event gets Source = sender IP (always; an h: attribute is overwritten) and is
   dispatched at once; DateHappened == 0 is replaced by time.Now().Unix() -- the wall clock is
   not modelled, the model leaves 0 there ("stamped by the handler at dispatch").

   The slice expressions of the loop are checked ([slice_checked]: out of range = [DgPanic]);
   a lexer panic kills the parser goroutine ([DgPanic]).  The loop is fuel-based with an
   explicit [DgOutOfFuel] outcome; [parse_datagram] supplies [S (length msg)], which the
   theorems prove sufficient.

   The in-place writes of lexKeySep into the shared buffer are the subject of Model/LexMem.v. *)
From GS Require Import Base.Bytes Model.Lexer Model.MetricMap.
Local Open Scope N_scope.

Record config := Cfg { cf_ns : str; cf_ignore_host : bool }.

(* bytes.IndexByte *)
Fixpoint index_byte (c : N) (l : str) : option N :=
  match l with
  | [] => None
  | b :: r => if b =? c then Some 0 else option_map N.succ (index_byte c r)
  end.

(* strings.HasPrefix(s, p) *)
Fixpoint has_prefix (p s : str) : bool :=
  match p, s with
  | [], _ => true
  | x :: p', y :: s' => (x =? y) && has_prefix p' s'
  | _ :: _, [] => false
  end.

Definition host_prefix : str := [104; 111; 115; 116; 58].   (* "host:" *)

(* the ignore-host loop: the first tag with the prefix "host:" gives the source (tag[5:]) and
   is removed from the tags *)
Fixpoint split_host (tags : list str) : option (str * list str) :=
  match tags with
  | [] => None
  | t :: r =>
      if has_prefix host_prefix t then Some (skipn 5 t, r)
      else match split_host r with
           | Some (h, r') => Some (h, t :: r')
           | None => None
           end
  end.

(* what handleDatagram does to an accepted metric *)
Definition stamp (cfg : config) (ip : str) (ts : Z) (m : metric) : datapoint :=
  let st := if cf_ignore_host cfg
            then match split_host (m_tags m) with
                 | Some (h, tags') => (h, tags')
                 | None => ([], m_tags m)
                 end
            else (ip, m_tags m) in
  MkDp (m_name m) (m_type m) (m_value m) (m_strval m) (m_rate m) (snd st) (fst st) ts.

(* what handleDatagram does to an accepted event (wall clock not modelled, see above) *)
Definition stamp_event (ip : str) (e : event) : event :=
  {| e_title := e_title e; e_text := e_text e; e_date := e_date e; e_host := ip;
     e_key := e_key e; e_pri := e_pri e; e_stype := e_stype e; e_alert := e_alert e;
     e_tags := e_tags e |}.

(* result of handleDatagram: the metrics (returned), the events (dispatched, in order),
   eventCount, badLineCount *)
Record dg_result := DgR {
  dg_metrics : list datapoint;
  dg_events : list event;
  dg_nevents : N;
  dg_bad : N
}.

Definition dg_empty : dg_result := DgR [] [] 0 0.
Definition dg_app (a b : dg_result) : dg_result :=
  DgR (dg_metrics a ++ dg_metrics b) (dg_events a ++ dg_events b)
      (dg_nevents a + dg_nevents b) (dg_bad a + dg_bad b).
Definition dg_concat (l : list dg_result) : dg_result := fold_right dg_app dg_empty l.

Inductive dg_outcome := DgOk (r : dg_result) | DgPanic | DgOutOfFuel.

(* the contribution of one lexed line; None = the lexer panicked *)
Definition line_result (cfg : config) (ip : str) (ts : Z) (o : outcome) : option dg_result :=
  match o with
  | OMetric m => Some (DgR [stamp cfg ip ts m] [] 0 0)
  | OEvent e => Some (DgR [] [stamp_event ip e] 1 0)
  | OReject _ => Some (DgR [] [] 0 1)
  | OPanic => None
  end.

Section Parser.
  Variable pf : str -> pfres.
  Variable cfg : config.
  Variable ip : str.
  Variable ts : Z.

  (* one line alone *)
  Definition parse_line (line : str) : option dg_result :=
    line_result cfg ip ts (lex pf (cf_ns cfg) line).

  Fixpoint handle_loop (fuel : nat) (msg : str) : dg_outcome :=
    match fuel with
    | O => DgOutOfFuel
    | S f =>
        let continue (line rest : str) :=
          match parse_line line with
          | None => DgPanic
          | Some r1 =>
              match handle_loop f rest with
              | DgOk r2 => DgOk (dg_app r1 r2)
              | e => e
              end
          end in
        match index_byte c_nl msg with
        | None =>
            match msg with
            | [] => DgOk dg_empty                 (* break *)
            | _ => continue msg []                (* line = msg; msg = nil *)
            end
        | Some idx =>
            match slice_checked msg 0 idx,
                  slice_checked msg (idx + 1) (N.of_nat (length msg)) with
            | Some line, Some rest => continue line rest
            | _, _ => DgPanic
            end
        end
    end.

  Definition parse_datagram (msg : str) : dg_outcome := handle_loop (S (length msg)) msg.
End Parser.

(* ---------------------------------------------------------------------------------------- *)
(* The lines of a datagram by the code's counting rule, as a structural function (the
   specification the loop is proved against): segments ended by '\n', plus a final segment
   when it is not empty. *)
Fixpoint lines_from (cur : str) (l : str) : list str :=   (* [cur] = current segment, reversed *)
  match l with
  | [] => match cur with [] => [] | _ => [rev cur] end
  | b :: r => if b =? c_nl then rev cur :: lines_from [] r else lines_from (b :: cur) r
  end.
Definition lines (msg : str) : list str := lines_from [] msg.

(* lines each followed by a newline *)
Definition terminated (ls : list str) : str := concat (map (fun l => l ++ [c_nl]) ls).

(* ---------------------------------------------------------------------------------------- *)
(* DatagramParser.Run on one batch: every datagram through handleDatagram (events dispatched
   on the way), all metrics of the batch folded through MetricMap.Receive in order, the map
   dispatched iff there is at least one metric, then the counters advanced. *)
Record datagram := Dg { d_ip : str; d_ts : Z; d_msg : str }.

Record counters := Ctr { n_metrics : N; n_events : N; n_bad : N }.

Record batch_result := BR {
  b_map : option mmap;          (* the dispatched map; None = DispatchMetricMap not called *)
  b_events : list event;        (* DispatchEvent calls, in order *)
  b_ctr : counters              (* increments of metrics_received / events_received / bad_lines *)
}.

Fixpoint parse_all (pf : str -> pfres) (cfg : config) (dgs : list datagram) : dg_outcome :=
  match dgs with
  | [] => DgOk dg_empty
  | d :: r =>
      match parse_datagram pf cfg (d_ip d) (d_ts d) (d_msg d) with
      | DgOk r1 => match parse_all pf cfg r with DgOk r2 => DgOk (dg_app r1 r2) | e => e end
      | e => e
      end
  end.

Definition run_batch (pf : str -> pfres) (cfg : config) (dgs : list datagram) : option batch_result :=
  match parse_all pf cfg dgs with
  | DgOk r =>
      Some (BR (match dg_metrics r with [] => None | ms => Some (receive_all empty_map ms) end)
               (dg_events r)
               (Ctr (N.of_nat (length (dg_metrics r))) (dg_nevents r) (dg_bad r)))
  | _ => None
  end.

Definition ctr_add (a b : counters) : counters :=
  Ctr (n_metrics a + n_metrics b) (n_events a + n_events b) (n_bad a + n_bad b).

(* ---------------------------------------------------------------------------------------- *)
(* specification vocabulary for "the last line's value is the one recorded": the last gauge
   datapoint of series [k] in a list of datapoints *)
Definition skey_eqb (a b : skey) : bool := str_eqb (fst a) (fst b) && str_eqb (snd a) (snd b).
Definition is_gauge_of (k : skey) (d : datapoint) : bool :=
  match dp_type d with Gauge => skey_eqb (dp_key d) k | _ => false end.
Definition last_gauge (k : skey) (ds : list datapoint) : option datapoint :=
  fold_left (fun acc d => if is_gauge_of k d then Some d else acc) ds None.
