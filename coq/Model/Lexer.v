(* Model of internal/lexer/lexer.go (Lexer.Run and its state functions).

   The lexer is modelled as structurally recursive functions over the *unread suffix* of the
   line.  [next] of the Go code returns 0 both at the end of input (without advancing) and for
   a NUL byte (advancing); both behaviours are kept: the [[]] case is the real end of input,
   the [0 :: r] case is a NUL byte that has been consumed.

   Every Go operation that can panic (index expression, slice expression) goes through
   [index_checked] / [slice_checked] and yields [OPanic] when out of range, so that "the lexer
   never panics" is a theorem about the model rather than an artefact of total functions.

   strconv.ParseFloat is a parameter [pf] (oracle, DESIGN 3.3): the theorems hold for every
   such function, the correspondence supplies the table observed from Go's strconv. *)
From GS Require Import Base.Bytes.
Local Open Scope N_scope.

Inductive mtype := Counter | Gauge | Timer | MSet.

Definition mtype_eqb (a b : mtype) : bool :=
  match a, b with
  | Counter, Counter | Gauge, Gauge | Timer, Timer | MSet, MSet => true
  | _, _ => false
  end.

(* result of strconv.ParseFloat(s, 64): an error (syntax or range), or a value given by its
   IEEE bit pattern; [PFMiss] is the correspondence's "string not in the oracle table". *)
Inductive pfres := PFErr | PFVal (bits : Z) | PFMiss.

Inductive reject :=
| EMissingKeySep | EEmptyKey | EMissingValueSep | EInvalidType | EInvalidFormat
| EInvalidAttributes | EOverflow | ENotEnoughData | ENaN | EInvalidRate | EParseFloat
| EOracleMiss.

Record metric := {
  m_name : str;
  m_type : mtype;
  m_value : Z;        (* bit pattern; 0 for sets *)
  m_strval : str;     (* set member; [] otherwise *)
  m_rate : Z;         (* bit pattern *)
  m_tags : list str
}.

Record event := {
  e_title : str;
  e_text : str;
  e_date : Z;
  e_host : str;
  e_key : str;
  e_pri : N;          (* 0 normal, 1 low *)
  e_stype : str;
  e_alert : N;        (* 0 info, 1 warning, 2 error, 3 success *)
  e_tags : list str
}.

Inductive outcome :=
| OMetric (m : metric)
| OEvent (e : event)
| OReject (r : reject)
| OPanic.

Inductive result (A : Type) :=
| Ok (a : A)
| Rej (r : reject)
| Pan.
Arguments Ok {A} a.
Arguments Rej {A} r.
Arguments Pan {A}.

(* ---------------------------------------------------------------------------------------- *)
(* key: lexKeySep + lexKey *)

(* what lexKeySep does to one byte of the key: keep, replace, or delete *)
Definition norm_byte (b : N) : option N :=
  if b =? c_slash then Some c_dash
  else if (b =? c_space) || (b =? c_tab) then Some c_us
  else if (b =? c_dot) || (b =? c_dash) || (b =? c_us) then Some b
  else if is_alnum b then Some b
  else None.

Fixpoint normalise (l : str) : str :=
  match l with
  | [] => []
  | b :: r => match norm_byte b with Some b' => b' :: normalise r | None => normalise r end
  end.

(* returns the normalised key and the suffix after ':' *)
Fixpoint lex_key_sep (l : str) : result (str * str) :=
  match l with
  | [] => Rej EMissingKeySep
  | b :: r =>
      if b =? c_colon then Ok ([], r)
      else if b =? c_nul then Rej EMissingKeySep
      else match lex_key_sep r with
           | Ok (k, r') => Ok (match norm_byte b with Some b' => b' :: k | None => k end, r')
           | e => e
           end
  end.

Definition with_ns (ns key : str) : str :=
  match ns with [] => key | _ => ns ++ c_dot :: key end.

(* value: lexValueSep + lexValue *)
Fixpoint lex_value_sep (l : str) : result (str * str) :=
  match l with
  | [] => Rej EMissingValueSep
  | b :: r =>
      if b =? c_pipe then Ok ([], r)
      else if b =? c_nul then Rej EMissingValueSep
      else match lex_value_sep r with
           | Ok (v, r') => Ok (b :: v, r')
           | e => e
           end
  end.

(* type: lexType *)
Definition lex_type (l : str) : result (mtype * str) :=
  match l with
  | [] => Rej EInvalidType
  | b :: r =>
      if b =? c_c then Ok (Counter, r)
      else if b =? c_g then Ok (Gauge, r)
      else if b =? c_m then
        match r with
        | b2 :: r2 => if b2 =? c_s then Ok (Timer, r2) else Rej EInvalidType
        | [] => Rej EInvalidType
        end
      else if b =? c_h then Ok (Timer, r)
      else if b =? c_s then Ok (MSet, r)
      else Rej EInvalidType
  end.

(* appendTag: empty data is not appended.  [cur] is the reversed tag being read,
   [tags] the reversed list of tags so far. *)
Definition add_tag (cur : str) (tags : list str) : list str :=
  match cur with [] => tags | _ => rev cur :: tags end.

Section WithOracle.
  Variable pf : str -> pfres.

  Definition parse_rate (s : str) : result Z :=
    match pf s with
    | PFVal v => Ok v
    | PFErr => Rej EParseFloat
    | PFMiss => Rej EOracleMiss
    end.

  (* lexMetricAttributes / lexMetricAttribute / seekUntil / seekDelimited as a byte machine *)
  Inductive mstate :=
  | MAttrs                (* lexMetricAttributes: expects '|' or the end *)
  | MAttr                 (* lexMetricAttribute: first byte of a field *)
  | MRate (acc : str)     (* inside '@...' (reversed) *)
  | MTags (cur : str)     (* inside '#...' (current tag reversed) *)
  | MOther.               (* inside an ignored field *)

  Fixpoint lex_mattrs (st : mstate) (rate : Z) (tags : list str) (l : str)
    : result (Z * list str) :=
    match l with
    | [] =>
        match st with
        | MAttrs | MAttr | MOther => Ok (rate, tags)
        | MRate acc => match parse_rate (rev acc) with
                       | Ok v => Ok (v, tags) | Rej e => Rej e | Pan => Pan end
        | MTags cur => Ok (rate, add_tag cur tags)
        end
    | b :: r =>
        match st with
        | MAttrs =>
            if b =? c_pipe then lex_mattrs MAttr rate tags r
            else if b =? c_nul then Ok (rate, tags)
            else Rej EInvalidType
        | MAttr =>
            if b =? c_at then lex_mattrs (MRate []) rate tags r
            else if b =? c_hash then lex_mattrs (MTags []) rate tags r
            else lex_mattrs MOther rate tags r
        | MRate acc =>
            if b =? c_pipe then
              match parse_rate (rev acc) with
              | Ok v => lex_mattrs MAttr v tags r | Rej e => Rej e | Pan => Pan end
            else lex_mattrs (MRate (b :: acc)) rate tags r
        | MTags cur =>
            if b =? c_comma then lex_mattrs (MTags []) rate (add_tag cur tags) r
            else if b =? c_pipe then lex_mattrs MAttr rate (add_tag cur tags) r
            else if b =? c_nul then lex_mattrs MAttrs rate (add_tag (b :: cur) tags) r
            else lex_mattrs (MTags (b :: cur)) rate tags r
        | MOther =>
            if b =? c_pipe then lex_mattrs MAttr rate tags r
            else lex_mattrs MOther rate tags r
        end
    end.

  (* the end of Lexer.Run for a metric *)
  Definition finish_metric (name : str) (ty : mtype) (val : str) (rate : Z) (tags : list str)
    : outcome :=
    if negb (f64_finite_pos rate) then OReject EInvalidRate
    else match ty with
         | MSet => OMetric {| m_name := name; m_type := ty; m_value := 0; m_strval := val;
                              m_rate := rate; m_tags := tags |}
         | _ => match pf val with
                | PFErr => OReject EParseFloat
                | PFMiss => OReject EOracleMiss
                | PFVal v => if f64_is_nan v then OReject ENaN
                             else OMetric {| m_name := name; m_type := ty; m_value := v;
                                             m_strval := []; m_rate := rate; m_tags := tags |}
                end
         end.

  Definition lex_metric (ns : str) (l : str) : outcome :=
    match lex_key_sep l with
    | Rej e => OReject e | Pan => OPanic
    | Ok (key, r1) =>
        match key with
        | [] => OReject EEmptyKey
        | _ =>
            match lex_value_sep r1 with
            | Rej e => OReject e | Pan => OPanic
            | Ok (val, r2) =>
                match lex_type r2 with
                | Rej e => OReject e | Pan => OPanic
                | Ok (ty, r3) =>
                    match lex_mattrs MAttrs f64_one [] r3 with
                    | Rej e => OReject e | Pan => OPanic
                    | Ok (rate, tags) => finish_metric (with_ns ns key) ty val rate (rev tags)
                    end
                end
            end
        end
    end.

End WithOracle.

(* ---------------------------------------------------------------------------------------- *)
(* events *)

Definition two64 : N := 18446744073709551616.
Definition max_uint32 : N := 4294967295.
Definition max_int64 : N := 9223372036854775807.

Definition max_uint64 : N := 18446744073709551615.

(* lexUint: decimal digits with the code's overflow test, performed BEFORE multiplying
   (value > (MaxUint64 - d) / 10, repaired defect D11: the former test "n < value" after a
   wrapping multiplication missed some wrap-arounds; the former behaviour is kept in
   Model/LexerLegacyUint.v); a NUL byte ends the number and is consumed; any other byte ends it
   and is left unread. *)
Fixpoint lex_uint (v : N) (consumed : bool) (l : str) : result (N * str) :=
  match l with
  | [] => if consumed then Ok (v, []) else Rej EInvalidFormat
  | b :: r =>
      if is_digit b then
        let d := b - c_0 in
        if (max_uint64 - d) / 10 <? v then Rej EOverflow else lex_uint (v * 10 + d) true r
      else if b =? c_nul then Ok (v, r)
      else if consumed then Ok (v, l) else Rej EInvalidFormat
  end.

Definition lex_uint32 (l : str) : result (N * str) :=
  match lex_uint 0 false l with
  | Ok (v, r) => if max_uint32 <? v then Rej EOverflow else Ok (v, r)
  | e => e
  end.

Definition lex_assert (c : N) (l : str) : result str :=
  match l with
  | b :: r => if b =? c then Ok r else Rej EInvalidFormat
  | [] => Rej EInvalidFormat
  end.

(* Go's checked operations *)
Definition index_checked (l : str) (i : N) : option N := nth_error l (N.to_nat i).
Definition slice_checked (l : str) (lo hi : N) : option str :=
  if (lo <=? hi) && (hi <=? N.of_nat (length l))
  then Some (firstn (N.to_nat (hi - lo)) (skipn (N.to_nat lo) l))
  else None.

(* bytes.Replace(s, "\\n", "\n", -1) *)
Fixpoint unescape (l : str) : str :=
  match l with
  | [] => []
  | b :: r =>
      match r with
      | b2 :: r2 => if (b =? c_bslash) && (b2 =? c_n) then c_nl :: unescape r2
                    else b :: unescape r
      | [] => [b]
      end
  end.

(* lexEventBody.  [r] is the unread suffix (input[pos:]), [tl xl] the declared lengths.
   [wrap32] selects the pre-fix length test, performed in uint32 (kept for the refutation
   example); the current code performs it in 64 bits. *)
Definition two32 : N := 4294967296.
Definition event_body (wrap32 : bool) (tl xl : N) (r : str) : result (str * str * str) :=
  let avail := N.of_nat (length r) in
  let need := if wrap32 then (tl + 1 + xl) mod two32 else tl + 1 + xl in
  if avail <? need then Rej ENotEnoughData
  else match index_checked r tl with
       | None => Pan
       | Some b =>
           if negb (b =? c_pipe) then Rej EInvalidFormat
           else match slice_checked r 0 tl, slice_checked r (tl + 1) (tl + 1 + xl) with
                | Some title, Some text =>
                    Ok (title, unescape text, skipn (N.to_nat (tl + 1 + xl)) r)
                | _, _ => Pan
                end
       end.

Inductive estate :=
| EAttrs                     (* lexEventAttributes *)
| EAttr                      (* lexEventAttribute: first byte *)
| EColon (k : N)             (* lexAssert(':') after key byte k *)
| EDate (v : N) (consumed : bool)
| EField (k : N) (acc : str) (* seekUntil('|') for h k p s t, reversed *)
| ETags (cur : str)
| EOther.

Definition str_low := [108;111;119].
Definition str_normal := [110;111;114;109;97;108].
Definition str_info := [105;110;102;111].
Definition str_error := [101;114;114;111;114].
Definition str_warning := [119;97;114;110;105;110;103].
Definition str_success := [115;117;99;99;101;115;115].

(* effect of a completed h/k/p/s/t field *)
Definition set_field (k : N) (data : str) (e : event) : result event :=
  if k =? c_h then Ok {| e_title := e_title e; e_text := e_text e; e_date := e_date e; e_host := data;
                         e_key := e_key e; e_pri := e_pri e; e_stype := e_stype e; e_alert := e_alert e;
                         e_tags := e_tags e |}
  else if k =? c_k then Ok {| e_title := e_title e; e_text := e_text e; e_date := e_date e; e_host := e_host e;
                         e_key := data; e_pri := e_pri e; e_stype := e_stype e; e_alert := e_alert e;
                         e_tags := e_tags e |}
  else if k =? c_s then Ok {| e_title := e_title e; e_text := e_text e; e_date := e_date e; e_host := e_host e;
                         e_key := e_key e; e_pri := e_pri e; e_stype := data; e_alert := e_alert e;
                         e_tags := e_tags e |}
  else if k =? c_p then
    if str_eqb data str_low then
      Ok {| e_title := e_title e; e_text := e_text e; e_date := e_date e; e_host := e_host e;
            e_key := e_key e; e_pri := 1; e_stype := e_stype e; e_alert := e_alert e;
            e_tags := e_tags e |}
    else if str_eqb data str_normal then Ok e
    else Rej EInvalidAttributes
  else if k =? c_t then
    let seta a := Ok {| e_title := e_title e; e_text := e_text e; e_date := e_date e; e_host := e_host e;
            e_key := e_key e; e_pri := e_pri e; e_stype := e_stype e; e_alert := a;
            e_tags := e_tags e |} in
    if str_eqb data str_error then seta 2
    else if str_eqb data str_warning then seta 1
    else if str_eqb data str_success then seta 3
    else if str_eqb data str_info then Ok e
    else Rej EInvalidAttributes
  else Ok e.

Definition set_date (v : N) (e : event) : result event :=
  if max_int64 <? v then Rej EOverflow
  else Ok {| e_title := e_title e; e_text := e_text e; e_date := Z.of_N v; e_host := e_host e;
             e_key := e_key e; e_pri := e_pri e; e_stype := e_stype e; e_alert := e_alert e;
             e_tags := e_tags e |}.

Definition is_field_key (b : N) : bool :=
  (b =? c_h) || (b =? c_k) || (b =? c_p) || (b =? c_s) || (b =? c_t).

(* [tags] reversed *)
Fixpoint lex_eattrs (st : estate) (e : event) (tags : list str) (l : str)
  : result (event * list str) :=
  match l with
  | [] =>
      match st with
      | EAttrs | EAttr | EOther => Ok (e, tags)
      | EColon _ => Rej EInvalidFormat
      | EDate v consumed =>
          if consumed then
            match set_date v e with Ok e' => Ok (e', tags) | Rej x => Rej x | Pan => Pan end
          else Rej EInvalidFormat
      | EField k acc =>
          match set_field k (rev acc) e with Ok e' => Ok (e', tags) | Rej x => Rej x | Pan => Pan end
      | ETags cur => Ok (e, add_tag cur tags)
      end
  | b :: r =>
      match st with
      | EAttrs =>
          if b =? c_pipe then lex_eattrs EAttr e tags r
          else if b =? c_nul then Ok (e, tags)
          else Rej EInvalidAttributes
      | EAttr =>
          if (b =? c_d) || is_field_key b then lex_eattrs (EColon b) e tags r
          else if b =? c_hash then lex_eattrs (ETags []) e tags r
          else lex_eattrs EOther e tags r
      | EColon k =>
          if b =? c_colon then
            if k =? c_d then lex_eattrs (EDate 0 false) e tags r
            else lex_eattrs (EField k []) e tags r
          else Rej EInvalidFormat
      | EDate v consumed =>
          if is_digit b then
            let d := b - c_0 in
            if (max_uint64 - d) / 10 <? v then Rej EOverflow else lex_eattrs (EDate (v * 10 + d) true) e tags r
          else if b =? c_nul then
            match set_date v e with
            | Ok e' => lex_eattrs EAttrs e' tags r | Rej x => Rej x | Pan => Pan end
          else if consumed then
            match set_date v e with
            | Ok e' => if b =? c_pipe then lex_eattrs EAttr e' tags r else Rej EInvalidAttributes
            | Rej x => Rej x | Pan => Pan end
          else Rej EInvalidFormat
      | EField k acc =>
          if b =? c_pipe then
            match set_field k (rev acc) e with
            | Ok e' => lex_eattrs EAttr e' tags r | Rej x => Rej x | Pan => Pan end
          else lex_eattrs (EField k (b :: acc)) e tags r
      | ETags cur =>
          if b =? c_comma then lex_eattrs (ETags []) e (add_tag cur tags) r
          else if b =? c_pipe then lex_eattrs EAttr e (add_tag cur tags) r
          else if b =? c_nul then lex_eattrs EAttrs e (add_tag (b :: cur) tags) r
          else lex_eattrs (ETags (b :: cur)) e tags r
      | EOther =>
          if b =? c_pipe then lex_eattrs EAttr e tags r
          else lex_eattrs EOther e tags r
      end
  end.

Definition empty_event (title text : str) : event :=
  {| e_title := title; e_text := text; e_date := 0; e_host := []; e_key := []; e_pri := 0;
     e_stype := []; e_alert := 0; e_tags := [] |}.

Definition with_tags (e : event) (tags : list str) : event :=
  {| e_title := e_title e; e_text := e_text e; e_date := e_date e; e_host := e_host e;
     e_key := e_key e; e_pri := e_pri e; e_stype := e_stype e; e_alert := e_alert e;
     e_tags := tags |}.

Definition bind {A B} (x : result A) (f : A -> result B) : result B :=
  match x with Ok a => f a | Rej e => Rej e | Pan => Pan end.

(* lexDatadogSpecial onwards; [l] is the suffix after the leading '_' *)
Definition lex_event_gen (wrap32 : bool) (l : str) : outcome :=
  match l with
  | [] => OReject EInvalidType
  | b :: r0 =>
      if negb (b =? c_e) then OReject EInvalidType
      else
        let res :=
          bind (lex_assert c_lbrace r0) (fun r1 =>
          bind (lex_uint32 r1) (fun '(tl, r2) =>
          bind (lex_assert c_comma r2) (fun r3 =>
          bind (lex_uint32 r3) (fun '(xl, r4) =>
          bind (lex_assert c_rbrace r4) (fun r5 =>
          bind (lex_assert c_colon r5) (fun r6 =>
          bind (event_body wrap32 tl xl r6) (fun '(title, text, r7) =>
          lex_eattrs EAttrs (empty_event title text) [] r7))))))) in
        match res with
        | Ok (e, tags) => OEvent (with_tags e (rev tags))
        | Rej x => OReject x
        | Pan => OPanic
        end
  end.

Definition lex_gen (wrap32 : bool) (pf : str -> pfres) (ns : str) (l : str) : outcome :=
  match l with
  | [] => OReject EInvalidType
  | b :: r =>
      if b =? c_us then lex_event_gen wrap32 r
      else if b =? c_nul then OReject EInvalidType
      else lex_metric pf ns l
  end.

(* the lexer of the current tree *)
Definition lex := lex_gen false.
Definition lex_event := lex_event_gen false.
(* the lexer before the 64-bit length test (fixed defect D1) *)
Definition lex_legacy := lex_gen true.
