(* The whole MetricAggregator of pkg/statsd/aggregator.go, in one model: the aggregate map with
   every field the Go structs carry, ReceiveMap, Flush and Reset.

   State = the four maps of a gostatsd.MetricMap (Go's map[name]map[tagsKey]V flattened to a gmap
   keyed by (name, tagsKey), as in Model/MetricMap.v):
     counters  Value, PerSecond, Timestamp, Source, Tags
     timers    every field of gostatsd.Timer as [Stats.timer Qc] (Count, SampledCount, PerSecond,
               Mean, Median, Min, Max, StdDev^2, Sum, SumSquares, Values, Percentiles, Tags,
               Histogram) + Timestamp, Source.  The float64 values are exact rationals there
               (DESIGN 3.1).  [at_bits] additionally keeps the received bit patterns in arrival
               order: Flush sorts Values in place, the bit patterns are what "the multiset of
               values" means for C01 / C09 (ghost: nothing reads it).
     gauges, sets   as Model/MetricMap.v (Flush does not touch them).
   Incoming maps are [MetricMap.mmap] (what MetricMap.Receive / the forwarder's decoder build).

     receive_map   ReceiveMap = MetricMap.Merge: MergeCounter / MergeGauge / MergeSet / MergeTimer;
                   a series new to the aggregator is stored as it comes, an existing one keeps
                   every derived field it has (so a Flush that was not followed by Reset shows).
     flush dt      Flush(flushInterval): counters get PerSecond; timers: EXACTLY [Stats.flush_timer]
                   (histogram branch, sort, cumulative arrays, percentile loop, checked indexing:
                   a [Panic] of one timer is a [Panic] of the flush); gauges and sets untouched.
     reset now     Reset: per type isExpired(interval, now, Timestamp) deletes the series; a kept
                   counter is zeroed, a kept timer becomes Values[:0] (+ emptyHistogram for a
                   histogram timer: checked slicing, [Panic] visible), a kept set is emptied, a
                   kept gauge is unchanged.
   Not modelled: metricMapsReceived and its internal gauge; int64 wrap-around of counter sums and of
   now - Timestamp (Z here); float rounding (Qc); math.Sqrt; slice aliasing between the incoming
   map and the aggregate; Go's map iteration order (the percentiles of one flush are appended in
   the order of the configured list without repetitions). *)
From stdpp Require Import gmap.
From Coq Require Import QArith Qcanon.
From GS Require Import Base.Bytes Base.GoFloat Model.Lexer Model.Series Model.MetricMap.
From GS Require Import Model.GoPartial Model.Histogram Model.Stats.
Local Open Scope Z_scope.

Record acounter := MkAC { ac_val : Z; ac_persec : Qc; ac_ts : Z; ac_src : str; ac_tags : list str }.
Record atimer := MkAT { at_t : Stats.timer Qc; at_bits : list Z; at_ts : Z; at_src : str }.

Record agg := MkAgg {
  a_counters : gmap skey acounter;
  a_timers : gmap skey atimer;
  a_gauges : gmap skey gauge;
  a_sets : gmap skey mset
}.
Definition agg_empty : agg := MkAgg ∅ ∅ ∅ ∅.

(* NewMetricAggregator's arguments (intervals in nanoseconds, 0 = never expire) *)
Record aconfig := MkACfg {
  ak_pcts : list Z;            (* percentThresholds (integers) *)
  ak_mask : pmask;             (* disabled TimerSubtypes *)
  ak_limit : Z;                (* histogramLimit, a uint32 *)
  ak_exp_counter : Z; ak_exp_gauge : Z; ak_exp_set : Z; ak_exp_timer : Z
}.

(* ---- ReceiveMap ---------------------------------------------------------------------------- *)

Definition merge_acounter (x : option acounter) (y : option counter) : option acounter :=
  match x, y with
  | Some a, Some c => Some (MkAC (ac_val a + c_val c) (ac_persec a) (Z.max (ac_ts a) (c_ts c)) (ac_src a) (ac_tags a))
  | Some a, None => Some a
  | None, Some c => Some (MkAC (c_val c) 0%Qc (c_ts c) (c_src c) (c_tags c))
  | None, None => None
  end.

(* timerInto.Values = append(...); timerInto.SampledCount += ...; every other field stays *)
Definition merge_stats (t : Stats.timer Qc) (vs : list Qc) (s : Qc) : Stats.timer Qc :=
  {| t_count := t_count t; t_sampled := (t_sampled t + s)%Qc; t_persec := t_persec t;
     t_mean := t_mean t; t_median := t_median t; t_min := t_min t; t_max := t_max t;
     t_var := t_var t; t_sum := t_sum t; t_sumsq := t_sumsq t;
     t_values := t_values t ++ vs; t_pcts := t_pcts t; t_tags := Stats.t_tags t;
     t_hist := t_hist t |}.

Definition qvals (bits : list Z) : list Qc := Qc_of_bits <$> bits.

Definition merge_atimer (x : option atimer) (y : option MetricMap.timer) : option atimer :=
  match x, y with
  | Some a, Some t =>
      Some (MkAT (merge_stats (at_t a) (qvals (t_vals t)) (t_samp t)) (at_bits a ++ t_vals t)
                 (Z.max (at_ts a) (t_ts t)) (at_src a))
  | Some a, None => Some a
  | None, Some t =>
      Some (MkAT (Stats.fresh qc_ops (qvals (t_vals t)) (t_samp t) (MetricMap.t_tags t) HNil) (t_vals t)
                 (t_ts t) (t_src t))
  | None, None => None
  end.

Definition receive_map (a : agg) (m : mmap) : agg :=
  MkAgg (base.merge merge_acounter (a_counters a) (counters m))
        (base.merge merge_atimer (a_timers a) (timers m))
        (union_with (λ x y, Some (merge_gauge x y)) (a_gauges a) (gauges m))
        (union_with (λ x y, Some (merge_set x y)) (a_sets a) (sets m)).

(* ---- outcomes over a map: Panic if any element panics --------------------------------------- *)

Definition ok_val {A} (o : outcome A) : option A := match o with Ok a => Some a | Panic => None end.
Definition all_ok {A} (m : gmap skey (outcome A)) : bool :=
  forallb (λ kv, negb (is_panic kv.2)) (map_to_list m).
Definition seq_map {A} (m : gmap skey (outcome A)) : outcome (gmap skey A) :=
  if all_ok m then Ok (omap ok_val m) else Panic.

Section Agg.
  Variable pf : str -> option bound.          (* strconv.ParseFloat on a bucket item *)
  Variable rank : Z -> Z -> Z.                (* int(round(|p| / 100 * n)) *)
  Variable cfg : aconfig.

  (* ---- Flush ----------------------------------------------------------------------------- *)

  (* float64(flushInterval) / float64(time.Second) *)
  Definition seconds (dt : Z) : Qc := (Qc_of_Z dt / Qc_of_Z 1000000000)%Qc.

  Definition stats_config (dt : Z) : Stats.config Qc :=
    {| c_pcts := ak_pcts cfg; c_mask := ak_mask cfg; c_limit := ak_limit cfg; c_interval := seconds dt |}.

  Definition flush_acounter (dt : Z) (c : acounter) : acounter :=
    MkAC (ac_val c) (Qc_of_Z (ac_val c) / seconds dt)%Qc (ac_ts c) (ac_src c) (ac_tags c).

  Definition flush_atimer (dt : Z) (a : atimer) : outcome atimer :=
    let! t := Stats.flush_timer qc_ops pf rank false (stats_config dt) (at_t a) in
    Ok (MkAT t (at_bits a) (at_ts a) (at_src a)).

  Definition flush (dt : Z) (a : agg) : outcome agg :=
    let! ts := seq_map (flush_atimer dt <$> a_timers a) in
    Ok (MkAgg (flush_acounter dt <$> a_counters a) ts (a_gauges a) (a_sets a)).

  (* ---- Reset ----------------------------------------------------------------------------- *)

  (* isExpired(interval, now, ts) = interval != 0 && time.Duration(now-ts) > interval *)
  Definition is_expired (i now ts : Z) : bool := negb (i =? 0) && (i <? now - ts).

  Definition reset_acounter (now : Z) (c : acounter) : option acounter :=
    if is_expired (ak_exp_counter cfg) now (ac_ts c) then None
    else Some (MkAC 0 0%Qc (ac_ts c) (ac_src c) (ac_tags c)).

  Definition reset_gauge (now : Z) (g : gauge) : option gauge :=
    if is_expired (ak_exp_gauge cfg) now (g_ts g) then None else Some g.

  Definition reset_set (now : Z) (s : mset) : option mset :=
    if is_expired (ak_exp_set cfg) now (s_ts s) then None
    else Some (MkSet ∅ (s_ts s) (s_src s) (s_tags s)).

  (* gostatsd.Timer{Timestamp, Source, Tags, Values: timer.Values[:0] [, Histogram: emptyHistogram(...)]} *)
  Definition reset_atimer (a : atimer) : outcome atimer :=
    let t := at_t a in
    let! vs := slice_to (t_values t) 0 in
    let! h := (if has_histogram_tag (Stats.t_tags t)
               then empty_histogram pf (Stats.t_tags t) (ak_limit cfg) else Ok HNil) in
    let! bits := slice_to (at_bits a) 0 in
    Ok (MkAT (Stats.fresh qc_ops vs 0%Qc (Stats.t_tags t) h) bits (at_ts a) (at_src a)).

  Definition live_timer (now : Z) (a : atimer) : option atimer :=
    if is_expired (ak_exp_timer cfg) now (at_ts a) then None else Some a.

  Definition reset (now : Z) (a : agg) : outcome agg :=
    let! ts := seq_map (reset_atimer <$> omap (live_timer now) (a_timers a)) in
    Ok (MkAgg (omap (reset_acounter now) (a_counters a)) ts
              (omap (reset_gauge now) (a_gauges a)) (omap (reset_set now) (a_sets a))).

  (* ---- histories ---------------------------------------------------------------------------- *)

  Inductive aop :=
  | ARecv (m : mmap)        (* ReceiveMap(m) *)
  | AFlush (dt : Z)         (* Flush(dt) *)
  | AReset (now : Z).       (* Reset() with the clock at now *)

  Definition astep (a : agg) (o : aop) : outcome agg :=
    match o with
    | ARecv m => Ok (receive_map a m)
    | AFlush dt => flush dt a
    | AReset now => reset now a
    end.

  Definition arun (ops : list aop) : outcome agg := foldM astep agg_empty ops.
End Agg.

(* ---- projections onto the partial models --------------------------------------------------- *)

(* the aggregate as a plain MetricMap (Model/MetricMap.v): what C01 (Model/Pipeline.v) and C09
   (Model/Expiry.v) keep of it *)
Definition to_counter (c : acounter) : counter := MkCounter (ac_val c) (ac_ts c) (ac_src c) (ac_tags c).
Definition to_timer (a : atimer) : MetricMap.timer :=
  MkTimer (at_bits a) (t_sampled (at_t a)) (at_ts a) (at_src a) (Stats.t_tags (at_t a)).
Definition to_mmap (a : agg) : mmap :=
  MkMap (to_counter <$> a_counters a) (to_timer <$> a_timers a) (a_gauges a) (a_sets a).

(* ---- vocabulary of the history theorems (Props/C08.v) ------------------------------------- *)

(* the values (as exact rationals, in arrival order) and the sampled count that ReceiveMap has
   handed to timer series [k] since the last Reset of the history *)
Definition pend_step (k : skey) (acc : list Qc * Qc) (o : aop) : list Qc * Qc :=
  match o with
  | ARecv m => match timers m !! k with
               | Some t => (acc.1 ++ qvals (t_vals t), (acc.2 + t_samp t)%Qc)
               | None => acc
               end
  | AFlush _ => acc
  | AReset _ => ([], 0%Qc)
  end.
Definition received_since_reset (ops : list aop) (k : skey) : list Qc * Qc :=
  fold_left (pend_step k) ops ([], 0%Qc).

(* some Flush of the history has not been followed by a Reset yet (never the case in the
   flusher, which runs Flush; Process; Reset in one worker command) *)
Definition flush_step (b : bool) (o : aop) : bool :=
  match o with ARecv _ => b | AFlush _ => true | AReset _ => false end.
Definition flushed_since_reset (ops : list aop) : bool := fold_left flush_step ops false.

(* incoming maps as MetricMap.Receive and the forwarder's decoder build them: a timer without
   values has sampled count 0; tags shorter than 2^32 bytes *)
Definition sane_map (m : mmap) : Prop :=
  forall k t, timers m !! k = Some t ->
    (t_vals t = [] -> t_samp t = 0%Qc) /\ forall tag, In tag (MetricMap.t_tags t) -> len tag < 2^32.
Definition sane_ops (ops : list aop) : Prop := forall m, In (ARecv m) ops -> sane_map m.

(* number of timer values an incoming map / a history hands to the aggregator (a timer cannot hold
   2^52 values: that would be 32 PiB) *)
Definition mm_values (m : mmap) : Z := foldr (λ kv acc, len (t_vals kv.2) + acc) 0 (map_to_list (timers m)).
Definition op_values (o : aop) : Z := match o with ARecv m => mm_values m | _ => 0 end.
Definition ops_values (ops : list aop) : Z := foldr (λ o acc, op_values o + acc) 0 ops.
