(* A reference reader of Graphite's plaintext protocol with tags, as the Graphite documentation
   gives it ("Feeding in your data", "Graphite tag support"):

     line   = path " " value " " timestamp "\n"
     path   = name { ";" tag-name "=" tag-value }

   fields are separated by single spaces (so a path has none); name, tag names and tag values
   are not empty; a tag name has none of ";!^=", a tag value has no ';' and does not start with
   '~'.  The value is a number, the timestamp an integer.

   [strict = false] keeps the splitting and drops the validity checks (non-empty tag parts, the
   forbidden tag bytes, number syntax): the correspondence uses it for the non-finite stream, in
   which the backend prints NaN / +Inf with %f. *)
From GS Require Import Base.Bytes Model.Batching Model.InfluxEsc Model.InfluxLine.
Local Open Scope N_scope.

Record gl_rec := MkGL { gl_name : str; gl_tags : list (str * str); gl_value : str; gl_ts : Z }.

Definition c_bang : N := 33.
Definition c_caret : N := 94.
Definition c_tilde : N := 126.

(* split at the first '=' *)
Fixpoint split_eq (s : str) : option (str * str) :=
  match s with
  | [] => None
  | b :: r => if b =? c_eq then Some ([], r)
              else match split_eq r with Some (k, v) => Some (b :: k, v) | None => None end
  end.
Definition tag_name_byte_ok (b : N) : bool :=
  negb ((b =? c_semi) || (b =? c_bang) || (b =? c_caret) || (b =? c_eq)).
Definition tag_parts_ok (k v : str) : bool :=
  negb (is_nil k) && forallb tag_name_byte_ok k && negb (is_nil v)
  && match v with b :: _ => negb (b =? c_tilde) | [] => true end.
Fixpoint parse_gtags (strict : bool) (segs : list str) : option (list (str * str)) :=
  match segs with
  | [] => Some []
  | s :: r =>
      match split_eq s with
      | None => None
      | Some (k, v) =>
          if strict && negb (tag_parts_ok k v) then None
          else match parse_gtags strict r with Some ts => Some ((k, v) :: ts) | None => None end
      end
  end.

Definition is_space_b (b : N) : bool := b =? c_space.
Definition graphite_parse_gen (strict : bool) (line : str) : option gl_rec :=
  let (path, r1) := scan_plain is_space_b line in
  match r1 with
  | _ :: r2 =>
      let (v, r3) := scan_plain is_space_b r2 in
      match r3 with
      | _ :: r4 =>
          let (t, r5) := scan_plain (N.eqb c_nl) r4 in
          match r5 with
          | [_] =>
              match split_on c_semi [] path, read_int t with
              | name :: segs, Some z =>
                  if is_nil name then None
                  else if strict && negb (is_number_lit v) then None
                  else match parse_gtags strict segs with
                       | Some tags => Some (MkGL name tags v z)
                       | None => None
                       end
              | _, _ => None
              end
          | _ => None
          end
      | [] => None
      end
  | [] => None
  end.
Definition graphite_parse : str -> option gl_rec := graphite_parse_gen true.

(* ---- what an entry of the model must read back as *)
Definition gtag_of (tag : str) : str * str :=
  match split_colon tag with Some (k, v) => (k, v) | None => (n_unnamed, tag) end.
Definition base_path (c : gcfg) (ns name suffix : str) : str :=
  (match ns with [] => [] | _ => ns ++ [c_dot] end)
  ++ normalize_metric_name name
  ++ (match suffix with [] => [] | _ => c_dot :: suffix end)
  ++ (match g_suffix c with [] => [] | _ => c_dot :: g_suffix c end).
Definition gtags_of (c : gcfg) (src : str) (tags : list str) : list (str * str) :=
  if g_tags c then
    map gtag_of tags
    ++ (if existsb (has_prefix s_host_colon) tags then []
        else match src with [] => [] | _ => [(n_host, src)] end)
  else [].

Section WithPrinter.
  Variable fmt_f : Z -> str.
  Definition gl_of (c : gcfg) (now : Z) (e : gentry) : gl_rec :=
    MkGL (base_path c (ge_ns e) (ge_name e) (ge_suffix e)) (gtags_of c (ge_src e) (ge_tags e))
         (prv fmt_f (ge_val e)) now.
End WithPrinter.

(* ---- side conditions of the round trip *)
(* bytes that may stand in a path segment: no space, no ';', no newline *)
Definition seg_byte (b : N) : bool := negb ((b =? c_space) || (b =? c_semi) || (b =? c_nl)).
Definition seg_ok (s : str) : bool := forallb seg_byte s.
Definition gtag_ok (tag : str) : bool :=
  seg_ok tag && (let (k, v) := gtag_of tag in tag_parts_ok k v).
Definition gentry_ok (c : gcfg) (value_text : str) (e : gentry) : Prop :=
  ge_ns e <> [] /\ seg_ok (ge_ns e) = true /\ seg_ok (ge_suffix e) = true /\ seg_ok (g_suffix c) = true
  /\ is_number_lit value_text = true
  /\ (g_tags c = true ->
      forallb gtag_ok (ge_tags e) = true
      /\ seg_ok (ge_src e) = true /\ match ge_src e with b :: _ => b <> c_tilde | [] => True end).
