(* Model of internal/util/aligned_ticker.go (AlignedTicker.start / sendTick), of the consumer
   loop of pkg/statsd/flusher.go (MetricFlusher.Run in aligned mode) and of the clock they run
   on (github.com/tilinna/clock Mock: Add / NewTimer / NewTicker), as a labelled transition
   system.  Definitions only.

   Instants are Z nanoseconds since Go's zero time (January 1, year 1 UTC; negative = before);
   durations are Z nanoseconds (int64 in Go).  Not modelled: the bounded range of time.Time,
   int64 overflow inside the mock clock's re-arm arithmetic, Stop / context cancellation,
   monotonic clock readings, the Go runtime timer (a real time.Ticker delivers the instant of
   firing, the mock delivers the deadline). *)
From Coq Require Import ZArith List Bool.
Import ListNotations.
Local Open Scope Z_scope.

(* ---------------------------------------------------------------------------------------- *)
(* package time *)

Definition max_dur : Z := 9223372036854775807.   (* math.MaxInt64 ns, about 292 years *)
Definition min_dur : Z := -9223372036854775808.

(* Time.Sub saturates at the largest / smallest Duration. *)
Definition sat_dur (d : Z) : Z :=
  if max_dur <? d then max_dur else if d <? min_dur then min_dur else d.
Definition time_sub (t u : Z) : Z := sat_dur (t - u).

(* Time.Truncate: rounds t down to a multiple of i since the zero time (also for instants
   before the zero time: time.div corrects the remainder of a negative instant to d - r);
   returns t unchanged when i <= 0. *)
Definition truncate (t i : Z) : Z := if i <=? 0 then t else t - t mod i.

(* ---------------------------------------------------------------------------------------- *)
(* aligned_ticker.go *)

(* func roundup(t, i) = t.Truncate(i).Add(i) *)
Definition roundup (t i : Z) : Z := truncate t i + i.

(* start: initialWait := roundup(now.Add(-offset), interval).Add(offset).Sub(now) *)
Definition initial_wait (now i o : Z) : Z := time_sub (roundup (now - o) i + o) now.

(* sendTick: rounded := t.Add(-offset).Truncate(interval).Add(offset) *)
Definition round_tick (t i o : Z) : Z := truncate (t - o) i + o.

(* A non-blocking send on a channel of capacity 1 (select { case c <- v: default: }): the value
   is dropped when the channel is full. *)
Definition offer (c : option Z) (v : Z) : option Z :=
  match c with None => Some v | Some x => Some x end.

(* Control state of the goroutine AlignedTicker.start *)
Inductive gor :=
| GInit                 (* spawned, has not yet called clck.Now() *)
| GComputed (w : Z)     (* initialWait computed, has not yet called clck.NewTimer *)
| GWaitTimer            (* parked in the phase-1 select on tmr.C *)
| GGotTimer (v : Z)     (* received v from tmr.C, has not yet called clck.NewTicker *)
| GSending (v : Z)      (* holds tick v, about to run sendTick v *)
| GWaitTicker           (* parked in the phase-2 select on tckr.C *)
| GPanicked.            (* clck.NewTicker panicked: non-positive interval *)

(* The (at most one) entry of this component in the mock clock's timer heap *)
Inductive mtimer :=
| MNone
| MTimer (deadline : Z)      (* one-shot timer of phase 1 *)
| MTicker (next : Z).        (* repeating ticker of phase 2 with its next deadline *)

(* One flush of MetricFlusher.Run *)
Record flush := Fl {
  f_at : Z;       (* clock reading when the flusher took the tick and invoked the aggregators *)
  f_tick : Z;     (* thisFlush: the value read from the ticker's channel C *)
  f_delta : Z     (* flushDelta := thisFlush.Sub(lastFlush), handed to Aggregator.Flush *)
}.

Record state := St {
  now : Z;                     (* Mock.now *)
  g : gor;
  mt : mtimer;
  tmc : option Z;              (* tmr.C  (capacity 1) *)
  tkc : option Z;              (* tckr.C (capacity 1) *)
  cch : option Z;              (* AlignedTicker.C = chInternal (capacity 1) *)
  last : Z;                    (* MetricFlusher.Run: lastFlush *)
  flushes : list flush;        (* newest first *)
  (* history fields, written once, read by no transition *)
  started : option Z;          (* clock reading returned by clck.Now() in start *)
  armed : option (Z * Z);      (* clock reading at clck.NewTimer, and the initial wait passed *)
  ticker_at : option Z         (* clock reading at clck.NewTicker *)
}.

(* [start]: reading of the mock clock when the component is created; [wall0]: the flusher's
   initial lastFlush, which is time.Now() of the REAL clock and unrelated to the mock. *)
Definition init (start wall0 : Z) : state :=
  St start GInit MNone None None None wall0 [] None None None.

Inductive label :=
| Advance (d : Z)   (* Mock.Add(d) by whoever drives the clock *)
| Tick              (* the ticker goroutine performs its next atomic action *)
| Consume.          (* the flusher receives from C and flushes *)

Section Step.
  Variable i o : Z.    (* interval, offset *)

  (* Mock.set: every timer with deadline <= new time fires once with its deadline as value
     (m.now = t.deadline; t.fire()); a one-shot timer is removed; a ticker is re-armed at
     deadline + ((new - deadline)/i + 1)*i, i.e. the first point of its cadence after the new
     time, so it fires once per call. *)
  Definition advance (s : state) (d : Z) : option state :=
    if d <? 0 then None else
    let n := now s + d in
    match mt s with
    | MNone => Some (St n (g s) MNone (tmc s) (tkc s) (cch s) (last s) (flushes s) (started s) (armed s) (ticker_at s))
    | MTimer D =>
        if D <=? n
        then Some (St n (g s) MNone (offer (tmc s) D) (tkc s) (cch s) (last s) (flushes s) (started s) (armed s) (ticker_at s))
        else Some (St n (g s) (MTimer D) (tmc s) (tkc s) (cch s) (last s) (flushes s) (started s) (armed s) (ticker_at s))
    | MTicker N =>
        if N <=? n
        then Some (St n (g s) (MTicker (N + ((n - N) / i + 1) * i)) (tmc s) (offer (tkc s) N) (cch s) (last s) (flushes s) (started s) (armed s) (ticker_at s))
        else Some (St n (g s) (MTicker N) (tmc s) (tkc s) (cch s) (last s) (flushes s) (started s) (armed s) (ticker_at s))
    end.

  (* AlignedTicker.start, one atomic action per call; None = parked. *)
  Definition tick (s : state) : option state :=
    match g s with
    | GInit =>                                         (* now := clck.Now(); initialWait := ... *)
        Some (St (now s) (GComputed (initial_wait (now s) i o)) (mt s) (tmc s) (tkc s) (cch s) (last s) (flushes s)
                 (Some (now s)) (armed s) (ticker_at s))
    | GComputed w =>                                   (* tmr := clck.NewTimer(initialWait) *)
        let D := now s + w in
        if D <=? now s                                 (* !deadline.After(now): fires at once *)
        then Some (St (now s) GWaitTimer (mt s) (offer (tmc s) (now s)) (tkc s) (cch s) (last s) (flushes s)
                      (started s) (Some (now s, w)) (ticker_at s))
        else Some (St (now s) GWaitTimer (MTimer D) (tmc s) (tkc s) (cch s) (last s) (flushes s)
                      (started s) (Some (now s, w)) (ticker_at s))
    | GWaitTimer =>                                    (* case now := <-tmr.C *)
        match tmc s with
        | Some v => Some (St (now s) (GGotTimer v) (mt s) None (tkc s) (cch s) (last s) (flushes s)
                             (started s) (armed s) (ticker_at s))
        | None => None
        end
    | GGotTimer v =>                                   (* tckr = clck.NewTicker(at.interval) *)
        if i <=? 0
        then Some (St (now s) GPanicked (mt s) (tmc s) (tkc s) (cch s) (last s) (flushes s)
                      (started s) (armed s) (ticker_at s))
        else Some (St (now s) (GSending v) (MTicker (now s + i)) (tmc s) (tkc s) (cch s) (last s) (flushes s)
                      (started s) (armed s) (Some (now s)))
    | GSending v =>                                    (* at.sendTick(v) *)
        Some (St (now s) GWaitTicker (mt s) (tmc s) (tkc s) (offer (cch s) (round_tick v i o)) (last s) (flushes s)
                 (started s) (armed s) (ticker_at s))
    | GWaitTicker =>                                   (* case now := <-tckr.C *)
        match tkc s with
        | Some v => Some (St (now s) (GSending v) (mt s) (tmc s) None (cch s) (last s) (flushes s)
                             (started s) (armed s) (ticker_at s))
        | None => None
        end
    | GPanicked => None
    end.

  (* MetricFlusher.Run: case thisFlush := <-ch: flushDelta := thisFlush.Sub(lastFlush);
     flushData(ctx, flushDelta, ...); lastFlush = thisFlush *)
  Definition consume (s : state) : option state :=
    match cch s with
    | Some t => Some (St (now s) (g s) (mt s) (tmc s) (tkc s) None t
                         (Fl (now s) t (time_sub t (last s)) :: flushes s)
                         (started s) (armed s) (ticker_at s))
    | None => None
    end.

  Definition step (s : state) (l : label) : option state :=
    match l with
    | Advance d => advance s d
    | Tick => tick s
    | Consume => consume s
    end.
End Step.

(* ---------------------------------------------------------------------------------------- *)
(* Specification vocabulary used by the theorems *)

(* t is on a flush boundary: t minus the offset is an exact multiple of the interval *)
Definition on_boundary (i o t : Z) : Prop := (t - o) mod i = 0.

(* tick values of the flushes in the order in which they happened *)
Definition flush_times (s : state) : list Z := map f_tick (rev (flushes s)).
