(* Model of the lookup dispatcher of the instance cache (property C12):
     pkg/cachedinstances/cloudprovider/cached_cloud_provider_lookup.go  cloudProviderLookupDispatcher.run / doLookup
   as a labelled transition system of its own.  Model/InstanceCache.v abstracts this loop to "any non-empty
   batch of at most MaxInstancesBatch() sources may be looked up"; here the loop is modelled as written,
   including the 10 ms batch timer, the rate limiter and context cancellation.  One label = one atomic step:

     DRecv ip    select arm `case ip := <-ld.ipSource`: append; if len(ips) >= maxLookupIPs leave the select
                 (c = nil), else arm the timer if it is not armed (`c = time.After(batchDuration)`) and continue
     DTimer      select arm `case <-c` (only an armed timer can fire): leave the select, c = nil
     DLimit      ld.limiter.Wait(ctx) returns nil
     DLimitErr   ld.limiter.Wait(ctx) returns an error (context done, or the limiter can never grant): run RETURNS;
                 the sources collected in ips are dropped without being queried or answered
     DCall r e   doLookup calls cloudProvider.Instance(ctx, ips...), which returns the map r and maybe an error
     DSend       doLookup's select arm `case ld.infoSink <- res` for the next position; after the last position
                 run clears ips and goes back to its select
     DAbandon    doLookup's select arm `case <-ctx.Done(): return`: the remaining answers are dropped; run clears
                 ips and goes back to its select (where ctx.Done() is ready, but so may be the other arms)
     DCancel     somebody cancels the context (the environment; Run does it when it returns)
     DStop       select arm `case <-ctx.Done(): return` of run: the sources collected in ips are dropped

   `make([]gostatsd.Source, 0, maxLookupIPs)` panics for a negative MaxInstancesBatch(): state DPanicked.
   The rate limiter and the provider are external: [dstep] allows any interleaving of DLimit / DLimitErr and any
   r, e.  [dstep_b] adds what golang.org/x/time/rate guarantees for the call the loop makes -- Wait(ctx), i.e.
   WaitN(ctx, 1): ONE token per provider call, however many sources the batch holds.

   The second half composes this loop with the Run side of Model/InstanceCache.v ([cstep]).
   Definitions only; lemmas are in Proofs/InstanceDispatcher.v. *)
From GS Require Import Base.Bytes Base.LTS Model.InstanceCache.
From stdpp Require Import gmap.
Local Open Scope Z_scope.

Inductive dphase := DSelect | DLimiter | DCalling | DSending | DStopped | DPanicked.

Record dstate := DState {
  d_phase : dphase;
  d_ips : list source;          (* ips, in arrival order *)
  d_armed : bool;               (* c != nil *)
  d_tosend : list info;         (* positions doLookup still has to send, in order *)
  d_cancelled : bool;           (* ctx.Done() is closed *)
  (* history (ghost: never read by [dstep]), newest first *)
  d_received : list source;                       (* every ip received *)
  d_calls : list (list source * result * bool);   (* every provider call: ips, returned map, error? *)
  d_sent : list info;                             (* every info sent on infoSink *)
  d_dropped : list source;                        (* received sources given up without a provider call *)
  d_abandoned : list info                         (* answers of a provider call that were never sent *)
}.

Definition d_init (lim : Z) : dstate :=
  DState (if lim <? 0 then DPanicked else DSelect) [] false [] false [] [] [] [] [].

Inductive dlabel :=
| DRecv (ip : source) | DTimer | DLimit | DLimitErr | DCall (res : result) (err : bool)
| DSend | DAbandon | DCancel | DStop.

(* back in run after doLookup returned: ips = ips[:0]; the loop re-enters its select *)
Definition after_lookup (tosend : list info) : dphase := match tosend with [] => DSelect | _ => DSending end.

Definition dstep (lim : Z) (d : dstate) (l : dlabel) : option dstate :=
  let 'DState ph ips armed ts can rcv calls sent drop aband := d in
  match l, ph with
  | DRecv ip, DSelect =>
      let ips' := ips ++ [ip] in
      if Z.of_nat (length ips') >=? lim
      then Some (DState DLimiter ips' false ts can (ip :: rcv) calls sent drop aband)
      else Some (DState DSelect ips' true ts can (ip :: rcv) calls sent drop aband)
  | DTimer, DSelect =>
      if armed then Some (DState DLimiter ips false ts can rcv calls sent drop aband) else None
  | DLimit, DLimiter => Some (DState DCalling ips armed ts can rcv calls sent drop aband)
  | DLimitErr, DLimiter => Some (DState DStopped [] armed ts can rcv calls sent (ips ++ drop) aband)
  | DCall res err, DCalling =>
      let ts' := answers ips res in
      Some (DState (after_lookup ts') [] armed ts' can rcv ((ips, res, err) :: calls) sent drop aband)
  | DSend, DSending =>
      match ts with
      | i :: ts' => Some (DState (after_lookup ts') ips armed ts' can rcv calls (i :: sent) drop aband)
      | [] => None
      end
  | DAbandon, DSending =>
      if can then Some (DState DSelect ips armed [] can rcv calls sent drop (ts ++ aband)) else None
  | DCancel, _ => Some (DState ph ips armed ts true rcv calls sent drop aband)
  | DStop, DSelect =>
      if can then Some (DState DStopped [] false ts can rcv calls sent (ips ++ drop) aband) else None
  | _, _ => None
  end.

(* labels of a history without cancellation and without a failing limiter *)
Definition d_fault (l : dlabel) : bool :=
  match l with DLimitErr | DAbandon | DCancel | DStop => true | _ => false end.

(* The limiter as golang.org/x/time/rate behaves for this loop.  [burst] is the bucket size (a limiter with
   rate Inf never refuses for size: use any burst >= 1).  The loop asks for [limiter_request] = 1 token per
   provider call -- NOT one per source: the number requested does not depend on the batch.  WaitN(ctx, n) fails at
   once iff n > burst, otherwise it returns nil after at most n/rate, unless the context is done first. *)
Definition limiter_request (ips : list source) : Z := 1.
Definition limiter_ok (burst : Z) (d : dstate) (l : dlabel) : bool :=
  match l with
  | DLimit => limiter_request (d_ips d) <=? burst
  | DLimitErr => d_cancelled d || (burst <? limiter_request (d_ips d))
  | _ => true
  end.
Definition dstep_b (lim burst : Z) (d : dstate) (l : dlabel) : option dstate :=
  if limiter_ok burst d l then dstep lim d l else None.

(* all positions of all provider calls / the answers doLookup owes for them *)
Definition d_queried (d : dstate) : list source := concat (map (λ b, b.1.1) (d_calls d)).
Definition d_due (d : dstate) : list info := concat (map (λ b, answers b.1.1 b.1.2) (d_calls d)).

(* ---- Run + the dispatcher loop ------------------------------------------------------------------------
   The labels of Model/InstanceCache.v in which the dispatcher takes part are synchronised with the loop's own
   steps; the loop's internal steps (timer, limiter) are new labels.  The component of [state] that stood
   for the dispatcher (pending, inflight) is kept only as the abstraction's view; [cstep] lets a joint step
   happen when BOTH the abstract model and the loop allow it, and Proofs/InstanceDispatcher.v shows that the
   abstract model never is the one that refuses ([dispatcher_never_blocked]). *)
Inductive clabel :=
| CSubmit (s : source) | CSendLookup | CTimer | CLimit | CCall (res : result) (err : bool)
| CHandle (now : Z) | CReturn | CRefresh (t : Z) (order : list source) | CPeek (s : source) (now : Z).

(* the abstract label a joint step is seen as (None: invisible in the abstraction) *)
Definition cproj (cl : clabel) : option label :=
  match cl with
  | CSubmit s => Some (Submit s) | CSendLookup => Some SendLookup
  | CTimer | CLimit => None
  | CCall res err => Some (Batch res err) | CHandle now => Some (HandleInfo now)
  | CReturn => Some Return | CRefresh t o => Some (Refresh t o) | CPeek s now => Some (Peek s now)
  end.

(* the loop's part in a joint step (None: the loop does not take part) *)
Definition dpart (st : state) (cl : clabel) : option dlabel :=
  match cl with
  | CSubmit s => Some (DRecv s)
  | CSendLookup => DRecv <$> lookup_reg st      (* Run sends the content of its register *)
  | CTimer => Some DTimer | CLimit => Some DLimit
  | CCall res err => Some (DCall res err) | CHandle _ => Some DSend
  | CReturn | CRefresh _ _ | CPeek _ _ => None
  end.

Definition cstep (c : config) (sd : state * dstate) (cl : clabel) : option (state * dstate) :=
  let '(st, d) := sd in
  match match cproj cl with Some l => step c st l | None => Some st end,
        match dpart st cl with Some dl => dstep (c_limit c) d dl | None => Some d end with
  | Some st', Some d' => Some (st', d')
  | _, _ => None
  end.
