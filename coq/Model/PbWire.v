(* The protobuf wire format of pb/gostatsd.proto as google.golang.org/protobuf v1.34 writes and
   reads it (encoding/protowire/wire.go, internal/impl/{encode,decode,codec_gen,codec_map}.go):
   base-128 varints of uint64 (at most 10 bytes, the 10th at most 1), tags (number * 8 + wire
   type, number in 1 .. 2^29-1), fixed64 little-endian doubles, length-delimited strings /
   sub-messages / packed repeated doubles, map fields as repeated entry messages {1: key,
   2: value}.  int64 and enums are varints of the sign-extended 64-bit value (no zigzag).

   Two stages: [parse] turns bytes into a list of (field number, raw value); per message type a
   fold over that list interprets it with Go's semantics: unknown field numbers and fields with
   an unexpected wire type are skipped, singular fields are last-wins, repeated fields append,
   repeated doubles are accepted packed and unpacked, a map entry starts from ("", zero message),
   a repeated value field inside one entry merges, proto3 strings must be valid UTF-8.
   Encoding is Go's: fields in number order, proto3 defaults omitted (double: bit pattern 0
   only, so -0 is written), map entries always carry key and value, repeated doubles packed.

   Not modelled: the deprecated group wire types 3/4 (Go skips a well-formed unknown group; here
   a parse error) and Go's 2 GiB / recursion-depth limits.

   A message on the wire ([wmsg]) keeps map entries as lists in wire order — Go's marshaller is
   free to emit a map in any order —; [pb_of_wire] / [wire_of_pb] relate it to the Go structs of
   Model/Wire.v (a later entry with the same key replaces the earlier one). *)
From stdpp Require Import gmap.
From GS Require Import Base.Bytes Model.Wire.
Local Open Scope N_scope.

Inductive wval := VVarint (n : N) | VFixed64 (n : N) | VBytes (s : str) | VFixed32 (n : N).
Definition field : Type := N * wval.

(* ---------------------------------------------------------------------------------------- *)
(* primitives *)

(* protowire.AppendVarint on a uint64: k = number of bytes that may still follow this one *)
Fixpoint varint_enc (k : nat) (n : N) : str :=
  match k with
  | O => [n]
  | S k' => if n <? 128 then [n] else (n mod 128 + 128) :: varint_enc k' (n / 128)
  end.
Definition encode_varint (n : N) : str := varint_enc 9 (n mod 2 ^ 64).

(* protowire.ConsumeVarint *)
Fixpoint varint_dec (k : nat) (b : str) : option (N * str) :=
  match b with
  | [] => None
  | x :: r =>
      if x <? 128 then
        match k with
        | O => if x <? 2 then Some (x, r) else None
        | S _ => Some (x, r)
        end
      else
        match k with
        | O => None
        | S k' => match varint_dec k' r with
                  | Some (v, r') => Some (x - 128 + 128 * v, r')
                  | None => None
                  end
        end
  end.
Definition decode_varint (b : str) : option (N * str) := varint_dec 9 b.

(* little-endian fixed-width integers *)
Fixpoint le_enc (k : nat) (v : N) : str :=
  match k with O => [] | S k' => v mod 256 :: le_enc k' (v / 256) end.
Fixpoint le_dec (b : str) : N :=
  match b with [] => 0 | x :: r => x + 256 * le_dec r end.

Definition take_n (n : nat) (b : str) : option (str * str) :=
  if (length b <? n)%nat then None else Some (firstn n b, skipn n b).

Definition max_field_number : N := 536870911.

Definition wtype (v : wval) : N :=
  match v with VVarint _ => 0 | VFixed64 _ => 1 | VBytes _ => 2 | VFixed32 _ => 5 end.

Definition emit_field (f : field) : str :=
  encode_varint (fst f * 8 + wtype (snd f)) ++
  match snd f with
  | VVarint n => encode_varint n
  | VFixed64 n => le_enc 8 n
  | VBytes s => encode_varint (N.of_nat (length s)) ++ s
  | VFixed32 n => le_enc 4 n
  end.
Definition emit_fields (fs : list field) : str := concat (map emit_field fs).

(* one tag and its value (decode.go's loop head + protowire.ConsumeFieldValue) *)
Definition parse_field (b : str) : option (field * str) :=
  match decode_varint b with
  | None => None
  | Some (tag, r) =>
      let num := tag / 8 in
      if (num <? 1) || (max_field_number <? num) then None else
      match tag mod 8 with
      | 0 => match decode_varint r with Some (v, r') => Some ((num, VVarint v), r') | None => None end
      | 1 => match take_n 8 r with Some (x, r') => Some ((num, VFixed64 (le_dec x)), r') | None => None end
      | 2 => match decode_varint r with
             | Some (len, r') =>
                 if N.of_nat (length r') <? len then None
                 else Some ((num, VBytes (firstn (N.to_nat len) r')), skipn (N.to_nat len) r')
             | None => None
             end
      | 5 => match take_n 4 r with Some (x, r') => Some ((num, VFixed32 (le_dec x)), r') | None => None end
      | _ => None
      end
  end.

(* every field consumes at least one byte, so fuel = length of the input is never exhausted
   (Proofs/PbWire.v: parse_fuel_enough) *)
Fixpoint parse_fuel (fuel : nat) (b : str) : option (list field) :=
  match b with
  | [] => Some []
  | _ :: _ =>
      match fuel with
      | O => None
      | S fuel' =>
          match parse_field b with
          | None => None
          | Some (f, r) => match parse_fuel fuel' r with Some fs => Some (f :: fs) | None => None end
          end
      end
  end.
Definition parse (b : str) : option (list field) := parse_fuel (length b) b.

Fixpoint fold_fields {A} (step : A -> field -> option A) (acc : A) (fs : list field) : option A :=
  match fs with
  | [] => Some acc
  | f :: r => match step acc f with Some acc' => fold_fields step acc' r | None => None end
  end.

(* unicode/utf8.Valid *)
Definition cont_byte (b : N) : bool := (128 <=? b) && (b <? 192).
Fixpoint utf8_valid (s : str) : bool :=
  match s with
  | [] => true
  | b0 :: r =>
      if b0 <? 128 then utf8_valid r
      else if b0 <? 194 then false
      else if b0 <? 224 then
        match r with b1 :: r' => cont_byte b1 && utf8_valid r' | _ => false end
      else if b0 <? 240 then
        match r with
        | b1 :: b2 :: r' =>
            (if b0 =? 224 then (160 <=? b1) && (b1 <? 192)
             else if b0 =? 237 then (128 <=? b1) && (b1 <? 160) else cont_byte b1)
            && cont_byte b2 && utf8_valid r'
        | _ => false
        end
      else if b0 <? 245 then
        match r with
        | b1 :: b2 :: b3 :: r' =>
            (if b0 =? 240 then (144 <=? b1) && (b1 <? 192)
             else if b0 =? 244 then (128 <=? b1) && (b1 <? 144) else cont_byte b1)
            && cont_byte b2 && cont_byte b3 && utf8_valid r'
        | _ => false
        end
      else false
  end.

(* uint64 <-> int64 / int32 casts *)
Definition to_int64 (n : N) : Z :=
  let m := n mod 2 ^ 64 in if m <? 2 ^ 63 then Z.of_N m else (Z.of_N m - 2 ^ 64)%Z.
Definition to_int32 (n : N) : Z :=
  let m := n mod 2 ^ 32 in if m <? 2 ^ 31 then Z.of_N m else (Z.of_N m - 2 ^ 32)%Z.
Definition of_int64 (z : Z) : N := Z.to_N (z mod 2 ^ 64).

(* packed doubles *)
Fixpoint chunks8 (fuel : nat) (b : str) : option (list N) :=
  match b with
  | [] => Some []
  | _ :: _ =>
      match fuel with
      | O => None
      | S fuel' =>
          match take_n 8 b with
          | None => None
          | Some (x, r) => match chunks8 fuel' r with Some vs => Some (le_dec x :: vs) | None => None end
          end
      end
  end.
Definition unpack_doubles (b : str) : option (list N) := chunks8 (length b) b.
Definition pack_doubles (vs : list Z) : str := concat (map (fun v => le_enc 8 (Z.to_N v)) vs).

(* ---------------------------------------------------------------------------------------- *)
(* field lists Go's marshaller produces *)

Definition f_str (num : N) (s : str) : field := (num, VBytes s).
Definition f_opt_str (num : N) (s : str) : list field := match s with [] => [] | _ => [f_str num s] end.
Definition f_opt_int64 (num : N) (z : Z) : list field := if (z =? 0)%Z then [] else [(num, VVarint (of_int64 z))].
Definition f_opt_double (num : N) (bits : Z) : list field := if (bits =? 0)%Z then [] else [(num, VFixed64 (Z.to_N bits))].
Definition f_packed (num : N) (vs : list Z) : list field :=
  match vs with [] => [] | _ => [(num, VBytes (pack_doubles vs))] end.

Definition counter_fields (c : pb_counter) : list field :=
  map (f_str 1) (pc_tags c) ++ f_opt_str 2 (pc_host c) ++ f_opt_int64 3 (pc_val c).
Definition gauge_fields (g : pb_gauge) : list field :=
  map (f_str 1) (pg_tags g) ++ f_opt_str 2 (pg_host g) ++ f_opt_double 3 (pg_val g).
Definition set_fields (s : pb_set) : list field :=
  map (f_str 1) (ps_tags s) ++ f_opt_str 2 (ps_host s) ++ map (f_str 3) (ps_vals s).
Definition timer_fields (t : pb_timer) : list field :=
  map (f_str 1) (pt_tags t) ++ f_opt_str 2 (pt_host t) ++ f_opt_double 3 (pt_samp t) ++ f_packed 4 (pt_vals t).

Definition event_fields (e : pb_event) : list field :=
  f_opt_str 1 (pe_title e) ++ f_opt_str 2 (pe_text e) ++ f_opt_int64 3 (pe_date e)
  ++ f_opt_str 4 (pe_hostname e) ++ f_opt_str 5 (pe_aggkey e) ++ f_opt_str 6 (pe_srctype e)
  ++ map (f_str 7) (pe_tags e) ++ f_opt_str 8 (pe_sourceip e)
  ++ f_opt_int64 9 (pe_priority e) ++ f_opt_int64 10 (pe_type e).

(* map<string, V> as field [num]: appendMapItem always writes key and value *)
Definition entry_fields {V} (vfields : V -> list field) (e : str * V) : list field :=
  [f_str 1 (fst e); (2, VBytes (emit_fields (vfields (snd e))))].
Definition map_fields {V} (vfields : V -> list field) (num : N) (l : list (str * V)) : list field :=
  map (fun e => (num, VBytes (emit_fields (entry_fields vfields e)))) l.

(* XTagV2 = { map<string, RawXV2> TagMap = 1 } *)
Definition tagmap_fields {V} (vfields : V -> list field) (l : list (str * V)) : list field :=
  map_fields vfields 1 l.

Record wmsg := MkW {
  w_counters : list (str * list (str * pb_counter));
  w_gauges   : list (str * list (str * pb_gauge));
  w_sets     : list (str * list (str * pb_set));
  w_timers   : list (str * list (str * pb_timer))
}.

Definition msg_fields (w : wmsg) : list field :=
  map_fields (tagmap_fields counter_fields) 1 (w_counters w)
  ++ map_fields (tagmap_fields gauge_fields) 2 (w_gauges w)
  ++ map_fields (tagmap_fields set_fields) 3 (w_sets w)
  ++ map_fields (tagmap_fields timer_fields) 4 (w_timers w).

Definition encode_msg (w : wmsg) : str := emit_fields (msg_fields w).
Definition encode_event (e : pb_event) : str := emit_fields (event_fields e).

(* ---------------------------------------------------------------------------------------- *)
(* interpretation of parsed fields (merge into an accumulator, as unmarshalPointer does) *)

Definition counter_step (c : pb_counter) (f : field) : option pb_counter :=
  match f with
  | (1, VBytes s) => if utf8_valid s then Some (MkPbC (pc_tags c ++ [s]) (pc_host c) (pc_val c)) else None
  | (2, VBytes s) => if utf8_valid s then Some (MkPbC (pc_tags c) s (pc_val c)) else None
  | (3, VVarint n) => Some (MkPbC (pc_tags c) (pc_host c) (to_int64 n))
  | _ => Some c
  end.
Definition gauge_step (g : pb_gauge) (f : field) : option pb_gauge :=
  match f with
  | (1, VBytes s) => if utf8_valid s then Some (MkPbG (pg_tags g ++ [s]) (pg_host g) (pg_val g)) else None
  | (2, VBytes s) => if utf8_valid s then Some (MkPbG (pg_tags g) s (pg_val g)) else None
  | (3, VFixed64 n) => Some (MkPbG (pg_tags g) (pg_host g) (Z.of_N n))
  | _ => Some g
  end.
Definition set_step (x : pb_set) (f : field) : option pb_set :=
  match f with
  | (1, VBytes s) => if utf8_valid s then Some (MkPbS (ps_tags x ++ [s]) (ps_host x) (ps_vals x)) else None
  | (2, VBytes s) => if utf8_valid s then Some (MkPbS (ps_tags x) s (ps_vals x)) else None
  | (3, VBytes s) => if utf8_valid s then Some (MkPbS (ps_tags x) (ps_host x) (ps_vals x ++ [s])) else None
  | _ => Some x
  end.
Definition timer_step (t : pb_timer) (f : field) : option pb_timer :=
  match f with
  | (1, VBytes s) => if utf8_valid s then Some (MkPbT (pt_tags t ++ [s]) (pt_host t) (pt_samp t) (pt_vals t)) else None
  | (2, VBytes s) => if utf8_valid s then Some (MkPbT (pt_tags t) s (pt_samp t) (pt_vals t)) else None
  | (3, VFixed64 n) => Some (MkPbT (pt_tags t) (pt_host t) (Z.of_N n) (pt_vals t))
  | (4, VBytes p) => match unpack_doubles p with
                     | Some vs => Some (MkPbT (pt_tags t) (pt_host t) (pt_samp t) (pt_vals t ++ map Z.of_N vs))
                     | None => None
                     end
  | (4, VFixed64 n) => Some (MkPbT (pt_tags t) (pt_host t) (pt_samp t) (pt_vals t ++ [Z.of_N n]))
  | _ => Some t
  end.

Definition zero_counter : pb_counter := MkPbC [] [] 0.
Definition zero_gauge : pb_gauge := MkPbG [] [] 0.
Definition zero_set : pb_set := MkPbS [] [] [].
Definition zero_timer : pb_timer := MkPbT [] [] 0 [].
Definition zero_event : pb_event := MkPbE [] [] 0 [] [] [] [] [] 0 0.

Definition event_step (e : pb_event) (f : field) : option pb_event :=
  let upd_str (k : str -> pb_event) (s : str) := if utf8_valid s then Some (k s) else None in
  match f with
  | (1, VBytes s) => upd_str (fun s => MkPbE s (pe_text e) (pe_date e) (pe_hostname e) (pe_aggkey e) (pe_srctype e) (pe_tags e) (pe_sourceip e) (pe_priority e) (pe_type e)) s
  | (2, VBytes s) => upd_str (fun s => MkPbE (pe_title e) s (pe_date e) (pe_hostname e) (pe_aggkey e) (pe_srctype e) (pe_tags e) (pe_sourceip e) (pe_priority e) (pe_type e)) s
  | (3, VVarint n) => Some (MkPbE (pe_title e) (pe_text e) (to_int64 n) (pe_hostname e) (pe_aggkey e) (pe_srctype e) (pe_tags e) (pe_sourceip e) (pe_priority e) (pe_type e))
  | (4, VBytes s) => upd_str (fun s => MkPbE (pe_title e) (pe_text e) (pe_date e) s (pe_aggkey e) (pe_srctype e) (pe_tags e) (pe_sourceip e) (pe_priority e) (pe_type e)) s
  | (5, VBytes s) => upd_str (fun s => MkPbE (pe_title e) (pe_text e) (pe_date e) (pe_hostname e) s (pe_srctype e) (pe_tags e) (pe_sourceip e) (pe_priority e) (pe_type e)) s
  | (6, VBytes s) => upd_str (fun s => MkPbE (pe_title e) (pe_text e) (pe_date e) (pe_hostname e) (pe_aggkey e) s (pe_tags e) (pe_sourceip e) (pe_priority e) (pe_type e)) s
  | (7, VBytes s) => upd_str (fun s => MkPbE (pe_title e) (pe_text e) (pe_date e) (pe_hostname e) (pe_aggkey e) (pe_srctype e) (pe_tags e ++ [s]) (pe_sourceip e) (pe_priority e) (pe_type e)) s
  | (8, VBytes s) => upd_str (fun s => MkPbE (pe_title e) (pe_text e) (pe_date e) (pe_hostname e) (pe_aggkey e) (pe_srctype e) (pe_tags e) s (pe_priority e) (pe_type e)) s
  | (9, VVarint n) => Some (MkPbE (pe_title e) (pe_text e) (pe_date e) (pe_hostname e) (pe_aggkey e) (pe_srctype e) (pe_tags e) (pe_sourceip e) (to_int32 n) (pe_type e))
  | (10, VVarint n) => Some (MkPbE (pe_title e) (pe_text e) (pe_date e) (pe_hostname e) (pe_aggkey e) (pe_srctype e) (pe_tags e) (pe_sourceip e) (pe_priority e) (to_int32 n))
  | _ => Some e
  end.

(* consumeMapOfMessage: one entry, then append it to the entries seen so far *)
Definition entry_step {V} (vstep : V -> field -> option V) (st : str * V) (f : field) : option (str * V) :=
  match f with
  | (1, VBytes s) => if utf8_valid s then Some (s, snd st) else None
  | (2, VBytes b) =>
      match parse b with
      | Some fs => match fold_fields vstep (snd st) fs with Some v => Some (fst st, v) | None => None end
      | None => None
      end
  | _ => Some st
  end.
Definition map_entry {V} (vzero : V) (vstep : V -> field -> option V) (acc : list (str * V)) (payload : str)
  : option (list (str * V)) :=
  match parse payload with
  | Some fs => match fold_fields (entry_step vstep) ([], vzero) fs with
               | Some e => Some (acc ++ [e])
               | None => None
               end
  | None => None
  end.

Definition tagmap_step {V} (vzero : V) (vstep : V -> field -> option V) (acc : list (str * V)) (f : field)
  : option (list (str * V)) :=
  match f with
  | (1, VBytes p) => map_entry vzero vstep acc p
  | _ => Some acc
  end.

Definition msg_step (w : wmsg) (f : field) : option wmsg :=
  match f with
  | (1, VBytes p) => match map_entry [] (tagmap_step zero_counter counter_step) (w_counters w) p with
                     | Some l => Some (MkW l (w_gauges w) (w_sets w) (w_timers w)) | None => None end
  | (2, VBytes p) => match map_entry [] (tagmap_step zero_gauge gauge_step) (w_gauges w) p with
                     | Some l => Some (MkW (w_counters w) l (w_sets w) (w_timers w)) | None => None end
  | (3, VBytes p) => match map_entry [] (tagmap_step zero_set set_step) (w_sets w) p with
                     | Some l => Some (MkW (w_counters w) (w_gauges w) l (w_timers w)) | None => None end
  | (4, VBytes p) => match map_entry [] (tagmap_step zero_timer timer_step) (w_timers w) p with
                     | Some l => Some (MkW (w_counters w) (w_gauges w) (w_sets w) l) | None => None end
  | _ => Some w
  end.

Definition decode_msg (b : str) : option wmsg :=
  match parse b with Some fs => fold_fields msg_step (MkW [] [] [] []) fs | None => None end.
Definition decode_event (b : str) : option pb_event :=
  match parse b with Some fs => fold_fields event_step zero_event fs | None => None end.

(* ---------------------------------------------------------------------------------------- *)
(* well-formed messages: values within their Go types, strings valid UTF-8, every
   length-delimited payload shorter than 2^64 bytes (Go: every slice is) *)

Definition len_ok (s : str) : bool := N.of_nat (length s) <? 2 ^ 64.
Definition str_ok (s : str) : bool := utf8_valid s && len_ok s.
Definition int64_ok (z : Z) : bool := ((- 2 ^ 63 <=? z) && (z <? 2 ^ 63))%Z.
Definition int32_ok (z : Z) : bool := ((- 2 ^ 31 <=? z) && (z <? 2 ^ 31))%Z.
Definition f64_ok (z : Z) : bool := ((0 <=? z) && (z <? 2 ^ 64))%Z.

Definition counter_ok (c : pb_counter) : bool :=
  forallb str_ok (pc_tags c) && str_ok (pc_host c) && int64_ok (pc_val c).
Definition gauge_ok (g : pb_gauge) : bool :=
  forallb str_ok (pg_tags g) && str_ok (pg_host g) && f64_ok (pg_val g).
Definition set_ok (s : pb_set) : bool :=
  forallb str_ok (ps_tags s) && str_ok (ps_host s) && forallb str_ok (ps_vals s).
Definition timer_ok (t : pb_timer) : bool :=
  forallb str_ok (pt_tags t) && str_ok (pt_host t) && f64_ok (pt_samp t) && forallb f64_ok (pt_vals t)
  && len_ok (pack_doubles (pt_vals t)).
Definition event_ok (e : pb_event) : bool :=
  str_ok (pe_title e) && str_ok (pe_text e) && int64_ok (pe_date e) && str_ok (pe_hostname e)
  && str_ok (pe_aggkey e) && str_ok (pe_srctype e) && forallb str_ok (pe_tags e) && str_ok (pe_sourceip e)
  && int32_ok (pe_priority e) && int32_ok (pe_type e).

Definition entry_ok {V} (vok : V -> bool) (vfields : V -> list field) (e : str * V) : bool :=
  str_ok (fst e) && vok (snd e) && len_ok (emit_fields (vfields (snd e)))
  && len_ok (emit_fields (entry_fields vfields e)).
Definition entries_ok {V} (vok : V -> bool) (vfields : V -> list field) (l : list (str * V)) : bool :=
  forallb (entry_ok vok vfields) l.

Definition msg_ok (w : wmsg) : bool :=
  entries_ok (entries_ok counter_ok counter_fields) (tagmap_fields counter_fields) (w_counters w)
  && entries_ok (entries_ok gauge_ok gauge_fields) (tagmap_fields gauge_fields) (w_gauges w)
  && entries_ok (entries_ok set_ok set_fields) (tagmap_fields set_fields) (w_sets w)
  && entries_ok (entries_ok timer_ok timer_fields) (tagmap_fields timer_fields) (w_timers w).

(* ---------------------------------------------------------------------------------------- *)
(* wire message <-> Go structs (Model/Wire.v) *)

Definition map_of_entries_lw {V} (l : list (str * V)) : gmap str V :=
  fold_left (fun m e => <[fst e := snd e]> m) l ∅.
Definition nested_of_wire {V} (l : list (str * list (str * V))) : gmap str (gmap str V) :=
  map_of_entries_lw (map (fun e => (fst e, map_of_entries_lw (snd e))) l).
Definition wire_of_nested {V} (m : gmap str (gmap str V)) : list (str * list (str * V)) :=
  map (fun e => (fst e, map_to_list (snd e))) (map_to_list m).

Definition pb_of_wire (w : wmsg) : pbmsg :=
  MkPb (nested_of_wire (w_counters w)) (nested_of_wire (w_gauges w))
       (nested_of_wire (w_sets w)) (nested_of_wire (w_timers w)).
Definition wire_of_pb (p : pbmsg) : wmsg :=
  MkW (wire_of_nested (pb_counters p)) (wire_of_nested (pb_gauges p))
      (wire_of_nested (pb_sets p)) (wire_of_nested (pb_timers p)).

(* proto.Marshal / proto.Unmarshal on the Go structs: Marshal fails on a string that is not
   valid UTF-8 (known finding D8) — and on nothing else a Go value can hold *)
Definition pb_marshal (p : pbmsg) : option str :=
  let w := wire_of_pb p in if msg_ok w then Some (encode_msg w) else None.
Definition pb_unmarshal (b : str) : option pbmsg :=
  match decode_msg b with Some w => Some (pb_of_wire w) | None => None end.
Definition event_marshal (e : pb_event) : option str :=
  if event_ok e then Some (encode_event e) else None.
Definition event_unmarshal (b : str) : option pb_event := decode_event b.
