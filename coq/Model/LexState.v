(* The Lexer STRUCT of internal/lexer/lexer.go as state that survives from line to line, and the
   pooled *Metric it fills in.

   One Lexer value is used for every line a DatagramParser ever sees, and the Metric objects come
   from a sync.Pool to which MetricMap.Receive returns them (Metric.Done) with whatever the
   parser and the map left in their fields.  [Lexer.lex] is a function of the line alone; this
   file models what the Go code does with its fields so that "the outcome depends on the line
   only" becomes a theorem (Proofs/LexState.v) instead of an assumption of the stateless model.

   Fields of the struct (all of them): input len start pos eventTitleLen eventTextLen m e tags
   namespace err sampling (+ MetricPool, the environment, see [pool_get]).

   Lexer.reset assigns exactly:   start = 0, pos = 0, m = nil, e = nil, tags = nil, err = nil
   and deliberately NOT:          input, len, namespace, sampling   (assigned by Run right after)
                                  eventTitleLen, eventTextLen       (assigned by lexUint32 before
                                                                     lexEventBody reads them).
   [reset_gen] takes a variant so that dropping any single assignment can be refuted.

   The byte scanning inside one state function is the corresponding pure function of
   Model/Lexer.v applied to the unread part of l.input ([unread]); every value that the Go code
   carries from one state function to a later one THROUGH A FIELD is written to and read from
   the record here: pos/start (slices l.input[l.start:l.pos-1] in lexKey and lexValue),
   eventTitleLen/eventTextLen, m and its fields (StringValue is parsed from the field at the end
   of Run, Value of a set is whatever the pool delivered), e, tags (appended to), sampling, err.
   A nil dereference or an out-of-range slice is [Crash].  After a rejected line the record holds
   the fields as far as the model tracks them (the buffer contents after a failed lexKeySep and
   partial attribute results are not tracked); the theorems quantify over ALL prior states, so
   nothing depends on that. *)
From GS Require Import Base.Bytes Model.Lexer.
Local Open Scope N_scope.

(* gostatsd.Metric without DoneFunc; Type 0 (no type) is None *)
Record pmetric := PM {
  pm_name : str; pm_value : Z; pm_rate : Z; pm_tags : list str; pm_tagskey : str;
  pm_strval : str; pm_src : str; pm_ts : Z; pm_type : option mtype
}.

(* Metric.Reset: Name = "", Value = 0, Rate = 1, Tags = Tags[:0], TagsKey = "", StringValue = "",
   Source = "", Timestamp = 0, Type = 0 *)
Definition metric_reset (m : pmetric) : pmetric :=
  {| pm_name := []; pm_value := 0; pm_rate := f64_one; pm_tags := firstn 0 (pm_tags m);
     pm_tagskey := []; pm_strval := []; pm_src := []; pm_ts := 0; pm_type := None |}.

(* MetricPool.Get.  [Some stale] = the pool hands back a Metric that was Put earlier, with
   arbitrary field values (DoneFunc != nil -> Reset); [None] = sync.Pool.New: &Metric{}, then
   DoneFunc, Tags = make(Tags, 0, n), Rate = 1.  [do_reset = false] is the variant without the
   Reset call (refuted). *)
Definition pool_get_gen (do_reset : bool) (p : option pmetric) : pmetric :=
  match p with
  | Some stale => if do_reset then metric_reset stale else stale
  | None => {| pm_name := []; pm_value := 0; pm_rate := f64_one; pm_tags := []; pm_tagskey := [];
               pm_strval := []; pm_src := []; pm_ts := 0; pm_type := None |}
  end.

Record lexstate := LS {
  ls_input : str; ls_len : nat; ls_start : nat; ls_pos : nat;
  ls_etl : N; ls_exl : N;
  ls_m : option pmetric; ls_e : option event;
  ls_tags : list str; ls_ns : str; ls_err : option reject; ls_sampling : Z
}.

(* the zero value of the struct (a new Lexer) *)
Definition zero_state : lexstate := LS [] 0 0 0 0 0 None None [] [] None 0.

Definition set_input (s : lexstate) (i : str) (n : nat) (p : nat) :=
  LS i n (ls_start s) p (ls_etl s) (ls_exl s) (ls_m s) (ls_e s) (ls_tags s) (ls_ns s) (ls_err s) (ls_sampling s).
Definition set_start (s : lexstate) (v : nat) :=
  LS (ls_input s) (ls_len s) v (ls_pos s) (ls_etl s) (ls_exl s) (ls_m s) (ls_e s) (ls_tags s) (ls_ns s) (ls_err s) (ls_sampling s).
Definition set_pos (s : lexstate) (v : nat) :=
  LS (ls_input s) (ls_len s) (ls_start s) v (ls_etl s) (ls_exl s) (ls_m s) (ls_e s) (ls_tags s) (ls_ns s) (ls_err s) (ls_sampling s).
Definition set_etl (s : lexstate) (v : N) :=
  LS (ls_input s) (ls_len s) (ls_start s) (ls_pos s) v (ls_exl s) (ls_m s) (ls_e s) (ls_tags s) (ls_ns s) (ls_err s) (ls_sampling s).
Definition set_exl (s : lexstate) (v : N) :=
  LS (ls_input s) (ls_len s) (ls_start s) (ls_pos s) (ls_etl s) v (ls_m s) (ls_e s) (ls_tags s) (ls_ns s) (ls_err s) (ls_sampling s).
Definition set_m (s : lexstate) (v : option pmetric) :=
  LS (ls_input s) (ls_len s) (ls_start s) (ls_pos s) (ls_etl s) (ls_exl s) v (ls_e s) (ls_tags s) (ls_ns s) (ls_err s) (ls_sampling s).
Definition set_e (s : lexstate) (v : option event) :=
  LS (ls_input s) (ls_len s) (ls_start s) (ls_pos s) (ls_etl s) (ls_exl s) (ls_m s) v (ls_tags s) (ls_ns s) (ls_err s) (ls_sampling s).
Definition set_tags (s : lexstate) (v : list str) :=
  LS (ls_input s) (ls_len s) (ls_start s) (ls_pos s) (ls_etl s) (ls_exl s) (ls_m s) (ls_e s) v (ls_ns s) (ls_err s) (ls_sampling s).
Definition set_ns (s : lexstate) (v : str) :=
  LS (ls_input s) (ls_len s) (ls_start s) (ls_pos s) (ls_etl s) (ls_exl s) (ls_m s) (ls_e s) (ls_tags s) v (ls_err s) (ls_sampling s).
Definition set_err (s : lexstate) (v : option reject) :=
  LS (ls_input s) (ls_len s) (ls_start s) (ls_pos s) (ls_etl s) (ls_exl s) (ls_m s) (ls_e s) (ls_tags s) (ls_ns s) v (ls_sampling s).
Definition set_sampling (s : lexstate) (v : Z) :=
  LS (ls_input s) (ls_len s) (ls_start s) (ls_pos s) (ls_etl s) (ls_exl s) (ls_m s) (ls_e s) (ls_tags s) (ls_ns s) (ls_err s) v.

(* ---------------------------------------------------------------------------------------- *)
(* Lexer.reset, with the variants that drop one assignment *)
Inductive reset_variant :=
| ResetCurrent | ResetNoStart | ResetNoPos | ResetNoM | ResetNoE | ResetNoTags | ResetNoErr.

Definition variant_eqb (a b : reset_variant) : bool :=
  match a, b with
  | ResetCurrent, ResetCurrent | ResetNoStart, ResetNoStart | ResetNoPos, ResetNoPos
  | ResetNoM, ResetNoM | ResetNoE, ResetNoE | ResetNoTags, ResetNoTags | ResetNoErr, ResetNoErr => true
  | _, _ => false
  end.

Definition reset_gen (v : reset_variant) (s0 : lexstate) : lexstate :=
  let s1 := if variant_eqb v ResetNoStart then s0 else set_start s0 0 in       (* l.start = 0 *)
  let s2 := if variant_eqb v ResetNoPos then s1 else set_pos s1 0 in           (* l.pos = 0 *)
  let s3 := if variant_eqb v ResetNoM then s2 else set_m s2 None in            (* l.m = nil *)
  let s4 := if variant_eqb v ResetNoE then s3 else set_e s3 None in            (* l.e = nil *)
  let s5 := if variant_eqb v ResetNoTags then s4 else set_tags s4 [] in        (* l.tags = nil *)
  if variant_eqb v ResetNoErr then s5 else set_err s5 None.                    (* l.err = nil *)

(* ---------------------------------------------------------------------------------------- *)
(* the state functions *)

(* l.input[l.pos:l.len]: what next() will still deliver *)
Definition unread (s : lexstate) : str := skipn (ls_pos s) (firstn (ls_len s) (ls_input s)).
(* the position after the scan has consumed everything in front of the rest [r] *)
Definition advance (s : lexstate) (r : str) : lexstate :=
  set_pos s (ls_pos s + (length (unread s) - length r)).
(* l.input[lo:hi] *)
Definition input_slice (s : lexstate) (lo hi : nat) : option str :=
  slice_checked (ls_input s) (N.of_nat lo) (N.of_nat hi).

Inductive mres := Done (s : lexstate) | Crash.
Definition fail (s : lexstate) (e : reject) : mres := Done (set_err s (Some e)).

Definition upd_m (s : lexstate) (f : pmetric -> pmetric) : option lexstate :=
  match ls_m s with Some m => Some (set_m s (Some (f m))) | None => None end.   (* nil dereference *)
Definition upd_e (s : lexstate) (f : event -> event) : option lexstate :=
  match ls_e s with Some e => Some (set_e s (Some (f e))) | None => None end.

Definition m_set_name (n : str) (m : pmetric) :=
  PM n (pm_value m) (pm_rate m) (pm_tags m) (pm_tagskey m) (pm_strval m) (pm_src m) (pm_ts m) (pm_type m).
Definition m_set_strval (v : str) (m : pmetric) :=
  PM (pm_name m) (pm_value m) (pm_rate m) (pm_tags m) (pm_tagskey m) v (pm_src m) (pm_ts m) (pm_type m).
Definition m_set_type (t : mtype) (m : pmetric) :=
  PM (pm_name m) (pm_value m) (pm_rate m) (pm_tags m) (pm_tagskey m) (pm_strval m) (pm_src m) (pm_ts m) (Some t).
Definition m_set_rate (r : Z) (m : pmetric) :=
  PM (pm_name m) (pm_value m) r (pm_tags m) (pm_tagskey m) (pm_strval m) (pm_src m) (pm_ts m) (pm_type m).
Definition m_set_value (v : Z) (m : pmetric) :=
  PM (pm_name m) v (pm_rate m) (pm_tags m) (pm_tagskey m) (pm_strval m) (pm_src m) (pm_ts m) (pm_type m).
Definition m_set_tags (t : list str) (m : pmetric) :=
  PM (pm_name m) (pm_value m) (pm_rate m) t (pm_tagskey m) (pm_strval m) (pm_src m) (pm_ts m) (pm_type m).
Definition e_set_title_text (title text : str) (e : event) : event :=
  {| e_title := title; e_text := text; e_date := e_date e; e_host := e_host e; e_key := e_key e;
     e_pri := e_pri e; e_stype := e_stype e; e_alert := e_alert e; e_tags := e_tags e |}.
(* new(gostatsd.Event) *)
Definition zero_event : event := empty_event [] [].

(* what Run returns: (l.m, l.e, err), or a run-time panic *)
Inductive run_result :=
| RR (m : option pmetric) (e : option event) (err : option reject)
| RPanic.

Section WithOracle.
  Variable pf : str -> pfres.

  (* lexMetricAttributes / lexMetricAttribute: reads and writes l.sampling and l.tags *)
  Definition lexMetricAttributes (s : lexstate) : mres :=
    match lex_mattrs pf MAttrs (ls_sampling s) (rev (ls_tags s)) (unread s) with
    | Ok (rate, tags) => Done (set_tags (set_sampling (advance s []) rate) (rev tags))
    | Rej e => fail s e
    | Pan => Crash
    end.

  (* lexType: l.m.Type = ...; l.start = l.pos *)
  Definition lexType (s : lexstate) : mres :=
    match lex_type (unread s) with
    | Ok (ty, r) =>
        let s1 := advance s r in
        match upd_m s1 (m_set_type ty) with
        | Some s2 => lexMetricAttributes (set_start s2 (ls_pos s2))
        | None => Crash
        end
    | Rej e => fail s e
    | Pan => Crash
    end.

  (* lexValue: l.m.StringValue = string(l.input[l.start : l.pos-1]); l.start = l.pos *)
  Definition lexValue (s : lexstate) : mres :=
    match input_slice s (ls_start s) (ls_pos s - 1) with
    | None => Crash
    | Some v =>
        match upd_m s (m_set_strval v) with
        | Some s1 => lexType (set_start s1 (ls_pos s1))
        | None => Crash
        end
    end.

  (* lexValueSep *)
  Definition lexValueSep (s : lexstate) : mres :=
    match lex_value_sep (unread s) with
    | Ok (_, r) => lexValue (advance s r)
    | Rej e => fail s e
    | Pan => Crash
    end.

  (* lexKey: if l.start == l.pos-1 -> errEmptyKey; l.m.Name = string(l.input[l.start:l.pos-1]),
     namespace prefix; l.start = l.pos *)
  Definition lexKey (s : lexstate) : mres :=
    if Nat.eqb (ls_start s) (ls_pos s - 1) then fail s EEmptyKey
    else match input_slice s (ls_start s) (ls_pos s - 1) with
         | None => Crash
         | Some k =>
             match upd_m s (m_set_name (with_ns (ls_ns s) k)) with
             | Some s1 => lexValueSep (set_start s1 (ls_pos s1))
             | None => Crash
             end
         end.

  (* lexKeySep: scans from l.pos and rewrites l.input in place (Model/LexMem.v, C05_frame): the
     bytes in front of l.pos stay, then the normalised key, ':' and the untouched rest; l.len
     shrinks by the number of deleted bytes; l.pos ends behind the ':' *)
  Definition lexKeySep (s : lexstate) : mres :=
    match lex_key_sep (unread s) with
    | Ok (k, r) =>
        let pre := firstn (ls_pos s) (firstn (ls_len s) (ls_input s)) in
        let i := pre ++ k ++ c_colon :: r in
        lexKey (set_input s i (length i) (ls_pos s + length k + 1))
    | Rej e => fail s e
    | Pan => Crash
    end.

  (* lexEventAttributes / lexEventAttribute: writes fields of l.e, appends to l.tags *)
  Definition lexEventAttributes (s : lexstate) : mres :=
    match ls_e s with
    | None => Crash
    | Some e =>
        match lex_eattrs EAttrs e (rev (ls_tags s)) (unread s) with
        | Ok (e', tags) => Done (set_tags (set_e (advance s []) (Some e')) (rev tags))
        | Rej x => fail s x
        | Pan => Crash
        end
    end.

  (* lexEventBody: reads l.eventTitleLen / l.eventTextLen *)
  Definition lexEventBody (s : lexstate) : mres :=
    match event_body false (ls_etl s) (ls_exl s) (unread s) with
    | Ok (title, text, r) =>
        match upd_e (advance s r) (e_set_title_text title text) with
        | Some s1 => lexEventAttributes s1
        | None => Crash
        end
    | Rej x => fail s x
    | Pan => Crash
    end.

  Definition lexAssert (c : N) (next : lexstate -> mres) (s : lexstate) : mres :=
    match lex_assert c (unread s) with
    | Ok r => next (advance s r)
    | Rej x => fail s x
    | Pan => Crash
    end.

  (* lexUint32(&target, next) *)
  Definition lexUint32 (store : lexstate -> N -> lexstate) (next : lexstate -> mres) (s : lexstate) : mres :=
    match lex_uint32 (unread s) with
    | Ok (v, r) => next (store (advance s r) v)
    | Rej x => fail s x
    | Pan => Crash
    end.

  (* lexDatadogSpecial *)
  Definition lexDatadogSpecial (s : lexstate) : mres :=
    match unread s with
    | [] => fail s EInvalidType
    | b :: r =>
        let s1 := advance s r in
        if b =? c_e then
          lexAssert c_lbrace
            (lexUint32 set_etl
               (lexAssert c_comma
                  (lexUint32 set_exl
                     (lexAssert c_rbrace (lexAssert c_colon lexEventBody)))))
            (set_e s1 (Some zero_event))                       (* l.e = new(gostatsd.Event) *)
        else fail s1 EInvalidType
    end.

  (* lexSpecial; [get] is MetricPool.Get *)
  Definition lexSpecial (get : pmetric) (s : lexstate) : mres :=
    match unread s with
    | [] => fail s EInvalidType                                 (* next() = eof, pos unchanged *)
    | b :: r =>
        if b =? c_us then lexDatadogSpecial (advance s r)
        else if b =? c_nul then fail (advance s r) EInvalidType
        else (* l.pos--; l.m = l.MetricPool.Get(); l.tags = l.m.Tags *)
          lexKeySep (set_tags (set_m s (Some get)) (pm_tags get))
    end.

  (* the end of Run *)
  Definition run_end (s : lexstate) : lexstate * run_result :=
    match ls_err s with
    | Some x => (s, RR None None (Some x))
    | None =>
        match ls_m s with
        | Some m =>
            if negb (f64_finite_pos (ls_sampling s)) then (s, RR None None (Some EInvalidRate))
            else
              let m1 := m_set_rate (ls_sampling s) m in
              let is_set := match pm_type m1 with Some MSet => true | _ => false end in
              if is_set then
                let m2 := m_set_tags (ls_tags s) m1 in
                (set_m s (Some m2), RR (Some m2) (ls_e s) None)
              else
                match pf (pm_strval m1) with
                | PFErr => (set_m s (Some m1), RR None None (Some EParseFloat))
                | PFMiss => (set_m s (Some m1), RR None None (Some EOracleMiss))
                | PFVal v =>
                    if f64_is_nan v then (set_m s (Some m1), RR None None (Some ENaN))
                    else
                      let m2 := m_set_tags (ls_tags s) (m_set_strval [] (m_set_value v m1)) in
                      (set_m s (Some m2), RR (Some m2) (ls_e s) None)
                end
        | None =>
            match ls_e s with
            | Some e => let e' := with_tags e (ls_tags s) in (set_e s (Some e'), RR None (Some e') None)
            | None => (s, RPanic)                                (* l.e.Tags on a nil event *)
            end
        end
    end.

  (* Lexer.Run(input, namespace) on the lexer state [s]; [pool] is what MetricPool.Get would
     hand out now *)
  Definition run_line_gen (v : reset_variant) (pool_resets : bool)
             (ns : str) (pool : option pmetric) (s : lexstate) (line : str) : lexstate * run_result :=
    let s1 := reset_gen v s in
    let s2 := set_sampling (set_ns (set_input s1 line (length line) (ls_pos s1)) ns) f64_one in
    match lexSpecial (pool_get_gen pool_resets pool) s2 with
    | Done s3 => run_end s3
    | Crash => (s2, RPanic)
    end.

  Definition run_line := run_line_gen ResetCurrent true.

  (* one lexer over a sequence of (namespace, pool content, line) *)
  Fixpoint run_lines_gen (v : reset_variant) (pool_resets : bool) (s : lexstate)
           (steps : list (str * option pmetric * str)) : list run_result :=
    match steps with
    | [] => []
    | (ns, pool, line) :: r =>
        let '(s', res) := run_line_gen v pool_resets ns pool s line in
        res :: run_lines_gen v pool_resets s' r
    end.
  Definition run_lines := run_lines_gen ResetCurrent true.
End WithOracle.

(* the stateless lexer's outcome as a Run result: a metric is returned in a Metric whose other
   fields are as Metric.Reset leaves them, and never together with an event *)
Definition clean_metric (m : metric) : pmetric :=
  {| pm_name := m_name m; pm_value := m_value m; pm_rate := m_rate m; pm_tags := m_tags m;
     pm_tagskey := []; pm_strval := m_strval m; pm_src := []; pm_ts := 0; pm_type := Some (m_type m) |}.
(* what handleDatagram looks at: the error first, then `if metric != nil` -- the event that may come
   along with a metric is never inspected *)
Definition parser_view (r : run_result) : run_result :=
  match r with
  | RR (Some m) _ None => RR (Some m) None None
  | x => x
  end.
Definition raw_of (o : outcome) : run_result :=
  match o with
  | OMetric m => RR (Some (clean_metric m)) None None
  | OEvent e => RR None (Some e) None
  | OReject x => RR None None (Some x)
  | OPanic => RPanic
  end.
