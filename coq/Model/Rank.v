(* The percentile rank of MetricAggregator.Flush (pkg/statsd/aggregator.go):

       numInThreshold = int(round(math.Abs(pct) / 100 * count))     round v = math.Floor(v + 0.5)

   with count = float64(n).  Its float64 ROUNDING decides the indices Flush uses, so it is
   computed with Coq's primitive binary64 floats (DESIGN 3.1), one definition per Go operation:
   [vm_compute] evaluates them with the hardware's IEEE-754 operations, bit-exact with Go on
   amd64 (Go does not fuse a*b+c there).  Property C04 (and C08 through Model/Stats.go_rank, the
   same term: Proofs/Rank.v proves [rank = go_rank] by reflexivity). *)
From Coq Require Import ZArith Floats Uint63.
From GS Require Import Base.GoFloat.
Local Open Scope Z_scope.

(* float64(z) for an int z with 0 <= z < 2^63 (exact below 2^53) *)
Definition f64_of_int (z : Z) : float := of_uint63 (Uint63.of_Z z).

(* math.Abs(pct) / 100, pct = float64(p) for the integer percentile p: |float64(p)| = float64(|p|) *)
Definition rank_fraction (p : Z) : float := (f64_of_int (Z.abs p) / f64_of_int 100)%float.
(* ... * count *)
Definition rank_scaled (p n : Z) : float := (rank_fraction p * f64_of_int n)%float.
(* v + 0.5 inside round *)
Definition rank_shifted (p n : Z) : float := (rank_scaled p n + half)%float.
(* int(math.Floor(...)) *)
Definition rank (p n : Z) : Z := floor_int (rank_shifted p n).

(* the same number in exact arithmetic, for reference: floor(|p| * n / 100 + 1/2) *)
Definition rank_exact (p n : Z) : Z := (2 * Z.abs p * n + 100) / 200.

(* the same for a threshold that is ANY float64 (the configuration accepts non-integers, e.g. 99.9) *)
Definition rank_float (pct : float) (n : Z) : Z :=
  floor_int (abs pct / f64_of_int 100 * f64_of_int n + half)%float.
