(* Memory-level model of the one place where the lexer WRITES into the datagram buffer:
   lexKeySep of internal/lexer/lexer.go,

       case '/':        l.input[l.pos-1] = '-'
       case ' ', '\t':  l.input[l.pos-1] = '_'
       default (not [A-Za-z0-9._-]):
                        l.input = append(l.input[0:l.pos-1], l.input[l.pos:]...); l.len--; l.pos--

   and of the loop of handleDatagram around it, with the writes applied to the SHARED buffer.

   The receive buffer is an array [mem = list N].  A Go slice is (offset, len, cap) into that
   array.  handleDatagram hands the lexer line = msg[:idx], whose capacity reaches to the end of
   msg's capacity -- far beyond the line -- so whether the in-place deletion can touch the
   following lines is exactly a question about Go's append:

     append(dst, src...)  with  len(dst) + len(src) <= cap(dst)  writes src (read first:
     memmove semantics for overlapping ranges) at dst's end IN PLACE and returns
     (off, len(dst)+len(src), cap(dst)); otherwise it allocates a new array ([AGrow]; the
     model has only one array, so that outcome is terminal; the theorems show it never occurs).

   Index, store and slice expressions are checked as in Go ([None] = run-time panic).
   l.len is kept equal to len(l.input) by the code, so the model uses the slice's len.
   Everything after lexKeySep only reads l.input, so it is the pure [Lexer] function applied
   to the slice's current contents ([lex_after_key] = the rest of [Lexer.lex_metric]). *)
From GS Require Import Base.Bytes Model.Lexer Model.Datagram.
Local Open Scope N_scope.

Definition mem := list N.
Record slice := Sl { s_off : N; s_len : N; s_cap : N }.

Definition nil_slice : slice := Sl 0 0 0.

Definition mem_get (m : mem) (i : N) : option N := nth_error m (N.to_nat i).

Definition mem_write (m : mem) (off : N) (src : str) : option mem :=
  if off + N.of_nat (length src) <=? N.of_nat (length m)
  then Some (firstn (N.to_nat off) m ++ src ++ skipn (N.to_nat off + length src) m)
  else None.

Definition mem_read (m : mem) (off n : N) : option str :=
  if off + n <=? N.of_nat (length m)
  then Some (firstn (N.to_nat n) (skipn (N.to_nat off) m))
  else None.

(* contents of a slice (specification view; total) *)
Definition view (m : mem) (s : slice) : str :=
  firstn (N.to_nat (s_len s)) (skipn (N.to_nat (s_off s)) m).

(* a slice that lies inside the array *)
Definition wf_slice (m : mem) (s : slice) : Prop :=
  s_len s <= s_cap s /\ s_off s + s_cap s <= N.of_nat (length m).

(* s[i] *)
Definition sl_index (m : mem) (s : slice) (i : N) : option N :=
  if i <? s_len s then mem_get m (s_off s + i) else None.
(* s[i] = b *)
Definition sl_store (m : mem) (s : slice) (i : N) (b : N) : option mem :=
  if i <? s_len s then mem_write m (s_off s + i) [b] else None.
(* s[lo:hi]  (two-index slice expression: 0 <= lo <= hi <= cap(s); capacity cap(s) - lo) *)
Definition reslice (s : slice) (lo hi : N) : option slice :=
  if (lo <=? hi) && (hi <=? s_cap s) then Some (Sl (s_off s + lo) (hi - lo) (s_cap s - lo)) else None.
(* s[lo:]  = s[lo:len(s)] *)
Definition reslice_from (s : slice) (lo : N) : option slice :=
  if lo <=? s_len s then Some (Sl (s_off s + lo) (s_len s - lo) (s_cap s - lo)) else None.
(* the bytes of a slice *)
Definition sl_read (m : mem) (s : slice) : option str := mem_read m (s_off s) (s_len s).

Inductive append_res := AInPlace (m : mem) (s : slice) | AGrow | AFault.
(* append(dst, src...) where [src] are the bytes of the source slice, already read *)
Definition go_append (m : mem) (dst : slice) (src : str) : append_res :=
  let n := N.of_nat (length src) in
  if s_len dst + n <=? s_cap dst then
    match mem_write m (s_off dst + s_len dst) src with
    | Some m' => AInPlace m' (Sl (s_off dst) (s_len dst + n) (s_cap dst))
    | None => AFault
    end
  else AGrow.

(* ---------------------------------------------------------------------------------------- *)
(* lexKeySep *)

Inductive ksres :=
| KSColon (m : mem) (s : slice) (pos : N)    (* ':' read; [pos] is just behind it -> lexKey *)
| KSReject (m : mem) (s : slice) (e : reject)
| KSPanic
| KSGrow
| KSFuel.

Definition key_byte_kept (b : N) : bool :=
  (b =? c_dot) || (b =? c_dash) || (b =? c_us) || is_alnum b.

Fixpoint key_sep_mem (fuel : nat) (m : mem) (s : slice) (pos : N) : ksres :=
  match fuel with
  | O => KSFuel
  | S f =>
      if s_len s <=? pos then KSReject m s EMissingKeySep          (* next() = eof *)
      else match sl_index m s pos with
      | None => KSPanic
      | Some b =>
          let pos1 := pos + 1 in                                   (* next(): l.pos++ *)
          if b =? c_slash then
            match sl_store m s (pos1 - 1) c_dash with
            | Some m' => key_sep_mem f m' s pos1 | None => KSPanic end
          else if (b =? c_space) || (b =? c_tab) then
            match sl_store m s (pos1 - 1) c_us with
            | Some m' => key_sep_mem f m' s pos1 | None => KSPanic end
          else if b =? c_colon then KSColon m s pos1
          else if b =? c_nul then KSReject m s EMissingKeySep
          else if key_byte_kept b then key_sep_mem f m s pos1
          else
            (* l.input = append(l.input[0:l.pos-1], l.input[l.pos:]...); l.len--; l.pos-- *)
            match reslice s 0 (pos1 - 1), reslice_from s pos1 with
            | Some dst, Some srcs =>
                match sl_read m srcs with
                | None => KSPanic
                | Some bytes =>
                    match go_append m dst bytes with
                    | AInPlace m' s' => key_sep_mem f m' s' (pos1 - 1)
                    | AGrow => KSGrow
                    | AFault => KSPanic
                    end
                end
            | _, _ => KSPanic
            end
      end
  end.

(* ---------------------------------------------------------------------------------------- *)
(* Lexer.Run on a line slice *)

(* lexKey onwards: the rest of [Lexer.lex_metric] once the key is known (read-only) *)
Definition lex_after_key (pf : str -> pfres) (ns : str) (key r1 : str) : outcome :=
  match key with
  | [] => OReject EEmptyKey
  | _ =>
      match lex_value_sep r1 with
      | Rej e => OReject e | Pan => OPanic
      | Ok (val, r2) =>
          match lex_type r2 with
          | Rej e => OReject e | Pan => OPanic
          | Ok (ty, r3) =>
              match lex_mattrs pf MAttrs f64_one [] r3 with
              | Rej e => OReject e | Pan => OPanic
              | Ok (rate, tags) => finish_metric pf (with_ns ns key) ty val rate (rev tags)
              end
          end
      end
  end.

Inductive lmres :=
| LMOk (m : mem) (o : outcome)
| LMGrow
| LMFuel.

Definition lex_line_mem (pf : str -> pfres) (ns : str) (m : mem) (s : slice) : lmres :=
  match view m s with
  | [] => LMOk m (OReject EInvalidType)                       (* lexSpecial: eof *)
  | b :: r =>
      if b =? c_us then LMOk m (lex_event r)                     (* events never write *)
      else if b =? c_nul then LMOk m (OReject EInvalidType)
      else
        match key_sep_mem (S (N.to_nat (s_len s))) m s 0 with     (* l.pos-- ; lexKeySep *)
        | KSColon m' s' pos =>
            let v := view m' s' in
            (* l.m.Name = string(l.input[l.start:l.pos-1]) with l.start = 0 *)
            LMOk m' (lex_after_key pf ns (firstn (N.to_nat (pos - 1)) v) (skipn (N.to_nat pos) v))
        | KSReject m' _ e => LMOk m' (OReject e)
        | KSPanic => LMOk m OPanic
        | KSGrow => LMGrow
        | KSFuel => LMFuel
        end
  end.

(* ---------------------------------------------------------------------------------------- *)
(* handleDatagram over the shared buffer: the outcomes of the lines, in order, and the buffer
   as the lexer left it *)

Inductive pmres :=
| PMOk (outs : list outcome) (m : mem)
| PMPanic
| PMGrow
| PMFuel.

Fixpoint parse_mem (pf : str -> pfres) (ns : str) (fuel : nat) (m : mem) (msg : slice) : pmres :=
  match fuel with
  | O => PMFuel
  | S f =>
      let continue (line rest : slice) :=
        match lex_line_mem pf ns m line with
        | LMOk m' o =>
            match parse_mem pf ns f m' rest with
            | PMOk outs m'' => PMOk (o :: outs) m''
            | e => e
            end
        | LMGrow => PMGrow
        | LMFuel => PMFuel
        end in
      match sl_read m msg with
      | None => PMPanic
      | Some v =>
          match index_byte c_nl v with
          | None =>
              if s_len msg =? 0 then PMOk [] m
              else continue msg nil_slice                                    (* msg = nil *)
          | Some idx =>
              match reslice msg 0 idx, reslice_from msg (idx + 1) with       (* msg[:idx], msg[idx+1:] *)
              | Some line, Some rest => continue line rest
              | _, _ => PMPanic
              end
          end
      end
  end.

Definition parse_buffer (pf : str -> pfres) (ns : str) (m : mem) (msg : slice) : pmres :=
  parse_mem pf ns (S (N.to_nat (s_len msg))) m msg.
