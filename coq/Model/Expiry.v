(* Model of pkg/statsd/aggregator.go (MetricAggregator) with an explicit clock, for C09:
   ReceiveMap = Merge into the aggregate; Flush(dt) = compute the reported values in place;
   Process = hand the aggregate to the backends (the report); Reset = per type
   isExpired(interval, now, ts) deletion, zeroing of counters / timers / sets, gauges untouched.
   The flusher (pkg/statsd/flusher.go flushData) always runs Flush; Process; Reset in one worker
   command, so one OFlush label is that triple.  Also the configuration precedence of
   cmd/gostatsd/main.go (expiry-interval-<type> > expiry-interval > 5 min).

   The aggregate between two operations is exactly a MetricMap (Model/MetricMap.v): every field
   that Flush computes is either recomputed by the next Flush or wiped by Reset.
   Numbers: times and intervals are int64 nanoseconds modelled in Z (|now - ts| < 2^63 assumed);
   per-second rates and sampled counts are exact rationals (DESIGN 3.1).  Timer statistics and
   histogram buckets are C08's (Model/Stats.v); here a reported timer carries only what C09
   fixes: its values, count, sampled count, rate, whether any percentile was written, and the
   +Inf histogram bucket. *)
From stdpp Require Import gmap.
From Coq Require Import QArith Qcanon Qround Sorted.
From GS Require Import Base.Bytes Model.Lexer Model.Series Model.MetricMap.
Local Open Scope Z_scope.

(* ---- configuration ------------------------------------------------------------------- *)

(* the four expiry intervals of NewMetricAggregator, in nanoseconds (time.Duration) *)
Record config := MkCfg { exp_counter : Z; exp_gauge : Z; exp_set : Z; exp_timer : Z }.

Definition interval (cfg : config) (ty : mtype) : Z :=
  match ty with
  | Counter => exp_counter cfg
  | Gauge => exp_gauge cfg
  | MSet => exp_set cfg
  | Timer => exp_timer cfg
  end.

(* cmd/gostatsd/main.go constructServer: v.SetDefault(expiry-interval-<type>,
   v.GetDuration(expiry-interval)); defaults_and_params.go: DefaultExpiryInterval = 5 min.
   [None] = the parameter was not given (flag unchanged, absent from the config file). *)
Definition default_expiry : Z := 300 * 10 ^ 9.
Record expiry_params := MkParams {
  p_all : option Z; p_counter : option Z; p_gauge : option Z; p_set : option Z; p_timer : option Z }.
Definition resolve_one (all per : option Z) : Z :=
  match per with
  | Some v => v
  | None => match all with Some v => v | None => default_expiry end
  end.
Definition resolve (p : expiry_params) : config :=
  MkCfg (resolve_one (p_all p) (p_counter p)) (resolve_one (p_all p) (p_gauge p))
        (resolve_one (p_all p) (p_set p)) (resolve_one (p_all p) (p_timer p)).

(* ---- ReceiveMap ------------------------------------------------------------------------ *)

Definition agg_receive (a batch : mmap) : mmap := merge a batch.

(* ---- Reset ----------------------------------------------------------------------------- *)

(* isExpired(interval, now, ts) = interval != 0 && time.Duration(now-ts) > interval *)
Definition is_expired (i now ts : Z) : bool := negb (i =? 0) && (i <? now - ts).

Definition reset_counter (c : counter) : counter := MkCounter 0 (c_ts c) (c_src c) (c_tags c).
(* Values: timer.Values[:0]; every other field the zero value (histogram timers also get
   Histogram: emptyHistogram(...), which the next Flush overwrites) *)
Definition reset_timer (t : timer) : timer := MkTimer [] 0%Qc (t_ts t) (t_src t) (t_tags t).
Definition reset_set (s : mset) : mset := MkSet ∅ (s_ts s) (s_src s) (s_tags s).

(* one Each callback: delete the series or store its reset value *)
Definition keep {V} (i now : Z) (ts : V -> Z) (f : V -> V) (v : V) : option V :=
  if is_expired i now (ts v) then None else Some (f v).

Definition agg_reset (cfg : config) (now : Z) (a : mmap) : mmap :=
  MkMap (omap (keep (exp_counter cfg) now c_ts reset_counter) (counters a))
        (omap (keep (exp_timer cfg) now t_ts reset_timer) (timers a))
        (omap (keep (exp_gauge cfg) now g_ts (fun g => g)) (gauges a))
        (omap (keep (exp_set cfg) now s_ts reset_set) (sets a)).

(* ---- Flush + Process: what the backends are given ----------------------------------------- *)

Record rcounter := MkRC { rc_val : Z; rc_per_second : Qc; rc_ts : Z }.
Record rgauge := MkRG { rg_val : Z; rg_ts : Z }.
Record rset := MkRS { rs_vals : gset str; rs_ts : Z }.
Record rtimer := MkRT {
  rt_vals : list Z;          (* Values (bit patterns; Flush sorts them in place: a multiset) *)
  rt_count : Z;              (* Count *)
  rt_samp : Qc;              (* SampledCount *)
  rt_per_second : Qc;        (* PerSecond *)
  rt_has_pct : bool;         (* some percentile was written (>= 1 threshold configured) *)
  rt_hist_inf : option Z;    (* Histogram[+Inf] when the histogram has buckets *)
  rt_ts : Z }.

Record report := MkRep {
  r_counters : gmap skey rcounter; r_timers : gmap skey rtimer;
  r_gauges : gmap skey rgauge; r_sets : gmap skey rset }.

(* x / (float64(dt) / float64(time.Second)), dt in nanoseconds, exact *)
Definition nanos_per_second : Z := 10 ^ 9.
Definition per_second (x : Qc) (dt : positive) : Qc := (x * Q2Qc (Qmake nanos_per_second dt))%Qc.
Definition Qc_of_Z (z : Z) : Qc := Q2Qc (inject_Z z).

(* math.Floor(x + 0.5) *)
Definition round_half_up (x : Qc) : Z := Qfloor (this x + (1 # 2))%Q.

(* hasHistogramTag: some tag starts with "gsd_histogram:" *)
Definition hist_prefix : str := [103; 115; 100; 95; 104; 105; 115; 116; 111; 103; 114; 97; 109; 58]%N.
Fixpoint str_has_prefix (p s : str) : bool :=
  match p, s with
  | [], _ => true
  | a :: p', b :: s' => (a =? b)%N && str_has_prefix p' s'
  | _ :: _, [] => false
  end.
Definition has_histogram_tag (t : timer) : bool := existsb (str_has_prefix hist_prefix) (t_tags t).

Definition flush_counter (dt : positive) (c : counter) : rcounter :=
  MkRC (c_val c) (per_second (Qc_of_Z (c_val c)) dt) (c_ts c).

(* [lim] = histogramLimit.  A histogram timer gets only its Histogram (latencyHistogram:
   result[+Inf] = len(Values) unless the limit is 0) and keeps Count = PerSecond = 0 and its
   SampledCount; any other timer: count > 0 computes the statistics, else Count =
   SampledCount = PerSecond = 0 and nothing else is written. *)
Definition flush_timer (lim : N) (dt : positive) (t : timer) : rtimer :=
  let n := Z.of_nat (length (t_vals t)) in
  if has_histogram_tag t then
    MkRT (t_vals t) 0 (t_samp t) 0%Qc false (if (lim =? 0)%N then None else Some n) (t_ts t)
  else if 0 <? n then
    MkRT (t_vals t) (round_half_up (t_samp t)) (t_samp t) (per_second (t_samp t) dt) true None (t_ts t)
  else
    MkRT [] 0 0%Qc 0%Qc false None (t_ts t).

Definition flush_gauge (g : gauge) : rgauge := MkRG (g_val g) (g_ts g).
Definition flush_set (s : mset) : rset := MkRS (s_vals s) (s_ts s).

Definition flush_report (lim : N) (dt : positive) (a : mmap) : report :=
  MkRep (flush_counter dt <$> counters a) (flush_timer lim dt <$> timers a)
        (flush_gauge <$> gauges a) (flush_set <$> sets a).

(* ---- histories -------------------------------------------------------------------------- *)

Inductive op :=
| OData (ds : list datapoint)        (* a batch: Receive each datapoint into a fresh map, ReceiveMap it *)
| OFlush (now : Z) (dt : positive).  (* Flush(dt); Process; Reset with the clock at [now] *)

Definition batch_map (ds : list datapoint) : mmap := receive_all empty_map ds.

Definition agg_step (cfg : config) (a : mmap) (o : op) : mmap :=
  match o with
  | OData ds => agg_receive a (batch_map ds)
  | OFlush now _ => agg_reset cfg now a
  end.

(* the aggregate after a history, from a new aggregator *)
Definition agg_after (cfg : config) (h : list op) : mmap := fold_left (agg_step cfg) h empty_map.

(* the map given to the backends by a flush (with interval [dt]) that follows the history [h] *)
Definition flush_at (cfg : config) (lim : N) (h : list op) (dt : positive) : report :=
  flush_report lim dt (agg_after cfg h).

(* the reports of all the flushes of a history, in order *)
Fixpoint reports_from (cfg : config) (lim : N) (a : mmap) (h : list op) : list report :=
  match h with
  | [] => []
  | OFlush now dt :: r => flush_report lim dt a :: reports_from cfg lim (agg_step cfg a (OFlush now dt)) r
  | o :: r => reports_from cfg lim (agg_step cfg a o) r
  end.
Definition reports (cfg : config) (lim : N) (h : list op) : list report := reports_from cfg lim empty_map h.

(* ---- vocabulary of the C09 statements ------------------------------------------------------ *)

Definition of_series (ty : mtype) (k : skey) (d : datapoint) : Prop := dp_type d = ty /\ dp_key d = k.

(* the operation carries data of the series *)
Definition mentions (ty : mtype) (k : skey) (o : op) : Prop :=
  match o with OData ds => exists d, In d ds /\ of_series ty k d | OFlush _ _ => False end.

(* all datapoints of a history, in order *)
Definition datapoints (h : list op) : list datapoint :=
  flat_map (fun o => match o with OData ds => ds | OFlush _ _ => [] end) h.

(* all times of a history, in order: datapoint timestamps and flush clock readings *)
Definition times (h : list op) : list Z :=
  flat_map (fun o => match o with OData ds => map dp_ts ds | OFlush now _ => [now] end) h.
Definition monotone (h : list op) : Prop := StronglySorted Z.le (times h).

(* the series is in the map given to the backends *)
Definition reported (ty : mtype) (k : skey) (r : report) : Prop :=
  match ty with
  | Counter => is_Some (r_counters r !! k)
  | Gauge => is_Some (r_gauges r !! k)
  | Timer => is_Some (r_timers r !! k)
  | MSet => is_Some (r_sets r !! k)
  end.
