(* Series identity and shard routing: model of metrics.go (FormatTagsKey, Bucket) and tags.go
   (SortedString).  Stdlib only. *)
From GS Require Import Base.Bytes.
Local Open Scope N_scope.

(* bytewise lexicographic order: Go's string comparison, used by sort.Strings *)
Fixpoint str_leb (a b : str) : bool :=
  match a, b with
  | [], _ => true
  | _ :: _, [] => false
  | x :: a', y :: b' => if x <? y then true else if y <? x then false else str_leb a' b'
  end.

Fixpoint insert_sorted (x : str) (l : list str) : list str :=
  match l with
  | [] => [x]
  | y :: r => if str_leb x y then x :: l else y :: insert_sorted x r
  end.

Definition sort_tags (l : list str) : list str := fold_right insert_sorted [] l.

(* FormatTagsKey(source, tags) *)
Definition tags_key (src : str) (tags : list str) : str :=
  let t := join c_comma (sort_tags tags) in
  match src with
  | [] => t
  | _ => t ++ c_comma :: c_s :: c_colon :: src
  end.

(* hash/adler32.Checksum *)
Definition adler_mod : N := 65521.
Definition adler_step (st : N * N) (b : N) : N * N :=
  let a := (fst st + b) mod adler_mod in (a, (snd st + a) mod adler_mod).
Definition adler32 (s : str) : N :=
  let '(a, b) := fold_left adler_step s (1, 0) in b * 65536 + a.

(* Bucket(metricName, tagsKey, max): uint32 addition wraps, then modulo the shard count.
   The Go code divides by zero (panics) for max = 0; callers guarantee max >= 1. *)
Definition bucket (name key : str) (n : N) : N :=
  ((adler32 name + adler32 key) mod 4294967296) mod n.
