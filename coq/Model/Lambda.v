(* C20 - the Lambda extension in manual-flush mode: an LTS of the four actors that share the
   flush coordinator's capacity-1 channel.  Definitions only; proofs are in Proofs/Lambda*.v.

   Anchors (read line by line; /repo HEAD):
     internal/awslambda/extension/manager.go      Run (register, start server + telemetry server,
                                                   subscribe, 100 ms start window, initError),
                                                   heartbeat (Flush; loop WaitForFlush -> nextEvent)
     internal/awslambda/extension/telemetry/server.go  eventHandler: for every platform.runtimeDone
                                                   record of a batch, in order: hook() = coordinator.Flush
     internal/flush/flush_coordinator.go           flushChan = make(chan struct{}, 1); Flush calls the
                                                   registered Flushable (noop before registration);
                                                   NotifyFlush sends, WaitForFlush receives
     metric_consolidator.go                        Flush = sink <- Drain(); Fill()   (sink unbuffered)
     pkg/statsd/handler_http_forwarder_v2.go       constructor: fc.RegisterFlushable(consolidator);
                                                   Run: sendNop, then `for maps := range sink`: one
                                                   goroutine per flush: merge; empty -> notifyFlush;
                                                   else postMetrics (attempt, backoff, attempt ...,
                                                   sent / dropped / invalid) then notifyFlush
     pkg/lambda/extension.go, cmd/lambda-extension/main.go   the wiring

   One label = one atomic step of that code (a channel operation, an HTTP request leaving or
   being answered, a handler receiving a batch).  Every interleaving of the goroutines is a label
   sequence; the theorems of Props/C20.v quantify over all of them.

   Modelling decisions (each only removes blocking, i.e. the model has at least the behaviours of
   the code; the theorems are safety properties):
   * Consolidator.Flush is two steps: the drain (all maps taken: everything accepted so far) by
     the caller, [H_Flush0] / [T_Flush n], and the rendezvous on the unbuffered sink, [F_Take].
     Fill is folded into [F_Take].  Between drain and take ingestion blocks ([R_Data] disabled),
     and so does every other Flush caller (there are no maps to drain).
   * The forwarder's two semaphores (concurrent-merge, max-requests) only delay a job: not modelled.
   * dynamic-headers (several notifications per flush) are outside Lambda mode (README). *)
From Coq Require Import List NArith Bool Arith.
Import ListNotations.
From GS Require Import Base.LTS.

Definition dp := N.                        (* a datapoint (identified by its series name) *)

Inductive origin := ONop | OInit | OInv (n : nat).   (* who asked for a flush *)
Inductive outcome := Sent | Dropped | Invalid.
Inductive jphase := JTaken | JPosting | JBackoff | JDone.
Record job := mkJob { j_id : nat; j_origin : origin; j_data : list dp; j_phase : jphase }.

Inductive mphase := MInit | MRegistered | MWindow | MRunning | MReported | MFailed.
Inductive hphase := HIdle | HFlush0 | HOffer0 | HWait | HReady | HInNext | HDone.
Inductive rphase := RIdle | RRunning (n : nat).
Inductive trec := TDone (n : nat) | TOther.          (* telemetry record: runtimeDone of invocation n, or any other type *)
Inductive event := EvInvoke (n : nat) | EvShutdown.  (* answer of GET /event/next *)

Inductive label :=
(* start-up: manager.Run *)
| Register (ok : bool)          (* POST /register answered 200 with an identifier, or not *)
| S_Start                       (* server.Run: forwarder constructed (RegisterFlushable), Run begins with sendNop *)
| Subscribe (ok : bool)         (* PUT /telemetry answered *)
| ServerError                   (* statsd server or telemetry server returned an error (chErrs) *)
| InitError                     (* select took chErrs inside the start window: POST /init/error *)
| H_Start                       (* start window elapsed without error: heartbeat goroutine starts *)
(* heartbeat *)
| H_Flush0                      (* the initial fc.Flush(): drain (noop if nothing is registered yet) *)
| H_Wait                        (* WaitForFlush: <-flushChan *)
| H_Next (k : nat)              (* the k-th GET /event/next leaves *)
| H_NextReturns (e : event)
(* telemetry server *)
| T_Batch (recs : list trec)    (* eventHandler received a batch *)
| T_Flush (n : nat)             (* hook for the runtimeDone record of invocation n: drain *)
(* forwarder *)
| F_Take (j : nat) (o : origin) (d : list dp)   (* `range sink` received the drained maps; job j spawned *)
| F_PostStart (j : nat)         (* first delivery attempt leaves *)
| F_AttemptFail (j : nat)       (* an attempt failed (status or transport) *)
| F_Reattempt (j : nat)         (* back-off over, next attempt leaves *)
| F_PostEnd (j : nat) (o : outcome)   (* postMetrics returned: the delivery attempt is finished *)
| F_Notify (j : nat)            (* NotifyFlush: flushChan <- {} (blocks while the channel is full) *)
(* Lambda platform and function *)
| R_Invoke (n : nat)            (* invocation n starts (only while the extension waits in /next) *)
| R_Send (d : dp)               (* a datapoint leaves the function *)
| R_Data (d : dp)               (* ingestion accepted it: ReceiveMetricMap completed *)
| R_Done (n : nat).             (* function returned: the platform emits runtimeDone n *)

Record state := mkState {
  mgr : mphase;
  srv_err : bool;               (* an error is waiting in chErrs *)
  registered : bool;            (* the consolidator is registered at the coordinator *)
  hb : hphase;
  nexts : nat;                  (* GET /next calls so far *)
  delivering : option nat;      (* invocation started for the outstanding /next, not yet answered *)
  rt : rphase;
  invs : nat;                   (* invocations started so far *)
  outbox : list nat;            (* runtimeDone records emitted, not yet delivered *)
  t_todo : list nat;            (* runtimeDone records received by handlers, hook not yet called *)
  inflight : list dp;           (* sent, not yet accepted *)
  pending : list dp;            (* in the consolidator's maps *)
  offered : option (origin * list dp);   (* drained maps blocked on the sink *)
  jobs : list job;
  next_id : nat;
  tok : bool                    (* flushChan holds a token *)
}.

Definition init : state :=
  mkState MInit false false HIdle 0 None RIdle 0 [] [] [] [] None [] 1 false.

(* field updates *)
Definition set_mgr v s := mkState v (srv_err s) (registered s) (hb s) (nexts s) (delivering s) (rt s) (invs s) (outbox s) (t_todo s) (inflight s) (pending s) (offered s) (jobs s) (next_id s) (tok s).
Definition set_srv_err v s := mkState (mgr s) v (registered s) (hb s) (nexts s) (delivering s) (rt s) (invs s) (outbox s) (t_todo s) (inflight s) (pending s) (offered s) (jobs s) (next_id s) (tok s).
Definition set_registered v s := mkState (mgr s) (srv_err s) v (hb s) (nexts s) (delivering s) (rt s) (invs s) (outbox s) (t_todo s) (inflight s) (pending s) (offered s) (jobs s) (next_id s) (tok s).
Definition set_hb v s := mkState (mgr s) (srv_err s) (registered s) v (nexts s) (delivering s) (rt s) (invs s) (outbox s) (t_todo s) (inflight s) (pending s) (offered s) (jobs s) (next_id s) (tok s).
Definition set_nexts v s := mkState (mgr s) (srv_err s) (registered s) (hb s) v (delivering s) (rt s) (invs s) (outbox s) (t_todo s) (inflight s) (pending s) (offered s) (jobs s) (next_id s) (tok s).
Definition set_delivering v s := mkState (mgr s) (srv_err s) (registered s) (hb s) (nexts s) v (rt s) (invs s) (outbox s) (t_todo s) (inflight s) (pending s) (offered s) (jobs s) (next_id s) (tok s).
Definition set_rt v s := mkState (mgr s) (srv_err s) (registered s) (hb s) (nexts s) (delivering s) v (invs s) (outbox s) (t_todo s) (inflight s) (pending s) (offered s) (jobs s) (next_id s) (tok s).
Definition set_invs v s := mkState (mgr s) (srv_err s) (registered s) (hb s) (nexts s) (delivering s) (rt s) v (outbox s) (t_todo s) (inflight s) (pending s) (offered s) (jobs s) (next_id s) (tok s).
Definition set_outbox v s := mkState (mgr s) (srv_err s) (registered s) (hb s) (nexts s) (delivering s) (rt s) (invs s) v (t_todo s) (inflight s) (pending s) (offered s) (jobs s) (next_id s) (tok s).
Definition set_t_todo v s := mkState (mgr s) (srv_err s) (registered s) (hb s) (nexts s) (delivering s) (rt s) (invs s) (outbox s) v (inflight s) (pending s) (offered s) (jobs s) (next_id s) (tok s).
Definition set_inflight v s := mkState (mgr s) (srv_err s) (registered s) (hb s) (nexts s) (delivering s) (rt s) (invs s) (outbox s) (t_todo s) v (pending s) (offered s) (jobs s) (next_id s) (tok s).
Definition set_pending v s := mkState (mgr s) (srv_err s) (registered s) (hb s) (nexts s) (delivering s) (rt s) (invs s) (outbox s) (t_todo s) (inflight s) v (offered s) (jobs s) (next_id s) (tok s).
Definition set_offered v s := mkState (mgr s) (srv_err s) (registered s) (hb s) (nexts s) (delivering s) (rt s) (invs s) (outbox s) (t_todo s) (inflight s) (pending s) v (jobs s) (next_id s) (tok s).
Definition set_jobs v s := mkState (mgr s) (srv_err s) (registered s) (hb s) (nexts s) (delivering s) (rt s) (invs s) (outbox s) (t_todo s) (inflight s) (pending s) (offered s) v (next_id s) (tok s).
Definition set_next_id v s := mkState (mgr s) (srv_err s) (registered s) (hb s) (nexts s) (delivering s) (rt s) (invs s) (outbox s) (t_todo s) (inflight s) (pending s) (offered s) (jobs s) v (tok s).
Definition set_tok v s := mkState (mgr s) (srv_err s) (registered s) (hb s) (nexts s) (delivering s) (rt s) (invs s) (outbox s) (t_todo s) (inflight s) (pending s) (offered s) (jobs s) (next_id s) v.

(* decidable equalities (transparent: the step function computes with them) *)
Definition origin_eq_dec (a b : origin) : {a = b} + {a <> b}.
Proof. decide equality; apply Nat.eq_dec. Defined.
Definition dps_eq_dec (a b : list dp) : {a = b} + {a <> b} := list_eq_dec N.eq_dec a b.
Definition offer_eq_dec (a b : option (origin * list dp)) : {a = b} + {a <> b}.
Proof. decide equality; decide equality; [apply dps_eq_dec|apply origin_eq_dec]. Defined.
Definition mphase_eq_dec (a b : mphase) : {a = b} + {a <> b}.
Proof. decide equality. Defined.
Definition hphase_eq_dec (a b : hphase) : {a = b} + {a <> b}.
Proof. decide equality. Defined.
Definition jphase_eq_dec (a b : jphase) : {a = b} + {a <> b}.
Proof. decide equality. Defined.
Definition rphase_eq_dec (a b : rphase) : {a = b} + {a <> b}.
Proof. decide equality; apply Nat.eq_dec. Defined.
Definition onat_eq_dec (a b : option nat) : {a = b} + {a <> b}.
Proof. decide equality; apply Nat.eq_dec. Defined.
Definition nats_eq_dec (a b : list nat) : {a = b} + {a <> b} := list_eq_dec Nat.eq_dec a b.

(* jobs, addressed by id (first match) *)
Fixpoint find_job (j : nat) (l : list job) : option job :=
  match l with
  | [] => None
  | x :: r => if Nat.eq_dec (j_id x) j then Some x else find_job j r
  end.
Fixpoint del_job (j : nat) (l : list job) : list job :=
  match l with
  | [] => []
  | x :: r => if Nat.eq_dec (j_id x) j then r else x :: del_job j r
  end.
Fixpoint set_phase (j : nat) (p : jphase) (l : list job) : list job :=
  match l with
  | [] => []
  | x :: r => if Nat.eq_dec (j_id x) j then mkJob (j_id x) (j_origin x) (j_data x) p :: r
              else x :: set_phase j p r
  end.
Definition is_nop (x : job) : bool := match j_origin x with ONop => true | _ => false end.
Definition nop_running (l : list job) : bool := existsb is_nop l.

(* remove the first occurrence *)
Fixpoint remove1 {A} (eq : forall a b : A, {a = b} + {a <> b}) (x : A) (l : list A) : list A :=
  match l with
  | [] => []
  | y :: r => if eq x y then r else y :: remove1 eq x r
  end.

Definition dones (recs : list trec) : list nat :=
  flat_map (fun r => match r with TDone n => [n] | TOther => [] end) recs.

(* job j moves from phase p to phase q *)
Definition move (s : state) (j : nat) (p q : jphase) : option state :=
  match find_job j (jobs s) with
  | Some x => if jphase_eq_dec (j_phase x) p then Some (set_jobs (set_phase j q (jobs s)) s) else None
  | None => None
  end.

(* postMetrics of job j returns while the job is in phase p *)
Definition finish (s : state) (j : nat) (p : jphase) : option state :=
  match find_job j (jobs s) with
  | Some x =>
      if jphase_eq_dec (j_phase x) p then
        if is_nop x then Some (set_jobs (del_job j (jobs s)) s)       (* sendNop: no notification *)
        else Some (set_jobs (set_phase j JDone (jobs s)) s)
      else None
  | None => None
  end.

Definition step (s : state) (l : label) : option state :=
  match l with
  | Register ok =>
      match mgr s with
      | MInit => Some (set_mgr (if ok then MRegistered else MFailed) s)
      | _ => None
      end
  | S_Start =>
      match mgr s, registered s with
      | (MRegistered | MWindow | MRunning), false =>
          Some (set_jobs (mkJob 0 ONop [] JTaken :: jobs s) (set_registered true s))
      | _, _ => None
      end
  | Subscribe ok =>
      match mgr s with
      | MRegistered => Some (set_mgr (if ok then MWindow else MFailed) s)
      | _ => None
      end
  | ServerError =>
      match mgr s, srv_err s with
      | (MRegistered | MWindow | MRunning), false => Some (set_srv_err true s)
      | _, _ => None
      end
  | InitError =>
      match mgr s, srv_err s with
      | MWindow, true => Some (set_mgr MReported s)
      | _, _ => None
      end
  | H_Start =>
      match mgr s, srv_err s, hb s with
      | MWindow, false, HIdle => Some (set_hb HFlush0 (set_mgr MRunning s))
      | _, _, _ => None
      end
  | H_Flush0 =>
      match hb s with
      | HFlush0 =>
          if registered s then
            match offered s with
            | None => Some (set_hb HOffer0 (set_pending [] (set_offered (Some (OInit, pending s)) s)))
            | Some _ => None
            end
          else Some (set_hb HWait s)               (* noopFlusher: nothing flushed, nobody will notify *)
      | _ => None
      end
  | H_Wait =>
      match hb s, tok s with
      | HWait, true => Some (set_hb HReady (set_tok false s))
      | _, _ => None
      end
  | H_Next k =>
      match hb s with
      | HReady => if Nat.eq_dec k (S (nexts s)) then Some (set_hb HInNext (set_nexts k s)) else None
      | _ => None
      end
  | H_NextReturns (EvInvoke n) =>
      match hb s with
      | HInNext => if onat_eq_dec (delivering s) (Some n)
                   then Some (set_hb HWait (set_delivering None s)) else None
      | _ => None
      end
  | H_NextReturns EvShutdown =>
      match hb s, delivering s, rt s with
      | HInNext, None, RIdle => Some (set_hb HDone s)
      | _, _, _ => None
      end
  | T_Batch recs =>
      let ds := dones recs in
      if nats_eq_dec ds (firstn (length ds) (outbox s))
      then Some (set_t_todo (t_todo s ++ ds) (set_outbox (skipn (length ds) (outbox s)) s))
      else None
  | T_Flush n =>
      if in_dec Nat.eq_dec n (t_todo s) then
        let s1 := set_t_todo (remove1 Nat.eq_dec n (t_todo s)) s in
        if registered s then
          match offered s with
          | None => Some (set_pending [] (set_offered (Some (OInv n, pending s)) s1))
          | Some _ => None
          end
        else Some s1
      else None
  | F_Take j o d =>
      if offer_eq_dec (offered s) (Some (o, d)) then
        if Nat.eq_dec j (next_id s) then
          if registered s && negb (nop_running (jobs s)) then
            let ph := match d with [] => JDone | _ => JTaken end in
            let s1 := set_next_id (S j) (set_jobs (jobs s ++ [mkJob j o d ph]) (set_offered None s)) in
            Some (if origin_eq_dec o OInit then set_hb HWait s1 else s1)
          else None
        else None
      else None
  | F_PostStart j => move s j JTaken JPosting
  | F_AttemptFail j => move s j JPosting JBackoff
  | F_Reattempt j => move s j JBackoff JPosting
  | F_PostEnd j Sent => finish s j JPosting
  | F_PostEnd j Dropped => finish s j JBackoff
  | F_PostEnd j Invalid => finish s j JTaken
  | F_Notify j =>
      match find_job j (jobs s), tok s with
      | Some x, false =>
          if jphase_eq_dec (j_phase x) JDone
          then Some (set_tok true (set_jobs (del_job j (jobs s)) s)) else None
      | _, _ => None
      end
  | R_Invoke n =>
      match hb s, delivering s, rt s with
      | HInNext, None, RIdle =>
          if Nat.eq_dec n (S (invs s))
          then Some (set_delivering (Some n) (set_invs n (set_rt (RRunning n) s))) else None
      | _, _, _ => None
      end
  | R_Send d => Some (set_inflight (inflight s ++ [d]) s)
  | R_Data d =>
      if in_dec N.eq_dec d (inflight s) then
        match registered s, offered s with
        | true, None => Some (set_pending (pending s ++ [d]) (set_inflight (remove1 N.eq_dec d (inflight s)) s))
        | _, _ => None
        end
      else None
  | R_Done n =>
      if rphase_eq_dec (rt s) (RRunning n)
      then Some (set_outbox (outbox s ++ [n]) (set_rt RIdle s)) else None
  end.

(* ---- trace predicates used by the property statements ---- *)

(* the flush asked for by [o] was taken by the forwarder and its delivery attempt is finished
   (postMetrics returned with some outcome), or it carried no data *)
Definition flush_finished (o : origin) (tr : list label) : Prop :=
  exists j d, In (F_Take j o d) tr /\ (d = [] \/ exists out, In (F_PostEnd j out) tr).

(* datapoint d was in maps that some flush handed to the forwarder *)
Definition drained (d : dp) (tr : list label) : Prop :=
  exists j o data, In (F_Take j o data) tr /\ In d data.

(* ... and the delivery attempt of that flush is finished *)
Definition delivered_or_refused (d : dp) (tr : list label) : Prop :=
  exists j o data out, In (F_Take j o data) tr /\ In d data /\ In (F_PostEnd j out) tr.

Definition is_next (l : label) : bool := match l with H_Next _ => true | _ => false end.
