(* C16, HTTP backends and the flusher.

   (1) The collector pattern of pkg/backends/{datadog,newrelic,influxdb} SendMetricsAsync as a
   labelled transition system: the caller creates batches synchronously (`counter++`, one worker
   goroutine each), then starts the collector goroutine, which takes `counter` results from the
   unbuffered channel `results` or stops at ctx.Done(), and then calls back once.  One label = one
   select arm / one channel rendezvous / one return of `post`.  `post` itself (net/http, backoff,
   retry window) is not modelled: its result per batch is a label argument.

   (2) The synchronous shapes: otlp (errgroup + Wait, then cb), cloudwatch (cb(empty) when there is
   no datum, otherwise one goroutine looping over the batches), stdout, null, and the front half of
   graphite / statsdaemon (cb([ctx.Err()]) when the context is already done, otherwise the stream
   goes to the sender of Model/Sender.v).

   (3) pkg/statsd/flusher.go flushData / sendMetricsAsync: the WaitGroup accounting. *)
From Coq Require Import List Arith Bool ZArith.
Import ListNotations.

(* one entry of the []error handed to the callback *)
Inductive cerr := ENil     (* a nil error: the batch was delivered *)
                | EPost    (* the error `post` returned: retry window over, bad status, marshal error *)
                | ECtx.    (* ctx.Err() *)
Definition is_err (e : cerr) : bool := match e with ENil => false | _ => true end.
(* what handleSendResult looks for: some entry is not nil *)
Definition has_err (es : list cerr) : bool := existsb is_err es.

(* ---------------------------------------------------------------------------------------- *)
(* (1) collector *)
Inductive wst :=
| WRun                      (* goroutine started, `post` has not returned (datadog / newrelic: may still wait for a buffer) *)
| WPosted (e : cerr)        (* post returned e; the worker is in `select { case <-ctx.Done(): case results <- err: }` *)
| WSent (e : cerr)          (* the collector received e *)
| WGone (r : option cerr).  (* returned without sending: ctx.Done() in the first select (None) or in the last (Some e) *)

Inductive cphase :=
| Producing    (* processMetrics is creating batches; the collector goroutine does not exist yet *)
| Collecting   (* collector in `for c := 0; c < counter; c++ { select ... } ` *)
| Broke        (* collector took the ctx.Done() arm: errs = append(errs, ctx.Err()); break loop *)
| Called.      (* cb(errs) was invoked; the goroutine is gone *)

Record cstate := CS {
  cph : cphase;
  workers : list wst;        (* one per created batch; counter = length workers *)
  cancelled : bool;          (* ctx is done *)
  taken : nat;               (* c *)
  cerrs : list cerr;         (* errs *)
  cout : list (list cerr)    (* ghost: arguments of the callback invocations, newest first *)
}.

Definition cinit : cstate := CS Producing [] false 0 [] [].

Inductive clabel :=
| CCancel                     (* environment: the flush context is cancelled / its deadline passes *)
| CCreate                     (* processMetrics hands one batch to the closure: go worker; counter++ *)
| CStart                      (* processMetrics returned; `go func() { ... }` of the collector *)
| WQuit (i : nat)             (* worker i: first select, ctx.Done() arm (datadog, newrelic) *)
| WPost (i : nat) (e : cerr)  (* worker i: post returned e *)
| WSend (i : nat)             (* rendezvous: worker i `results <- err`, collector `err := <-results` *)
| WGiveUp (i : nat)           (* worker i: last select, ctx.Done() arm *)
| CSeeCancel                  (* collector: ctx.Done() arm *)
| CCall.                      (* loop finished or broken: cb(errs) *)

Fixpoint upd {A} (i : nat) (x : A) (l : list A) : list A :=
  match l, i with
  | [], _ => []
  | _ :: r, 0 => x :: r
  | y :: r, S j => y :: upd j x r
  end.

Definition set_worker (s : cstate) (i : nat) (w : wst) : cstate :=
  CS (cph s) (upd i w (workers s)) (cancelled s) (taken s) (cerrs s) (cout s).

Definition cstep (s : cstate) (l : clabel) : option cstate :=
  match l with
  | CCancel => Some (CS (cph s) (workers s) true (taken s) (cerrs s) (cout s))
  | CCreate =>
      match cph s with
      | Producing => Some (CS Producing (workers s ++ [WRun]) (cancelled s) (taken s) (cerrs s) (cout s))
      | _ => None
      end
  | CStart =>
      match cph s with
      | Producing => Some (CS Collecting (workers s) (cancelled s) 0 [] (cout s))
      | _ => None
      end
  | WQuit i =>
      match nth_error (workers s) i with
      | Some WRun => if cancelled s then Some (set_worker s i (WGone None)) else None
      | _ => None
      end
  | WPost i e =>
      match nth_error (workers s) i with
      | Some WRun =>
          (* post returns ctx.Err() only if the context is done *)
          match e with
          | ECtx => if cancelled s then Some (set_worker s i (WPosted e)) else None
          | _ => Some (set_worker s i (WPosted e))
          end
      | _ => None
      end
  | WSend i =>
      match nth_error (workers s) i, cph s with
      | Some (WPosted e), Collecting =>
          if taken s <? length (workers s)
          then Some (CS Collecting (upd i (WSent e) (workers s)) (cancelled s) (S (taken s)) (cerrs s ++ [e]) (cout s))
          else None
      | _, _ => None
      end
  | WGiveUp i =>
      match nth_error (workers s) i with
      | Some (WPosted e) => if cancelled s then Some (set_worker s i (WGone (Some e))) else None
      | _ => None
      end
  | CSeeCancel =>
      match cph s with
      | Collecting =>
          if (taken s <? length (workers s)) && cancelled s
          then Some (CS Broke (workers s) (cancelled s) (taken s) (cerrs s ++ [ECtx]) (cout s))
          else None
      | _ => None
      end
  | CCall =>
      match cph s with
      | Collecting =>
          if taken s =? length (workers s)
          then Some (CS Called (workers s) (cancelled s) (taken s) (cerrs s) (cerrs s :: cout s))
          else None
      | Broke => Some (CS Called (workers s) (cancelled s) (taken s) (cerrs s) (cerrs s :: cout s))
      | _ => None
      end
  end.

(* ---- what the theorems talk about *)
Definition sent_results (ws : list wst) : list cerr :=
  flat_map (fun w => match w with WSent e => [e] | _ => [] end) ws.
Definition is_sent (w : wst) : bool := match w with WSent _ => true | _ => false end.
Definition all_sent (ws : list wst) : bool := forallb is_sent ws.
(* the batch's `post` returned an error (wherever that error went afterwards) *)
Definition failed_batch (w : wst) : bool :=
  match w with WPosted e | WSent e | WGone (Some e) => is_err e | _ => false end.

(* ---------------------------------------------------------------------------------------- *)
(* (2) backends whose callback is made on a fixed path.  [rs] = per batch, true = the request failed.
   Each function returns the list of callback invocations (their arguments). *)

(* otlp: eg.Wait() returns the first non-nil error of the group; cb(multierr.Errors(err)): no entry if
   it is nil, otherwise its components (one, or several if the batch's error was itself combined);
   [EPost] stands for that non-empty list *)
Definition otlp_callbacks (rs : list bool) : list (list cerr) :=
  [if existsb (fun b => b) rs then [EPost] else []].

(* cloudwatch: `if length < 1 { cb(errors); return }`, else one goroutine appends the result of
   every PutMetricData call (nil included) and calls back *)
Definition cloudwatch_callbacks (rs : list bool) : list (list cerr) :=
  [map (fun b : bool => if b then EPost else ENil) rs].

(* stdout: cb([]error{writePayload(buf)});  null: cb(nil) *)
Definition stdout_callbacks (werr : bool) : list (list cerr) := [[if werr then EPost else ENil]].
Definition null_callbacks : list (list cerr) := [[]].

(* graphite / statsdaemon SendMetricsAsync: select { <-ctx.Done(): cb([ctx.Err()]) | Sink <- stream }.
   Either the request is answered here, or it is accepted by the sender (label Submit of
   Model/Sender.v) which owes it exactly one callback. *)
Inductive front := FrontCalledBack (es : list cerr) | FrontSubmitted.
Definition socket_front (take_done_arm : bool) : front :=
  if take_done_arm then FrontCalledBack [ECtx] else FrontSubmitted.

(* ---------------------------------------------------------------------------------------- *)
(* (3) flusher: `var sendWg sync.WaitGroup` of one flushData call.  Requests of a flush are numbered
   in the order sendMetricsAsync issues them (aggregator by aggregator, backend by backend). *)
Inductive fphase :=
| FProcessing    (* aggregators are being processed; sendMetricsAsync may still be called *)
| FWaiting       (* processWait() returned; in sendWg.Wait() *)
| FReturned      (* flushData returned *)
| FPanicked.     (* sync: negative WaitGroup counter *)

Record fstate := FS {
  fph : fphase;
  wg : Z;                 (* the WaitGroup counter *)
  issued : nat;           (* SendMetricsAsync calls made by this flush *)
  cbs : list nat;         (* ghost: callback invocations seen, by request number *)
  flushes : nat           (* completed flushes *)
}.

Definition finit : fstate := FS FProcessing 0 0 [] 0.

Inductive flabel :=
| FSendAll (k : nat)     (* sendMetricsAsync for one aggregator: wg.Add(k), then one SendMetricsAsync per backend *)
| FCallback (r : nat)    (* the callback of request r runs: defer wg.Done() *)
| FProcessDone           (* processWait() returns *)
| FWaitReturns           (* sendWg.Wait() returns, flushData returns *)
| FNextFlush.            (* the next tick: a new flushData call with a fresh WaitGroup *)

Definition fstep (s : fstate) (l : flabel) : option fstate :=
  match fph s, l with
  | FPanicked, _ => None
  | FProcessing, FSendAll k => Some (FS FProcessing (wg s + Z.of_nat k) (issued s + k) (cbs s) (flushes s))
  | FProcessing, FProcessDone => Some (FS FWaiting (wg s) (issued s) (cbs s) (flushes s))
  | FWaiting, FWaitReturns =>
      if (wg s =? 0)%Z then Some (FS FReturned 0 (issued s) (cbs s) (flushes s)) else None
  | FReturned, FNextFlush => Some (FS FProcessing 0 0 [] (S (flushes s)))
  | _, FCallback r =>
      (* a callback may run in any phase, also after the flush returned (a late second callback) *)
      if (wg s - 1 <? 0)%Z then Some (FS FPanicked (wg s - 1) (issued s) (r :: cbs s) (flushes s))
      else Some (FS (fph s) (wg s - 1) (issued s) (r :: cbs s) (flushes s))
  | _, _ => None
  end.

(* every callback seen so far belongs to a request of this flush and no request called back twice *)
Definition at_most_once (s : fstate) : Prop :=
  NoDup (cbs s) /\ forall r, In r (cbs s) -> r < issued s.
(* all requests have called back *)
Definition all_called (s : fstate) : Prop := forall r, r < issued s -> In r (cbs s).
