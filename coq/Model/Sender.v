(* C16, socket backends: the goroutine pkg/backends/sender/sender.go Sender.Run / innerRun /
   cleanup as a labelled transition system.  One label = one atomic step of the Go code (one
   select arm, one ConnFactory call, one conn.Write, one receive from stream.Buf) or one action
   of its environment (a producer putting a stream into s.Sink, a context being cancelled).

   Go state that is modelled: the locals of Run (stream, errs, sink, streamCancel), the loop
   counter of innerRun, the contents of the channel s.Sink, the two kinds of contexts.
   Ghost state (not in the Go code, only observed): the log of callbacks [out], the streams whose
   callback can no longer happen [lost], the streams that had a failed write [wfail].

   [legacy = true] is the code before commit efb4dae, whose disconnected wait loop only ever
   assigned the locals sink / streamCancel and never cleared them; [legacy = false] is the
   current code (`if stream == nil { sink = s.Sink; streamCancel = nil } else { sink = nil;
   streamCancel = stream.Ctx.Done() }`).

   s.Sink is an unbounded FIFO here: its capacity (10 in graphite / statsdaemon, 0 in the unit
   tests) only restricts when the environment can do [Submit]. *)
From Coq Require Import List Arith Bool.
From RecordUpdate Require Import RecordSet.
Import ListNotations RecordSetNotations.

Inductive err := EWrite | ERunCtx | EStreamCtx.
Inductive reason := Drained | Cancelled | Shutdown.
(* conn.Write returning the very values context.Canceled / context.DeadlineExceeded (which would make
   Run return without its context being done, after which cleanup hands `[]error{nil}` to the queued
   streams) is not modelled: net.TCPConn, net.UDPConn and tls.Conn return *net.OpError /
   os.ErrDeadlineExceeded, never the context package's values. *)
Inductive wres := WOk | WErr.

Inductive phase :=
| Connecting      (* about to call s.ConnFactory() *)
| Waiting         (* in the select of the disconnected loop, 1 s timer armed *)
| ConnIdle        (* innerRun, stream == nil, in the select on ctx.Done / s.Sink *)
| ConnStream      (* innerRun, in `for buf := range stream.Buf` *)
| Returning       (* Run executed `return`; the deferred stream.Cb(errs) has not run yet *)
| Cleanup         (* cleanup entered, s.Sink not closed yet *)
| Draining        (* s.Sink closed, `for stream := range s.Sink` *)
| Stopped
| Panicked.       (* nil dereference at sender.go `stream.Cb(append(errs, stream.Ctx.Err()))` *)

Record cb := CB { cb_id : nat; cb_why : reason; cb_errs : list err }.

Record state := St {
  ph : phase;
  cur : option nat;        (* stream *)
  errs : list err;         (* errs *)
  sinkv : bool;            (* sink != nil *)
  cancelv : option nat;    (* streamCancel = Done channel of that stream's context, None = nil *)
  cnt : nat;               (* streamCount *)
  queue : list nat;        (* contents of s.Sink, head = next to be received *)
  rundone : bool;          (* Run's ctx is done *)
  sdone : list nat;        (* streams whose Ctx is done *)
  next : nat;              (* streams are numbered in the order they are put into s.Sink *)
  out : list cb;           (* callbacks made, newest first *)
  lost : list nat;         (* streams overwritten in the local `stream` *)
  wfail : list nat         (* streams one of whose writes failed *)
}.
#[export] Instance eta_state : Settable _ :=
  settable! St <ph; cur; errs; sinkv; cancelv; cnt; queue; rundone; sdone; next; out; lost; wfail>.

Definition init : state := St Connecting None [] false None 0 [] false [] 0 [] [] [].

Inductive label :=
(* environment *)
| Submit                    (* a producer's `s.Sink <- Stream{...}` completes (fresh stream number) *)
| StreamCancel (i : nat)    (* the context of stream i is cancelled *)
| CtxCancel                 (* Run's context is cancelled *)
(* transport outcomes *)
| ConnOk | ConnFail
| BufWrite (r : wres)       (* next buffer of the current stream received and written *)
| BufClosed                 (* stream.Buf is closed and empty *)
(* the sender's own steps *)
| TimerFires
| StreamIn                  (* receive from s.Sink (either select) *)
| SeeStreamCancel           (* select arm <-streamCancel *)
| SeeCtxDone                (* select arm <-ctx.Done() (either select) *)
| Deferred                  (* Run's deferred func *)
| CloseSink | DrainOne | DrainEnd.   (* cleanup *)

(* top of an iteration of the disconnected `for {` loop *)
Definition enter_wait (legacy : bool) (s : state) : state :=
  match cur s with
  | None => s <| ph := Waiting |> <| sinkv := true |>
              <| cancelv := if legacy then cancelv s else None |>
  | Some i => s <| ph := Waiting |> <| cancelv := Some i |>
                <| sinkv := if legacy then sinkv s else false |>
  end.

(* loop test of innerRun's `for streamCount := 0; streamCount < maxStreamsPerConnection; ...`;
   when it fails innerRun returns (stream, errs, nil), the connection is closed and Run dials again *)
Definition inner_top (maxs : nat) (s : state) : state :=
  if cnt s <? maxs then
    match cur s with None => s <| ph := ConnIdle |> | Some _ => s <| ph := ConnStream |> end
  else s <| ph := Connecting |>.

Definition step (legacy : bool) (maxs : nat) (s : state) (l : label) : option state :=
  match l with
  | Submit =>
      match ph s with
      | Draining | Stopped | Panicked => None     (* send on a closed channel: the producer's problem *)
      | _ => Some (s <| queue := queue s ++ [next s] |> <| next := S (next s) |>)
      end
  | StreamCancel i => Some (s <| sdone := i :: sdone s |>)
  | CtxCancel => Some (s <| rundone := true |>)
  | ConnOk =>
      match ph s with Connecting => Some (inner_top maxs (s <| cnt := 0 |>)) | _ => None end
  | ConnFail =>
      match ph s with Connecting => Some (enter_wait legacy s) | _ => None end
  | TimerFires =>
      match ph s with Waiting => Some (s <| ph := Connecting |>) | _ => None end
  | StreamIn =>
      match ph s, queue s with
      | Waiting, i :: q =>
          if sinkv s then
            Some (enter_wait legacy
                    (s <| queue := q |> <| sinkv := false |>
                       <| lost := match cur s with Some b => b :: lost s | None => lost s end |>
                       <| cur := Some i |>))
          else None
      | ConnIdle, i :: q => Some (s <| queue := q |> <| cur := Some i |> <| ph := ConnStream |>)
      | _, _ => None
      end
  | SeeStreamCancel =>
      match ph s, cancelv s with
      | Waiting, Some j =>
          if existsb (Nat.eqb j) (sdone s) then
            match cur s with
            | None => Some (s <| ph := Panicked |>)
            | Some i =>
                Some (enter_wait legacy
                        (s <| out := CB i Cancelled (errs s ++ [EStreamCtx]) :: out s |>
                           <| cur := None |> <| cancelv := None |> <| errs := [] |>))
            end
          else None
      | _, _ => None
      end
  | SeeCtxDone =>
      if rundone s then
        match ph s with
        | Waiting | ConnIdle => Some (s <| errs := errs s ++ [ERunCtx] |> <| ph := Returning |>)
        | _ => None
        end
      else None
  | BufWrite r =>
      match ph s, cur s with
      | ConnStream, Some i =>
          match r with
          | WOk => Some s
          | WErr => Some (s <| errs := errs s ++ [EWrite] |> <| wfail := i :: wfail s |> <| ph := Connecting |>)
          end
      | _, _ => None
      end
  | BufClosed =>
      match ph s, cur s with
      | ConnStream, Some i =>
          Some (inner_top maxs
                  (s <| out := CB i Drained (errs s) :: out s |> <| cur := None |> <| errs := [] |>
                     <| cnt := S (cnt s) |>))
      | _, _ => None
      end
  | Deferred =>
      match ph s with
      | Returning =>
          match cur s with
          | Some i => Some (s <| out := CB i Shutdown (errs s) :: out s |> <| cur := None |> <| ph := Cleanup |>)
          | None => Some (s <| ph := Cleanup |>)
          end
      | _ => None
      end
  | CloseSink =>
      match ph s with Cleanup => Some (s <| ph := Draining |>) | _ => None end
  | DrainOne =>
      match ph s, queue s with
      | Draining, i :: q => Some (s <| out := CB i Shutdown [ERunCtx] :: out s |> <| queue := q |>)
      | _, _ => None
      end
  | DrainEnd =>
      match ph s, queue s with
      | Draining, [] => Some (s <| ph := Stopped |>)
      | _, _ => None
      end
  end.

(* ---- what the theorems talk about *)
Definition callbacks (i : nat) (s : state) : nat := count_occ Nat.eq_dec (map cb_id (out s)) i.
Definition held (i : nat) (s : state) : nat :=
  match cur s with Some j => if Nat.eq_dec j i then 1 else 0 | None => 0 end.
Definition queued (i : nat) (s : state) : nat := count_occ Nat.eq_dec (queue s) i.
Definition lostc (i : nat) (s : state) : nat := count_occ Nat.eq_dec (lost s) i.

(* a callback made because the stream was cancelled while disconnected or because the sender
   shut down always carries an error; one made after the stream's buffers were all consumed
   carries an error if one of the stream's writes failed *)
Definition cb_carries_error (failed : list nat) (c : cb) : Prop :=
  (cb_why c <> Drained -> cb_errs c <> []) /\ (In (cb_id c) failed -> cb_errs c <> []).

(* ---- observable projection used by the correspondence: what a harness around the real
   goroutine can see.  Environment events are logged before they take effect. *)
Inductive sobs :=
| OSubmit | OStreamCancel (i : nat) | OCtxCancel
| OConn (ok : bool)
| OWrite (i : nat) (r : wres)
| OCb (i : nat) (es : list err)
| ODone.                      (* Run returned (cleanup finished) *)

(* the observation a step produces, computed from the state it is taken in *)
Definition emits (s : state) (l : label) : option sobs :=
  match l with
  | Submit => Some OSubmit
  | StreamCancel i => Some (OStreamCancel i)
  | CtxCancel => Some OCtxCancel
  | ConnOk => Some (OConn true)
  | ConnFail => Some (OConn false)
  | BufWrite r => match cur s with Some i => Some (OWrite i r) | None => None end
  | BufClosed => match cur s with Some i => Some (OCb i (errs s)) | None => None end
  | SeeStreamCancel => match cur s with Some i => Some (OCb i (errs s ++ [EStreamCtx])) | None => None end
  | Deferred => match cur s with Some i => Some (OCb i (errs s)) | None => None end
  | DrainOne => match queue s with i :: _ => Some (OCb i [ERunCtx]) | [] => None end
  | DrainEnd => Some ODone
  | TimerFires | StreamIn | SeeCtxDone | CloseSink => None
  end.

(* a stream is pending while the sender holds it or it still sits in s.Sink *)
Definition pending (i : nat) (s : state) : Prop := cur s = Some i \/ In i (queue s).
