(* C15 x C14: the forwarder joined to the wire.  "Delivered" = decoded and dispatched by the ingesting
   server's MetricHandler.

   One composed LTS over Model.MetricMap.mmap:
     dispatched batches -> Model.Consolidator (carrier mmap, merge = MetricMap.merge)
       -> DrainEmit: MergeMaps, SplitByTags (Model.Forwarder.split_by_tags) -> parts of a flush
       -> per non-empty part one request whose body is what Model.Wire.post_metrics builds with the
          byte-level protobuf codec Model.PbWire.pb_marshal (translateToProtobufV2 = Wire.to_pb)
       -> attempts per Model.Forwarder.post_step
       -> an attempt that reaches the server runs Model.Wire.metric_handler (readBody, Unmarshal =
          PbWire.pb_unmarshal, translateFromProtobufV2 = Wire.from_pb) which dispatches the decoded map.

   The handler's scheduling (Run loop, goroutines, the two semaphores: Model.Forwarder.hstep) only
   restricts WHEN a part may be posted; it is left out here, i.e. every order of posting is allowed.
   A safety theorem over all runs of this less constrained system covers all runs of the constrained one.

   Attempt outcomes, seen from both ends:
     WServed q now   the request reaches MetricHandler (clock reading now) and the client reads its
                     answer: 202 = success and one dispatch; 400/500 = failure, nothing dispatched
     WLost q         the attempt fails without MetricHandler having dispatched (connection refused /
                     reset / timed out before the handler ran, an intermediary's error page)
     WRespLost q now (only if [lossy]) MetricHandler ran and dispatched, but the answer never reached
                     the client, which counts a failure and may retry: the boundary of exactly-once
   Compression codecs are Section variables (library behaviour), as in Model/Wire.v. *)
From stdpp Require Import gmap.
From GS Require Import Base.Bytes Model.Lexer Model.Series Model.MetricMap.
From GS Require Import Model.Consolidator Model.Forwarder Model.Wire Model.PbWire.

Record wreq := WReq {
  q_key : str; q_part : mmap;
  q_wire : option (str * str);     (* (Content-Encoding, body) built by constructPost; None before, or if Marshal failed *)
  q_post : pstate;
  q_served : list mmap             (* ghost: what the server dispatched for this request, oldest first *)
}.

Record wstate := W {
  w_cons : @Consolidator.state mmap;
  w_put : list mmap;                       (* ghost: the batches whose dispatch has merged them, oldest first *)
  w_jobs : list (list (str * mmap));       (* per flush: parts not yet skipped or posted *)
  w_reqs : list wreq;
  w_dispatched : list mmap                 (* every map the ingesting server dispatched, oldest first *)
}.

Inductive wlabel :=
| WC (l : @Consolidator.label mmap)
| WSkip (j i : nat)            (* part i of flush j IsEmpty(): no request *)
| WPost (j i : nat)            (* part i of flush j gets its request goroutine *)
| WConstruct (q : nat)         (* constructPost *)
| WServed (q : nat) (now : Z)
| WLost (q : nat)
| WRespLost (q : nat) (now : Z)
| WBackoff (q : nat)
| WStop (q : nat).

Section ForwarderWire.
  Variable compress : codec -> Z -> str -> str.
  Variable decompress : codec -> str -> option str.
  Variable cfg : fwd_cfg.        (* compress flag, compression type, level: Model.Wire.new_forwarder *)
  Variable dyn : list str.       (* hfh.dynHeaderNames *)
  Variable k : nat.              (* consolidator slots *)
  Variable lossy : bool.

  Definition cstep := Consolidator.step empty_map merge k.
  Definition cinit := Consolidator.init empty_map k.
  Definition winit : wstate := W cinit [] [] [] [].

  Definition set_req (s : wstate) (q : nat) (r : wreq) (disp : list mmap) : wstate :=
    W (w_cons s) (w_put s) (w_jobs s) (upd q r (w_reqs s)) (w_dispatched s ++ disp).

  (* one attempt of request r; [ran] = MetricHandler's result if it ran, [seen_ok] = the client read a 2xx *)
  Definition attempt (s : wstate) (q : nat) (r : wreq) (ran : option (Z * option mmap)) (seen : bool) : option wstate :=
    let disp := match ran with Some (_, Some m) => [m] | _ => [] end in
    let o := match ran with Some (st, _) => if seen && (st =? 202)%Z then Ok2xx else Failed | None => Failed end in
    match post_step false (q_post r) (Attempt o) with
    | Some p' => Some (set_req s q (WReq (q_key r) (q_part r) (q_wire r) p' (q_served r ++ disp)) disp)
    | None => None
    end.

  Definition wstep (s : wstate) (l : wlabel) : option wstate :=
    match l with
    | WC cl =>
        match cstep (w_cons s) cl with
        | None => None
        | Some c' =>
            let put' := match cl with
                        | Put d => match Consolidator.lookup d (held (w_cons s)) with
                                   | Some h => w_put s ++ [h_batch h] | None => w_put s end
                        | _ => w_put s
                        end in
            let jobs' := match cl, fl (w_cons s) with
                         | DrainEmit, Draining got =>
                             w_jobs s ++ [split_by_tags dyn (merge_maps (map s_map got))]
                         | _, _ => w_jobs s
                         end in
            Some (W c' put' jobs' (w_reqs s) (w_dispatched s))
        end
    | WSkip j i =>
        match nth_error (w_jobs s) j with
        | Some parts =>
            match nth_error parts i with
            | Some (_, p) => if mm_is_empty p
                             then Some (W (w_cons s) (w_put s) (upd j (del i parts) (w_jobs s)) (w_reqs s) (w_dispatched s))
                             else None
            | None => None
            end
        | None => None
        end
    | WPost j i =>
        match nth_error (w_jobs s) j with
        | Some parts =>
            match nth_error parts i with
            | Some (pk, p) => if mm_is_empty p then None
                              else Some (W (w_cons s) (w_put s) (upd j (del i parts) (w_jobs s))
                                           (w_reqs s ++ [WReq pk p None pinit []]) (w_dispatched s))
            | None => None
            end
        | None => None
        end
    | WConstruct q =>
        match nth_error (w_reqs s) q with
        | Some r =>
            let w := post_metrics compress pb_marshal cfg (q_part r) in
            match post_step false (q_post r) (Construct (match w with Some _ => true | None => false end)) with
            | Some p' => Some (set_req s q (WReq (q_key r) (q_part r) w p' (q_served r)) [])
            | None => None
            end
        | None => None
        end
    | WServed q now =>
        match nth_error (w_reqs s) q with
        | Some r => match q_wire r with
                    | Some (hdr, body) =>
                        attempt s q r (Some (metric_handler decompress pb_unmarshal now hdr (Some body))) true
                    | None => None
                    end
        | None => None
        end
    | WLost q =>
        match nth_error (w_reqs s) q with
        | Some r => match q_wire r with Some _ => attempt s q r None false | None => None end
        | None => None
        end
    | WRespLost q now =>
        if lossy then
          match nth_error (w_reqs s) q with
          | Some r => match q_wire r with
                      | Some (hdr, body) =>
                          attempt s q r (Some (metric_handler decompress pb_unmarshal now hdr (Some body))) false
                      | None => None
                      end
          | None => None
          end
        else None
    | WBackoff q =>
        match nth_error (w_reqs s) q with
        | Some r => match post_step false (q_post r) Backoff with
                    | Some p' => Some (set_req s q (WReq (q_key r) (q_part r) (q_wire r) p' (q_served r)) [])
                    | None => None
                    end
        | None => None
        end
    | WStop q =>
        match nth_error (w_reqs s) q with
        | Some r => match post_step false (q_post r) Stop with
                    | Some p' => Some (set_req s q (WReq (q_key r) (q_part r) (q_wire r) p' (q_served r)) [])
                    | None => None
                    end
        | None => None
        end
    end.

  (* ---- vocabulary of the statements ---- *)
  Definition resident_maps (s : wstate) : list mmap := map s_map (resident (w_cons s)).
  Definition job_parts (s : wstate) : list mmap := concat (map (map snd) (w_jobs s)).
  Definition req_parts (s : wstate) : list mmap := map q_part (w_reqs s).
  Definition parts_with (f : pstatus -> bool) (s : wstate) : list mmap :=
    map q_part (List.filter (fun r => f (p_status (q_post r))) (w_reqs s)).
  Definition is_sent (st : pstatus) : bool := match st with SSent => true | _ => false end.
  (* every part has been posted or skipped and every request has ended *)
  Definition w_at_rest (s : wstate) : bool :=
    forallb (fun parts => match parts with [] => true | _ => false end) (w_jobs s)
    && forallb (fun r => match p_phase (q_post r) with PEnd => true | _ => false end) (w_reqs s).
  (* sampled counts are doubles (Model/MetricMap.v adds them exactly; C14's hypothesis) *)
  Definition samp_ok (m : mmap) : Prop := forall key t, timers m !! key = Some t -> is_f64 (t_samp t).
End ForwarderWire.
