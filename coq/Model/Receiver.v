(* Model of DatagramReceiver.Receive (pkg/statsd/receiver.go), the socket-facing loop in front of
   the datagram parser, as a labelled transition system.

     messages := make([]Message, batchSize); retBuffers := ... one pool buffer per slot
     for {
       datagramCount, err := br.ReadBatch(messages); now := NanoNow()
       if err != nil { ...; continue }
       dgs := make([]*Datagram, datagramCount)
       for i := 0; i < datagramCount; i++ {
         buf := messages[i].Buffers[0][:messages[i].N]
         ip := UnknownSource; if local address is not a unix address { ip = getIP(messages[i].Addr) }
         dgs[i] = &Datagram{IP: ip, RMsg: buf, Timestamp: now, DoneFunc: put retBuffers[i] back}
         retBuffers[i] = pool.Get(); messages[i].Buffers = *retBuffers[i]
       }
       out <- dgs }

   One ReadBatch result = one batch handed to the parser, immediately (there is no "batch
   full" condition: GenericBatchReader always returns one datagram, V6BatchReader what
   recvmmsg returned).  The batch is a list of *option* slots because `make([]*Datagram, n)`
   starts out as n nil pointers: a slot the loop does not assign stays nil, and
   DatagramParser.Run dereferences every slot ([deref], explicit panic).  [c_skip_empty]
   selects the seeded variant `if nbytes == 0 { continue }` (kept for the refutation).

   Go operations that can panic are explicit: messages[i] beyond the slots (ReadBatch returning
   more than it was given), Buffers[0][:n] with n beyond the buffer, the nil dereference in
   the parser.  Labels: one per ReadBatch return, and [LDone b] = the parser calls the DoneFunc
   of the datagram that holds buffer b (any interleaving with the reads).
   Not modelled: ctx.Done() exits (shutdown is outside C03), several readers (independent
   instances of this system sharing only the pool), the kernel. *)
From GS Require Import Base.Bytes Base.LTS Model.Lexer Model.DatagramLines.
Local Open Scope N_scope.

Definition buf_size : N := 65535.            (* packetSizeUDP *)

(* the net.Addr ReadBatch reported *)
Inductive addr :=
| RaUdp (ip : str)     (* *net.UDPAddr; [ip] = a.IP.String() *)
| RaOther              (* any other implementation of net.Addr *)
| RaNil.

Definition unknown_source : str := [].       (* gostatsd.UnknownSource = "" *)

(* getIP: the type switch *)
Definition get_ip (a : addr) : str :=
  match a with RaUdp ip => ip | RaOther | RaNil => unknown_source end.

Record message := RMsg { mg_data : str; mg_addr : addr }.   (* N = length mg_data *)

Inductive read_result :=
| RdErr                                   (* ReadBatch returned an error *)
| RdOk (now : Z) (ms : list message).     (* datagramCount = length ms; NanoNow() = now *)

Record datagram := DG { d_ip : str; d_msg : str; d_ts : Z; d_buf : N }.
Definition batch := list (option datagram).

(* sync.Pool of receive buffers; a buffer is its identity *)
Record pool := Pool { p_free : list N; p_next : N }.
Definition pool_get (p : pool) : N * pool :=
  match p_free p with
  | b :: f => (b, Pool f (p_next p))
  | [] => (p_next p, Pool [] (p_next p + 1))
  end.
Definition pool_put (b : N) (p : pool) : pool := Pool (b :: p_free p) (p_next p).

Record config := Cfg {
  c_skip_empty : bool;   (* false: the code as it is; true: the seeded `continue` on nbytes == 0 *)
  c_local_unix : bool    (* c.LocalAddr() is a *net.UnixAddr *)
}.

Inductive fill_result :=
| FPanic
| FOk (b : batch) (slots : list N) (p : pool).

(* the inner loop over i; [sl] = retBuffers[i:], [ms] = messages[i:datagramCount] *)
Fixpoint fill (c : config) (now : Z) (ms : list message) (sl : list N) (p : pool) : fill_result :=
  match ms with
  | [] => FOk [] sl p
  | m :: ms' =>
      match sl with
      | [] => FPanic                                              (* messages[i]: index out of range *)
      | b :: sl' =>
          if c_skip_empty c && (N.of_nat (length (mg_data m)) =? 0) then
            match fill c now ms' sl' p with
            | FPanic => FPanic
            | FOk bt sl'' p' => FOk (None :: bt) (b :: sl'') p'   (* slot stays nil, buffer stays *)
            end
          else if buf_size <? N.of_nat (length (mg_data m)) then FPanic   (* Buffers[0][:nbytes] *)
          else
            let ip := if c_local_unix c then unknown_source else get_ip (mg_addr m) in
            let '(b', p1) := pool_get p in
            match fill c now ms' sl' p1 with
            | FPanic => FPanic
            | FOk bt sl'' p' => FOk (Some (DG ip (mg_data m) now b) :: bt) (b' :: sl'') p'
            end
      end
  end.

Record rstate := RS {
  r_slots : list N;          (* retBuffers *)
  r_pool : pool;
  r_outst : list N;          (* buffers held by datagrams whose DoneFunc has not run yet *)
  r_handed : list batch      (* what went into the channel, oldest first *)
}.

Inductive status := Running (s : rstate) | Crashed.

Inductive label := LRead (r : read_result) | LDone (b : N).

Fixpoint batch_bufs (bt : batch) : list N :=
  match bt with
  | [] => []
  | Some d :: r => d_buf d :: batch_bufs r
  | None :: r => batch_bufs r
  end.

Fixpoint remove_one (b : N) (l : list N) : list N :=
  match l with
  | [] => []
  | x :: r => if x =? b then r else x :: remove_one b r
  end.

Definition step (c : config) (st : status) (l : label) : option status :=
  match st with
  | Crashed => Some Crashed
  | Running s =>
      match l with
      | LRead RdErr => Some (Running s)
      | LRead (RdOk now ms) =>
          match fill c now ms (r_slots s) (r_pool s) with
          | FPanic => Some Crashed
          | FOk bt sl p =>
              Some (Running (RS sl p (r_outst s ++ batch_bufs bt) (r_handed s ++ [bt])))
          end
      | LDone b =>
          if existsb (N.eqb b) (r_outst s)
          then Some (Running (RS (r_slots s) (pool_put b (r_pool s)) (remove_one b (r_outst s)) (r_handed s)))
          else None        (* not a DoneFunc anyone holds: not a run of the system *)
      end
  end.

(* Receive's prologue: one buffer per slot *)
Definition init (batch_size : nat) : rstate :=
  RS (map N.of_nat (seq 0 batch_size)) (Pool [] (N.of_nat batch_size)) [] [].

Definition receive (c : config) (batch_size : nat) (ls : list label) : option status :=
  run (step c) (Running (init batch_size)) ls.

(* DatagramParser.Run: `for _, dg := range dgs { ... dg.Timestamp, dg.IP, dg.Msg ... }` *)
Fixpoint deref (bt : batch) : option (list datagram) :=
  match bt with
  | [] => Some []
  | None :: _ => None                                   (* nil pointer dereference *)
  | Some d :: r => match deref r with Some ds => Some (d :: ds) | None => None end
  end.

(* receiver and parser composed, on a script of ReadBatch results *)
Definition ingest (pf : str -> pfres) (ns : str) (c : config) (batch_size : nat)
  (script : list read_result) : dresult :=
  match receive c batch_size (map LRead script) with
  | Some (Running s) =>
      match deref (concat (r_handed s)) with
      | Some ds => parse_stream pf ns (map d_msg ds) 0 0 0
      | None => DPanic
      end
  | _ => DPanic
  end.

(* ---- specification vocabulary ---- *)

(* what ReadBatch may return when given [batch_size] messages with buffers of [buf_size] bytes *)
Definition wf_read (batch_size : nat) (r : read_result) : Prop :=
  match r with
  | RdErr => True
  | RdOk _ ms =>
      (length ms <= batch_size)%nat
      /\ Forall (fun m => N.of_nat (length (mg_data m)) <= buf_size) ms
  end.

Definition wf_label (batch_size : nat) (l : label) : Prop :=
  match l with LRead r => wf_read batch_size r | LDone _ => True end.

(* a datagram as the property sees it: sender, bytes, receive time *)
Definition seen (d : datagram) : str * str * Z := (d_ip d, d_msg d, d_ts d).

Definition expected_of (c : config) (r : read_result) : list (list (str * str * Z)) :=
  match r with
  | RdErr => []
  | RdOk now ms =>
      [map (fun m => (if c_local_unix c then unknown_source else get_ip (mg_addr m), mg_data m, now)) ms]
  end.

(* the batches a label sequence must produce: one per successful read, in order *)
Fixpoint expected (c : config) (ls : list label) : list (list (str * str * Z)) :=
  match ls with
  | [] => []
  | LRead r :: rest => expected_of c r ++ expected c rest
  | LDone _ :: rest => expected c rest
  end.

Definition current (local_unix : bool) : config := Cfg false local_unix.
Definition seeded (local_unix : bool) : config := Cfg true local_unix.

Definition read_data (r : read_result) : list str :=
  match r with RdErr => [] | RdOk _ ms => map mg_data ms end.
