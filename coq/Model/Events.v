(* Model of the event path of gostatsd (property C19).  Definitions only.

   PART A - what an event line becomes on its way to the backends, as the composition of the
   component models that other properties validate against the code:
     internal/lexer           Lexer.lex                     (C02: an event line -> gostatsd.Event)
     pkg/statsd/parser.go     handleDatagram, event branch  (C05: Source = sender address, always;
                              here also DateHappened == 0 -> time.Now().Unix(), [now])
     handler_cloud.go         Cloud.update_inplace          (C11: instance tags appended, instance id
                              as source after a positive lookup; nothing otherwise)
     handler_tags.go          Tags.dispatch_event           (C10: uniqueTags(e.Tags, static tags))
     handler_backend.go       every backend gets the SAME *Event (fan-out, part B)
   and for the forwarder: handler_http_forwarder_v2.go dispatchEvent = Wire.event_to_pb,
   pkg/web/http_receiver_v2.go EventHandler = Wire.event_from_pb (C14), followed by the ingesting
   server's own cloud / tag stage.
   The three component models carry gostatsd.Event in three records (Lexer.event, Cloud.cevent,
   Wire.event: same fields, enum bytes as N or Z); [to_cevent], [to_wire], [of_wire] convert.

   PART B - the labelled transition system of the event bookkeeping: CloudHandler.wg (+1 per
   parked event, -n when updateAndDispatchEvents has dispatched its n events) and
   BackendHandler.DispatchEvent / internalDispatchEvent (eventWg.Add(len(backends)); per backend
   a select between ctx.Done and a semaphore token; one goroutine per (event, backend): SendEvent,
   then - deferred, in this order - token release and eventWg.Done).  One label = one atomic
   action of the Go code.  sync.WaitGroup panics when its counter goes negative: that is the
   explicit [panicked] state (no label is enabled afterwards).  Events are identified by numbers;
   nothing requires them to be distinct.
   Over-approximations (supersets of the code's behaviours, so the theorems cover the code):
   a dispatcher's context may be done at any time ([Cancel] always enabled); a releaser may take
   its next event while its previous DispatchEvent call is still handing out tokens;
   handleInstanceInfo releases all events parked for one source - which events those are is the
   cloud stage's business (C11), here ANY non-empty sub-multiset of the parked events may leave.
   Not modelled: context cancellation at the cloud stage's channel hand-off (the event is dropped
   by design), the 20 s timeout context given to SendEvent, WaitGroup misuse panics. *)
From stdpp Require Import list list_numbers.
From RecordUpdate Require Import RecordSet.
Import RecordSetNotations.
From GS Require Import Base.Bytes Model.Lexer Model.LexGrammar Model.Datagram Model.Cloud Model.Tags.
From GS Require Model.Wire.

(* ---------------------------------------------------------------------------------------- *)
(* PART A: the event path *)

(* parser.go handleDatagram: event.Source = ip; if event.DateHappened == 0 { = time.Now().Unix() } *)
Definition parser_event (now : Z) (ip : str) (e : Lexer.event) : Lexer.event :=
  let e1 := stamp_event ip e in
  if (Lexer.e_date e1 =? 0)%Z then set_date_z e1 now else e1.

Definition to_cevent (e : Lexer.event) : cevent :=
  CEvent (Lexer.e_title e) (Lexer.e_text e) (Lexer.e_date e) (Lexer.e_key e) (Lexer.e_stype e)
         (Lexer.e_tags e) (Lexer.e_host e) (Z.of_N (Lexer.e_pri e)) (Z.of_N (Lexer.e_alert e)).

(* CloudHandler: updateInplace(e, instance) with the instance of the lookup's answer *)
Definition cloud_event (io : option instance) (e : cevent) : cevent :=
  match update_inplace io (IE e) with IE e' => e' | IM _ => e end.

(* TagHandler.DispatchEvent: e.Tags = uniqueTags(e.Tags, th.tags) *)
Definition tag_event (th : tag_handler) (e : cevent) : res cevent :=
  do! t := dispatch_event th (ev_tags e) in Done (event_retag (ev_src e) t e).

Inductive delivery :=
| Delivered (e : cevent)   (* the argument of Backend.SendEvent, the same for every backend *)
| NoEvent                  (* the line is a metric or is rejected *)
| Crash.                   (* a Go panic on the way *)

(* standalone server: parser -> cloud handler -> tag handler -> backend handler.
   [io] = the answer of the cloud stage for the sender (None: negative / failed lookup, or no
   cloud provider configured) *)
Definition standalone (pf : str → pfres) (ns : str) (th : tag_handler) (now : Z) (ip : str)
    (io : option instance) (line : str) : delivery :=
  match lex pf ns line with
  | OEvent e =>
      match tag_event th (cloud_event io (to_cevent (parser_event now ip e))) with
      | Done e' => Delivered e'
      | _ => Crash
      end
  | OPanic => Crash
  | _ => NoEvent
  end.

Definition to_wire (e : cevent) : Wire.event :=
  Wire.MkEvent (ev_title e) (ev_text e) (ev_date e) (ev_agg e) (ev_stn e) (ev_tags e) (ev_src e)
               (Z.to_N (ev_prio e)) (Z.to_N (ev_alert e)).
Definition of_wire (e : Wire.event) : cevent :=
  CEvent (Wire.e_title e) (Wire.e_text e) (Wire.e_date e) (Wire.e_aggkey e) (Wire.e_srctype e)
         (Wire.e_tags e) (Wire.e_source e) (Z.of_N (Wire.e_priority e)) (Z.of_N (Wire.e_alert e)).

(* HttpForwarderHandlerV2.dispatchEvent's message; EventHandler's event *)
Definition forward (e : cevent) : Wire.pb_event := Wire.event_to_pb (to_wire e).
Definition ingest (p : Wire.pb_event) : cevent := of_wire (Wire.event_from_pb p).

(* an event posted to the ingestion endpoint: the server's cloud stage (keyed on the Hostname
   field), its tag stage, its backends *)
Definition ingested (th : tag_handler) (io : option instance) (p : Wire.pb_event) : delivery :=
  match tag_event th (cloud_event io (ingest p)) with Done e => Delivered e | _ => Crash end.

(* forwarder mode: the forwarder's own parser / cloud / tag stages, then the wire, then the
   ingesting server *)
Definition forwarded (pf : str → pfres) (ns : str) (thF : tag_handler) (now : Z) (ip : str)
    (ioF : option instance) (thS : tag_handler) (ioS : option instance) (line : str) : delivery :=
  match standalone pf ns thF now ip ioF line with
  | Delivered e => ingested thS ioS (forward e)
  | d => d
  end.

(* specification vocabulary: the tags of [l] without repetitions, first occurrences kept *)
Definition dedup (l : list str) : list str := first_occ [] l.
Definition inst_tags_of (io : option instance) : list str :=
  match io with Some i => inst_tags i | None => [] end.

(* ---------------------------------------------------------------------------------------- *)
(* PART B: the bookkeeping LTS *)

Record fcfg := FCfg {
  nb : nat;     (* len(bh.backends) *)
  cap : nat     (* cap(bh.concurrentEvents) = max-concurrent-events *)
}.

Inductive phase :=
| PSpawned      (* go func(b) { ... } started, holds a token *)
| PCalling      (* inside backend.SendEvent *)
| PSent         (* SendEvent has returned *)
| PReleased.    (* <-bh.concurrentEvents done; eventWg.Done() is next *)

Record goroutine := Go { g_ev : N; g_b : nat; g_ph : phase }.
(* a DispatchEvent call inside its loop: the event and eventsDispatched (= index of the next backend) *)
Record dispatcher := Disp { d_ev : N; d_k : nat }.
(* updateAndDispatchEvents: events still to dispatch, and its counter [dispatched] *)
Record releaser := Rel { r_todo : list N; r_n : nat }.

Record fstate := FS {
  wg : Z;                        (* BackendHandler.eventWg *)
  sem : nat;                     (* len(bh.concurrentEvents): tokens taken *)
  cwg : Z;                       (* CloudHandler.wg *)
  disp : list dispatcher;
  gos : list goroutine;
  parked : list N;               (* awaitingEvents, all sources together, in arrival order *)
  rels : list releaser;
  sent : list (N * nat);         (* ghost: completed SendEvent calls (event, backend) *)
  entered : list N;              (* ghost: BackendHandler.DispatchEvent calls *)
  arrived : list N;              (* ghost: CloudHandler.DispatchEvent calls *)
  skipped : list dispatcher;     (* ghost: DispatchEvent calls that left through ctx.Done *)
  panicked : bool
}.
#[export] Instance eta_fstate : Settable _ :=
  settable! FS <wg; sem; cwg; disp; gos; parked; rels; sent; entered; arrived; skipped; panicked>.

Definition finit : fstate := FS 0 0 0 [] [] [] [] [] [] [] [] false.

Inductive flabel :=
| Arrive (e : N) (hit : bool)    (* CloudHandler.DispatchEvent(e); hit = cache hit or empty source *)
| Release (es : list N)          (* handleInstanceInfo: parked events leave to a new updateAndDispatchEvents goroutine *)
| RelNext (r : nat)              (* releaser r: updateInplace, dispatched++, handler.DispatchEvent(e) *)
| RelDone (r : nat)              (* releaser r: ch.wg.Add(-dispatched) *)
| Spawn (d : nat)                (* dispatcher d: case bh.concurrentEvents <- struct{}{}: go ...; eventsDispatched++ *)
| Cancel (d : nat)               (* dispatcher d: case <-ctx.Done(): eventWg.Add(eventsDispatched - len(backends)) *)
| SendCall (g : nat)             (* goroutine g enters backend.SendEvent *)
| SendRet (g : nat)              (* ... which returns - nil or an error, the deferred steps are the same *)
| SemRelease (g : nat)           (* deferred <-bh.concurrentEvents *)
| WgDone (g : nat)               (* deferred bh.eventWg.Done() *)
| WaitCloud                      (* CloudHandler.WaitForEvents: ch.wg.Wait() returns *)
| WaitBackend.                   (* BackendHandler.WaitForEvents: bh.eventWg.Wait() returns *)

(* sync.WaitGroup.Add: a negative counter panics *)
Definition check_wg (st : fstate) : fstate :=
  if ((wg st <? 0) || (cwg st <? 0))%Z then st <| panicked := true |> else st.

(* TagHandler.DispatchEvent -> BackendHandler.DispatchEvent: eventWg.Add(len(bh.backends)), then the
   loop; without backends the call returns at once *)
Definition enter (c : fcfg) (e : N) (st : fstate) : fstate :=
  st <| wg := (wg st + Z.of_nat (nb c))%Z |> <| entered := entered st ++ [e] |>
     <| disp := if (nb c =? 0)%nat then disp st else disp st ++ [Disp e 0] |>.

Definition set_phase (g : nat) (x : goroutine) (p : phase) (st : fstate) : fstate :=
  st <| gos := <[g := Go (g_ev x) (g_b x) p]> (gos st) |>.

(* remove one occurrence of e / of every element of es; None = not there *)
Fixpoint take_out (e : N) (l : list N) : option (list N) :=
  match l with
  | [] => None
  | x :: r => if (x =? e)%N then Some r else cons x <$> take_out e r
  end.
Fixpoint take_all (es l : list N) : option (list N) :=
  match es with
  | [] => Some l
  | e :: r => match take_out e l with Some l' => take_all r l' | None => None end
  end.

Definition fstep (c : fcfg) (st : fstate) (l : flabel) : option fstate :=
  if panicked st then None else
  match l with
  | Arrive e true => Some (enter c e (st <| arrived := arrived st ++ [e] |>))
  | Arrive e false =>         (* ch.wg.Add(1); ch.incomingEvents <- e; handleIncomingEvent *)
      Some (st <| cwg := (cwg st + 1)%Z |> <| parked := parked st ++ [e] |>
               <| arrived := arrived st ++ [e] |>)
  | Release es =>
      match es, take_all es (parked st) with
      | _ :: _, Some rest =>                (* if len(events) > 0 *)
          Some (st <| parked := rest |> <| rels := rels st ++ [Rel es 0] |>)
      | _, _ => None
      end
  | RelNext r =>
      match rels st !! r with
      | Some (Rel (e :: todo) n) => Some (enter c e (st <| rels := <[r := Rel todo (S n)]> (rels st) |>))
      | _ => None
      end
  | RelDone r =>
      match rels st !! r with
      | Some (Rel [] n) =>
          Some (check_wg (st <| rels := delete r (rels st) |> <| cwg := (cwg st - Z.of_nat n)%Z |>))
      | _ => None
      end
  | Spawn d =>
      match disp st !! d with
      | Some (Disp e k) =>
          if (sem st <? cap c)%nat then
            Some (st <| sem := S (sem st) |> <| gos := gos st ++ [Go e k PSpawned] |>
                     <| disp := if (S k =? nb c)%nat then delete d (disp st)
                                else <[d := Disp e (S k)]> (disp st) |>)
          else None                         (* the channel is full: the send blocks *)
      | None => None
      end
  | Cancel d =>
      match disp st !! d with
      | Some (Disp e k) =>
          Some (check_wg (st <| disp := delete d (disp st) |> <| skipped := skipped st ++ [Disp e k] |>
                             <| wg := (wg st + (Z.of_nat k - Z.of_nat (nb c)))%Z |>))
      | None => None
      end
  | SendCall g =>
      match gos st !! g with
      | Some (Go e b PSpawned as x) => Some (set_phase g x PCalling st)
      | _ => None
      end
  | SendRet g =>
      match gos st !! g with
      | Some (Go e b PCalling as x) => Some (set_phase g x PSent (st <| sent := sent st ++ [(e, b)] |>))
      | _ => None
      end
  | SemRelease g =>
      match gos st !! g with
      | Some (Go e b PSent as x) =>
          match sem st with
          | S n => Some (set_phase g x PReleased (st <| sem := n |>))
          | O => None                       (* receive from an empty channel blocks *)
          end
      | _ => None
      end
  | WgDone g =>
      match gos st !! g with
      | Some (Go e b PReleased) =>
          Some (check_wg (st <| gos := delete g (gos st) |> <| wg := (wg st - 1)%Z |>))
      | _ => None
      end
  | WaitCloud => if (cwg st =? 0)%Z then Some st else None
  | WaitBackend => if (wg st =? 0)%Z then Some st else None
  end.

(* ---- specification vocabulary ----------------------------------------------------------- *)

Fixpoint cnt {A} (p : A → bool) (l : list A) : nat :=
  match l with [] => 0 | x :: r => Nat.b2n (p x) + cnt p r end.

Definition is_ev (e : N) (x : N) : bool := (x =? e)%N.
(* SendEvent(e) has returned on backend b: how many times *)
Definition nsent (st : fstate) (e : N) (b : nat) : nat :=
  cnt (λ p : N * nat, (p.1 =? e)%N && (p.2 =? b)%nat) (sent st).
(* a goroutine for (e, b) exists and has not yet returned from SendEvent *)
Definition inflight (st : fstate) (e : N) (b : nat) : nat :=
  cnt (λ g, (g_ev g =? e)%N && (g_b g =? b)%nat &&
            match g_ph g with PSpawned | PCalling => true | _ => false end) (gos st).
(* a DispatchEvent(e) call is in its loop and has not reached backend b yet *)
Definition todo (st : fstate) (e : N) (b : nat) : nat :=
  cnt (λ d, (d_ev d =? e)%N && (d_k d <=? b)%nat) (disp st).
(* a DispatchEvent(e) call was cancelled before it reached backend b *)
Definition skip (st : fstate) (e : N) (b : nat) : nat :=
  cnt (λ d, (d_ev d =? e)%N && (d_k d <=? b)%nat) (skipped st).
Definition nentered (st : fstate) (e : N) : nat := cnt (is_ev e) (entered st).
Definition narrived (st : fstate) (e : N) : nat := cnt (is_ev e) (arrived st).

(* goroutines holding a semaphore token *)
Definition holding (st : fstate) : nat :=
  cnt (λ g, match g_ph g with PReleased => false | _ => true end) (gos st).
(* SendEvent calls in progress *)
Definition calling (st : fstate) : nat :=
  cnt (λ g, match g_ph g with PCalling => true | _ => false end) (gos st).
(* deliveries the backend handler still owes: backends not yet reached by the running
   DispatchEvent calls, plus live goroutines *)
Definition outstanding (c : fcfg) (st : fstate) : nat :=
  sum_list_with (λ d, nb c - d_k d) (disp st) + length (gos st).
(* events the cloud stage still holds: parked, or with a releaser *)
Definition held (st : fstate) : nat :=
  length (parked st) + sum_list_with (λ r, length (r_todo r) + r_n r) (rels st).

(* the cloud stage still holds event e (parked, or with a releaser that has not dispatched it) *)
Definition waiting (st : fstate) (e : N) : nat :=
  cnt (is_ev e) (parked st) + sum_list_with (λ r, cnt (is_ev e) (r_todo r)) (rels st).

(* nothing is in progress anywhere *)
Definition quiescent (st : fstate) : Prop :=
  parked st = [] ∧ rels st = [] ∧ disp st = [] ∧ gos st = [].

(* the events of the arrival labels *)
Definition arrivals_of (ls : list flabel) : list N :=
  omap (λ l, match l with Arrive e _ => Some e | _ => None end) ls.
Definition is_cancel (l : flabel) : bool := match l with Cancel _ => true | _ => false end.
Definition is_arrive (l : flabel) : bool := match l with Arrive _ _ => true | _ => false end.
(* the steps the handlers take on their own: not an arrival, not a cancellation, not a Wait *)
Definition internal (l : flabel) : bool :=
  match l with Arrive _ _ | Cancel _ | WaitCloud | WaitBackend => false | _ => true end.
