(* A reference reader of the InfluxDB line protocol, for the subset the gostatsd backend emits
   for metrics:

     line        = measurement { "," tag-key "=" tag-value } " " field { "," field } " " timestamp "\n"
     field       = field-key "=" number
     number      = [ "+" | "-" ] ( digit+ [ "." digit* ] | "." digit+ ) [ ("e" | "E") [ "+" | "-" ] digit+ ]
     timestamp   = [ "-" ] digit+

   as in the InfluxDB reference (docs "Line protocol" and models/points.go): the measurement ends
   at the first unescaped ',' or ' ', tag keys / values and field keys at the first unescaped ','
   '=' or ' '; a backslash escapes the byte that follows it; a line starting with '#' is a
   comment; measurement, tag keys, tag values and field keys must not be empty; there is no
   literal for infinities or NaN.  The splitting is the reference's; the DECODING of an escaped
   segment is the inverse of gostatsd's escapers (Model/InfluxEsc.v unescape_*: backslash-n / r /
   t stand for the control characters, a backslash before any other byte is dropped).

   [strict = false] keeps the splitting and drops the two validity checks (non-empty tag parts,
   number syntax): the correspondence uses it to read the payloads of the known-finding streams
   F4 / F5, whose lines the strict reader -- rightly -- rejects. *)
From GS Require Import Base.Bytes Model.Batching Model.InfluxEsc.
Local Open Scope N_scope.

Record lp_rec := MkLP {
  lp_name : str;                       (* decoded measurement *)
  lp_tags : list (str * str);          (* decoded key, decoded value, in line order *)
  lp_fields : list (str * str);        (* decoded key, value text *)
  lp_ts : Z
}.

(* ---- scanning *)
Definition stop_meas (ch : N) : bool := (ch =? c_comma) || (ch =? c_space).
Definition stop_tag (ch : N) : bool := (ch =? c_comma) || (ch =? c_eq) || (ch =? c_space).

(* the segment up to the first unescaped stop byte (escapes kept), and the rest *)
Fixpoint scan (stop : N -> bool) (s : str) : str * str :=
  match s with
  | [] => ([], [])
  | ch :: r =>
      if ch =? c_bslash then
        match r with
        | [] => ([ch], [])
        | x :: r' => let (a, b) := scan stop r' in (ch :: x :: a, b)
        end
      else if stop ch then ([], s)
      else let (a, b) := scan stop r in (ch :: a, b)
  end.
(* the same without escapes (field values, timestamp) *)
Fixpoint scan_plain (stop : N -> bool) (s : str) : str * str :=
  match s with
  | [] => ([], [])
  | ch :: r => if stop ch then ([], s) else let (a, b) := scan_plain stop r in (ch :: a, b)
  end.

(* ---- numbers *)
Inductive nstate := NStart | NSign | NInt | NDot0 | NFrac | NE0 | NE1 | NExp.
Definition is_e (b : N) : bool := (b =? 101) || (b =? 69).
Definition is_sign (b : N) : bool := (b =? 43) || (b =? c_dash).
Definition num_step (st : nstate) (b : N) : option nstate :=
  match st with
  | NStart => if is_sign b then Some NSign else if is_digit b then Some NInt
              else if b =? c_dot then Some NDot0 else None
  | NSign => if is_digit b then Some NInt else if b =? c_dot then Some NDot0 else None
  | NInt => if is_digit b then Some NInt else if b =? c_dot then Some NFrac
            else if is_e b then Some NE0 else None
  | NDot0 => if is_digit b then Some NFrac else None
  | NFrac => if is_digit b then Some NFrac else if is_e b then Some NE0 else None
  | NE0 => if is_sign b then Some NE1 else if is_digit b then Some NExp else None
  | NE1 => if is_digit b then Some NExp else None
  | NExp => if is_digit b then Some NExp else None
  end.
Definition num_accept (st : nstate) : bool :=
  match st with NInt | NFrac | NExp => true | _ => false end.
Fixpoint num_run (st : nstate) (s : str) : bool :=
  match s with
  | [] => num_accept st
  | b :: r => match num_step st b with Some st' => num_run st' r | None => false end
  end.
Definition is_number_lit (s : str) : bool := num_run NStart s.

(* [-]digit+ *)
Fixpoint read_digits (acc : N) (s : str) : option N :=
  match s with
  | [] => Some acc
  | b :: r => if is_digit b then read_digits (acc * 10 + (b - c_0)) r else None
  end.
Definition read_nat (s : str) : option N :=
  match s with [] => None | _ => read_digits 0 s end.
Definition read_int (s : str) : option Z :=
  match s with
  | b :: r => if b =? c_dash then match read_nat r with Some n => Some (- Z.of_N n)%Z | None => None end
              else match read_nat s with Some n => Some (Z.of_N n) | None => None end
  | [] => None
  end.

Definition is_nil {A} (l : list A) : bool := match l with [] => true | _ => false end.

(* ---- tag set: [s] starts at the byte after the measurement.  Returns the tags and what
   follows the space that ends the tag set.  Fuel: one unit per tag. *)
Fixpoint parse_tags (strict : bool) (fuel : nat) (s : str) : option (list (str * str) * str) :=
  match s with
  | [] => None
  | ch :: r =>
      if ch =? c_space then Some ([], r)
      else if ch =? c_comma then
        match fuel with
        | O => None
        | S f =>
            let (k, r1) := scan stop_tag r in
            match r1 with
            | c1 :: r2 =>
                if c1 =? c_eq then
                  let (v, r3) := scan stop_tag r2 in
                  if strict && (is_nil k || is_nil v) then None
                  else match parse_tags strict f r3 with
                       | Some (ts, rest) => Some ((unescape_tag k, unescape_tag v) :: ts, rest)
                       | None => None
                       end
                else None
            | [] => None
            end
        end
      else None
  end.

(* ---- field set: [s] starts at a field key.  Returns the fields and what follows the space
   that ends the field set. *)
Fixpoint parse_fields (strict : bool) (fuel : nat) (s : str) : option (list (str * str) * str) :=
  match fuel with
  | O => None
  | S f =>
      let (k, r1) := scan stop_tag s in
      match r1 with
      | c1 :: r2 =>
          if c1 =? c_eq then
            let (v, r3) := scan_plain stop_meas r2 in
            if is_nil k then None
            else if strict && negb (is_number_lit v) then None
            else match r3 with
                 | c3 :: r4 =>
                     if c3 =? c_comma then
                       match parse_fields strict f r4 with
                       | Some (fs, rest) => Some ((unescape_tag k, v) :: fs, rest)
                       | None => None
                       end
                     else Some ([(unescape_tag k, v)], r4)        (* c3 is the space *)
                 | [] => None
                 end
          else None
      | [] => None
      end
  end.

(* ---- a whole line, including its newline *)
Definition influx_parse_gen (strict : bool) (line : str) : option lp_rec :=
  match line with
  | [] => None
  | b :: _ =>
      if b =? c_hash then None
      else
        let (m, r1) := scan stop_meas line in
        if is_nil m then None
        else match parse_tags strict (length line) r1 with
             | None => None
             | Some (tags, r2) =>
                 match parse_fields strict (length line) r2 with
                 | None => None
                 | Some (fields, r3) =>
                     let (t, r4) := scan_plain (N.eqb c_nl) r3 in
                     match r4 with
                     | [_] => match read_int t with
                              | Some z => Some (MkLP (unescape_name m) tags fields z)
                              | None => None
                              end
                     | _ => None
                     end
                 end
             end
  end.
Definition influx_parse : str -> option lp_rec := influx_parse_gen true.

(* ---- what a pre-line of the model must read back as: the name, the grouped tags (sorted keys,
   each with its sorted values joined by "__" -- formatNameTags' own, lossy, rendering of a
   repeated key), the fields, the timestamp *)
Definition lp_of (now : Z) (p : ipre) : lp_rec :=
  let '(name, tags, fields) := p in
  MkLP name (map (fun kv => (fst kv, join_str s_uu (snd kv))) (influx_groups tags)) fields now.

(* the side conditions of the round trip *)
Definition field_key_ok (k : str) : bool :=
  negb (is_nil k) && forallb (fun b => negb (stop_tag b) && negb (b =? c_bslash)) k.
Definition ipre_ok (p : ipre) : Prop :=
  let '(name, tags, fields) := p in
  (* measurement: not empty, not a comment *)
  match name with [] => False | b :: _ => b <> c_hash end
  (* F5: no tag key is empty and no tag's (joined) value is empty *)
  /\ Forall (fun kv => fst kv <> [] /\ join_str s_uu (snd kv) <> []) (influx_groups tags)
  (* at least one field; field keys are plain; F4: every value is a number literal *)
  /\ fields <> []
  /\ Forall (fun f => field_key_ok (fst f) = true /\ is_number_lit (snd f) = true) fields.

(* all lines of a body: split after every newline *)
Fixpoint split_lines (cur : str) (s : str) : list str :=
  match s with
  | [] => match cur with [] => [] | _ => [rev cur] end
  | b :: r => if b =? c_nl then rev (b :: cur) :: split_lines [] r else split_lines (b :: cur) r
  end.
