(* Model of the tag stage: pkg/statsd/handler_tags.go (TagHandler), pkg/statsd/filtering.go
   (Filter) and matcher.go (StringMatch, StringMatchList).  Definitions only.

   - regexp is not modelled: [re_ok] (does regexp.Compile accept the pattern) and [re_match]
     (MatchString of the compiled pattern) are Section variables (DESIGN 3.3); the
     correspondence supplies the table observed from Go's regexp.
   - Go's [seen] / [dropTags] maps (map[string]struct{}) are lists used only through
     membership ([mem_str]).
   - uniqueTagsWithSeen is modelled as the in-place swap-with-last loop that it is, over an
     index into the slice, with fuel = len(t1).  Index expressions that Go would panic on
     give [GoPanic], fuel exhaustion gives [OutOfFuel]; Proofs/Tags.v shows that neither
     happens.
   - DispatchMetricMap ranges over Go maps in an unspecified order: [dispatch_list] takes the
     iteration order as a list, [dispatch] uses the canonical order of the gmap.  The theorems
     are about every order. *)
From stdpp Require Import gmap.
From Coq Require Import QArith Qcanon.
From GS Require Import Base.Bytes Model.Lexer Model.Series Model.MetricMap.

Inductive res (A : Type) : Type :=
| Done (a : A)
| GoPanic      (* index out of range / regexp.MustCompile panic *)
| OutOfFuel.   (* the loop did not finish within len(t1) iterations *)
Arguments Done {A} a.
Arguments GoPanic {A}.
Arguments OutOfFuel {A}.

Definition rbind {A B} (o : res A) (f : A → res B) : res B :=
  match o with Done a => f a | GoPanic => GoPanic | OutOfFuel => OutOfFuel end.
Notation "'do!' x ':=' e 'in' f" := (rbind e (λ x, f))
  (at level 200, x name, e at level 100, f at level 200, right associativity).

Fixpoint rmapM {A B} (f : A → res B) (l : list A) : res (list B) :=
  match l with
  | [] => Done []
  | a :: r => do! b := f a in do! bs := rmapM f r in Done (b :: bs)
  end.

Fixpoint rfoldM {A S} (f : S → A → res S) (s : S) (l : list A) : res S :=
  match l with
  | [] => Done s
  | a :: r => do! s' := f s a in rfoldM f s' r
  end.

(* ---------------------------------------------------------------------------------------- *)
(* strings *)

Definition c_bang : N := 33%N.
Definition c_star : N := 42%N.
Definition regex_marker : str := [114; 101; 103; 101; 120; 58]%N. (* "regex:" *)

(* strings.HasPrefix(s, p) *)
Fixpoint str_has_prefix (p s : str) : bool :=
  match p, s with
  | [], _ => true
  | a :: p', b :: s' => (a =? b)%N && str_has_prefix p' s'
  | _ :: _, [] => false
  end.

(* strings.HasSuffix(s, "*") *)
Definition ends_with_star (s : str) : bool :=
  match list.last s with Some c => (c =? c_star)%N | None => false end.

(* _, ok := seen[tag] *)
Definition mem_str (t : str) (seen : list str) : bool := existsb (str_eqb t) seen.

(* ---------------------------------------------------------------------------------------- *)
(* matcher.go *)

Record smatch := MkSM {
  sm_test : str;
  sm_invert : bool;
  sm_prefix : bool;
  sm_regex : bool   (* regex != nil; the compiled pattern is [sm_test] *)
}.

Record filter := MkFilter {
  f_match_metrics : list smatch;
  f_exclude_metrics : list smatch;
  f_match_tags : list smatch;
  f_drop_tags : list smatch;
  f_drop_metric : bool;
  f_drop_host : bool
}.

(* the configuration of one filter as pattern strings *)
Record raw_filter := MkRaw {
  r_match_metrics : list str;
  r_exclude_metrics : list str;
  r_match_tags : list str;
  r_drop_tags : list str;
  r_drop_metric : bool;
  r_drop_host : bool
}.

Record tag_handler := MkTH { th_tags : list str; th_filters : list filter }.

Section WithRegexp.
  Variable re_ok : str → bool.            (* regexp.Compile(p) succeeds *)
  Variable re_match : str → str → bool.   (* regexp.MustCompile(p).MatchString(s) *)

  (* NewStringMatch *)
  Definition new_string_match (s : str) : res smatch :=
    let invert := str_has_prefix [c_bang] s in
    let s := if invert then drop 1 s else s in
    if str_has_prefix regex_marker s then
      let p := drop 6 s in
      if re_ok p then Done (MkSM p invert false true) else GoPanic
    else if ends_with_star s then Done (MkSM (removelast s) invert true false)
    else Done (MkSM s invert false false).

  (* StringMatch.Match; Go's [a != b] on booleans is xorb *)
  Definition sm_match (sm : smatch) (s : str) : bool :=
    if sm_regex sm then xorb (re_match (sm_test sm) s) (sm_invert sm)
    else if sm_prefix sm then xorb (str_has_prefix (sm_test sm) s) (sm_invert sm)
    else xorb (str_eqb s (sm_test sm)) (sm_invert sm).

  (* StringMatchList.MatchAny *)
  Fixpoint match_any (sml : list smatch) (s : str) : bool :=
    match sml with
    | [] => false
    | sm :: r => if sm_match sm s then true else match_any r s
    end.

  (* StringMatchList.MatchAnyMultiple *)
  Fixpoint match_any_multiple (sml : list smatch) (tests : list str) : bool :=
    match tests with
    | [] => false
    | s :: r => if match_any sml s then true else match_any_multiple sml r
    end.

  (* toStringMatch / NewFilterFromViper *)
  Definition new_filter (r : raw_filter) : res filter :=
    do! mm := rmapM new_string_match (r_match_metrics r) in
    do! em := rmapM new_string_match (r_exclude_metrics r) in
    do! mt := rmapM new_string_match (r_match_tags r) in
    do! dt := rmapM new_string_match (r_drop_tags r) in
    Done (MkFilter mm em mt dt (r_drop_metric r) (r_drop_host r)).

  (* -------------------------------------------------------------------------------------- *)
  (* uniqueTagsWithSeen: first loop.  [t1] is the current slice t1[:last] (so last = len t1),
     [idx] the loop index, [seen] the map. *)
  Fixpoint uniq_loop (fuel : nat) (t1 : list str) (idx : nat) (seen : list str)
    : res (list str * list str) :=
    if negb (idx <? length t1)%nat then Done (t1, seen)
    else match fuel with
         | O => OutOfFuel
         | S fuel' =>
             match t1 !! idx with                 (* tag := t1[idx] *)
             | None => GoPanic
             | Some tag =>
                 if mem_str tag seen then
                   let last := pred (length t1) in   (* last-- *)
                   match t1 !! last with             (* t1[idx] = t1[last]; t1 = t1[:last] *)
                   | None => GoPanic
                   | Some x => uniq_loop fuel' (take last (<[idx := x]> t1)) idx seen
                   end
                 else uniq_loop fuel' t1 (S idx) (tag :: seen)   (* seen[tag] = present; idx++ *)
             end
         end.

  (* second loop: for _, tag := range t2 { if !seen[tag] { t1 = append(t1, tag) } } *)
  Fixpoint append_unseen (seen : list str) (t1 t2 : list str) : list str :=
    match t2 with
    | [] => t1
    | tag :: r => if mem_str tag seen then append_unseen seen t1 r
                  else append_unseen seen (t1 ++ [tag]) r
    end.

  Definition unique_tags_with_seen (seen t1 t2 : list str) : res (list str) :=
    do! r := uniq_loop (length t1) t1 0 seen in
    Done (append_unseen r.2 r.1 t2).

  Definition unique_tags (t1 t2 : list str) : res (list str) := unique_tags_with_seen [] t1 t2.

  (* NewTagHandler (the EstimatedTags hint is not modelled) *)
  Definition new_tag_handler (tags : list str) (filters : list filter) : res tag_handler :=
    do! tags' := unique_tags tags [] in Done (MkTH tags' filters).

  Definition build_handler (tags : list str) (raw : list raw_filter) : res tag_handler :=
    do! fs := rmapM new_filter raw in new_tag_handler tags fs.

  (* -------------------------------------------------------------------------------------- *)
  (* uniqueFilterAndAddTags *)

  (* for _, dropFilter := range filter.DropTags { for _, tag := range *mTags {
       if dropFilter.Match(tag) { dropTags[tag] = present } } } *)
  Definition add_drops (drops : list smatch) (tags : list str) (acc : list str) : list str :=
    fold_left (λ acc df, fold_left (λ acc tag, if sm_match df tag then tag :: acc else acc) tags acc)
              drops acc.

  (* the filter loop; None = "return false" (drop the metric), otherwise the final dropTags
     and *mHostname *)
  Fixpoint run_filters (fs : list filter) (name : str) (tags : list str)
           (drop_tags : list str) (src : str) : option (list str * str) :=
    match fs with
    | [] => Some (drop_tags, src)
    | f :: r =>
        if (0 <? length (f_match_metrics f))%nat && negb (match_any (f_match_metrics f) name)
        then run_filters r name tags drop_tags src
        else if match_any (f_exclude_metrics f) name
        then run_filters r name tags drop_tags src
        else if (0 <? length (f_match_tags f))%nat && negb (match_any_multiple (f_match_tags f) tags)
        then run_filters r name tags drop_tags src
        else if f_drop_metric f then None
        else run_filters r name tags (add_drops (f_drop_tags f) tags drop_tags)
                         (if f_drop_host f then [] else src)
    end.

  (* result: None = drop; Some (source, tags) *)
  Definition unique_filter_add (th : tag_handler) (name src : str) (tags : list str)
    : res (option (str * list str)) :=
    if (length (th_filters th) =? 0)%nat then
      do! t := unique_tags tags (th_tags th) in Done (Some (src, t))
    else
      match run_filters (th_filters th) name tags [] src with
      | None => Done None
      | Some (drop_tags, src') =>
          do! t := unique_tags_with_seen drop_tags tags (th_tags th) in Done (Some (src', t))
      end.

  (* DispatchEvent *)
  Definition dispatch_event (th : tag_handler) (tags : list str) : res (list str) :=
    unique_tags tags (th_tags th).

  (* -------------------------------------------------------------------------------------- *)
  (* DispatchMetricMap.  The four blocks of the Go code differ only in the series type and in
     what happens when the new key is already present; the collision code is, field by field,
     MergeCounter / MergeGauge / MergeTimer / MergeSet of Model/MetricMap.v (gauge: the
     original replaces the stored one iff its timestamp is strictly greater). *)
  Section Kind.
    Context {V : Type}.
    Variable src_of : V → str.
    Variable tags_of : V → list str.
    Variable retag : V → str → list str → V.   (* the copy with *mHostname / *mTags written *)
    Variable collide : V → V → V.              (* stored series, original series *)

    (* the body of the Each callback up to the computation of the new key; FormatTagsKey
       sorts the tag slice in place, so the series that is stored carries sorted tags *)
    Definition rekey (th : tag_handler) (e : skey * V) : res (option (skey * V)) :=
      let '((name, _), v) := e in
      do! r := unique_filter_add th name (src_of v) (tags_of v) in
      Done (match r with
            | None => None
            | Some (src', tags') => Some ((name, tags_key src' tags'), retag v src' (sort_tags tags'))
            end).

    Definition put (acc : gmap skey V) (kv : skey * V) : gmap skey V :=
      match acc !! kv.1 with
      | Some stored => <[kv.1 := collide stored kv.2]> acc
      | None => <[kv.1 := kv.2]> acc
      end.

    Definition dispatch_step (th : tag_handler) (acc : gmap skey V) (e : skey * V)
      : res (gmap skey V) :=
      do! r := rekey th e in
      Done (match r with None => acc | Some kv => put acc kv end).

    Definition dispatch_kind (th : tag_handler) (l : list (skey * V)) : res (gmap skey V) :=
      rfoldM (dispatch_step th) ∅ l.
  End Kind.

  Definition retag_counter (c : counter) src tags := MkCounter (c_val c) (c_ts c) src tags.
  Definition retag_gauge (g : gauge) src tags := MkGauge (g_val g) (g_ts g) src tags.
  Definition retag_timer (t : timer) src tags := MkTimer (t_vals t) (t_samp t) (t_ts t) src tags.
  Definition retag_set (s : mset) src tags := MkSet (s_vals s) (s_ts s) src tags.

  Definition rekey_counter := rekey c_src c_tags retag_counter.
  Definition rekey_gauge := rekey g_src g_tags retag_gauge.
  Definition rekey_timer := rekey t_src t_tags retag_timer.
  Definition rekey_set := rekey s_src s_tags retag_set.

  Definition dispatch_counters := dispatch_kind c_src c_tags retag_counter merge_counter.
  Definition dispatch_gauges := dispatch_kind g_src g_tags retag_gauge merge_gauge.
  Definition dispatch_timers := dispatch_kind t_src t_tags retag_timer merge_timer.
  Definition dispatch_sets := dispatch_kind s_src s_tags retag_set merge_set.

  (* iteration orders of the four Go maps *)
  Record orders := MkOrders {
    o_counters : list (skey * counter);
    o_gauges : list (skey * gauge);
    o_timers : list (skey * timer);
    o_sets : list (skey * mset)
  }.

  (* None = the next handler is not called (mmNew.IsEmpty()) *)
  Definition dispatch_list (th : tag_handler) (o : orders) : res (option mmap) :=
    do! cs := dispatch_counters th (o_counters o) in
    do! gs := dispatch_gauges th (o_gauges o) in
    do! ts := dispatch_timers th (o_timers o) in
    do! ss := dispatch_sets th (o_sets o) in
    let out := MkMap cs ts gs ss in
    Done (if mm_is_empty out then None else Some out).

  Definition canonical_orders (m : mmap) : orders :=
    MkOrders (map_to_list (counters m)) (map_to_list (gauges m))
             (map_to_list (timers m)) (map_to_list (sets m)).

  Definition dispatch (th : tag_handler) (m : mmap) : res (option mmap) :=
    dispatch_list th (canonical_orders m).

  (* -------------------------------------------------------------------------------------- *)
  (* Specification vocabulary (used by Props/C10.v) *)

  (* the filter's conditions hold for the metric: match-metrics empty or matching the name,
     exclude-metrics not matching the name, match-tags empty or matching some tag *)
  Definition satisfied (f : filter) (name : str) (tags : list str) : Prop :=
    (f_match_metrics f = [] ∨ ∃ p, p ∈ f_match_metrics f ∧ sm_match p name = true)
    ∧ (∀ p, p ∈ f_exclude_metrics f → sm_match p name = false)
    ∧ (f_match_tags f = [] ∨ ∃ p t, p ∈ f_match_tags f ∧ t ∈ tags ∧ sm_match p t = true).

  (* tag [t] of the metric is matched by a drop-tags pattern of a satisfied filter *)
  Definition removed (fs : list filter) (name : str) (tags : list str) (t : str) : Prop :=
    t ∈ tags ∧ ∃ f p, f ∈ fs ∧ satisfied f name tags ∧ p ∈ f_drop_tags f ∧ sm_match p t = true.

  (* first occurrences of the tags of [l] that are not in [seen] *)
  Fixpoint first_occ (seen : list str) (l : list str) : list str :=
    match l with
    | [] => []
    | x :: r => if mem_str x seen then first_occ seen r else x :: first_occ (x :: seen) r
    end.

  (* the rekeyed survivors of an iteration order, in that order *)
  Definition kept {V} (rk : skey * V → res (option (skey * V))) (l : list (skey * V))
    : res (list (skey * V)) :=
    do! os := rmapM rk l in Done (omap id os).

  (* the survivors that land on key [k] *)
  Definition group {V} (k : skey) (ks : list (skey * V)) : list V :=
    snd <$> base.filter (λ kv, kv.1 = k) ks.
End WithRegexp.

Definition zsum (l : list Z) : Z := foldr Z.add 0%Z l.
Definition qcsum (l : list Qc) : Qc := foldr Qcplus 0%Qc l.
Definition zmax_list (l : list Z) (d : Z) : Z := foldr Z.max d l.

(* ======================================================================================== *)
(* Configuration layer: NewTagHandlerFromViper / NewFilterFromViper.  The configuration file
   is parsed by viper (TOML) into a tree; that parser is not modelled.  What is modelled is
   what gostatsd asks of the tree: v.GetStringSlice("filters"), v.Sub("filter."+name),
   GetStringSlice of the four list keys, GetBool of the two action keys - with the casts viper
   applies (spf13/cast): a string where a list is expected is split on white space
   (strings.Fields), a bool where a list is expected becomes ["true"]/["false"], a string
   where a bool is expected goes through strconv.ParseBool and is false when that fails, a
   list where a bool is expected is false, an absent key takes the default ([] / false).
   Keys and filter names are case-insensitive (viper lower-cases them, ASCII modelled);
   filter names containing '.' (a nested viper path) are outside the model. *)

Inductive cval := VStr (s : str) | VList (l : list str) | VBool (b : bool).

Record tag_config := MkCfg {
  cfg_filters : option cval;                       (* the `filters` key *)
  cfg_blocks : list (str * list (str * cval))      (* [filter.<name>] tables, in file order *)
}.

Definition is_space (c : N) : bool :=
  (c =? 32)%N || (c =? 9)%N || (c =? 10)%N || (c =? 11)%N || (c =? 12)%N || (c =? 13)%N.

(* strings.Fields on ASCII input; [cur] is the field being read, reversed *)
Fixpoint fields_acc (cur : str) (s : str) : list str :=
  match s with
  | [] => match cur with [] => [] | _ => [rev cur] end
  | c :: r => if is_space c
              then match cur with [] => fields_acc [] r | _ => rev cur :: fields_acc [] r end
              else fields_acc (c :: cur) r
  end.
Definition str_fields (s : str) : list str := fields_acc [] s.

Definition lower_byte (c : N) : N := if (65 <=? c)%N && (c <=? 90)%N then (c + 32)%N else c.
Definition str_lower (s : str) : str := map lower_byte s.

Definition s_true : str := [116; 114; 117; 101]%N.
Definition s_false : str := [102; 97; 108; 115; 101]%N.

(* cast.ToStringSlice *)
Definition to_string_slice (v : option cval) : list str :=
  match v with
  | None => []
  | Some (VStr s) => str_fields s
  | Some (VList l) => l
  | Some (VBool b) => [if b then s_true else s_false]
  end.

(* strconv.ParseBool, errors as false (cast.ToBool drops the error) *)
Definition parse_bool (s : str) : bool :=
  existsb (str_eqb s) [[49]; [116]; [84]; s_true; [84; 82; 85; 69]; [84; 114; 117; 101]]%N.

(* cast.ToBool *)
Definition to_bool (v : option cval) : bool :=
  match v with
  | Some (VBool b) => b
  | Some (VStr s) => parse_bool s
  | _ => false
  end.

(* viper's case-insensitive key lookup, first match *)
Fixpoint cfg_get {V} (k : str) (t : list (str * V)) : option V :=
  match t with
  | [] => None
  | (k', v) :: r => if str_eqb (str_lower k') (str_lower k) then Some v else cfg_get k r
  end.

Definition k_match_metrics : str := [109;97;116;99;104;45;109;101;116;114;105;99;115]%N.
Definition k_exclude_metrics : str := [101;120;99;108;117;100;101;45;109;101;116;114;105;99;115]%N.
Definition k_match_tags : str := [109;97;116;99;104;45;116;97;103;115]%N.
Definition k_drop_tags : str := [100;114;111;112;45;116;97;103;115]%N.
Definition k_drop_metric : str := [100;114;111;112;45;109;101;116;114;105;99]%N.
Definition k_drop_host : str := [100;114;111;112;45;104;111;115;116]%N.

(* NewFilterFromViper up to toStringMatch: the pattern strings and flags of one block *)
Definition raw_of_block (b : list (str * cval)) : raw_filter :=
  MkRaw (to_string_slice (cfg_get k_match_metrics b)) (to_string_slice (cfg_get k_exclude_metrics b))
        (to_string_slice (cfg_get k_match_tags b)) (to_string_slice (cfg_get k_drop_tags b))
        (to_bool (cfg_get k_drop_metric b)) (to_bool (cfg_get k_drop_host b)).

(* NewTagHandlerFromViper's loop: a name without a [filter.<name>] table is skipped (the code
   logs "Filter doesn't exist" at warning level and continues) *)
Definition raws_of_config (c : tag_config) : list raw_filter :=
  omap (λ name, raw_of_block <$> cfg_get name (cfg_blocks c)) (to_string_slice (cfg_filters c)).

Definition handler_of_config (re_ok : str → bool) (tags : list str) (c : tag_config) : res tag_handler :=
  build_handler re_ok tags (raws_of_config c).

(* ---- what FILTERING.md says a pattern string means, written on the spelling ------------- *)
Inductive spelling :=
| SpRegex (neg : bool) (q : str)     (* [!]regex:q  *)
| SpPrefix (neg : bool) (q : str)    (* [!]q*       *)
| SpExact (neg : bool) (q : str).    (* [!]q        *)

Definition spelling_of (p : str) : spelling :=
  let neg := str_has_prefix [c_bang] p in
  let body := if neg then drop 1 p else p in
  if str_has_prefix regex_marker body then SpRegex neg (drop 6 body)
  else if ends_with_star body then SpPrefix neg (removelast body)
  else SpExact neg body.

(* does a string match a spelling; the only use of the regexp oracle *)
Definition spelling_matches (re_match : str → str → bool) (sp : spelling) (s : str) : bool :=
  match sp with
  | SpRegex neg q => xorb (re_match q s) neg
  | SpPrefix neg q => xorb (str_has_prefix q s) neg
  | SpExact neg q => xorb (str_eqb s q) neg
  end.

(* ---- the regex-free fragment: a specification without any oracle ----------------------- *)
Definition plain_match (sm : smatch) (s : str) : bool :=
  if sm_prefix sm then xorb (str_has_prefix (sm_test sm) s) (sm_invert sm)
  else xorb (str_eqb s (sm_test sm)) (sm_invert sm).

Definition regex_free_filter (f : filter) : Prop :=
  ∀ sm, sm ∈ f_match_metrics f ++ f_exclude_metrics f ++ f_match_tags f ++ f_drop_tags f → sm_regex sm = false.

Definition plain_satisfied (f : filter) (name : str) (tags : list str) : bool :=
  (match f_match_metrics f with [] => true | l => existsb (λ p, plain_match p name) l end)
  && negb (existsb (λ p, plain_match p name) (f_exclude_metrics f))
  && (match f_match_tags f with [] => true | l => existsb (λ t, existsb (λ p, plain_match p t) l) tags end).

Definition plain_removed (fs : list filter) (name : str) (tags : list str) (t : str) : bool :=
  existsb (λ f, plain_satisfied f name tags && existsb (λ p, plain_match p t) (f_drop_tags f)) fs.

(* None = dropped; otherwise the new source and the tag list as it is stored (sorted) *)
Definition plain_output (th : tag_handler) (name src : str) (tags : list str) : option (str * list str) :=
  let fs := th_filters th in
  if existsb (λ f, plain_satisfied f name tags && f_drop_metric f) fs then None
  else Some (if existsb (λ f, plain_satisfied f name tags && f_drop_host f) fs then [] else src,
             sort_tags (first_occ [] (List.filter (λ t, negb (plain_removed fs name tags t)) tags
                                      ++ List.filter (λ t, negb (mem_str t tags && plain_removed fs name tags t)) (th_tags th)))).

Definition regex_free (th : tag_handler) : Prop := ∀ f, f ∈ th_filters th → regex_free_filter f.

(* the oracle-free specification of the Each callback of DispatchMetricMap *)
Definition plain_rekey {V} (src_of : V → str) (tags_of : V → list str) (retag : V → str → list str → V)
           (th : tag_handler) (e : skey * V) : option (skey * V) :=
  match plain_output th e.1.1 (src_of e.2) (tags_of e.2) with
  | None => None
  | Some (src', stags) => Some ((e.1.1, tags_key src' stags), retag e.2 src' stags)
  end.

(* ---- vocabulary of the configuration theorems ------------------------------------------- *)
Definition bang (neg : bool) : str := if neg then [c_bang] else [].

(* the pattern asks for a regular expression that does not compile *)
Definition pattern_invalid (re_ok : str → bool) (p : str) : bool :=
  match spelling_of p with SpRegex _ q => negb (re_ok q) | _ => false end.

Definition patterns_of_raw (r : raw_filter) : list str :=
  r_match_metrics r ++ r_exclude_metrics r ++ r_match_tags r ++ r_drop_tags r.
Definition config_patterns (c : tag_config) : list str := concat (map patterns_of_raw (raws_of_config c)).

(* filter [f] is raw filter [r] with every pattern string turned into its matcher *)
Definition filter_of_raw (re_ok : str → bool) (r : raw_filter) (f : filter) : Prop :=
  let R := λ p sm, new_string_match re_ok p = Done sm in
  Forall2 R (r_match_metrics r) (f_match_metrics f) ∧ Forall2 R (r_exclude_metrics r) (f_exclude_metrics f)
  ∧ Forall2 R (r_match_tags r) (f_match_tags f) ∧ Forall2 R (r_drop_tags r) (f_drop_tags f)
  ∧ f_drop_metric f = r_drop_metric r ∧ f_drop_host f = r_drop_host r.
