(* Line accounting of DatagramParser.handleDatagram (pkg/statsd/parser.go), as far as C03 needs
   it: how a datagram is cut into lines, and into which of the three counters
   (parser.metrics_received, parser.events_received, parser.bad_lines_seen) each line goes.
   The full datagram model (sources, timestamps, dispatched values) is C05's Model/Datagram.v.

   handleDatagram loops: idx = IndexByte(msg, '\n'); if there is none, the rest of the message
   is the last line unless it is empty (then the loop ends); otherwise the line is msg[:idx]
   and the loop continues with msg[idx+1:].  An empty line between two newlines is handed to
   the lexer like any other line (and is rejected there).  There is no recover() anywhere on
   this path, so a panic of the lexer on one line ends the process: [DPanic]. *)
From GS Require Import Base.Bytes Model.Lexer.
Local Open Scope N_scope.

(* [acc] = bytes of the current line read so far, reversed *)
Fixpoint lines_from (acc : str) (msg : str) : list str :=
  match msg with
  | [] => match acc with [] => [] | _ => [rev acc] end
  | b :: r => if b =? c_nl then rev acc :: lines_from [] r else lines_from (b :: acc) r
  end.

Definition lines (msg : str) : list str := lines_from [] msg.

Inductive dresult :=
| DCounts (metrics events bad : N)
| DPanic.

Section WithOracle.
  Variable pf : str -> pfres.
  Variable ns : str.

  Fixpoint count_lines (ls : list str) (m e b : N) : dresult :=
    match ls with
    | [] => DCounts m e b
    | l :: r =>
        match lex pf ns l with
        | OMetric _ => count_lines r (m + 1) e b
        | OEvent _ => count_lines r m (e + 1) b
        | OReject _ => count_lines r m e (b + 1)
        | OPanic => DPanic
        end
    end.

  Definition parse_datagram (msg : str) : dresult := count_lines (lines msg) 0 0 0.
End WithOracle.

(* ---- specification vocabulary ---- *)

Fixpoint count_nl (msg : str) : N :=
  match msg with
  | [] => 0
  | b :: r => (if b =? c_nl then 1 else 0) + count_nl r
  end.

(* does the message end in a non-empty segment without newline? *)
Definition open_tail (msg : str) : bool :=
  match rev msg with
  | [] => false
  | b :: _ => negb (b =? c_nl)
  end.
