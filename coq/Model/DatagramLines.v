(* Line accounting of DatagramParser.handleDatagram (pkg/statsd/parser.go), as far as C03 needs
   it: how a datagram is cut into lines, and into which of the three counters
   (parser.metrics_received, parser.events_received, parser.bad_lines_seen) each line goes.
   The full datagram model (sources, timestamps, dispatched values) is C05's Model/Datagram.v.

   handleDatagram loops: idx = IndexByte(msg, '\n'); if there is none, the rest of the message
   is the last line unless it is empty (then the loop ends); otherwise the line is msg[:idx]
   and the loop continues with msg[idx+1:].  An empty line between two newlines is handed to
   the lexer like any other line (and is rejected there).  There is no recover() anywhere on
   this path, so a panic of the lexer on one line ends the process: [DPanic]. *)
From GS Require Import Base.Bytes Model.Lexer.
Local Open Scope N_scope.

(* the message cut at every newline: the first segment and the list of the following ones
   ("a\nb\n" gives ("a", ["b"; ""])) *)
Fixpoint split_nl (msg : str) : str * list str :=
  match msg with
  | [] => ([], [])
  | b :: r =>
      let '(cur, rest) := split_nl r in
      if b =? c_nl then ([], cur :: rest) else (b :: cur, rest)
  end.

(* the final segment is a line only if it is not empty *)
Fixpoint drop_empty_last (segs : list str) : list str :=
  match segs with
  | [] => []
  | s :: r =>
      match r with
      | [] => match s with [] => [] | _ => [s] end
      | _ => s :: drop_empty_last r
      end
  end.

Definition lines (msg : str) : list str :=
  let '(cur, rest) := split_nl msg in drop_empty_last (cur :: rest).

Inductive dresult :=
| DCounts (metrics events bad : N)
| DPanic.

Section WithOracle.
  Variable pf : str -> pfres.
  Variable ns : str.

  Fixpoint count_lines (ls : list str) (m e b : N) : dresult :=
    match ls with
    | [] => DCounts m e b
    | l :: r =>
        match lex pf ns l with
        | OMetric _ => count_lines r (m + 1) e b
        | OEvent _ => count_lines r m (e + 1) b
        | OReject _ => count_lines r m e (b + 1)
        | OPanic => DPanic
        end
    end.

  Definition parse_datagram (msg : str) : dresult := count_lines (lines msg) 0 0 0.

  (* DatagramParser.Run over a sequence of datagrams: the counters accumulate (atomic adds
     after each batch); a panic in any datagram ends the process, later ones are never read *)
  Fixpoint parse_stream (msgs : list str) (m e b : N) : dresult :=
    match msgs with
    | [] => DCounts m e b
    | msg :: r =>
        match parse_datagram msg with
        | DPanic => DPanic
        | DCounts m' e' b' => parse_stream r (m + m') (e + e') (b + b')
        end
    end.
End WithOracle.

(* ---- specification vocabulary ---- *)

Fixpoint count_nl (msg : str) : N :=
  match msg with
  | [] => 0
  | b :: r => (if b =? c_nl then 1 else 0) + count_nl r
  end.

(* does the message end in a non-empty segment without newline, i.e. is its last byte
   something else than a newline? *)
Fixpoint open_tail (msg : str) : bool :=
  match msg with
  | [] => false
  | b :: r => match r with [] => negb (b =? c_nl) | _ => open_tail r end
  end.

Definition line_count (msg : str) : N := count_nl msg + (if open_tail msg then 1 else 0).

Fixpoint total_lines (msgs : list str) : N :=
  match msgs with [] => 0 | msg :: r => line_count msg + total_lines r end.

(* classification of lexer outcomes, to state which counter a line goes to *)
Definition is_metric (o : outcome) : bool := match o with OMetric _ => true | _ => false end.
Definition is_event (o : outcome) : bool := match o with OEvent _ => true | _ => false end.
Definition is_reject (o : outcome) : bool := match o with OReject _ => true | _ => false end.

Definition count_where {A} (p : A -> bool) (l : list A) : N := N.of_nat (length (filter p l)).
