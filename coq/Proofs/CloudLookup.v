(* Proofs about the cloud-stage LTS (Model/Cloud.v), part 4: the lookup side.
   - every source pushed on toLookupIPs is handed to the cache exactly once or is still pending
     (pushed = popped + pending as multisets); the send arm removes exactly the source it sends; whenever
     something is pending the send register is loaded, so a send is enabled;
   - under the environment hypothesis of C11_one_lookup, a lookup for s is pending or outstanding exactly
     when something is parked for s. *)
From stdpp Require Import gmap.
From GS Require Import Base.Bytes Base.LTS Model.Series Model.MetricMap Model.Cloud
  Proofs.Cloud Proofs.CloudInv Proofs.CloudSteps.
Local Open Scope Z_scope.

(* ---- lists ---------------------------------------------------------------------------------------- *)

Lemma count_perm s l1 l2 : l1 ≡ₚ l2 → count s l1 = count s l2.
Proof. induction 1; cbn; try lia. Qed.

Lemma remove_one_perm s l : s ∈ l → l ≡ₚ s :: remove_one s l.
Proof.
  induction l as [|x r IH]; cbn; [by intros H%elem_of_nil|].
  destruct (decide (x = s)) as [->|Hne]; [done|].
  intros [?|H]%elem_of_cons; [congruence|]. by rewrite perm_swap, <- IH.
Qed.

(* ---- the stack ------------------------------------------------------------------------------------- *)

Lemma lk_pending_push s k : lk_pending (lk_push s k) = s :: lk_pending k.
Proof. unfold lk_pending, lk_push; cbn. by destruct (stack k) as [|[f g] r]. Qed.
Lemma lk_pending_push1 s k : lk_pending (lk_push1 s k) = s :: lk_pending k.
Proof. done. Qed.
Lemma lk_pending_open k : lk_pending (lk_open k) = lk_pending k.
Proof. done. Qed.
Lemma lk_pending_close k : lk_pending (lk_close k) = lk_pending k.
Proof. unfold lk_pending, lk_close; cbn. by destruct (stack k) as [|[f [|x g]] r]. Qed.
Lemma refill_stack_snd stk : snd <$> refill_stack stk = snd <$> stk.
Proof. unfold refill_stack. destruct (existsb fst stk); [done|]. by destruct stk as [|[f g] r]. Qed.
Lemma lk_pending_refill k : lk_pending (lk_refill k) = lk_pending k.
Proof. unfold lk_pending, lk_refill; cbn. by rewrite refill_stack_snd. Qed.
Lemma lk_pending_answer s k : lk_pending (lk_answer s k) = lk_pending k.
Proof. done. Qed.

(* the send arm removes exactly one occurrence of the source it sends *)
Lemma send_from_pending stk s stk' :
  send_from stk s = Some stk' → mjoin (snd <$> stk) ≡ₚ s :: mjoin (snd <$> stk').
Proof.
  revert stk'; induction stk as [|[[|] g] r IH]; intros stk'; cbn; [done| |].
  - destruct (bool_decide (s ∈ g)) eqn:E; [|done]. apply bool_decide_eq_true in E. intros [= <-].
    rewrite (remove_one_perm s g E) at 1. by destruct (remove_one s g).
  - destruct (send_from r s) as [r'|]; [|done]. intros [= <-]. cbn.
    rewrite (IH r' eq_refl). by rewrite Permutation_middle.
Qed.

Lemma lk_send_spec s k k' :
  lk_send s k = Some k' →
  lk_pending k ≡ₚ s :: lk_pending k' ∧ sent k' = s :: sent k
  ∧ pushed k' = pushed k ∧ popped k' = popped k ++ [s].
Proof.
  unfold lk_send. destruct (send_from (stack k) s) as [stk|] eqn:E; [|done]. intros [= <-].
  split; [by apply send_from_pending|done].
Qed.

(* the sent source was in the group the register had been loaded from *)
Lemma send_from_flagged stk s stk' :
  send_from stk s = Some stk' → ∃ g, (true, g) ∈ stk ∧ s ∈ g.
Proof.
  revert stk'; induction stk as [|[[|] g] r IH]; intros stk'; cbn; [done| |].
  - destruct (bool_decide (s ∈ g)) eqn:E; [|done]. apply bool_decide_eq_true in E. intros _.
    exists g. split; [by left|done].
  - destruct (send_from r s) as [r'|]; [|done]. intros _.
    destruct (IH r' eq_refl) as (g' & Hin & Hs). exists g'. split; [by right|done].
Qed.

(* ---- pushed = popped + pending ------------------------------------------------------------------------ *)

Definition lk_ok (k : lstate) : Prop := pushed k ≡ₚ popped k ++ lk_pending k.

Lemma lk_ok_push s k : lk_ok k → lk_ok (lk_push s k).
Proof.
  unfold lk_ok. rewrite lk_pending_push. intros H. cbn.
  rewrite H. rewrite <- app_assoc. apply Permutation_app_head. by rewrite (Permutation_app_comm _ [s]).
Qed.
Lemma lk_ok_push1 s k : lk_ok k → lk_ok (lk_push1 s k).
Proof.
  unfold lk_ok. rewrite lk_pending_push1. intros H. cbn.
  rewrite H. rewrite <- app_assoc. apply Permutation_app_head. by rewrite (Permutation_app_comm _ [s]).
Qed.
Lemma lk_ok_same k k' :
  pushed k' = pushed k → popped k' = popped k → lk_pending k' = lk_pending k → lk_ok k → lk_ok k'.
Proof. unfold lk_ok. by intros -> -> ->. Qed.
Lemma lk_ok_close k : lk_ok k → lk_ok (lk_close k).
Proof. apply lk_ok_same; [done|done|apply lk_pending_close]. Qed.
Lemma lk_ok_open k : lk_ok k → lk_ok (lk_open k).
Proof. by apply lk_ok_same. Qed.
Lemma lk_ok_refill k : lk_ok k → lk_ok (lk_refill k).
Proof. apply lk_ok_same; [done|done|apply lk_pending_refill]. Qed.
Lemma lk_ok_answer s k : lk_ok k → lk_ok (lk_answer s k).
Proof. by apply lk_ok_same. Qed.
Lemma lk_ok_send s k k' : lk_send s k = Some k' → lk_ok k → lk_ok k'.
Proof.
  intros (Hp & _ & Hpu & Hpo)%lk_send_spec. unfold lk_ok. rewrite Hpu, Hpo, Hp. intros ->.
  by rewrite <- app_assoc.
Qed.

Lemma park_metric_lk lg st e :
  lk (park_metric lg st e) = lk st ∨ lk (park_metric lg st e) = lk_push (entry_src e) (lk st).
Proof.
  unfold park_metric. destruct (awaitM st !! entry_src e); cbn; [by left|].
  destruct (no_events st (entry_src e)); [by right|by left].
Qed.
Lemma lk_ok_park_metric lg st e : lk_ok (lk st) → lk_ok (lk (park_metric lg st e)).
Proof. intros H. destruct (park_metric_lk lg st e) as [->| ->]; [done|by apply lk_ok_push]. Qed.
Lemma lk_ok_fold_park_metric lg es st :
  lk_ok (lk st) → lk_ok (lk (fold_left (park_metric lg) es st)).
Proof. revert st; induction es as [|e r IH]; intros st H; cbn; [done|]. by apply IH, lk_ok_park_metric. Qed.

Lemma release_lk st s io : lk (release_events (release_metrics st s io) s io) = lk st.
Proof.
  unfold release_events, release_metrics.
  destruct (awaitM st !! s); cbn; destruct (awaitE st !! s) as [[|e q]|]; done.
Qed.

Lemma lk_ok_arm lg st l st' : arm lg st l = Some st' → lk_ok (lk st) → lk_ok (lk st').
Proof.
  destruct l as [es peek|e peek|s|s io|]; cbn; intros H Hok.
  - injection H as <-. unfold arrive_metrics, close_group, open_group. cbn [lk with_lk].
    apply lk_ok_close, lk_ok_fold_park_metric. cbn [lk with_lk]. by apply lk_ok_open.
  - injection H as <-. unfold arrive_event. destruct (resolve peek (ev_src e)); [done|].
    unfold park_event; cbn [lk]. destruct (_ && _); [by apply lk_ok_push1|done].
  - destruct (lk_send s (lk st)) as [k'|] eqn:E; [|done]. injection H as <-. cbn. by eapply lk_ok_send.
  - injection H as <-. unfold answer. cbn [lk with_lk]. rewrite release_lk. by apply lk_ok_answer.
  - by injection H as <-.
Qed.

Lemma lk_ok_step lg st l st' : step_gen lg st l = Some st' → lk_ok (lk st) → lk_ok (lk st').
Proof.
  unfold step_gen. destruct (arm lg st l) as [s1|] eqn:E; [|done]. intros [= <-] Hok.
  unfold refill. cbn [lk with_lk]. apply lk_ok_refill. by eapply lk_ok_arm.
Qed.

(* C11_every_pending_looked_up *)
Lemma every_pending_looked_up ls st :
  run step init ls = Some st → pushed (lk st) ≡ₚ popped (lk st) ++ pending st.
Proof.
  intros H. apply (invariant_run step (λ st, lk_ok (lk st))) with (ls := ls) (s := init); [|unfold lk_ok; cbn; reflexivity|done].
  intros s l s' Hok Hs. by eapply (lk_ok_step false).
Qed.

(* ... and what each label does to the three logs *)
Lemma lookup_step st l st' :
  step st l = Some st' →
  match l with
  | SendLookup s =>
      popped (lk st') = popped (lk st) ++ [s] ∧ pushed (lk st') = pushed (lk st)
      ∧ pending st ≡ₚ s :: pending st'
      ∧ ∃ g, (true, g) ∈ stack (lk st) ∧ s ∈ g
  | _ => popped (lk st') = popped (lk st) ∧ ∃ new, pushed (lk st') = pushed (lk st) ++ new
                                                   ∧ pending st' ≡ₚ new ++ pending st
  end.
Proof.
  intros (s1 & H & ->)%step_arm. unfold pending, refill. cbn [lk with_lk].
  rewrite lk_pending_refill.
  change (popped (lk_refill (lk s1))) with (popped (lk s1)).
  change (pushed (lk_refill (lk s1))) with (pushed (lk s1)).
  destruct l as [es peek|e peek|s|s io|]; cbn in H.
  - injection H as <-. unfold arrive_metrics, close_group, open_group. cbn [lk with_lk].
    rewrite lk_pending_close. change (popped (lk_close ?k)) with (popped k).
    change (pushed (lk_close ?k)) with (pushed k).
    set (s0 := with_lk (push_down st (metric_hits peek es)) (lk_open (lk (push_down st (metric_hits peek es))))).
    assert (Hgen : ∀ ms s0, popped (lk (fold_left (park_metric false) ms s0)) = popped (lk s0)
              ∧ ∃ new, pushed (lk (fold_left (park_metric false) ms s0)) = pushed (lk s0) ++ new
                       ∧ lk_pending (lk (fold_left (park_metric false) ms s0)) ≡ₚ new ++ lk_pending (lk s0)).
    { clear. induction ms as [|e r IH]; intros s0; cbn.
      - split; [done|]. exists []. by rewrite app_nil_r.
      - destruct (IH (park_metric false s0 e)) as (Hpo & new & Hpu & Hpe).
        rewrite Hpo, Hpu. destruct (park_metric_lk false s0 e) as [Hk|Hk]; rewrite Hk in *.
        + split; [done|]. by exists new.
        + split; [done|]. exists (entry_src e :: new). cbn. rewrite <- app_assoc. split; [done|].
          rewrite Hpe, lk_pending_push. by rewrite <- Permutation_middle. }
    destruct (Hgen (metric_misses peek es) s0) as (Hpo & new & Hpu & Hpe). subst s0.
    cbn [lk with_lk push_down] in *. split; [done|]. exists new. split; [done|]. by rewrite Hpe.
  - injection H as <-. unfold arrive_event. destruct (resolve peek (ev_src e)); cbn [lk push_down].
    + split; [done|]. exists []. by rewrite app_nil_r.
    + unfold park_event; cbn [lk]. destruct (_ && _).
      * split; [done|]. exists [ev_src e]. done.
      * split; [done|]. exists []. by rewrite app_nil_r.
  - destruct (lk_send s (lk st)) as [k'|] eqn:E; [|done]. injection H as <-. cbn [lk with_lk].
    destruct (lk_send_spec _ _ _ E) as (Hp & _ & Hpu & Hpo). repeat split; try done.
    unfold lk_send in E. destruct (send_from (stack (lk st)) s) as [stk|] eqn:E2; [|done].
    by eapply send_from_flagged.
  - injection H as <-. unfold answer. cbn [lk with_lk]. rewrite release_lk.
    split; [done|]. exists []. by rewrite app_nil_r.
  - injection H as <-. split; [done|]. exists []. by rewrite app_nil_r.
Qed.

(* ---- the register is loaded whenever something is pending --------------------------------------------- *)

(* no group is empty; at most one group is flagged *)
Definition flags (stk : list (bool * list source)) : nat := length (List.filter fst stk).
Definition stack_ok (stk : list (bool * list source)) : Prop :=
  Forall (λ fg, fg.2 ≠ []) stk ∧ (flags stk ≤ 1)%nat.
(* same, while a group is open: the top group may still be empty *)
Definition stack_ok_open (stk : list (bool * list source)) : Prop :=
  match stk with [] => False | (f, g) :: r => f = false ∧ stack_ok r end.

Lemma stack_ok_open_push s stk : stack_ok_open stk →
  stack_ok_open (match stk with (f, g) :: r => (f, s :: g) :: r | [] => [(false, [s])] end).
Proof. by destruct stk as [|[f g] r]. Qed.
Lemma stack_ok_close stk : stack_ok_open stk → stack_ok (drop_empty_top stk).
Proof.
  destruct stk as [|[f [|x g]] r]; cbn; [done|by intros [_ ?]|].
  intros [-> [Hall Hfl]]. split; [by constructor|done].
Qed.
Lemma stack_ok_push1 s stk : stack_ok stk → stack_ok ((false, [s]) :: stk).
Proof. intros [Hall Hfl]. split; [by constructor|done]. Qed.

Lemma stack_ok_refill stk : stack_ok stk → stack_ok (refill_stack stk).
Proof.
  intros [Hall Hfl]. unfold refill_stack. destruct (existsb fst stk) eqn:E; [done|].
  destruct stk as [|[f g] r]; [done|]. cbn in E. apply orb_false_iff in E as [-> E].
  apply list.Forall_cons in Hall as [Hg Hall]. split; [by constructor|].
  unfold flags in *. cbn.
  assert (List.filter fst r = []) as ->; [|done].
  clear -E. induction r as [|[f' g'] r IH]; cbn in *; [done|].
  apply orb_false_iff in E as [-> E]. by apply IH.
Qed.

Lemma send_from_ok stk s stk' : send_from stk s = Some stk' → stack_ok stk → stack_ok stk'.
Proof.
  revert stk'; induction stk as [|[[|] g] r IH]; intros stk'; cbn; [done| |].
  - destruct (bool_decide (s ∈ g)); [|done]. intros [= <-] [Hall Hfl].
    apply list.Forall_cons in Hall as [_ Hall]. unfold flags in *; cbn in Hfl.
    destruct (remove_one s g) eqn:E.
    + split; [done|unfold flags; lia].
    + split; [constructor; [by cbn|done]|unfold flags; cbn; lia].
  - destruct (send_from r s) as [r'|]; [|done]. intros [= <-] [Hall Hfl].
    apply list.Forall_cons in Hall as [Hg Hall]. unfold flags in *; cbn in Hfl.
    destruct (IH r' eq_refl) as [Hall' Hfl']; [by split|]. split; [by constructor|by unfold flags in *].
Qed.

Definition loaded (stk : list (bool * list source)) : Prop := stk ≠ [] → existsb fst stk = true.
Lemma loaded_refill stk : loaded (refill_stack stk).
Proof.
  unfold loaded, refill_stack. destruct (existsb fst stk) eqn:E; [done|]. by destruct stk as [|[f g] r].
Qed.

Lemma park_metric_stack_open lg st e :
  stack_ok_open (stack (lk st)) → stack_ok_open (stack (lk (park_metric lg st e))).
Proof.
  intros H. destruct (park_metric_lk lg st e) as [->| ->]; [done|]. by apply stack_ok_open_push.
Qed.
Lemma fold_park_metric_stack_open lg es st :
  stack_ok_open (stack (lk st)) → stack_ok_open (stack (lk (fold_left (park_metric lg) es st))).
Proof. revert st; induction es as [|e r IH]; intros st H; cbn; [done|]. by apply IH, park_metric_stack_open. Qed.

Lemma stack_ok_arm lg st l st' :
  arm lg st l = Some st' → stack_ok (stack (lk st)) → stack_ok (stack (lk st')).
Proof.
  destruct l as [es peek|e peek|s|s io|]; cbn; intros H Hok.
  - injection H as <-. unfold arrive_metrics, close_group, open_group. cbn [lk with_lk lk_close stack].
    apply stack_ok_close, fold_park_metric_stack_open. cbn. done.
  - injection H as <-. unfold arrive_event. destruct (resolve peek (ev_src e)); [done|].
    unfold park_event; cbn [lk]. destruct (_ && _); [by apply stack_ok_push1|done].
  - unfold lk_send in H. destruct (send_from (stack (lk st)) s) as [stk|] eqn:E; [|done].
    injection H as <-. cbn. by eapply send_from_ok.
  - injection H as <-. unfold answer. cbn [lk with_lk lk_answer stack]. by rewrite release_lk.
  - by injection H as <-.
Qed.

Lemma stack_inv ls st :
  run step init ls = Some st → stack_ok (stack (lk st)) ∧ loaded (stack (lk st)).
Proof.
  intros H.
  apply (invariant_run step (λ st, stack_ok (stack (lk st)) ∧ loaded (stack (lk st)))) with (ls := ls) (s := init);
    [|split; [split; [apply Forall_nil_2|cbn; lia]|intros Hne; by destruct Hne]|done].
  intros s l s' [Hok _] (s1 & Ha & ->)%step_arm. unfold refill. cbn [lk with_lk lk_refill stack].
  split; [|apply loaded_refill]. apply stack_ok_refill. by eapply stack_ok_arm.
Qed.

(* no starvation, safety form: whenever something is pending, the send arm is enabled for some pending source *)
Lemma pending_can_leave ls st :
  run step init ls = Some st → pending st ≠ [] → ∃ s st', s ∈ pending st ∧ step st (SendLookup s) = Some st'.
Proof.
  intros H Hne. destruct (stack_inv _ _ H) as [[Hall _] Hl].
  assert (Hstk : stack (lk st) ≠ []).
  { intros E. apply Hne. unfold pending, lk_pending. by rewrite E. }
  specialize (Hl Hstk).
  assert (Hx : ∃ s stk', s ∈ mjoin (snd <$> stack (lk st)) ∧ send_from (stack (lk st)) s = Some stk').
  { clear -Hall Hl. induction (stack (lk st)) as [|[[|] g] r IH]; cbn in *; [done| |].
    - apply list.Forall_cons in Hall as [Hg _]. destruct g as [|x g]; [done|]. exists x.
      rewrite bool_decide_eq_true_2 by (by left). eexists. split; [by left|done].
    - apply list.Forall_cons in Hall as [_ Hall]. destruct (IH Hall Hl) as (s & stk' & Hs & Hsend).
      exists s. rewrite Hsend. cbn. eexists. split; [|done]. apply elem_of_app. by right. }
  destruct Hx as (s & stk' & Hs & Hsend). exists s. unfold step, step_gen; cbn. unfold lk_send.
  rewrite Hsend. cbn. eauto.
Qed.

(* ---- at most one lookup per source ---------------------------------------------------------------------- *)

Definition LInv (st : state) : Prop :=
  ∀ s, count s (pending st ++ sent (lk st)) = if waiting st s then 1%nat else 0%nat.

Lemma waiting_false st s : waiting st s = false ↔ awaitM st !! s = None ∧ awaitE st !! s = None.
Proof.
  unfold waiting. rewrite orb_false_iff, !bool_decide_eq_false, <- !eq_None_not_Some. done.
Qed.
Lemma waiting_true st s : waiting st s = true ↔ is_Some (awaitM st !! s) ∨ is_Some (awaitE st !! s).
Proof. unfold waiting. rewrite orb_true_iff, !bool_decide_eq_true. done. Qed.

Lemma waiting_ext st st' s :
  (is_Some (awaitM st' !! s) ↔ is_Some (awaitM st !! s)) →
  (is_Some (awaitE st' !! s) ↔ is_Some (awaitE st !! s)) → waiting st' s = waiting st s.
Proof.
  intros H1 H2. unfold waiting.
  rewrite (bool_decide_ext _ _ H1), (bool_decide_ext _ _ H2). done.
Qed.

Lemma waiting_park_metric lg st e s :
  waiting (park_metric lg st e) s = waiting st s || bool_decide (s = entry_src e).
Proof.
  unfold waiting. rewrite park_metric_awaitM, park_metric_awaitE.
  destruct (decide (s = entry_src e)) as [->|Hne].
  - rewrite lookup_insert, bool_decide_eq_true_2 by eauto.
    rewrite (bool_decide_eq_true_2 (entry_src e = entry_src e)) by done. by rewrite !orb_true_r.
  - rewrite lookup_insert_ne by done. rewrite (bool_decide_eq_false_2 (s = entry_src e)) by done.
    by rewrite orb_false_r.
Qed.
Lemma waiting_park_event lg st e s :
  waiting (park_event lg st e) s = waiting st s || bool_decide (s = ev_src e).
Proof.
  unfold waiting, park_event; cbn [awaitM awaitE].
  destruct (decide (s = ev_src e)) as [->|Hne].
  - rewrite lookup_insert, (bool_decide_eq_true_2 (is_Some (Some _))) by eauto.
    rewrite (bool_decide_eq_true_2 (ev_src e = ev_src e)) by done. by rewrite !orb_true_r.
  - rewrite lookup_insert_ne by done. rewrite (bool_decide_eq_false_2 (s = ev_src e)) by done.
    by rewrite orb_false_r.
Qed.

Lemma no_events_None st s : Inv st → no_events st s = bool_decide (awaitE st !! s = None).
Proof.
  intros [_ HE _ _ _]. unfold no_events. destruct (awaitE st !! s) as [[|e q]|] eqn:E; [|done|done].
  by destruct (HE _ _ E).
Qed.

Lemma LInv_with_lk st k :
  lk_pending k = pending st → sent k = sent (lk st) → LInv st → LInv (with_lk st k).
Proof.
  intros Hp Hs HL s. unfold pending. cbn [lk with_lk]. rewrite Hp, Hs.
  change (waiting (with_lk st k) s) with (waiting st s). apply HL.
Qed.

Lemma park_metric_sent lg st e : sent (lk (park_metric lg st e)) = sent (lk st).
Proof. by destruct (park_metric_lk lg st e) as [->| ->]. Qed.

Lemma LInv_park_metric st e : Inv st → LInv st → LInv (park_metric false st e).
Proof.
  intros HI HL s. specialize (HL s). rewrite waiting_park_metric. unfold pending. rewrite park_metric_sent.
  unfold park_metric. destruct (awaitM st !! entry_src e) as [q|] eqn:EM; cbn [lk].
  - (* slot exists: nothing is pushed, and the source was waiting already *)
    fold (pending st). rewrite HL. destruct (decide (s = entry_src e)) as [->|Hne].
    + assert (waiting st (entry_src e) = true) as -> by (apply waiting_true; left; rewrite EM; eauto). done.
    + by rewrite (bool_decide_eq_false_2 _ Hne), orb_false_r.
  - rewrite (no_events_None _ _ HI). destruct (awaitE st !! entry_src e) as [qe|] eqn:EE.
    + rewrite bool_decide_eq_false_2 by done.
      fold (pending st). rewrite HL. destruct (decide (s = entry_src e)) as [->|Hne].
      * assert (waiting st (entry_src e) = true) as -> by (apply waiting_true; right; rewrite EE; eauto). done.
      * by rewrite (bool_decide_eq_false_2 _ Hne), orb_false_r.
    + rewrite bool_decide_eq_true_2 by done.
      rewrite lk_pending_push. cbn [app count]. fold (pending st). rewrite HL.
      destruct (decide (entry_src e = s)) as [<-|Hne].
      * assert (waiting st (entry_src e) = false) as -> by (by apply waiting_false).
        by rewrite bool_decide_eq_true_2.
      * rewrite (bool_decide_eq_false_2 (s = entry_src e)) by congruence. by rewrite orb_false_r.
Qed.

Lemma LInv_fold_park_metric es st : Inv st → LInv st → LInv (fold_left (park_metric false) es st).
Proof.
  revert st; induction es as [|e r IH]; intros st HI HL; cbn; [done|].
  apply IH; [by apply Inv_park_metric|by apply LInv_park_metric].
Qed.

Lemma LInv_park_event st e : Inv st → LInv st → LInv (park_event false st e).
Proof.
  intros HI HL s. specialize (HL s). rewrite waiting_park_event. destruct HI as [_ HE _ _ _].
  unfold pending, park_event; cbn [lk].
  destruct (awaitE st !! ev_src e) as [q|] eqn:EE; cbn.
  - destruct (HE _ _ EE) as [Hne _]. destruct q as [|e0 q]; [done|]. cbn. fold (pending st). rewrite HL.
    destruct (decide (s = ev_src e)) as [->|Hn].
    + assert (waiting st (ev_src e) = true) as -> by (apply waiting_true; right; rewrite EE; eauto). done.
    + by rewrite (bool_decide_eq_false_2 _ Hn), orb_false_r.
  - destruct (awaitM st !! ev_src e) as [qm|] eqn:EM; cbn.
    + fold (pending st). rewrite HL. destruct (decide (s = ev_src e)) as [->|Hn].
      * assert (waiting st (ev_src e) = true) as -> by (apply waiting_true; left; rewrite EM; eauto). done.
      * by rewrite (bool_decide_eq_false_2 _ Hn), orb_false_r.
    + change (mjoin (stack (lk st)).*2) with (pending st). rewrite HL.
      destruct (decide (ev_src e = s)) as [<-|Hn].
      * assert (waiting st (ev_src e) = false) as -> by (by apply waiting_false).
        by rewrite bool_decide_eq_true_2.
      * rewrite (bool_decide_eq_false_2 (s = ev_src e)) by congruence. by rewrite orb_false_r.
Qed.

Lemma LInv_send st s k' : lk_send s (lk st) = Some k' → LInv st → LInv (with_lk st k').
Proof.
  intros (Hp & Hs & _ & _)%lk_send_spec HL s'. specialize (HL s'). unfold pending in *. cbn [lk with_lk].
  change (waiting (with_lk st k') s') with (waiting st s'). rewrite <- HL, Hs.
  apply count_perm. rewrite Hp. by rewrite <- Permutation_middle.
Qed.

Lemma LInv_info st s io :
  Inv st → s ∈ sent (lk st) → LInv st →
  LInv (answer (release_events (release_metrics st s io) s io) s).
Proof.
  intros HI Hin HL s'. pose proof (HL s') as HLs. revert HLs.
  set (st1 := release_events (release_metrics st s io) s io).
  unfold answer, pending. cbn [lk with_lk]. change (waiting (with_lk st1 _) s') with (waiting st1 s').
  unfold st1 at 1 2. rewrite release_lk. rewrite lk_pending_answer. cbn [sent lk_answer].
  fold (pending st). rewrite !count_app.
  destruct (decide (s' = s)) as [->|Hne].
  - assert (Hw1 : waiting st1 s = false).
    { apply waiting_false. unfold st1. rewrite release_events_awaitM, release_metrics_awaitM, lookup_delete.
      split; [done|].
      pose proof (release_events_awaitE_s (release_metrics st s io) s io) as Hnil.
      apply (slot_ok_default_nil ev_src); [|done].
      apply (inv_E _ (Inv_release_events _ s io (Inv_release_metrics _ s io HI))). }
    rewrite Hw1, count_remove_one_eq. apply count_pos_elem in Hin.
    destruct (waiting st s); lia.
  - assert (Hw1 : waiting st1 s' = waiting st s').
    { apply waiting_ext; unfold st1.
      - by rewrite release_events_awaitM, release_metrics_awaitM, lookup_delete_ne.
      - by rewrite release_events_awaitE_ne, release_metrics_awaitE. }
    by rewrite Hw1, count_remove_one_ne.
Qed.

Lemma LInv_refill st : LInv st → LInv (refill st).
Proof. intros HL. apply LInv_with_lk; [apply lk_pending_refill|done|done]. Qed.

Lemma LInv_arm st l st' :
  Inv st → LInv st → (∀ s io, l = Info s io → s ∈ sent (lk st)) → arm false st l = Some st' → LInv st'.
Proof.
  intros HI HL Henv. destruct l as [es peek|e peek|s|s io|]; cbn; intros Hs.
  - injection Hs as <-. unfold arrive_metrics, close_group, open_group.
    apply LInv_with_lk; [apply lk_pending_close|done|].
    apply LInv_fold_park_metric.
    + apply Inv_with_lk. by eapply Inv_ext; [..|exact HI].
    + apply LInv_with_lk; [done|done|]. exact HL.
  - injection Hs as <-. unfold arrive_event. destruct (resolve peek (ev_src e)); [exact HL|].
    by apply LInv_park_event.
  - destruct (lk_send s (lk st)) as [k'|] eqn:E; [|done]. injection Hs as <-. by eapply LInv_send.
  - injection Hs as <-. apply LInv_info; [done| |done]. by eapply Henv.
  - injection Hs as <-. exact HL.
Qed.

Lemma step_env_step st l st' : step_env st l = Some st' → step st l = Some st'.
Proof. destruct l; cbn; try done. by destruct (bool_decide _). Qed.

Lemma LInv_step st l st' : Inv st → LInv st → step_env st l = Some st' → LInv st'.
Proof.
  intros HI HL Hs.
  assert (Henv : ∀ s io, l = Info s io → s ∈ sent (lk st)).
  { intros s io ->. cbn in Hs. destruct (bool_decide (s ∈ sent (lk st))) eqn:E; [|done].
    by apply bool_decide_eq_true in E. }
  apply step_env_step in Hs. apply step_arm in Hs as (s1 & Ha & ->).
  apply LInv_refill. by eapply LInv_arm.
Qed.

Lemma LInv_run ls : ∀ s0 st, Inv s0 → LInv s0 → run step_env s0 ls = Some st → Inv st ∧ LInv st.
Proof.
  induction ls as [|l r IH]; intros s0 st HI HL H; cbn in H.
  - by injection H as <-.
  - destruct (step_env s0 l) as [s1|] eqn:E; [|done].
    apply (IH s1 st); [|by eapply LInv_step|done].
    eapply Inv_step; [exact HI|by apply step_env_step].
Qed.

Lemma LInv_init : LInv init.
Proof. intros s. done. Qed.

(* C11_one_lookup *)
Lemma lookup_iff_waiting ls st s :
  run step_env init ls = Some st →
  count s (pending st ++ sent (lk st)) = if waiting st s then 1%nat else 0%nat.
Proof. intros H. by destruct (LInv_run ls init st Inv_init LInv_init H) as [_ HL]. Qed.

Lemma one_lookup ls st s :
  run step_env init ls = Some st → (count s (pending st ++ sent (lk st)) ≤ 1)%nat.
Proof. intros H. rewrite (lookup_iff_waiting _ _ _ H). destruct (waiting st s); lia. Qed.

(* a run of the guarded system is a run of the plain one: every other theorem applies to it *)
Lemma run_env_run ls : ∀ s0 st, run step_env s0 ls = Some st → run step s0 ls = Some st.
Proof.
  induction ls as [|l r IH]; intros s0 st H; cbn in *; [done|].
  destruct (step_env s0 l) as [s1|] eqn:E; [|done].
  rewrite (step_env_step _ _ _ E). by apply IH.
Qed.
