(* C20 x C15: the forwarder actor of Model/Lambda.v against the handler model of Model/Forwarder.v. *)
From Coq Require Import Lia.
From GS Require Import Base.Bytes Base.LTS Model.Lexer Model.Series Model.MetricMap Model.Forwarder.
From GS Require Model.Lambda Proofs.Lambda Proofs.LambdaHist Proofs.Forwarder.
From stdpp Require Import gmap.

Module L := GS.Model.Lambda.
Module LP := GS.Proofs.Lambda.

(* ---- the forwarder actor of Model/Lambda.v, cut out of [L.step] ----
   On its six labels [L.step] reads and writes only the job table and the id counter, and reads the
   environment: the maps blocked on the sink (F_Take), the token slot of the channel (F_Notify),
   "registered".  [fwd_step] is [L.step] run in an environment that offers exactly what the label
   asks for. *)
Record fstate := F { f_jobs : list L.job; f_next : nat }.
Definition fview (s : L.state) : fstate := F (L.jobs s) (L.next_id s).
Definition is_fwd (l : L.label) : bool :=
  match l with
  | L.F_Take _ _ _ | L.F_PostStart _ | L.F_AttemptFail _ | L.F_Reattempt _ | L.F_PostEnd _ _ | L.F_Notify _ => true
  | _ => false
  end.
Definition env (fs : fstate) (l : L.label) : L.state :=
  L.mkState L.MRunning false true L.HWait 0 None L.RIdle 0 [] [] [] []
    (match l with L.F_Take _ o d => Some (o, d) | _ => None end) (f_jobs fs) (f_next fs) false.
Definition fwd_step (fs : fstate) (l : L.label) : option fstate :=
  if is_fwd l then fview <$> L.step (env fs l) l else None.
(* after S_Start: the start-up POST is the only job *)
Definition finit : fstate := F [L.mkJob 0 L.ONop [] L.JTaken] 1.

(* [fwd_step] spelled out *)
Definition fmove (fs : fstate) (j : nat) (p q : L.jphase) : option fstate :=
  match L.find_job j (f_jobs fs) with
  | Some x => if L.jphase_eq_dec (L.j_phase x) p then Some (F (L.set_phase j q (f_jobs fs)) (f_next fs)) else None
  | None => None
  end.
Definition ffinish (fs : fstate) (j : nat) (p : L.jphase) : option fstate :=
  match L.find_job j (f_jobs fs) with
  | Some x => if L.jphase_eq_dec (L.j_phase x) p
              then if L.is_nop x then Some (F (L.del_job j (f_jobs fs)) (f_next fs))
                   else Some (F (L.set_phase j L.JDone (f_jobs fs)) (f_next fs))
              else None
  | None => None
  end.
Definition init_phase {A} (d : list A) : L.jphase := match d with [] => L.JDone | _ => L.JTaken end.
Definition fwd_spec (fs : fstate) (l : L.label) : option fstate :=
  match l with
  | L.F_Take j o d =>
      if PeanoNat.Nat.eq_dec j (f_next fs)
      then if L.nop_running (f_jobs fs) then None
           else Some (F (f_jobs fs ++ [L.mkJob j o d (init_phase d)]) (S j))
      else None
  | L.F_PostStart j => fmove fs j L.JTaken L.JPosting
  | L.F_AttemptFail j => fmove fs j L.JPosting L.JBackoff
  | L.F_Reattempt j => fmove fs j L.JBackoff L.JPosting
  | L.F_PostEnd j L.Sent => ffinish fs j L.JPosting
  | L.F_PostEnd j L.Dropped => ffinish fs j L.JBackoff
  | L.F_PostEnd j L.Invalid => ffinish fs j L.JTaken
  | L.F_Notify j =>
      match L.find_job j (f_jobs fs) with
      | Some x => if L.jphase_eq_dec (L.j_phase x) L.JDone then Some (F (L.del_job j (f_jobs fs)) (f_next fs)) else None
      | None => None
      end
  | _ => None
  end.

Lemma fwd_step_spec fs l : fwd_step fs l = fwd_spec fs l.
Proof.
  destruct fs as [jb nid]. destruct l; try reflexivity; unfold fwd_step, env, fview; cbn [is_fwd f_jobs f_next].
  - (* F_Take *)
    cbn [L.step L.offered L.next_id L.registered L.jobs fwd_spec f_jobs f_next].
    destruct (L.offer_eq_dec (Some (o, d)) (Some (o, d))) as [_|Hn]; [|congruence].
    destruct (PeanoNat.Nat.eq_dec j nid) as [->|]; [|reflexivity].
    cbn. destruct (L.nop_running jb); cbn; [reflexivity|].
    destruct (L.origin_eq_dec o L.OInit); destruct d; reflexivity.
  - unfold fwd_spec, fmove; cbn [L.step]; unfold L.move; cbn [L.jobs f_jobs f_next].
    destruct (L.find_job j jb); [|reflexivity]. destruct (L.jphase_eq_dec _ _); reflexivity.
  - unfold fwd_spec, fmove; cbn [L.step]; unfold L.move; cbn [L.jobs f_jobs f_next].
    destruct (L.find_job j jb); [|reflexivity]. destruct (L.jphase_eq_dec _ _); reflexivity.
  - unfold fwd_spec, fmove; cbn [L.step]; unfold L.move; cbn [L.jobs f_jobs f_next].
    destruct (L.find_job j jb); [|reflexivity]. destruct (L.jphase_eq_dec _ _); reflexivity.
  - destruct o; unfold fwd_spec, ffinish; cbn [L.step]; unfold L.finish; cbn [L.jobs f_jobs f_next];
      (destruct (L.find_job j jb); [|reflexivity]); destruct (L.jphase_eq_dec _ _); try reflexivity;
      destruct (L.is_nop _); reflexivity.
  - unfold fwd_spec; cbn [L.step L.jobs L.tok f_jobs f_next].
    destruct (L.find_job j jb); [|reflexivity]. destruct (L.jphase_eq_dec _ _); reflexivity.
Qed.

(* it is the forwarder component of the composed system: whenever the four-actor LTS takes a
   forwarder label, the forwarder's part of the state moves by [fwd_step] *)
Lemma fwd_step_actor s l s' :
  is_fwd l = true -> L.step s l = Some s' -> fwd_step (fview s) l = Some (fview s').
Proof.
  intros Hf HS. rewrite fwd_step_spec.
  destruct s as [mg se rg hb0 nx dl rt0 iv ob td infl pd ofr jb nid tk].
  destruct l; try discriminate Hf; unfold fview, fwd_spec, fmove, ffinish; cbn [L.jobs L.next_id f_jobs f_next].
  all: LP.step_inv HS; cbn [L.jobs L.next_id L.set_jobs L.set_next_id L.set_hb L.set_offered L.set_tok].
  all: repeat match goal with
       | H : ?x = _ |- context [?x] => rewrite H
       | |- context [PeanoNat.Nat.eq_dec ?a ?a] => destruct (PeanoNat.Nat.eq_dec a a); [|congruence]
       | |- context [L.jphase_eq_dec ?a ?a] => destruct (L.jphase_eq_dec a a); [|congruence]
       end; try reflexivity.
  all: match goal with H : _ && negb (L.nop_running _) = true |- _ =>
         apply andb_prop in H as [_ H]; apply negb_true_iff in H; rewrite H end;
       reflexivity.
Qed.


(* ---- lookups in the job table ---- *)
Definition ids (l : list L.job) : list nat := L.j_id <$> l.

Lemma fj_none j l : j ∉ ids l -> L.find_job j l = None.
Proof.
  induction l as [|x r IH]; cbn -[PeanoNat.Nat.eq_dec]; [reflexivity|]. intros Hn.
  destruct (PeanoNat.Nat.eq_dec (L.j_id x) j) as [<-|]; [exfalso; apply Hn; left|apply IH; intros H; apply Hn; right; exact H].
Qed.
Lemma fj_some_in j l x : L.find_job j l = Some x -> x ∈ l /\ L.j_id x = j.
Proof.
  intros H. destruct (LP.find_job_in _ _ _ H) as [H1 H2]. split; [apply elem_of_list_In; exact H1|exact H2].
Qed.
Lemma fj_app j l x :
  L.find_job j (l ++ [x]) =
  match L.find_job j l with Some y => Some y | None => if PeanoNat.Nat.eq_dec (L.j_id x) j then Some x else None end.
Proof.
  induction l as [|y r IH]; cbn -[PeanoNat.Nat.eq_dec]; [reflexivity|]. destruct (PeanoNat.Nat.eq_dec (L.j_id y) j); [reflexivity|exact IH].
Qed.
Lemma fj_set_same j p l x :
  L.find_job j l = Some x -> L.find_job j (L.set_phase j p l) = Some (L.mkJob (L.j_id x) (L.j_origin x) (L.j_data x) p).
Proof.
  induction l as [|y r IH]; cbn -[PeanoNat.Nat.eq_dec]; [discriminate|].
  destruct (PeanoNat.Nat.eq_dec (L.j_id y) j) as [E|E]; cbn -[PeanoNat.Nat.eq_dec].
  - intros H; injection H as <-. destruct (PeanoNat.Nat.eq_dec (L.j_id y) j); [reflexivity|congruence].
  - intros H. destruct (PeanoNat.Nat.eq_dec (L.j_id y) j); [congruence|auto].
Qed.
Lemma fj_set_other j k p l : k <> j -> L.find_job k (L.set_phase j p l) = L.find_job k l.
Proof.
  intros Hk. induction l as [|y r IH]; cbn -[PeanoNat.Nat.eq_dec]; [reflexivity|].
  destruct (PeanoNat.Nat.eq_dec (L.j_id y) j) as [E|E]; cbn -[PeanoNat.Nat.eq_dec].
  - destruct (PeanoNat.Nat.eq_dec (L.j_id y) k); [congruence|reflexivity].
  - destruct (PeanoNat.Nat.eq_dec (L.j_id y) k); [reflexivity|exact IH].
Qed.
Lemma fj_del_other j k l : k <> j -> L.find_job k (L.del_job j l) = L.find_job k l.
Proof.
  intros Hk. induction l as [|y r IH]; cbn -[PeanoNat.Nat.eq_dec]; [reflexivity|].
  destruct (PeanoNat.Nat.eq_dec (L.j_id y) j) as [E|E]; cbn -[PeanoNat.Nat.eq_dec].
  - destruct (PeanoNat.Nat.eq_dec (L.j_id y) k); [congruence|reflexivity].
  - destruct (PeanoNat.Nat.eq_dec (L.j_id y) k); [reflexivity|exact IH].
Qed.
Lemma ids_set_phase j p l : ids (L.set_phase j p l) = ids l.
Proof.
  induction l as [|y r IH]; cbn -[PeanoNat.Nat.eq_dec]; [reflexivity|].
  destruct (PeanoNat.Nat.eq_dec (L.j_id y) j); cbn -[PeanoNat.Nat.eq_dec]; [reflexivity|]. unfold ids in IH. rewrite IH. reflexivity.
Qed.
Lemma ids_del_sub j l k : k ∈ ids (L.del_job j l) -> k ∈ ids l.
Proof.
  induction l as [|y r IH]; cbn -[PeanoNat.Nat.eq_dec]; [auto|].
  destruct (PeanoNat.Nat.eq_dec (L.j_id y) j); cbn -[PeanoNat.Nat.eq_dec]; [intros H; right; exact H|].
  intros H. apply elem_of_cons in H as [->|H]; [left|right; auto].
Qed.
Lemma nodup_del j l : NoDup (ids l) -> NoDup (ids (L.del_job j l)).
Proof.
  induction l as [|y r IH]; cbn -[PeanoNat.Nat.eq_dec]; [auto|]. intros H. apply NoDup_cons in H as [H1 H2].
  destruct (PeanoNat.Nat.eq_dec (L.j_id y) j); cbn -[PeanoNat.Nat.eq_dec]; [exact H2|].
  apply NoDup_cons. split; [intros Hc; apply H1; eapply ids_del_sub; exact Hc|auto].
Qed.
Lemma fj_del_same j l : NoDup (ids l) -> L.find_job j (L.del_job j l) = None.
Proof.
  induction l as [|y r IH]; cbn -[PeanoNat.Nat.eq_dec]; [reflexivity|]. intros H. apply NoDup_cons in H as [H1 H2].
  destruct (PeanoNat.Nat.eq_dec (L.j_id y) j) as [E|E]; cbn -[PeanoNat.Nat.eq_dec].
  - apply fj_none. rewrite <- E. exact H1.
  - destruct (PeanoNat.Nat.eq_dec (L.j_id y) j); [congruence|auto].
Qed.
Lemma in_set_phase_nop j p l x : x ∈ L.set_phase j p l -> exists y, y ∈ l /\ L.j_id y = L.j_id x /\ L.j_origin y = L.j_origin x.
Proof.
  induction l as [|y r IH]; cbn -[PeanoNat.Nat.eq_dec]; [intros H; inversion H|].
  destruct (PeanoNat.Nat.eq_dec (L.j_id y) j); cbn -[PeanoNat.Nat.eq_dec]; intros H; apply elem_of_cons in H as [->|H].
  - exists y; cbn -[PeanoNat.Nat.eq_dec]; split; [left|auto].
  - exists x; split; [right; exact H|auto].
  - exists y; split; [left|auto].
  - destruct (IH H) as (z & Hz & ?); exists z; split; [right; exact Hz|auto].
Qed.
Lemma in_del x j l : x ∈ L.del_job j l -> x ∈ l.
Proof.
  induction l as [|y r IH]; cbn -[PeanoNat.Nat.eq_dec]; [auto|].
  destruct (PeanoNat.Nat.eq_dec (L.j_id y) j); cbn -[PeanoNat.Nat.eq_dec]; [intros H; right; exact H|].
  intros H. apply elem_of_cons in H as [->|H]; [left|right; auto].
Qed.

(* ---- nth_error / upd / del of Model.Forwarder ---- *)
Lemma nth_upd_same {A} n (x : A) l : n < length l -> nth_error (upd n x l) n = Some x.
Proof. revert n; induction l as [|y r IH]; intros [|n]; cbn; intros H; try lia; [reflexivity|apply IH; lia]. Qed.
Lemma nth_upd_other {A} n m (x : A) l : m <> n -> nth_error (upd n x l) m = nth_error l m.
Proof. revert n m; induction l as [|y r IH]; intros [|n] [|m]; cbn; intros H; try congruence; try reflexivity. apply IH; lia. Qed.
Lemma length_upd {A} n (x : A) l : length (upd n x l) = length l.
Proof. revert n; induction l as [|y r IH]; intros [|n]; cbn; auto. Qed.
Lemma nth_error_lt {A} (l : list A) n x : nth_error l n = Some x -> n < length l.
Proof. intros H. apply nth_error_Some. congruence. Qed.
Lemma nth_error_snoc {A} (l : list A) x n :
  nth_error (l ++ [x]) n = if decide (n < length l) then nth_error l n else if decide (n = length l) then Some x else None.
Proof.
  destruct (decide (n < length l)); [apply nth_error_app1; auto|].
  rewrite nth_error_app2 by lia. destruct (decide (n = length l)) as [->|]; [rewrite Nat.sub_diag; reflexivity|].
  destruct (n - length l) as [|k] eqn:E; [lia|cbn; destruct k; reflexivity].
Qed.


Definition dp_of (it : item) : L.dp := N.of_nat (it_id it).
Definition dps (ms : list bag) : list L.dp := dp_of <$> concat ms.

(* what one step of a request's post loop is for the job *)
Definition out_label (k : nat) (pl : plabel) : list L.label :=
  match pl with
  | Construct true => [L.F_PostStart k]          (* the closure exists: the first attempt leaves *)
  | Construct false => [L.F_PostEnd k L.Invalid]
  | Attempt Ok2xx => [L.F_PostEnd k L.Sent]
  | Attempt Failed => [L.F_AttemptFail k]
  | Backoff => [L.F_Reattempt k]
  | Stop => [L.F_PostEnd k L.Dropped]
  | CtxDone => []                                 (* context cancellation: outside C20 *)
  end.

Definition is_ctxdone (hl : hlabel) : bool := match hl with ReqStep _ CtxDone => true | _ => false end.

Definition hasj (jb : list L.job) (k : nat) (ph : L.jphase) : Prop :=
  exists x, L.find_job k jb = Some x /\ L.j_phase x = ph /\ L.is_nop x = false.

Definition fresh (qm : list nat) (k : nat) : Prop := forall q, nth_error qm q <> Some k.

Definition phase_of (p : pstate) : L.jphase :=
  match p_phase p with PNew => L.JTaken | PTry => L.JPosting | PFailed => L.JBackoff | PEnd => L.JDone end.

Lemma hasj_app jb x k ph : hasj jb k ph -> hasj (jb ++ [x]) k ph.
Proof. intros (y & H1 & H2). exists y. rewrite fj_app, H1. auto. Qed.
Lemma hasj_set_other jb j p k ph : k <> j -> hasj jb k ph -> hasj (L.set_phase j p jb) k ph.
Proof. intros Hk (y & H1 & H2). exists y. rewrite fj_set_other by auto. auto. Qed.
Lemma hasj_del_other jb j k ph : k <> j -> hasj jb k ph -> hasj (L.del_job j jb) k ph.
Proof. intros Hk (y & H1 & H2). exists y. rewrite fj_del_other by auto. auto. Qed.
Lemma hasj_set_same jb j p ph : hasj jb j ph -> hasj (L.set_phase j p jb) j p.
Proof.
  intros (y & H1 & H2 & H3). eexists. rewrite (fj_set_same _ _ _ _ H1). split; [reflexivity|].
  split; [reflexivity|]. unfold L.is_nop in *; cbn. exact H3.
Qed.
Lemma fj_in_some (jb : list L.job) x : x ∈ jb -> exists y, L.find_job (L.j_id x) jb = Some y.
Proof.
  induction jb as [|z r IH]; [intros H; inversion H|]. intros H. cbn -[PeanoNat.Nat.eq_dec].
  destruct (PeanoNat.Nat.eq_dec (L.j_id z) (L.j_id x)); [eauto|].
  apply elem_of_cons in H as [->|H]; [congruence|auto].
Qed.

Section Refine.
  Variable org : nat -> L.origin.
  Hypothesis org_ok : forall k, org k <> L.ONop.
  Variables cm mr : nat.
  Variable utf8ok : str -> bool.

  Definition proj_label (hs : hstate) (qm : list nat) (hl : hlabel) : list L.label * list nat :=
    match hl with
    | SinkRecv ms => let k := S (length (received hs)) in ([L.F_Take k (org k) (dps ms)], qm)
    | LoopSpawn | MergeSplit _ => ([], qm)
    | PartSkip g _ => ([L.F_Notify (S g)], qm)
    | PartPost g _ => ([], qm ++ [S g])
    | ReqStep q pl => (out_label (nth q qm 0) pl, qm)
    | Release q => (match q with 0 => [] | _ => [L.F_Notify (nth q qm 0)] end, qm)
    end.

  Fixpoint project (hs : hstate) (qm : list nat) (ls : list hlabel) : option (list L.label * hstate * list nat) :=
    match ls with
    | [] => Some ([], hs, qm)
    | l :: r =>
        match hstep cm mr [] utf8ok hs l with
        | None => None
        | Some hs' =>
            match project hs' (snd (proj_label hs qm l)) r with
            | Some (o2, h2, q2) => Some (fst (proj_label hs qm l) ++ o2, h2, q2)
            | None => None
            end
        end
    end.

  Record Rel (hs : hstate) (qm : list nat) (fs : fstate) : Prop := {
    rl_next : f_next fs = S (length (received hs));
    rl_ids : forall k, k ∈ ids (f_jobs fs) -> k <= length (received hs);
    rl_nodup : NoDup (ids (f_jobs fs));
    rl_nn : forall x, x ∈ f_jobs fs -> (L.j_id x = 0 <-> L.is_nop x = true);
    rl_len : length qm = length (reqs hs);
    rl_loop : match loop hs with
              | Some ms => length (received hs) = S (length (gors hs))
                           /\ hasj (f_jobs fs) (length (received hs)) (init_phase (concat ms))
                           /\ fresh qm (length (received hs))
              | None => length (received hs) = length (gors hs)
              end;
    rl_gor : forall g G, nth_error (gors hs) g = Some G ->
             match G with
             | GMerging ms => hasj (f_jobs fs) (S g) (init_phase (concat ms)) /\ fresh qm (S g)
             | GPosting [] => True
             | GPosting [(pk, b)] => hasj (f_jobs fs) (S g) (init_phase b) /\ fresh qm (S g)
             | GPosting _ => False
             end;
    rl_nop : exists r0 rest, reqs hs = r0 :: rest /\ r_tok r0 = false /\ nth_error qm 0 = Some 0 /\
             match p_phase (r_post r0) with
             | PEnd => L.find_job 0 (f_jobs fs) = None
             | _ => exists x, L.find_job 0 (f_jobs fs) = Some x /\ L.j_phase x = phase_of (r_post r0)
             end;
    rl_rel : forall q r, nth_error (reqs hs) q = Some r -> r_released r = true -> p_phase (r_post r) = PEnd;
    rl_req : forall q r k, q <> 0 -> nth_error (reqs hs) q = Some r -> nth_error qm q = Some k ->
             r_tok r = true /\ 1 <= k <= length (received hs) /\
             (if r_released r then L.find_job k (f_jobs fs) = None else hasj (f_jobs fs) k (phase_of (r_post r)));
    rl_inj : forall q q' k, q <> 0 -> q' <> 0 -> nth_error qm q = Some k -> nth_error qm q' = Some k -> q = q'
  }.

  Lemma Rel_init : Rel (hinit cm mr) [0] finit.
  Proof.
    split; cbn -[PeanoNat.Nat.eq_dec]; auto.
    - intros k Hk. apply elem_of_list_singleton in Hk. lia.
    - apply NoDup_singleton.
    - intros x Hx. apply elem_of_list_singleton in Hx as ->. cbn. tauto.
    - intros g G Hg. destruct g; discriminate.
    - exists (nop), []. cbn -[PeanoNat.Nat.eq_dec]. repeat split; auto. eexists; split; reflexivity.
    - intros [|q] r Hq Hr; cbn in Hq; [injection Hq as <-; discriminate|destruct q; discriminate].
    - intros [|q] r k Hq; [congruence|]. destruct q; discriminate.
    - intros [|q] q' k Hq; [congruence|]. destruct q; discriminate.
  Qed.

  Notation hstep0 := (hstep cm mr [] utf8ok).

  Lemma init_phase_dps ms : init_phase (dps ms) = init_phase (concat ms).
  Proof. unfold dps. destruct (concat ms); reflexivity. Qed.

  Lemma no_nop_running jb : L.find_job 0 jb = None ->
    (forall x, x ∈ jb -> (L.j_id x = 0 <-> L.is_nop x = true)) -> L.nop_running jb = false.
  Proof.
    intros Hf Hn. unfold L.nop_running. destruct (existsb L.is_nop jb) eqn:E; [|reflexivity].
    apply existsb_exists in E as (x & Hx & Hnop). apply elem_of_list_In in Hx.
    destruct (fj_in_some _ _ Hx) as (y & Hy). rewrite (proj2 (Hn x Hx) Hnop) in Hy. congruence.
  Qed.

  Lemma sim_SinkRecv hs qm fs ms hs' :
    Rel hs qm fs -> hstep0 hs (SinkRecv ms) = Some hs' ->
    exists fs', fwd_step fs (L.F_Take (S (length (received hs))) (org (S (length (received hs)))) (dps ms)) = Some fs'
                /\ Rel hs' qm fs'.
  Proof.
    intros [Rn Ri Rd Rnn Rl Rlo Rg Rnop Rrel Rq Rinj] HS. cbn in HS.
    destruct (loop hs) eqn:El; [discriminate|]. destruct (nop_returned hs) eqn:En; [|discriminate].
    injection HS as <-. destruct fs as [jb nx]. cbn [f_jobs f_next] in *. subst nx.
    destruct Rnop as (r0 & rest & Er & Rt & Rq0 & Rph).
    unfold nop_returned in En. rewrite Er in En.
    assert (Hpe : p_phase (r_post r0) = PEnd) by (apply (Rrel 0 r0); [rewrite Er; reflexivity|exact En]).
    rewrite Hpe in Rph.
    set (k := S (length (received hs))).
    assert (Hk : k ∉ ids jb) by (intros Hc; apply Ri in Hc; unfold k in Hc; lia).
    assert (Hnone : forall k0, k0 <= length (received hs) -> L.j_id (L.mkJob k (org k) (dps ms) (init_phase (dps ms))) <> k0)
      by (cbn; unfold k; lia).
    assert (Hfresh : fresh qm k).
    { intros q Hq. destruct q as [|q]; [rewrite Rq0 in Hq; injection Hq as Hq; unfold k in Hq; lia|].
      assert (Hlt : S q < length (reqs hs)) by (rewrite <- Rl; eapply nth_error_lt; eauto).
      destruct (nth_error (reqs hs) (S q)) as [r|] eqn:Eq; [|apply nth_error_None in Eq; lia].
      destruct (Rq (S q) r k ltac:(lia) Eq Hq) as (_ & Hb & _). unfold k in Hb. lia. }
    eexists. split.
    - rewrite fwd_step_spec. cbn -[PeanoNat.Nat.eq_dec]. destruct (PeanoNat.Nat.eq_dec k k); [|congruence].
      pose proof (no_nop_running _ Rph Rnn) as Hnr. unfold L.nop_running in Hnr. rewrite Hnr. reflexivity.
    - split; cbn -[PeanoNat.Nat.eq_dec].
      + rewrite app_length; cbn; lia.
      + intros k0 Hk0. unfold ids in Hk0. rewrite fmap_app in Hk0. apply elem_of_app in Hk0 as [Hk0|Hk0].
        * apply Ri in Hk0. rewrite app_length; cbn; lia.
        * apply elem_of_list_singleton in Hk0. rewrite app_length; cbn. unfold k in Hk0. cbn in Hk0. lia.
      + unfold ids. rewrite fmap_app. apply NoDup_app. split; [exact Rd|]. split; [|apply NoDup_singleton].
        intros x Hx Hx2. apply elem_of_list_singleton in Hx2. cbn in Hx2. subst x. exact (Hk Hx).
      + intros x Hx. apply elem_of_app in Hx as [Hx|Hx]; [auto|]. apply elem_of_list_singleton in Hx as ->.
        unfold L.is_nop; cbn. pose proof (org_ok k). destruct (org k); split; intros; try congruence; unfold k in *; lia.
      + exact Rl.
      + rewrite app_length; cbn. split; [lia|]. rewrite Nat.add_1_r. fold k. split; [|exact Hfresh].
        eexists. rewrite fj_app, (fj_none _ _ Hk). cbn -[PeanoNat.Nat.eq_dec].
        destruct (PeanoNat.Nat.eq_dec k k); [|congruence]. split; [reflexivity|]. cbn. split; [apply init_phase_dps|].
        unfold L.is_nop; cbn. pose proof (org_ok k). destruct (org k); congruence.
      + intros g G Hg. specialize (Rg g G Hg). destruct G as [ms0|[|[pk b] [|? ?]]]; auto.
        * destruct Rg; split; [apply hasj_app|]; auto.
        * destruct Rg; split; [apply hasj_app|]; auto.
      + exists r0, rest. repeat split; auto. rewrite Hpe. rewrite fj_app, Rph. cbn -[PeanoNat.Nat.eq_dec].
        destruct (PeanoNat.Nat.eq_dec k 0); [unfold k in *; lia|reflexivity].
      + exact Rrel.
      + intros q r k0 Hq Hr Hk0. destruct (Rq q r k0 Hq Hr Hk0) as (H1 & H2 & H3). split; [exact H1|]. split; [rewrite app_length; cbn; lia|].
        destruct (r_released r).
        * rewrite fj_app, H3. cbn -[PeanoNat.Nat.eq_dec]. destruct (PeanoNat.Nat.eq_dec k k0); [unfold k in *; lia|reflexivity].
        * apply hasj_app; exact H3.
      + exact Rinj.
  Qed.

  Lemma sim_LoopSpawn hs qm fs hs' :
    Rel hs qm fs -> hstep0 hs LoopSpawn = Some hs' -> Rel hs' qm fs.
  Proof.
    intros [Rn Ri Rd Rnn Rl Rlo Rg Rnop Rrel Rq Rinj] HS. cbn in HS.
    destruct (loop hs) as [ms|] eqn:El; [|discriminate]. destruct (merge_free hs) as [|n]; [discriminate|].
    injection HS as <-. destruct Rlo as (Hlen & Hhas & Hfr).
    split; cbn; auto.
    - rewrite app_length; cbn; lia.
    - intros g G Hg. rewrite nth_error_snoc in Hg. destruct (decide (g < length (gors hs))); [exact (Rg g G Hg)|].
      destruct (decide (g = length (gors hs))) as [->|]; [|discriminate]. injection Hg as <-.
      rewrite <- Hlen. auto.
  Qed.

  Lemma sim_MergeSplit hs qm fs g hs' :
    Rel hs qm fs -> hstep0 hs (MergeSplit g) = Some hs' -> Rel hs' qm fs.
  Proof.
    intros [Rn Ri Rd Rnn Rl Rlo Rg Rnop Rrel Rq Rinj] HS. cbn in HS.
    destruct (nth_error (gors hs) g) as [[ms|?]|] eqn:Eg; try discriminate.
    match type of HS with context [if ?c then _ else _] => destruct c end; [|discriminate]. injection HS as <-.
    pose proof (nth_error_lt _ _ _ Eg) as Hlt.
    split; cbn; auto.
    - rewrite length_upd. exact Rlo.
    - intros g' G Hg. destruct (decide (g' = g)) as [->|Hne].
      + rewrite nth_upd_same in Hg by auto. injection Hg as <-. exact (Rg g _ Eg).
      + rewrite nth_upd_other in Hg by auto. exact (Rg g' G Hg).
  Qed.

  (* a part of a flush without dynamic headers is the whole flush *)
  Lemma single_part hs qm fs g parts j pk b :
    Rel hs qm fs -> nth_error (gors hs) g = Some (GPosting parts) -> nth_error parts j = Some (pk, b) ->
    parts = [(pk, b)] /\ j = 0 /\ hasj (f_jobs fs) (S g) (init_phase b) /\ fresh qm (S g).
  Proof.
    intros R Eg Ej. pose proof (rl_gor _ _ _ R g _ Eg) as Hg.
    destruct parts as [|[pk0 b0] [|? ?]]; [destruct j; discriminate| |contradiction].
    destruct j as [|j]; [|destruct j; discriminate]. injection Ej as -> ->. tauto.
  Qed.

  Lemma sim_PartSkip hs qm fs g j hs' :
    Rel hs qm fs -> hstep0 hs (PartSkip g j) = Some hs' ->
    exists fs', fwd_step fs (L.F_Notify (S g)) = Some fs' /\ Rel hs' qm fs'.
  Proof.
    intros R HS. cbn in HS.
    destruct (nth_error (gors hs) g) as [[?|parts]|] eqn:Eg; try discriminate.
    destruct (nth_error parts j) as [[pk b]|] eqn:Ej; [|discriminate]. destruct b; [|discriminate].
    injection HS as <-.
    destruct (single_part _ _ _ _ _ _ _ _ R Eg Ej) as (-> & -> & (x & Hx & Hph & Hnn) & Hfr).
    pose proof (nth_error_lt _ _ _ Eg) as Hlt.
    destruct R as [Rn Ri Rd Rnn Rl Rlo Rg Rnop Rrel Rq Rinj]. destruct fs as [jb nx]. cbn [f_jobs f_next] in *.
    eexists. split.
    - rewrite fwd_step_spec. cbn -[PeanoNat.Nat.eq_dec]. rewrite Hx, Hph. cbn. reflexivity.
    - split; cbn -[PeanoNat.Nat.eq_dec]; auto.
      + intros k Hk. apply Ri. eapply ids_del_sub; eauto.
      + apply nodup_del; auto.
      + intros y Hy. apply Rnn. eapply in_del; eauto.
      + rewrite length_upd. destruct (loop hs); [|exact Rlo]. destruct Rlo as (H1 & H2 & H3).
        split; [exact H1|]. split; [apply hasj_del_other; [lia|exact H2]|exact H3].
      + intros g' G Hg. destruct (decide (g' = g)) as [->|Hne].
        * rewrite nth_upd_same in Hg by auto. injection Hg as <-. exact I.
        * rewrite nth_upd_other in Hg by auto. specialize (Rg g' G Hg).
          destruct G as [ms0|[|[pk0 b0] [|? ?]]]; auto; destruct Rg; (split; [apply hasj_del_other; [lia|auto]|auto]).
      + destruct Rnop as (r0 & rest & Er & Rt & Rq0 & Rph). exists r0, rest. repeat split; auto.
        rewrite fj_del_other by lia. exact Rph.
      + intros q r k Hq Hr Hk. destruct (Rq q r k Hq Hr Hk) as (H1 & H2 & H3). split; [exact H1|]. split; [exact H2|].
        assert (k <> S g) by (intros ->; exact (Hfr q Hk)).
        destruct (r_released r); [rewrite fj_del_other by auto; exact H3|apply hasj_del_other; auto].
  Qed.

  Lemma sim_PartPost hs qm fs g j hs' :
    Rel hs qm fs -> hstep0 hs (PartPost g j) = Some hs' -> Rel hs' (qm ++ [S g]) fs.
  Proof.
    intros R HS. cbn in HS.
    destruct (nth_error (gors hs) g) as [[?|parts]|] eqn:Eg; try discriminate.
    destruct (nth_error parts j) as [[pk b]|] eqn:Ej; [|discriminate]. destruct b as [|i0 b]; [discriminate|].
    destruct (req_free hs) as [|n]; [discriminate|]. injection HS as <-.
    destruct (single_part _ _ _ _ _ _ _ _ R Eg Ej) as (-> & -> & Hhas & Hfr).
    pose proof (nth_error_lt _ _ _ Eg) as Hlt.
    destruct R as [Rn Ri Rd Rnn Rl Rlo Rg Rnop Rrel Rq Rinj].
    assert (Hgl : S g <= length (received hs)) by (destruct (loop hs); [destruct Rlo|]; lia).
    assert (Hfr' : forall k, k <> S g -> fresh qm k -> fresh (qm ++ [S g]) k).
    { intros k Hk Hf q Hq. rewrite nth_error_snoc in Hq. destruct (decide (q < length qm)); [exact (Hf q Hq)|].
      destruct (decide (q = length qm)); [congruence|discriminate]. }
    split; cbn; auto.
    - rewrite !app_length; cbn; lia.
    - rewrite length_upd. destruct (loop hs); [|exact Rlo]. destruct Rlo as (H1 & H2 & H3).
      split; [exact H1|]. split; [exact H2|]. apply Hfr'; [lia|exact H3].
    - intros g' G Hg. destruct (decide (g' = g)) as [->|Hne].
      + rewrite nth_upd_same in Hg by auto. injection Hg as <-. exact I.
      + rewrite nth_upd_other in Hg by auto. specialize (Rg g' G Hg).
        destruct G as [ms0|[|[pk0 b0] [|? ?]]]; auto; destruct Rg; (split; [auto|apply Hfr'; [lia|auto]]).
    - destruct Rnop as (r0 & rest & Er & Rt & Rq0 & Rph). exists r0, (rest ++ [Req pk (i0 :: b) true false pinit]).
      rewrite Er. repeat split; auto. destruct qm; [discriminate|exact Rq0].
    - intros q r Hq. rewrite nth_error_snoc in Hq. destruct (decide (q < length (reqs hs))); [exact (Rrel q r Hq)|].
      destruct (decide (q = length (reqs hs))); [|discriminate]. injection Hq as <-. discriminate.
    - intros q r k Hq0 Hr Hk. rewrite nth_error_snoc in Hr. rewrite nth_error_snoc in Hk. rewrite Rl in Hk.
      destruct (decide (q < length (reqs hs))); [exact (Rq q r k Hq0 Hr Hk)|].
      destruct (decide (q = length (reqs hs))); [|discriminate]. injection Hr as <-. injection Hk as <-. cbn.
      split; [reflexivity|]. split; [lia|]. exact Hhas.
    - intros q q' k Hq Hq' H1 H2. rewrite nth_error_snoc in H1. rewrite nth_error_snoc in H2.
      destruct (decide (q < length qm)), (decide (q' < length qm)).
      + eapply Rinj; eauto.
      + destruct (decide (q' = length qm)); [|discriminate]. injection H2 as <-. exfalso; exact (Hfr q H1).
      + destruct (decide (q = length qm)); [|discriminate]. injection H1 as <-. exfalso; exact (Hfr q' H2).
      + destruct (decide (q = length qm)), (decide (q' = length qm)); try discriminate. lia.
  Qed.
End Refine.


Definition ended (p : pstate) : bool := match p_phase p with PEnd => true | _ => false end.

Lemma post_out c p pl p' jb n k x :
  post_step c p pl = Some p' -> pl <> CtxDone ->
  L.find_job k jb = Some x -> L.j_phase x = phase_of p ->
  run fwd_step (F jb n) (out_label k pl) =
  Some (F (if L.is_nop x && ended p' then L.del_job k jb else L.set_phase k (phase_of p') jb) n)
  /\ p_phase p <> PEnd.
Proof.
  intros HS Hc Hf Hp. destruct p as [ph st hist ctr]. unfold phase_of in Hp. cbn in Hp.
  destruct ph, pl as [[|]|[|]| | |]; cbn in HS; try discriminate HS; try congruence.
  all: try (destruct c, hist; discriminate HS).
  all: injection HS as <-; split; [|discriminate].
  all: cbn [out_label run]; rewrite fwd_step_spec; cbn -[PeanoNat.Nat.eq_dec L.jphase_eq_dec];
       unfold fmove, ffinish; cbn [f_jobs f_next]; rewrite Hf, Hp;
       match goal with |- context [L.jphase_eq_dec ?a ?a] => destruct (L.jphase_eq_dec a a); [|congruence] end;
       unfold ended, phase_of; cbn; try rewrite andb_false_r; try rewrite andb_true_r; try reflexivity;
       destruct (L.is_nop x); reflexivity.
Qed.

Lemma nth_of_nth_error {A} (l : list A) n x d : nth_error l n = Some x -> nth n l d = x.
Proof. revert n; induction l as [|y r IH]; intros [|n]; cbn; try discriminate; [congruence|apply IH]. Qed.

Lemma is_nop_same (x y : L.job) : L.j_origin y = L.j_origin x -> L.is_nop y = L.is_nop x.
Proof. unfold L.is_nop. intros ->. reflexivity. Qed.

Section Refine2.
  Variables cm mr : nat.
  Variable utf8ok : str -> bool.
  Notation hstep0 := (hstep cm mr [] utf8ok).

  (* the parts of Rel that only talk about jobs other than k survive a change of job k *)
  Lemma Rel_change_job hs qm jb nx jb' k :
    Rel hs qm (F jb nx) ->
    ids jb' ⊆ ids jb -> NoDup (ids jb') ->
    (forall x, x ∈ jb' -> exists y, y ∈ jb /\ L.j_id y = L.j_id x /\ L.j_origin y = L.j_origin x) ->
    (forall k', k' <> k -> L.find_job k' jb' = L.find_job k' jb) ->
    forall hs',
    received hs' = received hs -> loop hs' = loop hs -> gors hs' = gors hs -> length (reqs hs') = length (reqs hs) ->
    (match loop hs with Some _ => k <> length (received hs) | None => True end) ->
    (forall g pk b, nth_error (gors hs) g = Some (GPosting [(pk, b)]) -> k <> S g) ->
    (forall g ms, nth_error (gors hs) g = Some (GMerging ms) -> k <> S g) ->
    (* obligations about job k itself *)
    (exists r0 rest, reqs hs' = r0 :: rest /\ r_tok r0 = false /\ nth_error qm 0 = Some 0 /\
       match p_phase (r_post r0) with
       | PEnd => L.find_job 0 jb' = None
       | _ => exists x, L.find_job 0 jb' = Some x /\ L.j_phase x = phase_of (r_post r0)
       end) ->
    (forall q r, nth_error (reqs hs') q = Some r -> r_released r = true -> p_phase (r_post r) = PEnd) ->
    (forall q r k0, q <> 0 -> nth_error (reqs hs') q = Some r -> nth_error qm q = Some k0 ->
       r_tok r = true /\ 1 <= k0 <= length (received hs) /\
       (if r_released r then L.find_job k0 jb' = None else hasj jb' k0 (phase_of (r_post r)))) ->
    Rel hs' qm (F jb' nx).
  Proof.
    intros [Rn Ri Rd Rnn Rl Rlo Rg Rnop Rrel Rq Rinj] Hsub Hnd Hback Hother hs' Er El Eg Elen Hkl Hkg Hkm Hnop Hrel Hreq.
    cbn [f_jobs f_next] in *.
    assert (Hhas : forall k' ph, k' <> k -> hasj jb k' ph -> hasj jb' k' ph).
    { intros k' ph Hne (x & H1 & H2). exists x. rewrite Hother by auto. auto. }
    split; cbn [f_jobs f_next]; rewrite ?Er, ?El, ?Eg.
    - exact Rn.
    - intros k0 Hk0. apply Ri. apply Hsub. exact Hk0.
    - exact Hnd.
    - intros x Hx. destruct (Hback x Hx) as (y & Hy & E1 & E2). rewrite <- E1, (is_nop_same y x) by congruence.
      apply Rnn. exact Hy.
    - congruence.
    - destruct (loop hs); [|exact Rlo]. destruct Rlo as (H1 & H2 & H3). split; [exact H1|]. split; [apply Hhas; auto|exact H3].
    - intros g G Hg. specialize (Rg g G Hg). destruct G as [ms0|[|[pk0 b0] [|? ?]]]; auto.
      + destruct Rg. split; [apply Hhas; [intros E; exact (Hkm _ _ Hg (eq_sym E))|auto]|auto].
      + destruct Rg. split; [apply Hhas; [intros E; exact (Hkg _ _ _ Hg (eq_sym E))|auto]|auto].
    - exact Hnop.
    - exact Hrel.
    - exact Hreq.
    - exact Rinj.
  Qed.

  Definition job_change (jb jb' : list L.job) (k : nat) : Prop :=
    ids jb' ⊆ ids jb /\ (NoDup (ids jb) -> NoDup (ids jb')) /\
    (forall x, x ∈ jb' -> exists y, y ∈ jb /\ L.j_id y = L.j_id x /\ L.j_origin y = L.j_origin x) /\
    (forall k', k' <> k -> L.find_job k' jb' = L.find_job k' jb).
  Lemma change_set jb k p : job_change jb (L.set_phase k p jb) k.
  Proof.
    split; [rewrite ids_set_phase; reflexivity|]. split; [rewrite ids_set_phase; auto|].
    split; [apply in_set_phase_nop|]. intros k' Hk. apply fj_set_other; auto.
  Qed.
  Lemma change_del jb k : job_change jb (L.del_job k jb) k.
  Proof.
    split; [intros x; apply ids_del_sub|]. split; [apply nodup_del|].
    split; [intros x Hx; exists x; split; [eapply in_del; eauto|auto]|]. intros k' Hk. apply fj_del_other; auto.
  Qed.

  Lemma sim_ReqStep hs qm fs q pl hs' :
    Rel hs qm fs -> hstep0 hs (ReqStep q pl) = Some hs' -> pl <> CtxDone ->
    exists fs', run fwd_step fs (out_label (nth q qm 0) pl) = Some fs' /\ Rel hs' qm fs'.
  Proof.
    intros R HS Hc. cbn in HS.
    destruct (nth_error (reqs hs) q) as [r|] eqn:Eq; [|discriminate].
    destruct (post_step (negb (r_tok r)) (r_post r) pl) as [p'|] eqn:Ep; [|discriminate].
    match type of HS with context [if ?c then _ else _] => destruct c end; [|discriminate]. injection HS as <-.
    destruct fs as [jb nx].
    pose proof R as [Rn Ri Rd Rnn Rl Rlo Rg Rnop Rrel Rq Rinj]. cbn [f_jobs f_next] in *.
    pose proof (nth_error_lt _ _ _ Eq) as Hlt.
    destruct Rnop as (r0 & rest & Er & Rt & Rq0 & Rph).
    destruct (decide (q = 0)) as [->|Hq].
    - (* the start-up POST *)
      rewrite Er in Eq. injection Eq as <-. rewrite (nth_of_nth_error _ _ _ 0 Rq0).
      assert (Hne : p_phase (r_post r0) <> PEnd).
      { destruct (p_phase (r_post r0)) eqn:E; try discriminate. destruct (r_post r0) as [ph ? ? ?]; cbn in E; subst ph.
        destruct pl as [[|]|[|]| | |]; discriminate Ep. }
      assert (Hx : exists x, L.find_job 0 jb = Some x /\ L.j_phase x = phase_of (r_post r0))
        by (destruct (p_phase (r_post r0)); try exact Rph; congruence).
      destruct Hx as (x & Hx & Hph).
      destruct (fj_some_in _ _ _ Hx) as [Hxin Hxid].
      pose proof (proj1 (Rnn x Hxin) Hxid) as Hxn.
      destruct (post_out _ _ _ _ jb nx 0 x Ep Hc Hx Hph) as [Hrun _]. rewrite Hxn in Hrun. cbn [andb] in Hrun.
      eexists. split; [exact Hrun|].
      set (jb' := if ended p' then L.del_job 0 jb else L.set_phase 0 (phase_of p') jb).
      assert (Hch : job_change jb jb' 0) by (unfold jb'; destruct (ended p'); [apply change_del|apply change_set]).
      destruct Hch as (C1 & C2 & C3 & C4).
      eapply (Rel_change_job hs qm jb nx jb' 0 R C1 (C2 Rd) C3 C4); cbn [received loop gors reqs]; try reflexivity.
      + rewrite length_upd; reflexivity.
      + destruct (loop hs); [|exact I]. destruct Rlo as (H1 & _). lia.
      + intros; lia.
      + intros; lia.
      + rewrite Er. cbn. eexists _, rest. split; [reflexivity|]. cbn. split; [exact Rt|]. split; [exact Rq0|].
        unfold jb', ended. destruct (p_phase p') eqn:Epp.
        1-3: rewrite (fj_set_same _ _ _ _ Hx); eexists; split; [reflexivity|reflexivity].
        apply fj_del_same; exact Rd.
      + intros q' r' Hq' Hr'. destruct (decide (q' = 0)) as [->|Hne'].
        * rewrite Er in Hq'. cbn in Hq'. injection Hq' as <-. cbn in Hr'.
          exfalso. apply Hne. apply (Rrel 0 r0); [rewrite Er; reflexivity|exact Hr'].
        * rewrite nth_upd_other in Hq' by auto. eapply Rrel; eauto.
      + intros q' r' k0 Hq' Hr' Hk0. rewrite nth_upd_other in Hr' by auto.
        destruct (Rq q' r' k0 Hq' Hr' Hk0) as (H1 & H2 & H3). split; [exact H1|]. split; [exact H2|].
        destruct (r_released r'); [rewrite C4 by lia; exact H3|].
        destruct H3 as (y & Y1 & Y2). exists y. rewrite C4 by lia. auto.
    - (* a flush request *)
      assert (Hk : exists k, nth_error qm q = Some k).
      { destruct (nth_error qm q) eqn:E; [eauto|]. apply nth_error_None in E. lia. }
      destruct Hk as (k & Hk). rewrite (nth_of_nth_error _ _ _ 0 Hk).
      destruct (Rq q r k Hq Eq Hk) as (Htok & Hkb & Hjob).
      assert (Hne : p_phase (r_post r) <> PEnd).
      { destruct (p_phase (r_post r)) eqn:E; try discriminate. destruct (r_post r) as [ph ? ? ?]; cbn in E; subst ph.
        destruct pl as [[|]|[|]| | |]; discriminate Ep. }
      assert (Hrl : r_released r = false)
        by (destruct (r_released r) eqn:E; [exfalso; apply Hne; eapply Rrel; eauto|reflexivity]).
      rewrite Hrl in Hjob. destruct Hjob as (x & Hx & Hph & Hxn).
      destruct (post_out _ _ _ _ jb nx k x Ep Hc Hx Hph) as [Hrun _]. rewrite Hxn in Hrun. cbn [andb] in Hrun.
      eexists. split; [exact Hrun|].
      destruct (change_set jb k (phase_of p')) as (C1 & C2 & C3 & C4).
      eapply (Rel_change_job hs qm jb nx _ k R C1 (C2 Rd) C3 C4); cbn [received loop gors reqs]; try reflexivity.
      + rewrite length_upd; reflexivity.
      + destruct (loop hs); [|exact I]. destruct Rlo as (_ & _ & Hf). intros ->. exact (Hf q Hk).
      + intros g pk b Hg ->. destruct (Rg g _ Hg) as [_ Hf]. exact (Hf q Hk).
      + intros g ms Hg ->. destruct (Rg g _ Hg) as [_ Hf]. exact (Hf q Hk).
      + rewrite Er. destruct q as [|q']; [congruence|]. cbn. exists r0, (upd q' (Req (r_key r) (r_part r) (r_tok r) (r_released r) p') rest).
        split; [reflexivity|]. split; [exact Rt|]. split; [exact Rq0|].
        destruct (p_phase (r_post r0)); rewrite C4 by lia; exact Rph.
      + intros q' r' Hq' Hr'. destruct (decide (q' = q)) as [->|Hne'].
        * rewrite nth_upd_same in Hq' by auto. injection Hq' as <-. cbn in Hr'. congruence.
        * rewrite nth_upd_other in Hq' by auto. eapply Rrel; eauto.
      + intros q' r' k0 Hq' Hr' Hk0. destruct (decide (q' = q)) as [->|Hne'].
        * rewrite nth_upd_same in Hr' by auto. injection Hr' as <-. cbn. rewrite Hrl.
          assert (k0 = k) by congruence. subst k0. split; [exact Htok|]. split; [exact Hkb|].
          eapply hasj_set_same. exists x; eauto.
        * rewrite nth_upd_other in Hr' by auto.
          destruct (Rq q' r' k0 Hq' Hr' Hk0) as (H1 & H2 & H3). split; [exact H1|]. split; [exact H2|].
          assert (k0 <> k) by (intros ->; apply Hne'; eapply Rinj; eauto).
          destruct (r_released r'); [rewrite C4 by auto; exact H3|].
          destruct H3 as (y & Y1 & Y2). exists y. rewrite C4 by auto. auto.
  Qed.

  Lemma sim_Release hs qm fs q hs' :
    Rel hs qm fs -> hstep0 hs (Release q) = Some hs' ->
    exists fs', run fwd_step fs (match q with 0 => [] | _ => [L.F_Notify (nth q qm 0)] end) = Some fs' /\ Rel hs' qm fs'.
  Proof.
    intros R HS. cbn in HS.
    destruct (nth_error (reqs hs) q) as [r|] eqn:Eq; [|discriminate].
    destruct (p_phase (r_post r)) eqn:Eph; try discriminate. destruct (r_released r) eqn:Erl; [discriminate|].
    destruct fs as [jb nx].
    pose proof R as [Rn Ri Rd Rnn Rl Rlo Rg Rnop Rrel Rq Rinj]. cbn [f_jobs f_next] in *.
    pose proof (nth_error_lt _ _ _ Eq) as Hlt.
    destruct Rnop as (r0 & rest & Er & Rt & Rq0 & Rph).
    set (r' := Req (r_key r) (r_part r) (r_tok r) true (r_post r)) in *.
    assert (Hhs : exists mf rf nt, hs' = H mf rf (loop hs) (gors hs) (upd q r' (reqs hs)) nt (received hs)).
    { destruct (r_tok r).
      - match type of HS with context [if ?c then _ else _] => destruct c end; [|discriminate]. injection HS as <-. eauto.
      - injection HS as <-. eauto. }
    destruct Hhs as (mf & rf & nt & ->). clear HS.
    destruct q as [|q].
    - (* the start-up POST returns: nothing to see *)
      rewrite Er in Eq. injection Eq as <-.
      exists (F jb nx). split; [reflexivity|].
      eapply (Rel_change_job hs qm jb nx jb 0 R); cbn [received loop gors reqs]; try reflexivity.
      + exact Rd.
      + intros x Hx; exists x; auto.
      + rewrite length_upd; reflexivity.
      + destruct (loop hs); [|exact I]. destruct Rlo as (H1 & _). lia.
      + intros; lia.
      + intros; lia.
      + rewrite Er. cbn. eexists _, rest. split; [reflexivity|]. cbn. split; [exact Rt|]. split; [exact Rq0|].
        rewrite Eph in *. exact Rph.
      + intros q' r'' Hq' Hr'. destruct (decide (q' = 0)) as [->|Hne'].
        * rewrite Er in Hq'. cbn in Hq'. injection Hq' as <-. cbn. exact Eph.
        * rewrite nth_upd_other in Hq' by auto. eapply Rrel; eauto.
      + intros q' r'' k0 Hq' Hr' Hk0. rewrite nth_upd_other in Hr' by auto. exact (Rq q' r'' k0 Hq' Hr' Hk0).
    - assert (Hk : exists k, nth_error qm (S q) = Some k).
      { destruct (nth_error qm (S q)) eqn:E; [eauto|]. apply nth_error_None in E. lia. }
      destruct Hk as (k & Hk). rewrite (nth_of_nth_error _ _ _ 0 Hk).
      destruct (Rq (S q) r k ltac:(lia) Eq Hk) as (Htok & Hkb & Hjob). rewrite Erl in Hjob.
      destruct Hjob as (x & Hx & Hph & Hxn). unfold phase_of in Hph. rewrite Eph in Hph.
      eexists. split.
      { cbn [run]. rewrite fwd_step_spec. cbn -[PeanoNat.Nat.eq_dec L.jphase_eq_dec]. rewrite Hx, Hph.
        destruct (L.jphase_eq_dec L.JDone L.JDone); [reflexivity|congruence]. }
      destruct (change_del jb k) as (C1 & C2 & C3 & C4).
      eapply (Rel_change_job hs qm jb nx _ k R C1 (C2 Rd) C3 C4); cbn [received loop gors reqs]; try reflexivity.
      + rewrite length_upd; reflexivity.
      + destruct (loop hs); [|exact I]. destruct Rlo as (_ & _ & Hf). intros ->. exact (Hf (S q) Hk).
      + intros g pk b Hg ->. destruct (Rg g _ Hg) as [_ Hf]. exact (Hf (S q) Hk).
      + intros g ms Hg ->. destruct (Rg g _ Hg) as [_ Hf]. exact (Hf (S q) Hk).
      + rewrite Er. cbn. exists r0, (upd q r' rest).
        split; [reflexivity|]. split; [exact Rt|]. split; [exact Rq0|].
        destruct (p_phase (r_post r0)); rewrite C4 by lia; exact Rph.
      + intros q' r'' Hq' Hr'. destruct (decide (q' = S q)) as [->|Hne'].
        * rewrite nth_upd_same in Hq' by auto. injection Hq' as <-. cbn. exact Eph.
        * rewrite nth_upd_other in Hq' by auto. eapply Rrel; eauto.
      + intros q' r'' k0 Hq' Hr' Hk0. destruct (decide (q' = S q)) as [->|Hne'].
        * rewrite nth_upd_same in Hr' by auto. injection Hr' as <-. cbn.
          assert (k0 = k) by congruence. subst k0. split; [exact Htok|]. split; [exact Hkb|].
          apply fj_del_same; exact Rd.
        * rewrite nth_upd_other in Hr' by auto.
          destruct (Rq q' r'' k0 Hq' Hr' Hk0) as (H1 & H2 & H3). split; [exact H1|]. split; [exact H2|].
          assert (k0 <> k) by (intros ->; apply Hne'; eapply Rinj; eauto).
          destruct (r_released r''); [rewrite C4 by auto; exact H3|].
          destruct H3 as (y & Y1 & Y2). exists y. rewrite C4 by auto. auto.
  Qed.
End Refine2.


Definition is_notify (l : L.label) : bool := match l with L.F_Notify _ => true | _ => false end.
Definition is_take (l : L.label) : bool := match l with L.F_Take _ _ _ => true | _ => false end.
Definition cnt (f : L.label -> bool) (l : list L.label) : nat := length (List.filter f l).
Lemma cnt_app f a b : cnt f (a ++ b) = cnt f a + cnt f b.
Proof. unfold cnt. rewrite List.filter_app, app_length. reflexivity. Qed.

Section Refine3.
  Variable org : nat -> L.origin.
  Hypothesis org_ok : forall k, org k <> L.ONop.
  Variables cm mr : nat.
  Variable utf8ok : str -> bool.
  Notation hstep0 := (hstep cm mr [] utf8ok).

  Lemma out_label_counts k pl : cnt is_notify (out_label k pl) = 0 /\ cnt is_take (out_label k pl) = 0.
  Proof. destruct pl as [[|]|[|]| | |]; split; reflexivity. Qed.

  Lemma sim_step hs qm fs hl hs' :
    Rel hs qm fs -> hstep0 hs hl = Some hs' -> is_ctxdone hl = false ->
    exists fs', run fwd_step fs (fst (proj_label org hs qm hl)) = Some fs'
                /\ Rel hs' (snd (proj_label org hs qm hl)) fs'
                /\ notified hs' = notified hs + cnt is_notify (fst (proj_label org hs qm hl))
                /\ length (received hs') = length (received hs) + cnt is_take (fst (proj_label org hs qm hl)).
  Proof.
    intros R HS Hc. destruct hl as [ms| |g|g j|g j|q pl|q]; cbn [proj_label fst snd].
    - destruct (sim_SinkRecv org org_ok cm mr utf8ok _ _ _ _ _ R HS) as (fs' & H1 & H2).
      exists fs'. cbn [run]. rewrite H1. split; [reflexivity|]. split; [exact H2|].
      cbn in HS. destruct (loop hs); [discriminate|]. destruct (nop_returned hs); [|discriminate]. injection HS as <-.
      cbn. rewrite app_length. cbn. split; lia.
    - exists fs. split; [reflexivity|]. split; [eapply sim_LoopSpawn; eauto|].
      cbn in HS. destruct (loop hs); [|discriminate]. destruct (merge_free hs); [discriminate|]. injection HS as <-. cbn. split; lia.
    - exists fs. split; [reflexivity|]. split; [eapply sim_MergeSplit; eauto|].
      cbn in HS. destruct (nth_error (gors hs) g) as [[?|?]|]; try discriminate.
      match type of HS with context [if ?c then _ else _] => destruct c end; [|discriminate]. injection HS as <-. cbn. split; lia.
    - destruct (sim_PartSkip cm mr utf8ok _ _ _ _ _ _ R HS) as (fs' & H1 & H2).
      exists fs'. cbn [run]. rewrite H1. split; [reflexivity|]. split; [exact H2|].
      cbn in HS. destruct (nth_error (gors hs) g) as [[?|parts]|]; try discriminate.
      destruct (nth_error parts j) as [[? [|? ?]]|]; try discriminate. injection HS as <-. cbn. split; lia.
    - exists fs. split; [reflexivity|]. split; [eapply sim_PartPost; eauto|].
      cbn in HS. destruct (nth_error (gors hs) g) as [[?|parts]|]; try discriminate.
      destruct (nth_error parts j) as [[? [|? ?]]|]; try discriminate. destruct (req_free hs); [discriminate|].
      injection HS as <-. cbn. split; lia.
    - assert (Hpl : pl <> CtxDone) by (intros ->; discriminate Hc).
      destruct (sim_ReqStep cm mr utf8ok _ _ _ _ _ _ R HS Hpl) as (fs' & H1 & H2).
      exists fs'. split; [exact H1|]. split; [exact H2|].
      destruct (out_label_counts (nth q qm 0) pl) as [-> ->].
      cbn in HS. destruct (nth_error (reqs hs) q); [|discriminate]. destruct (post_step _ _ _); [|discriminate].
      match type of HS with context [if ?c then _ else _] => destruct c end; [|discriminate]. injection HS as <-. cbn. split; lia.
    - destruct (sim_Release cm mr utf8ok _ _ _ _ _ R HS) as (fs' & H1 & H2).
      exists fs'. split; [exact H1|]. split; [exact H2|].
      cbn in HS. destruct (nth_error (reqs hs) q) as [r|] eqn:Eq; [|discriminate].
      destruct (p_phase (r_post r)); try discriminate. destruct (r_released r); [discriminate|].
      destruct (rl_nop _ _ _ R) as (r0 & rest & Er & Rt & Rq0 & _).
      destruct q as [|q].
      + rewrite Er in Eq. injection Eq as <-. rewrite Rt in HS. injection HS as <-. cbn. split; lia.
      + assert (Hk : exists k, nth_error qm (S q) = Some k).
        { destruct (nth_error qm (S q)) eqn:E; [eauto|]. apply nth_error_None in E.
          pose proof (nth_error_lt _ _ _ Eq). rewrite (rl_len _ _ _ R) in E. lia. }
        destruct Hk as (k & Hk). destruct (rl_req _ _ _ R (S q) r k ltac:(lia) Eq Hk) as (Htok & _).
        rewrite Htok in HS. match type of HS with context [if ?c then _ else _] => destruct c end; [|discriminate].
        injection HS as <-. cbn. split; lia.
  Qed.

  Lemma project_refines ls : forall hs qm fs out hs' qm',
    Rel hs qm fs -> project org cm mr utf8ok hs qm ls = Some (out, hs', qm') ->
    (forall l, In l ls -> is_ctxdone l = false) ->
    exists fs', run fwd_step fs out = Some fs' /\ Rel hs' qm' fs'
                /\ notified hs' = notified hs + cnt is_notify out
                /\ length (received hs') = length (received hs) + cnt is_take out.
  Proof.
    induction ls as [|l r IH]; intros hs qm fs out hs' qm' R HP Hc; cbn in HP.
    - injection HP as <- <- <-. exists fs. split; [reflexivity|]. split; [exact R|]. cbn. split; lia.
    - destruct (hstep0 hs l) as [hs1|] eqn:HS; [|discriminate].
      destruct (project org cm mr utf8ok hs1 _ r) as [[[o2 h2] q2]|] eqn:HP2; [|discriminate].
      injection HP as <- <- <-.
      destruct (sim_step _ _ _ _ _ R HS (Hc l (or_introl eq_refl))) as (fs1 & H1 & R1 & N1 & T1).
      destruct (IH _ _ _ _ _ _ R1 HP2 (fun l' Hl => Hc l' (or_intror Hl))) as (fs2 & H2 & R2 & N2 & T2).
      exists fs2. rewrite run_app, H1. split; [exact H2|]. split; [exact R2|]. rewrite !cnt_app. split; lia.
  Qed.

  (* C20_forwarder_actor_refines *)
  Theorem forwarder_actor_refines ls out hs qm :
    project org cm mr utf8ok (hinit cm mr) [0] ls = Some (out, hs, qm) ->
    (forall l, In l ls -> is_ctxdone l = false) ->
    exists fs, run fwd_step finit out = Some fs
               /\ cnt is_take out = length (received hs)
               /\ cnt is_notify out = notified hs
               /\ f_next fs = S (length (received hs)).
  Proof.
    intros HP Hc. destruct (project_refines ls _ _ _ _ _ _ (Rel_init cm mr) HP Hc) as (fs & H1 & R & N & T).
    exists fs. cbn in N, T. split; [exact H1|]. split; [lia|]. split; [lia|]. exact (rl_next _ _ _ R).
  Qed.

  (* the projection is total on the runs of the handler: it is a run of hstep, label for label *)
  Lemma project_total ls : forall hs qm s, run hstep0 hs ls = Some s ->
    exists out qm', project org cm mr utf8ok hs qm ls = Some (out, s, qm').
  Proof.
    induction ls as [|l r IH]; intros hs qm s Hr; cbn in *.
    - injection Hr as <-. eauto.
    - destruct (hstep0 hs l) as [hs1|]; [|discriminate].
      destruct (IH hs1 (snd (proj_label org hs qm l)) s Hr) as (o2 & q2 & ->). eauto.
  Qed.
End Refine3.

Lemma project_run org cm mr utf8ok ls : forall hs qm out hs' qm',
  project org cm mr utf8ok hs qm ls = Some (out, hs', qm') -> run (hstep cm mr [] utf8ok) hs ls = Some hs'.
Proof.
  induction ls as [|l r IH]; intros hs qm out hs' qm' HP; cbn in *.
  - injection HP as _ <- _. reflexivity.
  - destruct (hstep cm mr [] utf8ok hs l) as [hs1|]; [|discriminate].
    destruct (project org cm mr utf8ok hs1 _ r) as [[[o2 h2] q2]|] eqn:HP2; [|discriminate].
    injection HP as _ <- _. eapply IH; eauto.
Qed.

(* with C15's count: once the handler is at rest, the projected run has notified exactly once per take *)
Corollary forwarder_refines_at_rest org (org_ok : forall k, org k <> L.ONop) cm mr utf8ok ls out hs qm :
  project org cm mr utf8ok (hinit cm mr) [0] ls = Some (out, hs, qm) ->
  (forall l, In l ls -> is_ctxdone l = false) ->
  at_rest hs = true -> cnt is_notify out = cnt is_take out.
Proof.
  intros HP Hc Hr. destruct (forwarder_actor_refines org org_ok cm mr utf8ok ls out hs qm HP Hc) as (fs & _ & T & N & _).
  rewrite T, N. eapply GS.Proofs.Forwarder.one_notification_per_flush; [eapply project_run; eauto|exact Hr].
Qed.


(* ---- the composed system: manager, heartbeat, telemetry server and platform of Model/Lambda.v
   around the handler of Model/Forwarder.v ----
   The handler takes the place of the forwarder labels of [L.step].  It meets the rest in two places:
   its SinkRecv is the rendezvous on the sink (the drained maps of [offered]; datapoint d becomes an
   item whose tags key is [tagkey d]), and every notifyFlush is a send on the capacity-1 channel
   (blocked while [tok] is set). *)
Section Composed.
  Variables cm mr : nat.
  Variable dyn : list str.
  Variable utf8ok : str -> bool.
  Variable tagkey : L.dp -> str.

  Record cstate := C { c_l : L.state; c_h : option hstate }.
  Inductive clabel := CL (l : L.label) | CH (hl : hlabel).
  Definition cinit : cstate := C L.init None.

  Definition same_flush (ms : list bag) (d : list L.dp) : bool :=
    bool_decide ((λ it, (it_id it, it_key it)) <$> concat ms = (λ x, (N.to_nat x, tagkey x)) <$> d).

  Definition taken (o : L.origin) (s : L.state) : L.state :=
    let s1 := L.set_offered None s in if L.origin_eq_dec o L.OInit then L.set_hb L.HWait s1 else s1.

  Definition cstep (s : cstate) (l : clabel) : option cstate :=
    match l with
    | CL l =>
        if is_fwd l then None
        else match L.step (c_l s) l with
             | Some s' => Some (C s' (match l with L.S_Start => Some (hinit cm mr) | _ => c_h s end))
             | None => None
             end
    | CH hl =>
        match c_h s with
        | None => None
        | Some hs =>
            match hstep cm mr dyn utf8ok hs hl with
            | None => None
            | Some hs' =>
                match hl with
                | SinkRecv ms =>
                    match L.offered (c_l s) with
                    | Some (o, d) => if same_flush ms d then Some (C (taken o (c_l s)) (Some hs')) else None
                    | None => None
                    end
                | _ =>
                    if (notified hs' =? notified hs)%nat then Some (C (c_l s) (Some hs'))
                    else if L.tok (c_l s) then None            (* NotifyFlush blocks: the channel is full *)
                    else Some (C (L.set_tok true (c_l s)) (Some hs'))
                end
            end
        end
    end.

  (* nothing can ever wake the heartbeat: it waits, the channel is empty, nobody owes a notification *)
  Definition starved_l (s : L.state) : Prop :=
    L.hb s = L.HWait /\ L.tok s = false /\ L.offered s = None /\ L.registered s = true /\
    L.t_todo s = [] /\ L.outbox s = [] /\ L.rt s = L.RIdle.
  Definition starved_h (hs : hstate) : Prop :=
    loop hs = None /\ Forall (λ g, g = GPosting []) (gors hs)
    /\ Forall (λ r, r_released r = true /\ p_phase (r_post r) = PEnd) (reqs hs).
  Definition starved (s : cstate) : Prop :=
    starved_l (c_l s) /\ exists hs, c_h s = Some hs /\ starved_h hs.

  Lemma starved_L s l s' :
    starved_l s -> is_fwd l = false -> L.step s l = Some s' ->
    starved_l s' /\ l <> L.S_Start /\ (forall k, l <> L.H_Next k).
  Proof.
    intros (Hh & Ht & Ho & Hr & Htd & Hob & Hrt) Ef EL.
    destruct s as [mg se rg hb0 nx dl rt0 iv ob td infl pd ofr jb nid tk]. cbn in *. subst.
    destruct l; try discriminate Ef; cbn in EL; try discriminate EL.
    all: repeat LP.des_match EL; try discriminate EL.
    all: injection EL as <-; unfold starved_l; cbn.
    all: try (match goal with H : _ = firstn _ [] |- _ => rewrite firstn_nil in H; rewrite H end).
    all: repeat split; try congruence; try reflexivity.
  Qed.

  Lemma starved_H hs hl : starved_h hs -> (forall ms, hl <> SinkRecv ms) -> hstep cm mr dyn utf8ok hs hl = None.
  Proof.
    intros (Hl & Hg & Hq) Hs. rewrite Forall_forall in Hg. rewrite Forall_forall in Hq.
    assert (HG : forall g G, nth_error (gors hs) g = Some G -> G = GPosting []).
    { intros g G E. apply Hg. apply elem_of_list_In. eapply nth_error_In; eauto. }
    assert (HQ : forall q r, nth_error (reqs hs) q = Some r -> r_released r = true /\ p_phase (r_post r) = PEnd).
    { intros q r E. apply Hq. apply elem_of_list_In. eapply nth_error_In; eauto. }
    destruct hl as [ms| |g|g j|g j|q pl|q]; cbn.
    - exfalso; eapply Hs; eauto.
    - rewrite Hl. reflexivity.
    - destruct (nth_error (gors hs) g) as [G|] eqn:Eg; [|reflexivity]. rewrite (HG _ _ Eg). reflexivity.
    - destruct (nth_error (gors hs) g) as [G|] eqn:Eg; [|reflexivity]. rewrite (HG _ _ Eg). destruct j; reflexivity.
    - destruct (nth_error (gors hs) g) as [G|] eqn:Eg; [|reflexivity]. rewrite (HG _ _ Eg). destruct j; reflexivity.
    - destruct (nth_error (reqs hs) q) as [r|] eqn:Eq; [|reflexivity]. destruct (HQ _ _ Eq) as [_ Hp].
      unfold post_step. rewrite Hp. destruct pl as [[|]|[|]| | |]; reflexivity.
    - destruct (nth_error (reqs hs) q) as [r|] eqn:Eq; [|reflexivity]. destruct (HQ _ _ Eq) as [Hr Hp].
      rewrite Hp, Hr. reflexivity.
  Qed.

  Lemma starved_step s l s' : starved s -> cstep s l = Some s' -> starved s' /\ (forall k, l <> CL (L.H_Next k)).
  Proof.
    intros (HL & hs & Ehs & HH) HS. destruct s as [ls oh]. cbn in *. subst oh.
    destruct l as [l|hl]; cbn in HS.
    - destruct (is_fwd l) eqn:Ef; [discriminate|]. destruct (L.step ls l) as [ls'|] eqn:EL; [|discriminate].
      injection HS as <-. destruct (starved_L _ _ _ HL Ef EL) as (HL' & Hns & Hnn).
      split; [|intros k E; injection E as E; exact (Hnn k E)].
      split; [exact HL'|]. exists hs. split; [|exact HH]. cbn. destruct l; try reflexivity. congruence.
    - exfalso. destruct (hstep cm mr dyn utf8ok hs hl) as [hs'|] eqn:EH; [|discriminate].
      destruct hl as [ms| | | | | |]; try (rewrite starved_H in EH by (auto; intros; discriminate); discriminate).
      destruct HL as (_ & _ & Ho & _). rewrite Ho in HS. discriminate.
  Qed.

  Lemma starved_forever ls : forall s s', starved s -> run cstep s ls = Some s' ->
    starved s' /\ (forall k, ~ In (CL (L.H_Next k)) ls).
  Proof.
    induction ls as [|l r IH]; intros s s' Hs Hr; cbn in Hr.
    - injection Hr as <-. split; [exact Hs|intros k []].
    - destruct (cstep s l) as [s1|] eqn:E; [|discriminate]. destruct (starved_step _ _ _ Hs E) as [H1 H2].
      destruct (IH _ _ H1 Hr) as [H3 H4]. split; [exact H3|]. intros k [Hk|Hk]; [exact (H2 k Hk)|exact (H4 k Hk)].
  Qed.
End Composed.

(* ---- the boundary: dynamic headers ---- *)
Definition dynr : list str := effective_dyn [] [[114%N]].                 (* dynamic-headers: ["r"] *)
Definition tagk (d : L.dp) : str := if N.odd d then [114;58;97]%N else [114;58;98]%N.   (* r:a / r:b *)
Definition ok8 : str -> bool := λ _, true.
Definition item_of (d : L.dp) : item := Item (N.to_nat d) [] (tagk d) [].
Notation cstepr := (cstep 1 4 dynr ok8 tagk).

Definition startup : list clabel :=
  [CL (L.Register true); CL L.S_Start; CL (L.Subscribe true);
   CH (ReqStep 0 (Construct true)); CH (ReqStep 0 (Attempt Ok2xx)); CH (Release 0); CL L.H_Start].

(* (a) the empty initial flush splits into zero parts: nobody notifies *)
Definition run_a : list clabel :=
  startup ++ [CL L.H_Flush0; CH (SinkRecv [[]]); CH LoopSpawn; CH (MergeSplit 0)].

(* (b) an initial flush with two header values is notified twice; the second token is still in the
   channel when invocation 1 is running *)
Definition run_b : list clabel :=
  startup ++
  [CL (L.R_Send 1%N); CL (L.R_Send 2%N); CL (L.R_Data 1%N); CL (L.R_Data 2%N); CL L.H_Flush0;
   CH (SinkRecv [[item_of 1%N; item_of 2%N]]); CH LoopSpawn; CH (MergeSplit 0);
   CH (PartPost 0 0); CH (PartPost 0 0);
   CH (ReqStep 1 (Construct true)); CH (ReqStep 1 (Attempt Ok2xx)); CH (Release 1);
   CL L.H_Wait; CL (L.H_Next 1);
   CL (L.R_Invoke 1); CL (L.H_NextReturns (L.EvInvoke 1)); CL (L.R_Send 3%N); CL (L.R_Data 3%N);
   CH (ReqStep 2 (Construct true)); CH (ReqStep 2 (Attempt Ok2xx)); CH (Release 2);
   CL L.H_Wait; CL (L.H_Next 2)].

Definition final (ls : list clabel) : option cstate := run cstepr (cinit) ls.

Lemma run_a_final : exists s, final run_a = Some s /\ starved s /\ L.nexts (c_l s) = 0
  /\ exists hs, c_h s = Some hs /\ notified hs = 0 /\ length (received hs) = 1 /\ at_rest hs = true.
Proof.
  eexists. split; [vm_compute; reflexivity|]. split.
  - split; [repeat split|]. eexists. split; [reflexivity|]. split; [reflexivity|]. split; repeat constructor.
  - split; [reflexivity|]. eexists. repeat split.
Qed.

Lemma run_b_final : exists s, final run_b = Some s
  /\ L.nexts (c_l s) = 2 /\ L.rt (c_l s) = L.RRunning 1 /\ L.pending (c_l s) = [3%N] /\ L.hb (c_l s) = L.HInNext
  /\ exists hs, c_h s = Some hs /\ notified hs = 2 /\ length (received hs) = 1.
Proof. eexists. split; [vm_compute; reflexivity|]. repeat split. eexists. repeat split. Qed.


(* ---- the composed system without dynamic headers refines the four-actor LTS ---- *)
Definition with_fwd (fs : fstate) (s : L.state) : L.state := L.set_next_id (f_next fs) (L.set_jobs (f_jobs fs) s).

Definition effect (l : L.label) (s : L.state) : L.state :=
  match l with
  | L.F_Take _ o _ => taken o s
  | L.F_Notify _ => L.set_tok true s
  | _ => s
  end.

(* a step of the forwarder actor is a step of [L.step] in any environment that allows it *)
Ltac scbn := cbn -[L.offer_eq_dec PeanoNat.Nat.eq_dec L.origin_eq_dec L.jphase_eq_dec L.find_job L.nop_running L.set_phase L.del_job in_dec L.nats_eq_dec L.onat_eq_dec L.rphase_eq_dec].

Lemma fwd_step_lift fs l fs' s :
  fwd_step fs l = Some fs' ->
  (forall j o d, l = L.F_Take j o d -> L.offered s = Some (o, d) /\ L.registered s = true) ->
  (forall j, l = L.F_Notify j -> L.tok s = false) ->
  L.step (with_fwd fs s) l = Some (with_fwd fs' (effect l s)).
Proof.
  rewrite fwd_step_spec. intros HF Ht Hn.
  destruct fs as [jb nx]. destruct s as [mg se rg hb0 nx0 dl rt0 iv ob td infl pd ofr jb0 nid0 tk].
  unfold with_fwd. cbn [f_jobs f_next L.set_jobs L.set_next_id L.mgr L.srv_err L.registered L.hb L.nexts L.delivering L.rt L.invs L.outbox L.t_todo L.inflight L.pending L.offered L.jobs L.next_id L.tok] in *.
  destruct l; try discriminate HF; cbn [fwd_spec f_jobs f_next] in HF.
  - (* F_Take *)
    destruct (Ht _ _ _ eq_refl) as [-> ->].
    destruct (PeanoNat.Nat.eq_dec j nx) as [->|]; [|discriminate]. destruct (L.nop_running jb) eqn:En; [discriminate|].
    injection HF as <-. scbn.
    destruct (L.offer_eq_dec (Some (o, d)) (Some (o, d))); [|congruence].
    destruct (PeanoNat.Nat.eq_dec nx nx); [|congruence]. rewrite En. scbn.
    unfold effect, taken. destruct (L.origin_eq_dec o L.OInit); destruct d; reflexivity.
  - unfold fmove in HF. cbn [f_jobs f_next] in HF. unfold L.step, L.move; scbn.
    destruct (L.find_job j jb); [|discriminate]. destruct (L.jphase_eq_dec _ _); [|discriminate]. injection HF as <-. reflexivity.
  - unfold fmove in HF. cbn [f_jobs f_next] in HF. unfold L.step, L.move; scbn.
    destruct (L.find_job j jb); [|discriminate]. destruct (L.jphase_eq_dec _ _); [|discriminate]. injection HF as <-. reflexivity.
  - unfold fmove in HF. cbn [f_jobs f_next] in HF. unfold L.step, L.move; scbn.
    destruct (L.find_job j jb); [|discriminate]. destruct (L.jphase_eq_dec _ _); [|discriminate]. injection HF as <-. reflexivity.
  - destruct o; unfold ffinish in HF; cbn [f_jobs f_next] in HF; unfold L.step, L.finish; scbn;
      (destruct (L.find_job j jb); [|discriminate]); (destruct (L.jphase_eq_dec _ _); [|discriminate]);
      destruct (L.is_nop _); injection HF as <-; reflexivity.
  - rewrite (Hn _ eq_refl). scbn.
    destruct (L.find_job j jb); [|discriminate]. destruct (L.jphase_eq_dec _ _); [|discriminate]. injection HF as <-. reflexivity.
Qed.

(* labels of the other actors do not look at the job table (S_Start only creates it) *)
Lemma step_frame fs s l :
  is_fwd l = false -> l <> L.S_Start -> L.step (with_fwd fs s) l = with_fwd fs <$> L.step s l.
Proof.
  intros Hf Hs. destruct s as [mg se rg hb0 nx0 dl rt0 iv ob td infl pd ofr jb0 nid0 tk]. destruct fs as [jb nx].
  unfold with_fwd. destruct l; try discriminate Hf; try congruence; scbn.
  all: repeat (match goal with
       | |- context [match ?x with _ => _ end] => is_var x; destruct x
       | |- context [if ?x then _ else _] => destruct x
       end; scbn); try reflexivity.
Qed.

Lemma nonfwd_frame s l s' :
  is_fwd l = false -> L.step s l = Some s' ->
  (forall o d, L.offered s = Some (o, d) -> o <> L.ONop) ->
  (forall o d, L.offered s' = Some (o, d) -> o <> L.ONop) /\
  (l <> L.S_Start -> L.jobs s' = L.jobs s /\ L.next_id s' = L.next_id s /\ L.registered s' = L.registered s) /\
  (l = L.S_Start -> L.registered s = false /\ L.registered s' = true /\ L.next_id s' = L.next_id s /\
                    L.jobs s' = L.mkJob 0 L.ONop [] L.JTaken :: L.jobs s).
Proof.
  intros Hf HS Ho. destruct s as [mg se rg hb0 nx0 dl rt0 iv ob td infl pd ofr jb0 nid0 tk].
  destruct l; try discriminate Hf; LP.step_inv HS; scbn; cbn in Ho.
  all: split; [first [exact Ho | intros o0 d0 E; injection E as <- <-; discriminate | intros o0 d0 E; discriminate E]|].
  all: split; [intros Hne; try congruence; auto|intros E; try discriminate E; auto].
Qed.

Section CRef.
  Variables cm mr : nat.
  Variable utf8ok : str -> bool.
  Variable tagkey : L.dp -> str.
  Notation cstep0 := (cstep cm mr [] utf8ok tagkey).

  Definition org_of (s : L.state) : nat -> L.origin :=
    λ _, match L.offered s with Some (o, _) => o | None => L.OInit end.

  Definition cproj (s : cstate) (qm : list nat) (l : clabel) : list L.label * list nat :=
    match l with
    | CL L.S_Start => ([L.S_Start], [0])
    | CL l => ([l], qm)
    | CH hl => match c_h s with Some hs => proj_label (org_of (c_l s)) hs qm hl | None => ([], qm) end
    end.

  Fixpoint cproject (s : cstate) (qm : list nat) (ls : list clabel) : option (list L.label * cstate * list nat) :=
    match ls with
    | [] => Some ([], s, qm)
    | l :: r =>
        match cstep0 s l with
        | None => None
        | Some s' =>
            match cproject s' (snd (cproj s qm l)) r with
            | Some (o2, s2, q2) => Some (fst (cproj s qm l) ++ o2, s2, q2)
            | None => None
            end
        end
    end.

  Definition is_cctxdone (l : clabel) : bool := match l with CH hl => is_ctxdone hl | _ => false end.

  (* the abstract state: the platform side as it is, the job table as the handler's state projects *)
  Definition CI (s : cstate) (qm : list nat) (sA : L.state) : Prop :=
    (forall o d, L.offered (c_l s) = Some (o, d) -> o <> L.ONop) /\
    match c_h s with
    | None => sA = c_l s /\ L.registered (c_l s) = false /\ L.jobs (c_l s) = [] /\ L.next_id (c_l s) = 1
    | Some hs => exists fs, Rel hs qm fs /\ sA = with_fwd fs (c_l s) /\ L.registered (c_l s) = true
    end.

  Lemma same_flush_dps ms d : same_flush tagkey ms d = true -> dps ms = d.
  Proof.
    unfold same_flush, dps. intros H. apply bool_decide_eq_true in H.
    apply (f_equal (fmap (λ p : nat * str, N.of_nat (fst p)))) in H. rewrite <- !list_fmap_compose in H.
    etrans; [exact H|]. clear. induction d as [|x r IH]; cbn; [reflexivity|]. rewrite N2Nat.id, IH. reflexivity.
  Qed.

  Lemma cstep_refines s qm sA l s' :
    CI s qm sA -> cstep0 s l = Some s' -> is_cctxdone l = false ->
    exists sA', run L.step sA (fst (cproj s qm l)) = Some sA' /\ CI s' (snd (cproj s qm l)) sA'.
  Proof.
    intros [Hoff HI] HS Hc. destruct s as [ls oh]. cbn [c_l c_h] in *.
    destruct l as [l|hl]; cbn [cstep c_l c_h] in HS.
    - (* another actor *)
      destruct (is_fwd l) eqn:Ef; [discriminate|]. destruct (L.step ls l) as [ls1|] eqn:EL; [|discriminate].
      injection HS as <-. destruct (nonfwd_frame _ _ _ Ef EL Hoff) as (Hoff' & Hns & Hst).
      assert (Hd : l = L.S_Start \/ l <> L.S_Start) by (destruct l; first [left; reflexivity|right; discriminate]).
      destruct Hd as [->|Hne].
      + destruct (Hst eq_refl) as (Hr0 & Hr1 & Hn1 & Hj1).
        destruct oh as [hs|]; [destruct HI as (fs & _ & _ & Hr); congruence|].
        destruct HI as (-> & _ & Hj & Hn). cbn [cproj fst snd run]. rewrite EL.
        eexists. split; [reflexivity|]. split; [exact Hoff'|]. cbn [c_h c_l].
        exists finit. split; [apply Rel_init|]. split; [|exact Hr1].
        rewrite Hj in Hj1. rewrite Hn in Hn1. destruct ls1; cbn in Hj1, Hn1. subst. reflexivity.
      + destruct (Hns Hne) as (Hj1 & Hn1 & Hr1).
        assert (Ecp : cproj (C ls oh) qm (CL l) = ([l], qm)) by (destruct l; try reflexivity; congruence).
        rewrite Ecp. cbn [fst snd run].
        assert (Eh : match l with L.S_Start => Some (hinit cm mr) | _ => oh end = oh) by (destruct l; try reflexivity; congruence).
        rewrite Eh. destruct oh as [hs|].
        * destruct HI as (fs & HR & -> & Hr). rewrite (step_frame fs ls l Ef Hne), EL. cbn.
          eexists. split; [reflexivity|]. split; [exact Hoff'|]. cbn. exists fs. split; [exact HR|]. split; [reflexivity|congruence].
        * destruct HI as (-> & Hr & Hj & Hn). rewrite EL. eexists. split; [reflexivity|]. split; [exact Hoff'|]. cbn.
          repeat split; congruence.
    - (* the handler *)
      destruct oh as [hs|]; [|discriminate]. destruct HI as (fs & HR & -> & Hreg).
      destruct (hstep cm mr [] utf8ok hs hl) as [hs'|] eqn:EH; [|discriminate].
      assert (Horg : forall k, org_of ls k <> L.ONop).
      { intros k. unfold org_of. destruct (L.offered ls) as [[o d]|] eqn:E; [eapply Hoff; eauto|discriminate]. }
      destruct (sim_step (org_of ls) Horg cm mr utf8ok _ _ _ _ _ HR EH Hc) as (fs' & Hrun & HR' & Hnot & Hrec).
      cbn [cproj c_h c_l].
      destruct hl as [ms| |g|g j|g j|q pl|q]; cbn [proj_label fst snd] in *.
      + (* SinkRecv *)
        destruct (L.offered ls) as [[o d]|] eqn:Eo; [|discriminate].
        destruct (same_flush tagkey ms d) eqn:Esf; [|discriminate]. injection HS as <-.
        pose proof (same_flush_dps _ _ Esf) as Ed.
        cbn [run] in Hrun. unfold org_of in Hrun. rewrite Eo in Hrun.
        destruct (fwd_step fs _) as [fs1|] eqn:EF; [|discriminate]. injection Hrun as ->.
        cbn [run]. unfold org_of. rewrite Eo.
        rewrite (fwd_step_lift _ _ _ ls EF); [|intros ? ? ? E; injection E as <- <- <-; rewrite Ed; auto|intros ? E; discriminate E].
        eexists. split; [reflexivity|]. split.
        * cbn. unfold taken. destruct (L.origin_eq_dec o L.OInit); destruct ls; cbn; intros ? ? E; discriminate E.
        * cbn. exists fs'. split; [exact HR'|]. split; [reflexivity|].
          unfold taken. destruct (L.origin_eq_dec o L.OInit); destruct ls; cbn in *; exact Hreg.
      + (* LoopSpawn *)
        cbn [run] in Hrun. injection Hrun as <-. cbn in Hnot. rewrite Nat.add_0_r in Hnot. rewrite Hnot, Nat.eqb_refl in HS.
        injection HS as <-. exists (with_fwd fs ls). split; [reflexivity|]. split; [exact Hoff|]. cbn. eauto.
      + cbn [run] in Hrun. injection Hrun as <-. cbn in Hnot. rewrite Nat.add_0_r in Hnot. rewrite Hnot, Nat.eqb_refl in HS.
        injection HS as <-. exists (with_fwd fs ls). split; [reflexivity|]. split; [exact Hoff|]. cbn. eauto.
      + (* PartSkip: a notification *)
        cbn in Hnot. assert (En : (notified hs' =? notified hs)%nat = false) by (apply Nat.eqb_neq; lia).
        rewrite En in HS. destruct (L.tok ls) eqn:Et; [discriminate|]. injection HS as <-.
        cbn [run] in *. destruct (fwd_step fs _) as [fs1|] eqn:EF; [|discriminate]. injection Hrun as ->.
        rewrite (fwd_step_lift _ _ _ ls EF); [|intros ? ? ? E; discriminate E|intros ? _; exact Et].
        eexists. split; [reflexivity|]. split; [destruct ls; exact Hoff|]. cbn. exists fs'. split; [exact HR'|].
        split; [reflexivity|destruct ls; exact Hreg].
      + cbn [run] in Hrun. injection Hrun as <-. cbn in Hnot. rewrite Nat.add_0_r in Hnot. rewrite Hnot, Nat.eqb_refl in HS.
        injection HS as <-. exists (with_fwd fs ls). split; [reflexivity|]. split; [exact Hoff|]. cbn. eauto.
      + (* ReqStep: at most one label, neither a take nor a notification *)
        destruct (out_label_counts (nth q qm 0) pl) as [En0 _]. rewrite En0, Nat.add_0_r in Hnot.
        rewrite Hnot, Nat.eqb_refl in HS. injection HS as <-.
        destruct pl as [[|]|[|]| | |]; cbn [out_label run] in *; try discriminate Hc.
        all: destruct (fwd_step fs _) as [fs1|] eqn:EF; [|discriminate]; injection Hrun as ->;
             (rewrite (fwd_step_lift _ _ _ ls EF); [|intros ? ? ? E; discriminate E|intros ? E; discriminate E]);
             eexists; (split; [reflexivity|]); (split; [exact Hoff|]); cbn; eauto.
      + (* Release *)
        destruct q as [|q].
        * cbn [run] in Hrun. injection Hrun as <-. cbn in Hnot. rewrite Nat.add_0_r in Hnot. rewrite Hnot, Nat.eqb_refl in HS.
          injection HS as <-. exists (with_fwd fs ls). split; [reflexivity|]. split; [exact Hoff|]. cbn. eauto.
        * cbn in Hnot. assert (En : (notified hs' =? notified hs)%nat = false) by (apply Nat.eqb_neq; lia).
          rewrite En in HS. destruct (L.tok ls) eqn:Et; [discriminate|]. injection HS as <-.
          cbn [run] in *. destruct (fwd_step fs _) as [fs1|] eqn:EF; [|discriminate]. injection Hrun as ->.
          rewrite (fwd_step_lift _ _ _ ls EF); [|intros ? ? ? E; discriminate E|intros ? _; exact Et].
          eexists. split; [reflexivity|]. split; [destruct ls; exact Hoff|]. cbn. exists fs'. split; [exact HR'|].
          split; [reflexivity|destruct ls; exact Hreg].
  Qed.

  Lemma cproject_refines ls : forall s qm sA out s' qm',
    CI s qm sA -> cproject s qm ls = Some (out, s', qm') ->
    (forall l, In l ls -> is_cctxdone l = false) ->
    exists sA', run L.step sA out = Some sA' /\ CI s' qm' sA'.
  Proof.
    induction ls as [|l r IH]; intros s qm sA out s' qm' HI HP Hc; cbn in HP.
    - injection HP as <- <- <-. exists sA. split; [reflexivity|exact HI].
    - destruct (cstep0 s l) as [s1|] eqn:HS; [|discriminate].
      destruct (cproject s1 _ r) as [[[o2 s2] q2]|] eqn:HP2; [|discriminate]. injection HP as <- <- <-.
      destruct (cstep_refines _ _ _ _ _ HI HS (Hc l (or_introl eq_refl))) as (sA1 & H1 & HI1).
      destruct (IH _ _ _ _ _ _ HI1 HP2 (fun l' Hl => Hc l' (or_intror Hl))) as (sA2 & H2 & HI2).
      exists sA2. rewrite run_app, H1. split; [exact H2|exact HI2].
  Qed.

  (* every execution of the composed system (no dynamic headers, no context cancellation) is, label for
     label on the platform side and through the projection on the handler side, an execution of the
     four-actor LTS of Model/Lambda.v; the two states agree on everything outside the job table *)
  Theorem composed_refines ls out s qm :
    cproject (cinit) [] ls = Some (out, s, qm) ->
    (forall l, In l ls -> is_cctxdone l = false) ->
    exists sA, run L.step L.init out = Some sA /\
      L.set_jobs [] (L.set_next_id 0 sA) = L.set_jobs [] (L.set_next_id 0 (c_l s)).
  Proof.
    intros HP Hc.
    assert (HI0 : CI cinit [] L.init) by (split; [intros ? ? E; discriminate E|cbn; auto]).
    destruct (cproject_refines ls _ _ _ _ _ _ HI0 HP Hc) as (sA & H1 & _ & HI).
    exists sA. split; [exact H1|]. destruct (c_h s).
    - destruct HI as (fs & _ & -> & _). destruct (c_l s); reflexivity.
    - destruct HI as (-> & _). reflexivity.
  Qed.
End CRef.


(* ---------------------------------------------------------------------------------------- *)
(* the statements used by Props/C20.v *)

Lemma cproject_total cm mr utf8ok tagkey ls : forall s qm s',
  run (cstep cm mr [] utf8ok tagkey) s ls = Some s' ->
  exists out qm', cproject cm mr utf8ok tagkey s qm ls = Some (out, s', qm').
Proof.
  induction ls as [|l r IH]; intros s qm s' Hr; cbn in *.
  - injection Hr as <-. eauto.
  - destruct (cstep cm mr [] utf8ok tagkey s l) as [s1|]; [|discriminate].
    destruct (IH s1 (snd (cproj s qm l)) s' Hr) as (o2 & q2 & ->). eauto.
Qed.

Lemma forwarder_actor_refines_thm :
  forall (org : nat -> L.origin) (cm mr : nat) (utf8ok : str -> bool) (ls : list hlabel) (hs : hstate),
    (forall k, org k <> L.ONop) ->
    run (hstep cm mr [] utf8ok) (hinit cm mr) ls = Some hs ->
    (forall l, In l ls -> is_ctxdone l = false) ->
    exists out qm fs,
      project org cm mr utf8ok (hinit cm mr) [0] ls = Some (out, hs, qm)
      /\ run fwd_step finit out = Some fs
      /\ cnt is_take out = length (received hs)
      /\ cnt is_notify out = notified hs
      /\ (at_rest hs = true -> cnt is_notify out = cnt is_take out).
Proof.
  intros org cm mr utf8ok ls hs Ho Hr Hc.
  destruct (project_total org cm mr utf8ok ls _ [0] _ Hr) as (out & qm & HP).
  destruct (forwarder_actor_refines org Ho cm mr utf8ok ls out hs qm HP Hc) as (fs & H1 & H2 & H3 & _).
  exists out, qm, fs. repeat split; auto. intros Hrest. eapply forwarder_refines_at_rest; eauto.
Qed.

Lemma composed_refines_thm :
  forall (cm mr : nat) (utf8ok : str -> bool) (tagkey : L.dp -> str) (ls : list clabel) (s : cstate),
    run (cstep cm mr [] utf8ok tagkey) cinit ls = Some s ->
    (forall l, In l ls -> is_cctxdone l = false) ->
    exists out qm sA,
      cproject cm mr utf8ok tagkey cinit [] ls = Some (out, s, qm)
      /\ run L.step L.init out = Some sA
      /\ L.set_jobs [] (L.set_next_id 0 sA) = L.set_jobs [] (L.set_next_id 0 (c_l s)).
Proof.
  intros cm mr utf8ok tagkey ls s Hr Hc.
  destruct (cproject_total cm mr utf8ok tagkey ls _ [] _ Hr) as (out & qm & HP).
  destruct (composed_refines cm mr utf8ok tagkey ls out s qm HP Hc) as (sA & H1 & H2).
  exists out, qm, sA. auto.
Qed.

(* hence the property theorems hold of every execution of the composed system; e.g. *)
Corollary composed_next_after_delivery cm mr utf8ok tagkey ls s out qm pre post n :
  run (cstep cm mr [] utf8ok tagkey) cinit ls = Some s ->
  (forall l, In l ls -> is_cctxdone l = false) ->
  cproject cm mr utf8ok tagkey cinit [] ls = Some (out, s, qm) ->
  out = pre ++ L.H_Next (S (S n)) :: post ->
  L.flush_finished (L.OInv (S n)) pre.
Proof.
  intros Hr Hc HP E. destruct (composed_refines cm mr utf8ok tagkey ls out s qm HP Hc) as (sA & H1 & _).
  eapply GS.Proofs.LambdaHist.next_after_delivery_thm; eauto.
Qed.

Lemma dynamic_headers_refuted_thm :
  (exists s hs, final run_a = Some s /\ c_h s = Some hs
     /\ L.nexts (c_l s) = 0 /\ length (received hs) = 1 /\ notified hs = 0 /\ at_rest hs = true
     /\ forall ls s', run (cstep 1 4 dynr ok8 tagk) s ls = Some s' -> forall k, ~ In (CL (L.H_Next k)) ls)
  /\
  (exists s hs, final run_b = Some s /\ c_h s = Some hs
     /\ In (CL (L.H_Next 2)) run_b /\ ~ In (CL (L.R_Done 1)) run_b
     /\ L.nexts (c_l s) = 2 /\ L.rt (c_l s) = L.RRunning 1 /\ L.pending (c_l s) = [3%N]
     /\ length (received hs) = 1 /\ notified hs = 2).
Proof.
  split.
  - destruct run_a_final as (s & Hf & Hst & Hn & hs & Eh & H0 & H1 & Hr).
    exists s, hs. repeat split; auto. intros ls s' Hrun. exact (proj2 (starved_forever 1 4 dynr ok8 tagk ls s s' Hst Hrun)).
  - destruct run_b_final as (s & Hf & Hn & Hrt & Hp & _ & hs & Eh & H2 & H1).
    exists s, hs. repeat split; auto.
    + unfold run_b. apply in_or_app; right. cbn. tauto.
    + unfold run_b, startup. cbn. intros H. repeat (destruct H as [H|H]; [discriminate H|]). exact H.
Qed.
