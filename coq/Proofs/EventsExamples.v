(* Non-vacuity examples for the C19 theorems: concrete runs of the bookkeeping LTS that satisfy the
   hypotheses on non-trivial states, and concrete lines through the composed event path. *)
From stdpp Require Import list list_numbers.
From GS Require Import Base.Bytes Base.LTS Model.Lexer Model.LexGrammar Model.Cloud Model.Tags Model.Events.

(* two backends, one token.  Event 7 arrives on a cache hit, event 8 is parked and released by a
   lookup result; WaitForEvents is called while 7 is still being delivered. *)
Definition ex_cfg := FCfg 2 1.
Definition ex_before : list flabel :=
  [Arrive 7 true; Arrive 8 false; Spawn 0; SendCall 0].
Definition ex_between : list flabel :=
  [SendRet 0; SemRelease 0; WgDone 0;               (* (7, backend 0) done *)
   Spawn 0; SendCall 0; SendRet 0; SemRelease 0; WgDone 0;   (* (7, backend 1): DispatchEvent(7) returns *)
   Release [8%N]; RelNext 0; RelDone 0;
   Spawn 0; SendCall 0; SendRet 0; SemRelease 0; WgDone 0;
   Spawn 0; SendCall 0; SendRet 0; SemRelease 0; WgDone 0].

(* the first Wait is NOT enabled while 8 is parked ... *)
Example ex_wait_cloud_blocked :
  exists st, run (fstep ex_cfg) finit ex_before = Some st /\ fstep ex_cfg st WaitCloud = None
             /\ waiting st 8 = 1 /\ inflight st 7 0 = 1 /\ todo st 7 1 = 1.
Proof. eexists. split; [vm_compute; reflexivity|]. vm_compute. auto. Qed.

(* ... a complete run of the shape of C19_wait_sound: both events delivered to both backends *)
Example ex_wait_run :
  exists st, run (fstep ex_cfg) finit
                 (ex_before ++ firstn 11 ex_between ++ WaitCloud :: skipn 11 ex_between ++ [WaitBackend]) = Some st
             /\ quiescent st /\ sent st = [(7%N, 0); (7%N, 1); (8%N, 0); (8%N, 1)] /\ panicked st = false.
Proof. eexists. split; [vm_compute; reflexivity|]. vm_compute. auto. Qed.

(* the second Wait is not enabled while a delivery is outstanding *)
Example ex_wait_backend_blocked :
  exists st, run (fstep ex_cfg) finit (ex_before ++ firstn 5 ex_between) = Some st
             /\ fstep ex_cfg st WaitBackend = None /\ outstanding ex_cfg st = 1.
Proof. eexists. split; [vm_compute; reflexivity|]. vm_compute. auto. Qed.

(* with the single token taken, the second backend cannot be reached: Spawn is blocked *)
Example ex_token_blocks :
  exists st, run (fstep ex_cfg) finit ex_before = Some st /\ fstep ex_cfg st (Spawn 0) = None /\ sem st = 1.
Proof. eexists. split; [vm_compute; reflexivity|]. vm_compute. auto. Qed.

(* a cancelled DispatchEvent: backend 1 is skipped, the counter is repaired, Wait can return *)
Example ex_cancel :
  exists st, run (fstep ex_cfg) finit
                 [Arrive 7 true; Spawn 0; Cancel 0; SendCall 0; SendRet 0; SemRelease 0; WgDone 0; WaitCloud; WaitBackend] = Some st
             /\ nsent st 7 0 = 1 /\ nsent st 7 1 = 0 /\ skip st 7 1 = 1 /\ wg st = 0%Z /\ panicked st = false.
Proof. eexists. split; [vm_compute; reflexivity|]. vm_compute. auto. Qed.

(* the Panic outcome exists in the model: a state with a counter below what it owes panics on Done
   (unreachable from [finit] by C19_counters) *)
Example ex_panic_modelled :
  exists st', fstep ex_cfg (FS 0 0 0 [] [Go 7 0 PReleased] [] [] [] [] [] [] false) (WgDone 0) = Some st'
              /\ panicked st' = true.
Proof. eexists. split; [vm_compute; reflexivity|]. reflexivity. Qed.

(* no backends: DispatchEvent returns at once and Wait is enabled *)
Example ex_no_backends :
  exists st, run (fstep (FCfg 0 1)) finit [Arrive 1 true; Arrive 2 false; Release [2%N]; RelNext 0; RelDone 0; WaitCloud; WaitBackend] = Some st
             /\ quiescent st /\ entered st = [1; 2]%N.
Proof. eexists. split; [vm_compute; reflexivity|]. vm_compute. auto. Qed.

(* ---- the event path on a concrete line --------------------------------------------------- *)
(* _e{2,4}:hi|a\nb|h:web|p:low|#x,y,x   from 10.0.0.1, instance i-1 with tags [y; z], static tags [z; s] *)
Definition ex_line : str :=
  render_event [104; 105]%N [97; 92; 110; 98]%N
    [EAHost [119; 101; 98]%N; EAPri true; EATags [[120]; [121]; [120]]%N].
Definition ex_ip : str := [49; 48; 46; 48; 46; 48; 46; 49]%N.
Definition ex_inst := Inst [105; 45; 49]%N [[121]; [122]]%N.

Example ex_fields :
  exists th, new_tag_handler [[122]; [115]]%N [] = Done th /\
  standalone (fun _ => PFErr) [] th 1700000000 ex_ip (Some ex_inst) ex_line =
    Delivered (CEvent [104; 105]%N [97; 10; 98]%N 1700000000 [] [] [[120]; [121]; [122]; [115]]%N
                      [105; 45; 49]%N 1 0).
Proof. eexists. split; [vm_compute; reflexivity|]. vm_compute. reflexivity. Qed.

(* a failed lookup: the sender address stays, the h: attribute never becomes the source *)
Example ex_fields_no_instance :
  exists th, new_tag_handler [] [] = Done th /\
  standalone (fun _ => PFErr) [] th 1700000000 ex_ip None ex_line =
    Delivered (CEvent [104; 105]%N [97; 10; 98]%N 1700000000 [] [] [[120]; [121]]%N ex_ip 1 0).
Proof. eexists. split; [vm_compute; reflexivity|]. vm_compute. reflexivity. Qed.

(* max-concurrent-events 0: the channel has no buffer and nobody receives - DispatchEvent blocks,
   WaitForEvents can never return *)
Example ex_cap0_stuck :
  exists st, run (fstep (FCfg 1 0)) finit [Arrive 1 true] = Some st
             /\ fstep (FCfg 1 0) st (Spawn 0) = None /\ fstep (FCfg 1 0) st WaitBackend = None
             /\ gos st = [] /\ rels st = [] /\ parked st = [].
Proof. eexists. split; [vm_compute; reflexivity|]. vm_compute. auto. Qed.
