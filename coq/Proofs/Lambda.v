(* C20 - proofs about Model/Lambda.v, part 1: the kit (traces grow at the end), list lemmas for
   the job table, the state invariant [S1] ("one credit circulates"), and the start-up theorem. *)
From Coq Require Import List NArith Bool Arith Lia.
Import ListNotations.
From GS Require Import Base.LTS Model.Lambda.

(* ---------------------------------------------------------------------------------------- *)
(* traces grow at the end *)

Lemma run_snoc {S L} (st : S -> L -> option S) s0 ls l s' :
  run st s0 (ls ++ [l]) = Some s' <-> exists s, run st s0 ls = Some s /\ st s l = Some s'.
Proof.
  rewrite run_app. destruct (run st s0 ls) as [s|]; cbn.
  - destruct (st s l) as [s1|] eqn:E; split.
    + intros H; exists s; split; [reflexivity|congruence].
    + intros (s2 & H1 & H2); congruence.
    + discriminate.
    + intros (s2 & H1 & H2); congruence.
  - split; [discriminate|intros (s2 & H1 & _); discriminate].
Qed.

Lemma trace_invariant (I : list label -> state -> Prop) :
  I [] init ->
  (forall ls s l s', run step init ls = Some s -> I ls s -> step s l = Some s' -> I (ls ++ [l]) s') ->
  forall ls s, run step init ls = Some s -> I ls s.
Proof.
  intros H0 HS ls; induction ls as [|l ls IH] using rev_ind; intros s Hr.
  - cbn in Hr; injection Hr as <-; exact H0.
  - apply run_snoc in Hr as (s1 & Hr & Hst). eapply HS; eauto.
Qed.

Lemma run_prefix ls1 ls2 s :
  run step init (ls1 ++ ls2) = Some s -> exists s1, run step init ls1 = Some s1 /\ run step s1 ls2 = Some s.
Proof.
  rewrite run_app. destruct (run step init ls1) as [s1|]; [|discriminate]. eauto.
Qed.

Lemma in_snoc {A} (x y : A) l : In x (l ++ [y]) <-> In x l \/ x = y.
Proof. rewrite in_app_iff; cbn; intuition. Qed.

(* ---------------------------------------------------------------------------------------- *)
(* the job table *)

Definition nonnop (l : list job) : nat := length (filter (fun x => negb (is_nop x)) l).
Definition b2n (b : bool) : nat := if b then 1 else 0.

Lemma nonnop_app a b : nonnop (a ++ b) = nonnop a + nonnop b.
Proof. unfold nonnop; rewrite filter_app, app_length; reflexivity. Qed.

Lemma find_job_in j l x : find_job j l = Some x -> In x l /\ j_id x = j.
Proof.
  induction l as [|y r IH]; cbn; [discriminate|].
  destruct (Nat.eq_dec (j_id y) j); intros H.
  - injection H as <-; auto.
  - destruct (IH H); auto.
Qed.

Lemma nonnop_set_phase j p l : nonnop (set_phase j p l) = nonnop l.
Proof.
  induction l as [|y r IH]; cbn; [reflexivity|].
  destruct (Nat.eq_dec (j_id y) j); unfold nonnop in *; cbn.
  - unfold is_nop; cbn. destruct (j_origin y); reflexivity.
  - destruct (negb (is_nop y)); cbn; rewrite IH; reflexivity.
Qed.

Lemma nonnop_del_job j l x :
  find_job j l = Some x -> nonnop l = nonnop (del_job j l) + b2n (negb (is_nop x)).
Proof.
  induction l as [|y r IH]; cbn; [discriminate|].
  destruct (Nat.eq_dec (j_id y) j); intros H.
  - injection H as <-. unfold nonnop; cbn. destruct (negb (is_nop y)); cbn; lia.
  - specialize (IH H). unfold nonnop in *; cbn. destruct (negb (is_nop y)); cbn; lia.
Qed.

Lemma in_set_phase j p l y :
  In y (set_phase j p l) ->
  In y l \/ exists x, find_job j l = Some x /\ y = mkJob (j_id x) (j_origin x) (j_data x) p.
Proof.
  induction l as [|z r IH]; cbn; [tauto|].
  destruct (Nat.eq_dec (j_id z) j); cbn.
  - intros [<-|H]; eauto.
  - intros [<-|H]; auto. destruct (IH H) as [|]; auto.
Qed.

Lemma in_del_job j l y : In y (del_job j l) -> In y l.
Proof.
  induction l as [|z r IH]; cbn; [tauto|].
  destruct (Nat.eq_dec (j_id z) j); cbn; intuition.
Qed.

(* a job that is in the table stays (up to its phase) under set_phase, and stays under del_job
   unless it is the one found *)
Lemma set_phase_keeps j p l y :
  In y l -> exists y', In y' (set_phase j p l) /\ j_id y' = j_id y /\ j_origin y' = j_origin y /\ j_data y' = j_data y.
Proof.
  induction l as [|z r IH]; cbn; [tauto|].
  destruct (Nat.eq_dec (j_id z) j); cbn.
  - intros [->|H].
    + eexists; split; [left; reflexivity|cbn; auto].
    + exists y; auto.
  - intros [->|H].
    + exists y; auto.
    + destruct (IH H) as (y' & ? & ?); exists y'; auto.
Qed.

Lemma del_job_keeps j l x y : find_job j l = Some x -> In y l -> y = x \/ In y (del_job j l).
Proof.
  induction l as [|z r IH]; cbn; [discriminate|].
  destruct (Nat.eq_dec (j_id z) j); cbn.
  - intros H; injection H as <-. intros [->|H]; auto.
  - intros H [->|Hy]; auto. destruct (IH H Hy); auto.
Qed.

Lemma in_remove1 {A} eq (x y : A) l : In y (remove1 eq x l) -> In y l.
Proof.
  induction l as [|z r IH]; cbn; [tauto|]. destruct (eq x z); cbn; intuition.
Qed.

Lemma length_remove1 {A} eq (x : A) l : In x l -> length l = S (length (remove1 eq x l)).
Proof.
  induction l as [|z r IH]; cbn; [tauto|]. destruct (eq x z); cbn; [reflexivity|].
  intros [->|H]; [congruence|]. rewrite <- IH; auto.
Qed.

Lemma in_firstn {A} k (l : list A) x : In x (firstn k l) -> In x l.
Proof. intros H. rewrite <- (firstn_skipn k l). apply in_or_app; auto. Qed.
Lemma in_skipn {A} k (l : list A) x : In x (skipn k l) -> In x l.
Proof. intros H. rewrite <- (firstn_skipn k l). apply in_or_app; auto. Qed.


Lemma nonnop_cons x l : nonnop (x :: l) = b2n (negb (is_nop x)) + nonnop l.
Proof. unfold nonnop; cbn. destruct (negb (is_nop x)); reflexivity. Qed.
Lemma nonnop_snoc x l : nonnop (l ++ [x]) = nonnop l + b2n (negb (is_nop x)).
Proof. rewrite nonnop_app, nonnop_cons. unfold nonnop; cbn; lia. Qed.
Lemma nonnop_zero l x : nonnop l = 0 -> In x l -> is_nop x = true.
Proof.
  induction l as [|y r IH]; [cbn; tauto|]. rewrite nonnop_cons.
  intros H [->|Hx]; [destruct (is_nop x); [reflexivity|cbn in H; lia]|apply IH; [lia|auto]].
Qed.
Arguments nonnop : simpl never.

(* every flush job belongs to the current cycle; the start-up POST never notifies *)
Definition jobs_ok (o : origin) (l : list job) : Prop :=
  forall x, In x l -> (is_nop x = false -> j_origin x = o) /\ (is_nop x = true -> j_phase x <> JDone).

Lemma jobs_ok_set_phase o j p l :
  jobs_ok o l -> (forall x, find_job j l = Some x -> is_nop x = true -> p <> JDone) ->
  jobs_ok o (set_phase j p l).
Proof.
  intros H Hp y Hy. destruct (in_set_phase _ _ _ _ Hy) as [Hin|(x & Hf & ->)]; [auto|].
  destruct (find_job_in _ _ _ Hf) as [Hx _]. destruct (H x Hx) as [H1 H2].
  unfold is_nop in *; cbn. split; [exact H1|intros Hn; apply (Hp x Hf Hn)].
Qed.
Lemma jobs_ok_del o j l : jobs_ok o l -> jobs_ok o (del_job j l).
Proof. intros H y Hy; apply H; eapply in_del_job; eauto. Qed.
Lemma jobs_ok_snoc o x l :
  jobs_ok o l -> (is_nop x = false -> j_origin x = o) -> (is_nop x = true -> j_phase x <> JDone) ->
  jobs_ok o (l ++ [x]).
Proof. intros H H1 H2 y Hy. apply in_snoc in Hy as [Hy| ->]; auto. Qed.
Lemma jobs_ok_cons o x l :
  jobs_ok o l -> (is_nop x = false -> j_origin x = o) -> (is_nop x = true -> j_phase x <> JDone) ->
  jobs_ok o (x :: l).
Proof. intros H H1 H2 y [<-|Hy]; auto. Qed.
Lemma jobs_ok_change o o' l : nonnop l = 0 -> jobs_ok o l -> jobs_ok o' l.
Proof.
  intros Hz H y Hy. pose proof (nonnop_zero _ _ Hz Hy) as Hn. destruct (H y Hy) as [_ H2].
  split; [congruence|auto].
Qed.

Lemma tbatch_len (ds ob td : list nat) :
  ds = firstn (length ds) ob -> length (skipn (length ds) ob) + length (td ++ ds) = length ob + length td.
Proof.
  intros E. rewrite app_length.
  assert (H : length ob = length (firstn (length ds) ob) + length (skipn (length ds) ob))
    by (rewrite <- app_length, firstn_skipn; reflexivity).
  rewrite <- E in H. lia.
Qed.
Lemma tbatch_in (ds ob td : list nat) n :
  ds = firstn (length ds) ob -> In n (skipn (length ds) ob ++ td ++ ds) -> In n (ob ++ td).
Proof.
  intros E H. apply in_app_or in H as [H|H]; [apply in_or_app; left; eapply in_skipn; eauto|].
  apply in_app_or in H as [H|H]; apply in_or_app; [auto|left]. rewrite E in H. eapply in_firstn; eauto.
Qed.

(* ---------------------------------------------------------------------------------------- *)
(* step inversion: split a successful step into its guards *)

Ltac des_match H :=
  match type of H with
  | context [match ?x with _ => _ end] =>
      lazymatch type of x with
      | sumbool _ _ => destruct x; try discriminate H
      | _ => let E := fresh "E" in destruct x eqn:E; try discriminate H
      end
  end.

Ltac step_inv H :=
  unfold step, move, finish in H;
  cbn [mgr srv_err registered hb nexts delivering rt invs outbox t_todo inflight pending offered jobs next_id tok] in H;
  repeat des_match H;
  try (injection H as H; subst).

Ltac inj :=
  repeat match goal with
  | H : Some _ = Some _ |- _ => injection H; clear H; intros
  | H : RRunning _ = RRunning _ |- _ => injection H; clear H; intros
  | H : (_, _) = (_, _) |- _ => injection H; clear H; intros
  end; subst.

(* ---------------------------------------------------------------------------------------- *)
(* S1: exactly one "credit" circulates heartbeat -> sink -> job -> channel -> heartbeat ->
   runtime -> telemetry -> sink ...; whoever holds it is the only one who can act *)

Definition cur (s : state) : origin := match invs s with 0 => OInit | S _ => OInv (invs s) end.

Definition hb_credit (s : state) : nat :=
  match hb s with
  | HIdle | HFlush0 | HReady => 1
  | HInNext => match delivering s with None => 1 | Some _ => 0 end
  | HOffer0 | HWait | HDone => 0
  end.

Definition credit (s : state) : nat :=
  hb_credit s
  + match offered s with Some _ => 1 | None => 0 end
  + nonnop (jobs s)
  + b2n (tok s)
  + match rt s with RIdle => 0 | RRunning _ => 1 end
  + length (outbox s) + length (t_todo s).

Record S1 (s : state) : Prop := {
  s1_credit : credit s <= 1;
  s1_counts : hb s <> HDone -> nexts s = invs s + match hb s, delivering s with HInNext, None => 1 | _, _ => 0 end;
  s1_early : match hb s with HIdle | HFlush0 | HOffer0 => invs s = 0 | _ => True end;
  s1_deliv : forall n, delivering s = Some n -> hb s = HInNext /\ n = invs s;
  s1_rt : forall m, rt s = RRunning m -> m = invs s /\ 1 <= m;
  s1_tele : forall n, In n (outbox s ++ t_todo s) -> n = invs s /\ 1 <= n;
  s1_offer : forall o d, offered s = Some (o, d) -> o = cur s /\ (o = OInit <-> hb s = HOffer0);
  s1_offer0 : hb s = HOffer0 -> exists d, offered s = Some (OInit, d);
  s1_jobs : jobs_ok (cur s) (jobs s)
}.

Lemma S1_init : S1 init.
Proof. split; cbn; try tauto; try discriminate; try lia.
  - unfold nonnop; cbn; lia.
  - intros x Hx; destruct Hx.
Qed.

Ltac use_hyps :=
  repeat match goal with
  | H : ?a <> ?b -> _ |- _ => let X := fresh in assert (X : a <> b) by discriminate; specialize (H X); clear X
  | H : ?a = ?a -> _ |- _ => specialize (H eq_refl)
  end.
Ltac crunch :=
  repeat match goal with
  | H : context [match ?x with _ => _ end] |- _ => is_var x; destruct x
  | |- context [match ?x with _ => _ end] => is_var x; destruct x
  end; cbn in *; try lia; try discriminate; try tauto.
Ltac easy8 := try solve [ assumption | lia | discriminate | tauto | intros; discriminate | intros; lia | eauto
  | intros; use_hyps; first [assumption | lia | tauto | eauto | congruence]
  | intros; inj; use_hyps; first [tauto | lia | intuition (try discriminate; try lia; try congruence)]
  | crunch ].
Ltac pre0 s HI HS :=
  destruct s as [mg se rg hb0 nx dl rt0 iv ob td infl pd ofr jb nid tk];
  step_inv HS;
  destruct HI as [C CN EA DL RT TE OF O0 JB]; unfold credit, hb_credit, cur in *; cbn in *.
Ltac split_dl :=
  try match goal with H : forall n, ?x = Some n -> _ = HInNext /\ _ |- _ => is_var x; destruct x end;
  try match goal with H : forall n, Some _ = Some n -> _ = HInNext /\ _ |- _ =>
        let A := fresh "DL1" in let B := fresh "DL2" in
        destruct (H _ eq_refl) as [A B]; try discriminate A; subst end.
Ltac split_rt :=
  try match goal with H : forall m, ?x = RRunning m -> _ |- _ => is_var x; destruct x end;
  try match goal with H : forall m, RRunning _ = RRunning m -> _ |- _ =>
        let A := fresh "RT1" in let B := fresh "RT2" in
        destruct (H _ eq_refl) as [A B]; subst end.
Ltac split_of :=
  try match goal with H : forall o d, ?x = Some (o, d) -> _ |- _ => is_var x; destruct x as [[? ?]|] end;
  try match goal with H : forall o d, Some _ = Some (o, d) -> _ |- _ =>
        let A := fresh "OF1" in let B := fresh "OF2" in
        destruct (H _ _ eq_refl) as [A B] end.
Ltac pre s HI HS :=
  pre0 s HI HS; split_dl; split_rt; split_of; try discriminate; cbn in *.
Ltac split8 := split; unfold credit, hb_credit, cur; cbn; easy8.

Lemma S1_Register ok s s' : S1 s -> step s (Register ok) = Some s' -> S1 s'.
Proof. intros HI HS. pre s HI HS. all: split8. Qed.
Lemma S1_Subscribe ok s s' : S1 s -> step s (Subscribe ok) = Some s' -> S1 s'.
Proof. intros HI HS. pre s HI HS. all: split8. Qed.
Lemma S1_ServerError s s' : S1 s -> step s ServerError = Some s' -> S1 s'.
Proof. intros HI HS. pre s HI HS. all: split8. Qed.
Lemma S1_InitError s s' : S1 s -> step s InitError = Some s' -> S1 s'.
Proof. intros HI HS. pre s HI HS. all: split8. Qed.
Lemma S1_H_Start s s' : S1 s -> step s H_Start = Some s' -> S1 s'.
Proof. intros HI HS. pre s HI HS. all: split8. Qed.
Lemma S1_H_Wait s s' : S1 s -> step s H_Wait = Some s' -> S1 s'.
Proof. intros HI HS. pre s HI HS. all: split8. Qed.
Lemma S1_H_Next k s s' : S1 s -> step s (H_Next k) = Some s' -> S1 s'.
Proof. intros HI HS. pre s HI HS. all: split8. Qed.
Lemma S1_H_NextReturns e s s' : S1 s -> step s (H_NextReturns e) = Some s' -> S1 s'.
Proof. intros HI HS. destruct e; pre s HI HS. all: split8. Qed.
Lemma S1_R_Send d s s' : S1 s -> step s (R_Send d) = Some s' -> S1 s'.
Proof. intros HI HS. pre s HI HS. all: split8. Qed.
Lemma S1_R_Data d s s' : S1 s -> step s (R_Data d) = Some s' -> S1 s'.
Proof. intros HI HS. pre s HI HS. all: split8. Qed.

Lemma S1_S_Start s s' : S1 s -> step s S_Start = Some s' -> S1 s'.
Proof.
  intros HI HS. pre0 s HI HS.
  all: split; unfold credit, hb_credit, cur; cbn; try rewrite nonnop_cons; cbn; easy8.
  all: apply jobs_ok_cons; cbn; [exact JB|discriminate|discriminate].
Qed.

Lemma S1_H_Flush0 s s' : S1 s -> step s H_Flush0 = Some s' -> S1 s'.
Proof.
  intros HI HS. pre s HI HS. all: split8.
  all: intros; inj; subst; cbn; tauto.
Qed.

Lemma S1_T_Batch recs s s' : S1 s -> step s (T_Batch recs) = Some s' -> S1 s'.
Proof.
  intros HI HS. pre s HI HS.
  all: match goal with H : dones ?r = firstn _ ?ob |- _ =>
         pose proof (tbatch_len _ _ td H) as HL; pose proof (fun n => tbatch_in _ _ td n H) as HM end.
  all: split8.
  all: intros n Hn; apply TE; apply HM; exact Hn.
Qed.

Lemma S1_T_Flush n s s' : S1 s -> step s (T_Flush n) = Some s' -> S1 s'.
Proof.
  intros HI HS. pre s HI HS.
  all: match goal with H : In ?n ?td |- _ =>
         pose proof (length_remove1 Nat.eq_dec n td H) as HL;
         destruct (TE n (in_or_app _ _ _ (or_intror H))) as [HN1 HN2] end.
  all: split8.
  all: try (intros n0 Hn0; apply TE; apply in_app_or in Hn0 as [Hn0|Hn0]; apply in_or_app;
            [left; exact Hn0|right; eapply in_remove1; exact Hn0]).
  all: try (intros o d Ho; inj; subst; destruct iv; [lia|]; split; [reflexivity|];
            split; [discriminate|intros Hh; destruct (O0 Hh); discriminate]).
  all: try (intros Hh; destruct (O0 Hh); discriminate).
Qed.

Lemma S1_R_Invoke n s s' : S1 s -> step s (R_Invoke n) = Some s' -> S1 s'.
Proof.
  intros HI HS. pre s HI HS. all: split8.
  all: try (intros m Hm; destruct ob; destruct td; cbn in *; try lia; tauto).
  all: try (eapply jobs_ok_change; [|exact JB]; lia).
Qed.

Lemma S1_R_Done n s s' : S1 s -> step s (R_Done n) = Some s' -> S1 s'.
Proof.
  intros HI HS. pre s HI HS.
  all: split; unfold credit, hb_credit, cur; cbn; try rewrite app_length; cbn; easy8.
  all: try (intros n0 Hn0; apply in_app_or in Hn0 as [Hn0|Hn0];
            [apply in_snoc in Hn0 as [Hn0| ->]; [apply TE; apply in_or_app; auto|lia]
            |apply TE; apply in_or_app; auto]).
Qed.

Lemma S1_move s s' j p q : q <> JDone -> S1 s -> move s j p q = Some s' -> S1 s'.
Proof.
  intros Hq HI HS. unfold move in HS. pre0 s HI HS.
  split; unfold credit, hb_credit, cur; cbn; try rewrite nonnop_set_phase; easy8.
  apply jobs_ok_set_phase; auto.
Qed.

Lemma S1_finish s s' j p : S1 s -> finish s j p = Some s' -> S1 s'.
Proof.
  intros HI HS. unfold finish in HS. pre0 s HI HS.
  - match goal with H : find_job _ _ = Some ?x, H2 : is_nop ?x = true |- _ =>
      pose proof (nonnop_del_job _ _ _ H) as HD; rewrite H2 in HD; cbn in HD end.
    split; unfold credit, hb_credit, cur; cbn; easy8.
    apply jobs_ok_del; auto.
  - split; unfold credit, hb_credit, cur; cbn; try rewrite nonnop_set_phase; easy8.
    apply jobs_ok_set_phase; auto. intros x Hx Hn. congruence.
Qed.

Lemma S1_F_Notify j s s' : S1 s -> step s (F_Notify j) = Some s' -> S1 s'.
Proof.
  intros HI HS. pre0 s HI HS.
  match goal with H : find_job _ _ = Some ?x |- _ =>
    pose proof (nonnop_del_job _ _ _ H) as HD; destruct (find_job_in _ _ _ H) as [Hin _];
    destruct (JB _ Hin) as [_ HN] end.
  assert (Hnn : is_nop j0 = false) by (destruct (is_nop j0); [exfalso; apply HN; auto|reflexivity]).
  rewrite Hnn in HD; cbn in HD.
  split; unfold credit, hb_credit, cur; cbn; easy8.
  apply jobs_ok_del; auto.
Qed.

Lemma S1_F_Take j o d s s' : S1 s -> step s (F_Take j o d) = Some s' -> S1 s'.
Proof.
  intros HI HS. pre0 s HI HS.
  all: match goal with OF : forall o d, Some (?oo, ?dd) = Some (o, d) -> _ |- _ =>
         destruct (OF _ _ eq_refl) as [OF1 OF2];
         assert (Hnn : forall i ph, is_nop (mkJob i oo dd ph) = false)
           by (intros i0 ph; unfold is_nop; cbn; try rewrite OF1; destruct iv; reflexivity) end.
  all: try (assert (Hh : hb0 = HOffer0) by (apply OF2; reflexivity); subst hb0; cbn in *).
  all: split; unfold credit, hb_credit, cur; cbn; try rewrite nonnop_snoc; try rewrite Hnn; cbn; easy8.
  all: try (intros n0 Hn0; destruct (DL n0 Hn0); discriminate).
  all: apply jobs_ok_snoc; [exact JB|intros _; exact OF1|unfold is_nop; cbn; try rewrite OF1; destruct iv; discriminate].
Qed.

Lemma S1_step s l s' : S1 s -> step s l = Some s' -> S1 s'.
Proof.
  intros HI HS. destruct l.
  - eapply S1_Register; eauto.
  - eapply S1_S_Start; eauto.
  - eapply S1_Subscribe; eauto.
  - eapply S1_ServerError; eauto.
  - eapply S1_InitError; eauto.
  - eapply S1_H_Start; eauto.
  - eapply S1_H_Flush0; eauto.
  - eapply S1_H_Wait; eauto.
  - eapply S1_H_Next; eauto.
  - eapply S1_H_NextReturns; eauto.
  - eapply S1_T_Batch; eauto.
  - eapply S1_T_Flush; eauto.
  - eapply S1_F_Take; eauto.
  - eapply (S1_move s s' j JTaken JPosting); eauto; discriminate.
  - eapply (S1_move s s' j JPosting JBackoff); eauto; discriminate.
  - eapply (S1_move s s' j JBackoff JPosting); eauto; discriminate.
  - destruct o; eapply S1_finish; eauto.
  - eapply S1_F_Notify; eauto.
  - eapply S1_R_Invoke; eauto.
  - eapply S1_R_Send; eauto.
  - eapply S1_R_Data; eauto.
  - eapply S1_R_Done; eauto.
Qed.

Theorem S1_reachable ls s : run step init ls = Some s -> S1 s.
Proof. intros H. eapply (invariant_run step S1 S1_step); [apply S1_init|exact H]. Qed.


(* ---------------------------------------------------------------------------------------- *)
(* start-up: a server error inside the start window *)

Record W (ls : list label) (s : state) : Prop := {
  w_run : In H_Start ls <-> mgr s = MRunning;
  w_idle : mgr s <> MRunning -> hb s = HIdle;
  w_n0 : hb s = HIdle -> nexts s = 0;
  w_nonext : nexts s = 0 -> forall k, ~ In (H_Next k) ls;
  w_err : In ServerError ls -> srv_err s = true /\ mgr s <> MInit;
  w_rep : mgr s = MReported -> In InitError ls;
  w_fail : mgr s = MFailed -> In (Register false) ls \/ In (Subscribe false) ls;
  w_regf : In (Register false) ls -> mgr s = MFailed /\ ~ In ServerError ls
}.

Ltac w_auto :=
  cbn in *; repeat rewrite in_snoc;
  try solve [intuition (try discriminate; try congruence; eauto)].

Lemma W_reachable ls s : run step init ls = Some s -> W ls s.
Proof.
  apply (trace_invariant W).
  - split; cbn; try tauto; try discriminate. split; [tauto|discriminate].
  - clear ls s. intros ls s l s' Hr [R I N0 NN ER RP FL RF] HS.
    pose proof (S1_reachable _ _ Hr) as [_ _ _ _ _ _ OF _ _].
    destruct s as [mg se rg hb0 nx dl rt0 iv ob td infl pd ofr jb nid tk].
    destruct l; step_inv HS; cbn in *.
    all: split; w_auto.
    all: try (intros H0 k0 Hin; apply in_snoc in Hin as [Hin|Hin]; [eapply NN; eauto|discriminate]).
    all: intros Hm; specialize (I Hm); destruct (OF _ _ eq_refl) as [_ [Ho _]];
         specialize (Ho eq_refl); congruence.
Qed.

(* a server error inside the start window (= before the heartbeat was started) *)
Definition error_in_window (ls : list label) : Prop :=
  exists pre post, ls = pre ++ ServerError :: post /\ ~ In H_Start pre.

Lemma error_in_window_snoc ls l :
  error_in_window (ls ++ [l]) -> error_in_window ls \/ (l = ServerError /\ ~ In H_Start ls).
Proof.
  intros (pre & post & E & Hn).
  destruct post as [|p post'] using rev_ind.
  - right. change (pre ++ [ServerError]) with (pre ++ [ServerError]) in E.
    apply app_inj_tail in E as [-> ->]. auto.
  - left. clear IHpost'. rewrite app_comm_cons, app_assoc in E.
    apply app_inj_tail in E as [-> ->]. exists pre, post'; auto.
Qed.

Lemma no_start_after_error ls s :
  run step init ls = Some s -> error_in_window ls -> ~ In H_Start ls.
Proof.
  revert s. induction ls as [|l ls IH] using rev_ind; intros s Hr He.
  - destruct He as (pre & post & E & _). destruct pre; discriminate.
  - apply run_snoc in Hr as (s1 & Hr & HS).
    apply error_in_window_snoc in He as [He|[-> Hn]].
    + specialize (IH _ Hr He). intros Hin. apply in_snoc in Hin as [Hin| <-]; [auto|].
      pose proof (W_reachable _ _ Hr) as Hw.
      assert (Hse : srv_err s1 = true).
      { apply (w_err _ _ Hw). destruct He as (pre & post & -> & _). apply in_or_app; right; left; reflexivity. }
      destruct s1; cbn in *; subst. step_inv HS.
    + intros Hin. apply in_snoc in Hin as [Hin|Hin]; [auto|discriminate].
Qed.

Lemma init_error_reported ls s :
  run step init ls = Some s -> error_in_window ls ->
  (forall k, ~ In (H_Next k) ls) /\
  (In InitError ls \/ In (Subscribe false) ls \/ mgr s = MRegistered \/
   (mgr s = MWindow /\ step s InitError <> None /\ step s H_Start = None)).
Proof.
  intros Hr He. pose proof (no_start_after_error _ _ Hr He) as Hns.
  pose proof (W_reachable _ _ Hr) as [R I N0 NN ER RP FL RF].
  assert (Hin : In ServerError ls) by (destruct He as (pre & post & -> & _); apply in_or_app; right; left; reflexivity).
  destruct (ER Hin) as [Hse Hmi].
  assert (Hnr : mgr s <> MRunning) by (intros Hm; apply Hns, R, Hm).
  split; [apply NN, N0, I, Hnr|].
  destruct (mgr s) eqn:Em; try congruence; auto.
  - right; right; right. split; [reflexivity|].
    destruct s; cbn in *; subst; cbn. split; [discriminate|reflexivity].
  - destruct (FL eq_refl) as [Hf|Hf]; auto. destruct (RF Hf) as [_ Hc]; contradiction.
Qed.


Lemma init_error_thm :
  forall ls s pre post,
    run step init ls = Some s ->
    ls = pre ++ ServerError :: post -> ~ In H_Start pre ->
    (forall k, ~ In (H_Next k) ls) /\ ~ In H_Start ls /\
    (In InitError ls \/ In (Subscribe false) ls \/ mgr s = MRegistered \/
     (mgr s = MWindow /\ step s InitError <> None /\ step s H_Start = None)).
Proof.
  intros ls s pre post Hr E Hn.
  assert (He : error_in_window ls) by (exists pre, post; auto).
  destruct (init_error_reported _ _ Hr He) as [H1 H2].
  split; [exact H1|split; [eapply no_start_after_error; eauto|exact H2]].
Qed.

(* non-vacuity: the hypotheses of the start-up theorem are satisfiable, and both ways out occur *)
Example init_error_run :
  exists s, run step init [Register true; S_Start; Subscribe true; ServerError; InitError] = Some s
            /\ mgr s = MReported.
Proof. eexists; split; reflexivity. Qed.
Example init_error_pending :
  exists s, run step init [Register true; ServerError; Subscribe true] = Some s
            /\ mgr s = MWindow /\ step s H_Start = None.
Proof. eexists; repeat split; reflexivity. Qed.
