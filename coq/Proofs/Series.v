(* Lemmas about Model/Series.v *)
From Coq Require Import Lia.
From GS Require Import Base.Bytes Model.Series.
Local Open Scope N_scope.

Lemma bucket_range name key n : n <> 0 -> bucket name key n < n.
Proof. intros Hn; unfold bucket; apply N.mod_lt; exact Hn. Qed.
