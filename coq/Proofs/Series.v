(* Lemmas about Model/Series.v: the bucket range, the byte order used by sort.Strings, the
   tags key as a function of the *set-with-multiplicity* of tags (not their order), and a
   partial converse (well-formed identities with equal keys are equal up to tag order). *)
From Coq Require Import Lia Permutation.
From GS Require Import Base.Bytes Model.Series.
Local Open Scope N_scope.

Lemma bucket_range name key n : n <> 0 -> bucket name key n < n.
Proof. intros Hn; unfold bucket; apply N.mod_lt; exact Hn. Qed.

(* uint32 addition: the sum that is reduced modulo the shard count is below 2^32 *)
Lemma bucket_sum_u32 name key : (adler32 name + adler32 key) mod 4294967296 < 4294967296.
Proof. apply N.mod_lt; discriminate. Qed.

(* ---------------------------------------------------------------------------------------- *)
(* str_leb is a total order on byte strings *)

Lemma str_leb_refl a : str_leb a a = true.
Proof. induction a as [|x a IH]; cbn; [reflexivity|]. rewrite N.ltb_irrefl; exact IH. Qed.

Lemma str_leb_total a b : str_leb a b = true \/ str_leb b a = true.
Proof.
  revert b; induction a as [|x a IH]; intros [|y b]; cbn; auto.
  destruct (N.ltb_spec x y), (N.ltb_spec y x); auto; lia.
Qed.

Lemma str_leb_antisym a b : str_leb a b = true -> str_leb b a = true -> a = b.
Proof.
  revert b; induction a as [|x a IH]; intros [|y b]; cbn; try congruence.
  destruct (N.ltb_spec x y), (N.ltb_spec y x); try congruence; try lia.
  intros H1 H2; assert (x = y) by lia; subst; f_equal; auto.
Qed.

Lemma str_leb_trans a b c : str_leb a b = true -> str_leb b c = true -> str_leb a c = true.
Proof.
  revert b c; induction a as [|x a IH]; intros [|y b] [|z c]; cbn; try congruence.
  destruct (N.ltb_spec x y), (N.ltb_spec y x), (N.ltb_spec y z), (N.ltb_spec z y),
    (N.ltb_spec x z), (N.ltb_spec z x); try congruence; try lia.
  apply IH.
Qed.

Lemma str_leb_false a b : str_leb a b = false -> str_leb b a = true.
Proof. destruct (str_leb_total a b) as [H|H]; congruence. Qed.

(* ---------------------------------------------------------------------------------------- *)
(* insertion sort: insertions commute, so the sorted list depends only on the multiset *)

Lemma insert_sorted_comm x y l :
  insert_sorted x (insert_sorted y l) = insert_sorted y (insert_sorted x l).
Proof.
  induction l as [|z r IH]; cbn.
  - destruct (str_leb x y) eqn:Hxy, (str_leb y x) eqn:Hyx; try reflexivity.
    + rewrite (str_leb_antisym _ _ Hxy Hyx); reflexivity.
    + apply str_leb_false in Hxy; congruence.
  - destruct (str_leb y z) eqn:Hyz, (str_leb x z) eqn:Hxz; cbn.
    + destruct (str_leb x y) eqn:Hxy, (str_leb y x) eqn:Hyx; cbn; rewrite ?Hyz, ?Hxz; try reflexivity.
      * rewrite (str_leb_antisym _ _ Hxy Hyx); reflexivity.
      * apply str_leb_false in Hxy; congruence.
    + rewrite Hyz.
      destruct (str_leb x y) eqn:Hxy; cbn.
      * rewrite (str_leb_trans _ _ _ Hxy Hyz) in Hxz; discriminate.
      * rewrite Hxz; reflexivity.
    + rewrite Hxz.
      destruct (str_leb y x) eqn:Hyx; cbn.
      * rewrite (str_leb_trans _ _ _ Hyx Hxz) in Hyz; discriminate.
      * rewrite Hyz; reflexivity.
    + rewrite Hyz, Hxz, IH; reflexivity.
Qed.

Lemma sort_tags_perm l l' : Permutation l l' -> sort_tags l = sort_tags l'.
Proof.
  unfold sort_tags; induction 1 as [|x l l' _ IH|x y l|l l' l'' _ IH1 _ IH2]; cbn [fold_right].
  - reflexivity.
  - rewrite IH; reflexivity.
  - apply insert_sorted_comm.
  - congruence.
Qed.

Lemma insert_sorted_permutation x l : Permutation (insert_sorted x l) (x :: l).
Proof.
  induction l as [|y r IH]; cbn; [reflexivity|].
  destruct (str_leb x y); [reflexivity|].
  rewrite IH; apply perm_swap.
Qed.

(* the sorted list holds exactly the given tags, duplicates included *)
Lemma sort_tags_permutation l : Permutation (sort_tags l) l.
Proof.
  unfold sort_tags; induction l as [|x l IH]; cbn [fold_right]; [reflexivity|].
  rewrite insert_sorted_permutation, IH; reflexivity.
Qed.

Lemma sort_tags_eq_iff l l' : sort_tags l = sort_tags l' <-> Permutation l l'.
Proof.
  split; [|apply sort_tags_perm].
  intros H. rewrite <- (sort_tags_permutation l), H. apply sort_tags_permutation.
Qed.

(* the output of the sort is ascending (what sort.Strings guarantees) *)
Inductive ascending : list str -> Prop :=
| asc_nil : ascending []
| asc_one x : ascending [x]
| asc_cons x y r : str_leb x y = true -> ascending (y :: r) -> ascending (x :: y :: r).

Lemma insert_sorted_ascending x l : ascending l -> ascending (insert_sorted x l).
Proof.
  induction 1 as [|y|y z r Hyz Hr IH]; cbn.
  - constructor.
  - destruct (str_leb x y) eqn:E; constructor; auto using asc_one, str_leb_false.
  - destruct (str_leb x y) eqn:E.
    + repeat constructor; auto.
    + cbn in IH. destruct (str_leb x z) eqn:E2.
      * constructor; [apply str_leb_false; exact E|]. constructor; auto.
      * constructor; auto.
Qed.

Lemma sort_tags_ascending l : ascending (sort_tags l).
Proof.
  unfold sort_tags; induction l; cbn [fold_right]; [constructor|apply insert_sorted_ascending; assumption].
Qed.

(* ---------------------------------------------------------------------------------------- *)
(* The tags key depends on (multiset of tags, source) only: the order in which a client wrote
   the tags, or in which an earlier stage appended them, does not matter. *)

Lemma tags_key_perm src l l' : Permutation l l' -> tags_key src l = tags_key src l'.
Proof. intros H; unfold tags_key; rewrite (sort_tags_perm _ _ H); reflexivity. Qed.

Lemma bucket_perm name src l l' n :
  Permutation l l' -> bucket name (tags_key src l) n = bucket name (tags_key src l') n.
Proof. intros H; rewrite (tags_key_perm _ _ _ H); reflexivity. Qed.

(* The key is NOT injective on arbitrary (tags, source) pairs — by design two such pairs with
   the same key are one series for gostatsd (DESIGN 6, C06 note). *)
Example tags_key_collision_source :
  tags_key [] [[97]; [115; 58; 120]] = tags_key [120] [[97]].          (* ["a","s:x"],"" vs ["a"],"x" *)
Proof. reflexivity. Qed.
Example tags_key_collision_comma :
  tags_key [] [[97; 44; 98]] = tags_key [] [[97]; [98]].                (* ["a,b"] vs ["a","b"] *)
Proof. reflexivity. Qed.
Example tags_key_collision_empty : tags_key [] [] = tags_key [] [[]].    (* no tag vs one empty tag *)
Proof. reflexivity. Qed.

(* ---------------------------------------------------------------------------------------- *)
(* Partial converse.  A tag is plain when it is non-empty, holds no comma and does not begin
   with "s:" (the marker FormatTagsKey uses for the source); a source is plain when it holds no
   comma.  On plain identities the key determines the source and the tags up to order. *)

Definition no_comma (s : str) : Prop := ~ In c_comma s.
Definition src_marked (s : str) : bool :=
  match s with a :: b :: _ => (a =? c_s) && (b =? c_colon) | _ => false end.
Definition plain_tag (t : str) : Prop := t <> [] /\ no_comma t /\ src_marked t = false.

(* strings.Split(s, ",") *)
Fixpoint split_commas (s : str) : list str :=
  match s with
  | [] => [[]]
  | c :: r => if c =? c_comma then [] :: split_commas r
              else match split_commas r with
                   | [] => [[c]]   (* unreachable: the result is never empty *)
                   | h :: t => (c :: h) :: t
                   end
  end.

Lemma split_commas_app_comma a b :
  no_comma a -> split_commas (a ++ c_comma :: b) = a :: split_commas b.
Proof.
  unfold no_comma; induction a as [|c a IH]; intros Ha; cbn [app split_commas].
  - rewrite N.eqb_refl; reflexivity.
  - destruct (N.eqb_spec c c_comma) as [->|Hc]; [exfalso; apply Ha; left; reflexivity|].
    rewrite IH; [reflexivity|]. intros Hin; apply Ha; right; exact Hin.
Qed.

Lemma split_commas_plain a : no_comma a -> split_commas a = [a].
Proof.
  unfold no_comma; induction a as [|c a IH]; intros Ha; cbn [split_commas]; [reflexivity|].
  destruct (N.eqb_spec c c_comma) as [->|Hc]; [exfalso; apply Ha; left; reflexivity|].
  rewrite IH; [reflexivity|]. intros Hin; apply Ha; right; exact Hin.
Qed.

(* the comma-separated fields of join "," l *)
Definition fields (l : list str) : list str := match l with [] => [[]] | _ => l end.

Lemma join_cons2 sep x y r : join sep (x :: y :: r) = x ++ sep :: join sep (y :: r).
Proof. reflexivity. Qed.

Lemma split_commas_join l : Forall no_comma l -> split_commas (join c_comma l) = fields l.
Proof.
  induction 1 as [|x r Hx Hr IH]; [reflexivity|].
  destruct r as [|y r]; [apply split_commas_plain; exact Hx|].
  rewrite join_cons2, split_commas_app_comma by exact Hx. rewrite IH; reflexivity.
Qed.

Lemma split_commas_join_app l b :
  Forall no_comma l -> split_commas (join c_comma l ++ c_comma :: b) = fields l ++ split_commas b.
Proof.
  induction 1 as [|x r Hx Hr IH]; [cbn [join fields app split_commas]; rewrite N.eqb_refl; reflexivity|].
  destruct r as [|y r].
  - cbn [join fields]. rewrite split_commas_app_comma by exact Hx; reflexivity.
  - rewrite join_cons2, <- app_assoc; cbn [app]. rewrite split_commas_app_comma by exact Hx.
    rewrite IH; reflexivity.
Qed.

Definition src_field (src : str) : list str :=
  match src with [] => [] | _ => [c_s :: c_colon :: src] end.

Lemma split_commas_tags_key src l :
  Forall no_comma l -> no_comma src ->
  split_commas (tags_key src l) = fields (sort_tags l) ++ src_field src.
Proof.
  intros Hl Hs. assert (Hsl : Forall no_comma (sort_tags l)).
  { rewrite Forall_forall in *. intros x Hx. apply Hl.
    eapply Permutation_in; [apply sort_tags_permutation|exact Hx]. }
  unfold tags_key; destruct src as [|c src]; cbn [src_field].
  - rewrite app_nil_r; apply split_commas_join; exact Hsl.
  - rewrite split_commas_join_app by exact Hsl. f_equal.
    apply split_commas_plain. unfold no_comma in *; cbn; intros [H|[H|H]]; try discriminate.
    apply Hs; exact H.
Qed.

Lemma fields_last_unmarked l :
  Forall (fun t => src_marked t = false) l -> forall a x, fields l = a ++ [x] -> src_marked x = false.
Proof.
  intros Hl a x E. destruct l as [|y r]; cbn [fields] in E.
  - destruct a as [|? [|? ?]]; inversion E; reflexivity.
  - rewrite Forall_forall in Hl; apply Hl. rewrite E; apply in_or_app; right; left; reflexivity.
Qed.

Lemma tags_key_inj_plain src src' l l' :
  Forall plain_tag l -> Forall plain_tag l' -> no_comma src -> no_comma src' ->
  tags_key src l = tags_key src' l' -> src = src' /\ Permutation l l'.
Proof.
  intros Hl Hl' Hs Hs' E.
  assert (P : forall l, Forall plain_tag l ->
            Forall no_comma l /\ Forall (fun t => src_marked t = false) (sort_tags l) /\ ~ In [] (sort_tags l)).
  { clear; intros l H; rewrite !Forall_forall in *; repeat split.
    - intros x Hx; apply (H x Hx).
    - intros x Hx; apply (H x). eapply Permutation_in; [apply sort_tags_permutation|exact Hx].
    - intros Hin. destruct (H []) as [Hne _]; [|congruence].
      eapply Permutation_in; [apply sort_tags_permutation|exact Hin]. }
  destruct (P l Hl) as (Hc & Hm & He), (P l' Hl') as (Hc' & Hm' & He').
  apply (f_equal split_commas) in E.
  rewrite !split_commas_tags_key in E by assumption.
  assert (Hsrc : src = src' /\ fields (sort_tags l) = fields (sort_tags l')).
  { destruct src as [|c s], src' as [|c' s']; cbn [src_field] in E.
    - rewrite !app_nil_r in E; auto.
    - rewrite app_nil_r in E. pose proof (fields_last_unmarked _ Hm _ _ E) as F.
      cbn in F; discriminate.
    - rewrite app_nil_r in E. symmetry in E. pose proof (fields_last_unmarked _ Hm' _ _ E) as F.
      cbn in F; discriminate.
    - apply app_inj_tail in E; destruct E as [E1 E2]; inversion E2; auto. }
  destruct Hsrc as [-> Hf]; split; [reflexivity|].
  apply sort_tags_eq_iff.
  destruct (sort_tags l) as [|x r], (sort_tags l') as [|x' r']; cbn [fields] in Hf; auto.
  - exfalso; apply He'; rewrite <- Hf; left; reflexivity.
  - exfalso; apply He; rewrite Hf; left; reflexivity.
Qed.

(* both directions together: on plain identities, "same tags key" is exactly "same source and
   the same tags up to order" *)
Lemma tags_key_identity src src' l l' :
  Forall plain_tag l -> Forall plain_tag l' -> no_comma src -> no_comma src' ->
  (tags_key src l = tags_key src' l' <-> src = src' /\ Permutation l l').
Proof.
  intros; split; [apply tags_key_inj_plain; assumption|].
  intros [-> HP]; apply tags_key_perm; exact HP.
Qed.

(* hypotheses satisfiable on a non-trivial identity *)
Example plain_identity_example :
  Forall plain_tag [[98; 58; 49]; [97]] /\ no_comma [49; 46; 50] /\
  tags_key [49; 46; 50] [[98; 58; 49]; [97]] = [97; 44; 98; 58; 49; 44; 115; 58; 49; 46; 50].
Proof.
  repeat split; try reflexivity.
  - repeat constructor; try discriminate; unfold no_comma, c_comma; cbn; intuition discriminate.
  - unfold no_comma, c_comma; cbn; intuition discriminate.
Qed.
