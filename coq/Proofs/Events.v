(* Proofs about the composed event path of Model/Events.v part A (property C19): what an event line
   of the documented grammar has become when it reaches the backends, as a corollary of the
   component theorems of C02 (grammar_event), C11 (update_inplace on an event) and C10
   (unique_tags_with_seen_spec, new_tag_handler_spec), and the wire round trip of C14. *)
From GS Require Import Base.Bytes Model.Lexer Model.LexGrammar Model.Datagram Model.Cloud Model.Tags Model.Events.
From GS Require Model.Wire.
From GS Require Import Proofs.LexerGrammarEvent Proofs.Tags.
From stdpp Require Import list sets.   (* last, so that NoDup / ∈ / filter / ≡ₚ are std++'s *)

(* ---- de-duplication as a specification function ----------------------------------------- *)

(* only membership in [seen] matters *)
Lemma first_occ_ext l : ∀ s1 s2, (∀ x, x ∈ s1 ↔ x ∈ s2) → first_occ s1 l = first_occ s2 l.
Proof.
  induction l as [|a l IH]; intros s1 s2 H; cbn; [done|].
  destruct (mem_str a s1) eqn:E1, (mem_str a s2) eqn:E2.
  - by apply IH.
  - apply mem_str_spec in E1. apply mem_str_false in E2. by rewrite H in E1.
  - apply mem_str_spec in E2. apply mem_str_false in E1. by rewrite H in E1.
  - f_equal. apply IH. intros x. rewrite !elem_of_cons, H. done.
Qed.

Lemma first_occ_app a : ∀ seen b, first_occ seen (a ++ b) = first_occ seen a ++ first_occ (a ++ seen) b.
Proof.
  induction a as [|x a IH]; intros seen b; cbn; [done|].
  destruct (mem_str x seen) eqn:E.
  - rewrite IH. f_equal. apply first_occ_ext. intros y. apply mem_str_spec in E. set_solver.
  - cbn. rewrite IH. do 2 f_equal. apply first_occ_ext. intros y. set_solver.
Qed.

Lemma first_occ_filter S l : ∀ A, first_occ (S ++ A) l = filter (λ t, t ∉ S) (first_occ A l).
Proof.
  induction l as [|x l IH]; intros A; cbn; [done|].
  destruct (mem_str x A) eqn:EA.
  - apply mem_str_spec in EA. assert (mem_str x (S ++ A) = true) as -> by (apply mem_str_spec; set_solver).
    apply IH.
  - apply mem_str_false in EA. destruct (decide (x ∈ S)) as [HS|HS].
    + assert (mem_str x (S ++ A) = true) as -> by (apply mem_str_spec; set_solver).
      rewrite filter_cons_False by tauto. rewrite <- IH. apply first_occ_ext. intros y. set_solver.
    + assert (mem_str x (S ++ A) = false) as -> by (apply mem_str_false; set_solver).
      rewrite filter_cons_True by done. f_equal. rewrite <- IH. apply first_occ_ext. intros y. set_solver.
Qed.

(* the static tags of a constructed handler are the configured ones, de-duplicated *)
Lemma handler_tags static filters th :
  new_tag_handler static filters = Done th → th_tags th ≡ₚ dedup static ∧ NoDup (th_tags th).
Proof.
  unfold new_tag_handler, unique_tags. intros H.
  destruct (unique_tags_with_seen_spec [] static []) as (r & Hr & Hp & Hnd). rewrite Hr in H. cbn in H.
  injection H as <-. cbn. split; [|apply Hnd; constructor].
  rewrite Hp. cbn. by rewrite app_nil_r.
Qed.

(* ---- the stages ------------------------------------------------------------------------- *)

Lemma cloud_event_spec io e :
  cloud_event io e = match io with
                     | Some i => event_retag (inst_id i) (ev_tags e ++ inst_tags i) e
                     | None => e
                     end.
Proof. destruct io, e; reflexivity. Qed.

Lemma tag_event_spec static filters th e :
  new_tag_handler static filters = Done th →
  ∃ t, tag_event th e = Done (event_retag (ev_src e) t e)
       ∧ t ≡ₚ dedup (ev_tags e ++ static) ∧ NoDup t.
Proof.
  intros Hth. destruct (handler_tags _ _ _ Hth) as [Hp Hnd].
  unfold tag_event, dispatch_event, unique_tags.
  destruct (unique_tags_with_seen_spec [] (ev_tags e) (th_tags th)) as (r & Hr & Hpr & Hndr).
  rewrite Hr. cbn. exists r. split; [done|]. split; [|by apply Hndr].
  rewrite Hpr. unfold dedup. rewrite first_occ_app. apply Permutation_app_head.
  rewrite (first_occ_filter (ev_tags e) static []).
  assert (Hf : filter (λ t, t ∉ ev_tags e ++ []) (th_tags th) = filter (λ t, t ∉ ev_tags e) (th_tags th)).
  { apply list_filter_iff. intros t. by rewrite app_nil_r. }
  rewrite Hf, Hp. done.
Qed.

(* attributes never touch title and text *)
Lemma apply_eattrs_title attrs : ∀ e,
  Lexer.e_title (fold_left apply_eattr attrs e) = Lexer.e_title e
  ∧ Lexer.e_text (fold_left apply_eattr attrs e) = Lexer.e_text e.
Proof.
  induction attrs as [|a attrs IH]; intros e; cbn; [done|].
  destruct (IH (apply_eattr e a)) as [-> ->].
  destruct a as [ | | |[]| |[]| | ]; cbn; done.
Qed.

(* ---- C19_fields ------------------------------------------------------------------------- *)

Theorem fields pf ns static filters th now ip io title text attrs :
  (N.of_nat (length title) <= max_uint32)%N → (N.of_nat (length text) <= max_uint32)%N →
  Forall wf_eattr attrs →
  new_tag_handler static filters = Done th →
  let e0 := fold_left apply_eattr attrs (empty_event title (unescape text)) in
  ∃ tags,
    standalone pf ns th now ip io (render_event title text attrs) =
      Delivered (CEvent title (unescape text)
                        (if (Lexer.e_date e0 =? 0)%Z then now else Lexer.e_date e0)
                        (Lexer.e_key e0) (Lexer.e_stype e0) tags
                        (match io with Some i => inst_id i | None => ip end)
                        (Z.of_N (Lexer.e_pri e0)) (Z.of_N (Lexer.e_alert e0)))
    ∧ tags ≡ₚ dedup (eattrs_tags attrs ++ inst_tags_of io ++ static)
    ∧ NoDup tags.
Proof.
  intros Ht Hx Hwf Hth e0. unfold standalone.
  rewrite (grammar_event pf ns title text attrs Ht Hx Hwf). unfold expected_event. fold e0.
  destruct (apply_eattrs_title attrs (empty_event title (unescape text))) as [Htitle Htext].
  fold e0 in Htitle, Htext. cbn in Htitle, Htext.
  set (ce := cloud_event io (to_cevent (parser_event now ip (with_tags e0 (eattrs_tags attrs))))).
  destruct (tag_event_spec static filters th ce Hth) as (t & Hte & Hp & Hnd).
  rewrite Hte. exists t.
  assert (Hce : ce = CEvent title (unescape text)
                       (if (Lexer.e_date e0 =? 0)%Z then now else Lexer.e_date e0)
                       (Lexer.e_key e0) (Lexer.e_stype e0)
                       (eattrs_tags attrs ++ inst_tags_of io)
                       (match io with Some i => inst_id i | None => ip end)
                       (Z.of_N (Lexer.e_pri e0)) (Z.of_N (Lexer.e_alert e0))).
  { unfold ce. rewrite cloud_event_spec. unfold parser_event, stamp_event, with_tags, to_cevent, set_date_z.
    cbn. rewrite Htitle, Htext.
    destruct (Lexer.e_date e0 =? 0)%Z, io; cbn; rewrite ?app_nil_r; reflexivity. }
  rewrite Hce in *. cbn in *. split; [reflexivity|]. split; [|done].
  by rewrite <- app_assoc in Hp.
Qed.

(* ---- the forwarder's wire --------------------------------------------------------------- *)

(* an event whose enum bytes are valid crosses forwarder -> ingestion server unchanged *)
Lemma wire_roundtrip e :
  (0 <= ev_prio e <= 1)%Z → (0 <= ev_alert e <= 3)%Z → ingest (forward e) = e.
Proof.
  intros Hp Ha. destruct e as [ti tx d ag st tg sr pr al]. cbn in *.
  unfold ingest, forward, to_wire, of_wire, Wire.event_from_pb, Wire.event_to_pb. cbn.
  unfold Wire.priority_from_pb, Wire.priority_to_pb, Wire.alert_from_pb, Wire.alert_to_pb,
    Wire.pri_low, Wire.pri_normal, Wire.alert_warning, Wire.alert_error, Wire.alert_success, Wire.alert_info.
  assert (pr = 0 ∨ pr = 1)%Z as [-> | ->] by lia;
  assert (al = 0 ∨ al = 1 ∨ al = 2 ∨ al = 3)%Z as [-> | [-> | [-> | ->]]] by lia; reflexivity.
Qed.

(* the lexer only produces valid enum bytes *)
Lemma apply_eattrs_enums attrs : ∀ e,
  (Lexer.e_pri e <= 1)%N → (Lexer.e_alert e <= 3)%N →
  (Lexer.e_pri (fold_left apply_eattr attrs e) <= 1)%N ∧ (Lexer.e_alert (fold_left apply_eattr attrs e) <= 3)%N.
Proof.
  induction attrs as [|a attrs IH]; intros e Hp Ha; cbn; [done|].
  apply IH; destruct a as [ | | |[]| |[]| | ]; cbn; lia.
Qed.

Theorem fields_forwarded pf ns static filters th now ip io staticS filtersS thS ioS title text attrs :
  (N.of_nat (length title) <= max_uint32)%N → (N.of_nat (length text) <= max_uint32)%N →
  Forall wf_eattr attrs →
  new_tag_handler static filters = Done th → new_tag_handler staticS filtersS = Done thS →
  ∃ e tags,
    standalone pf ns th now ip io (render_event title text attrs) = Delivered e
    ∧ forwarded pf ns th now ip io thS ioS (render_event title text attrs) =
        Delivered (CEvent (ev_title e) (ev_text e) (ev_date e) (ev_agg e) (ev_stn e) tags
                          (match ioS with Some i => inst_id i | None => ev_src e end)
                          (ev_prio e) (ev_alert e))
    ∧ tags ≡ₚ dedup (ev_tags e ++ inst_tags_of ioS ++ staticS) ∧ NoDup tags.
Proof.
  intros Ht Hx Hwf Hth HthS.
  destruct (fields pf ns static filters th now ip io title text attrs Ht Hx Hwf Hth) as (t & He & _ & _).
  destruct (apply_eattrs_enums attrs (empty_event title (unescape text))) as [Hpr Hal]; [cbn; lia..|].
  match type of He with _ = Delivered ?x => set (X := x) in * end.
  assert (HX : ingest (forward X) = X) by (apply wire_roundtrip; unfold X; cbn; lia).
  destruct (tag_event_spec staticS filtersS thS (cloud_event ioS X) HthS) as (t' & Hte & Hp' & Hnd').
  exists X, t'. split; [exact He|].
  unfold forwarded. rewrite He. unfold ingested. rewrite HX, Hte.
  rewrite cloud_event_spec in *.
  destruct ioS as [i|]; cbn in *; (split; [reflexivity|]); (split; [|done]);
    rewrite ?app_nil_r in *; by rewrite <- ?app_assoc in Hp'.
Qed.

(* ---- the HTTP ingestion endpoint -------------------------------------------------------- *)

(* an event message posted to /v2/event: every field as sent (Hostname is the source; enum values
   outside the declared ones become Normal / Info; the date is NOT stamped here - a forwarder has
   stamped it already), then the server's cloud and tag stages as for a line *)
Theorem fields_ingested static filters th io (p : Wire.pb_event) :
  new_tag_handler static filters = Done th →
  ∃ tags,
    ingested th io p =
      Delivered (CEvent (Wire.pe_title p) (Wire.pe_text p) (Wire.pe_date p) (Wire.pe_aggkey p) (Wire.pe_srctype p) tags
                        (match io with Some i => inst_id i | None => Wire.pe_hostname p end)
                        (if (Wire.pe_priority p =? 1)%Z then 1 else 0)%Z
                        (if (Wire.pe_type p =? 1)%Z then 1 else if (Wire.pe_type p =? 2)%Z then 2
                         else if (Wire.pe_type p =? 3)%Z then 3 else 0)%Z)
    ∧ tags ≡ₚ dedup (Wire.pe_tags p ++ inst_tags_of io ++ static) ∧ NoDup tags.
Proof.
  intros Hth. unfold ingested.
  destruct (tag_event_spec static filters th (cloud_event io (ingest p)) Hth) as (t & Hte & Hp & Hnd).
  rewrite Hte. exists t. rewrite cloud_event_spec in *.
  unfold ingest, of_wire, Wire.event_from_pb, Wire.priority_from_pb, Wire.alert_from_pb,
    Wire.pri_low, Wire.pri_normal, Wire.alert_warning, Wire.alert_error, Wire.alert_success, Wire.alert_info in *.
  destruct io as [i|]; cbn in *; (split; [|split; [|done]]);
    rewrite ?app_nil_r in *; try (by rewrite <- ?app_assoc in Hp);
    repeat case_match; reflexivity.
Qed.
