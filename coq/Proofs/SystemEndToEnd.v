(* C01_system_end_to_end: bytes read from the socket in, statistics handed to the backends out.
   C03_receiver_conserves ∘ C05 (datagram = its lines) ∘ C01_bounded_exact_at_quiescence ∘
   C08_full_flush_spec, over Model/System.v. *)
From stdpp Require Import gmap gmultiset.
From Coq Require Import QArith Qcanon Lia.
From GS Require Import Base.Bytes Base.LTS Model.Lexer Model.Series Model.MetricMap Model.Content.
From GS Require Import Model.GoPartial Model.Histogram Model.Stats Model.Aggregator.
From GS Require Import Model.Pipeline Model.PipelineBounded Model.System.
From GS Require Model.Receiver Model.Datagram.
From GS Require Import Proofs.AggregatorRefine Proofs.AggregatorProj Proofs.AggregatorHistory.
From GS Require Import Proofs.PipelineAlgebra Proofs.Pipeline Proofs.PipelineExplicit Proofs.PipelineBounded Proofs.System.
From GS Require Proofs.Receiver Proofs.SystemGlue Proofs.Datagram.

Arguments Z.add : simpl never.
Local Open Scope nat_scope.

(* ---- content equation -> the four equations of the property ---- *)
Lemma explicit_of_content ds (ms : list mmap) k :
  total dp_cnt ds k = total cnt ms k →
  zsum ((λ m, counter_at m k) <$> ms) = zsum (counter_increment <$> samples_of Counter k ds)
  ∧ msum ((λ m, timer_values_at m k) <$> ms) = list_to_set_disj (dp_value <$> samples_of Timer k ds)
  ∧ qsum ((λ m, sampled_at m k) <$> ms) = qsum (sample_weight <$> samples_of Timer k ds)
  ∧ ⋃ ((λ m, members_at m k) <$> ms) = list_to_set (dp_strval <$> samples_of MSet k ds).
Proof.
  intros E.
  rewrite <- input_ctr, <- input_vals, <- input_samp, <- input_mem.
  rewrite <- ctr_total, <- vals_total, <- samp_total, <- mem_total, E.
  rewrite ctr_total, vals_total, samp_total, mem_total.
  repeat split; f_equal; apply list_fmap_ext; intros i m _; by rewrite cnt_components.
Qed.

Lemma omap_list_omap {A B} (f : A → option B) l : SystemGlue.omap_list f l = omap f l.
Proof. induction l as [|x l IH]; [done|]. cbn. destruct (f x); by rewrite IH. Qed.

Section EndToEnd.
  Variable pf : str → pfres.
  Variable hpf : str → option bound.
  Variable rank : Z → Z → Z.
  Variable sc : sysconfig.
  Let step' := sstep pf hpf rank sc.

  Lemma srun_crash ls : run step' SCrash ls = Some SCrash.
  Proof. induction ls as [|l ls IH]; [done|]. cbn. exact IH. Qed.

  Lemma srun_cons s l ls s' :
    run step' (SRun s) (l :: ls) = Some (SRun s') →
    ∃ s1, sstep_run pf hpf rank sc s l = Some (SRun s1) ∧ run step' (SRun s1) ls = Some (SRun s').
  Proof.
    change (run step' (SRun s) (l :: ls)) with (match sstep_run pf hpf rank sc s l with Some st => run step' st ls | None => None end).
    destruct (sstep_run pf hpf rank sc s l) as [[s1|]|]; [eauto| |done]. by rewrite srun_crash.
  Qed.

  (* the pipeline part of a system run is a run of the bounded pipeline *)
  Lemma srun_sim (Ps : slabel → Prop) (Pb : blabel → Prop) :
    (∀ l bl, Ps l → lab_rel l bl → Pb bl) →
    ∀ ls s s', Forall Ps ls → sinv pf hpf rank sc s → run step' (SRun s) ls = Some (SRun s') →
      sinv pf hpf rank sc s' ∧ ∃ bls, run (bstep (sy_bc sc)) (sproj s) bls = Some (sproj s') ∧ Forall Pb bls.
  Proof.
    intros HP. induction ls as [|l ls IH]; intros s s' HF Hi Hr.
    - injection Hr as <-. split; [done|]. exists []. by split.
    - apply Forall_cons_1 in HF as [Hl HF]. destruct (srun_cons s l ls s' Hr) as (s1 & E & Hr1).
      destruct (sstep_sim pf hpf rank sc s l s1 Hi E) as [Hi1 Hsim].
      destruct (IH s1 s' HF Hi1 Hr1) as (Hi' & bls & Hb & HPb). split; [done|].
      destruct (is_recv_label l).
      + exists bls. by rewrite <- Hsim.
      + destruct Hsim as (bl & Hrel & Hbs). exists (bl :: bls). split; [|constructor; [by eapply HP|done]].
        change (run (bstep (sy_bc sc)) (sproj s) (bl :: bls))
          with (match bstep (sy_bc sc) (sproj s) bl with Some b => run (bstep (sy_bc sc)) b bls | None => None end).
        by rewrite Hbs.
  Qed.

  (* the receiver part is a run of the receiver *)
  Lemma sstep_recv s l s' :
    sstep_run pf hpf rank sc s l = Some (SRun s') →
    match l with
    | SRead r => Receiver.step (sy_rcfg sc) (Receiver.Running (ss_recv s)) (Receiver.LRead r) = Some (Receiver.Running (ss_recv s'))
    | SDone b => Receiver.step (sy_rcfg sc) (Receiver.Running (ss_recv s)) (Receiver.LDone b) = Some (Receiver.Running (ss_recv s'))
    | _ => ss_recv s' = ss_recv s
    end.
  Proof.
    destruct l; cbn [sstep_run]; unfold recv_step; intros H;
      repeat (case_match; try done); by simplify_eq.
  Qed.

  Lemma srun_recv ls s s' :
    run step' (SRun s) ls = Some (SRun s') →
    run (Receiver.step (sy_rcfg sc)) (Receiver.Running (ss_recv s)) (recv_labels ls) = Some (Receiver.Running (ss_recv s')).
  Proof.
    revert s. induction ls as [|l ls IH]; intros s Hr; [by injection Hr as <-|].
    destruct (srun_cons s l ls s' Hr) as (s1 & E & Hr1). specialize (IH s1 Hr1).
    pose proof (sstep_recv s l s1 E) as H.
    destruct l; cbn [recv_labels omap list_omap]; try (by rewrite <- H);
      (change (run ?st ?x (?a :: ?r)) with (match st x a with Some y => run st y r | None => None end); by rewrite H).
  Qed.

  (* flush labels leave everything in front of the aggregators alone *)
  Lemma sflush_frame ls s s' :
    Forall is_sflush_label ls → run step' (SRun s) ls = Some (SRun s') →
    ss_recv s' = ss_recv s ∧ ss_taken s' = ss_taken s ∧ ss_input s' = ss_input s ∧ ss_bad s' = ss_bad s.
  Proof.
    revert s. induction ls as [|l ls IH]; intros s HF Hr; [by injection Hr as <-|].
    apply Forall_cons_1 in HF as [Hl HF]. destruct (srun_cons s l ls s' Hr) as (s1 & E & Hr1).
    destruct (IH s1 HF Hr1) as (-> & -> & -> & ->).
    destruct l; cbn in Hl; try done; cbn [sstep_run] in E; repeat (case_match; try done); by simplify_eq.
  Qed.

  (* ---- the input of the pipeline is the accepted lines of the bytes read ---- *)
  Definition dgram_metrics (x : str * str * Z) : list datapoint :=
    omap (line_metric pf sc x.1.1 x.2) (Datagram.lines x.1.2).
  Definition dgram_rejected (x : str * str * Z) : list str :=
    List.filter (line_rejected pf sc) (Datagram.lines x.1.2).

  Lemma batch_spec ds r :
    parse_batch pf sc (Some <$> ds) = Some r →
    Datagram.dg_metrics r = concat (dgram_metrics <$> (Receiver.seen <$> ds))
    ∧ Datagram.dg_bad r = N.of_nat (length (concat (dgram_rejected <$> (Receiver.seen <$> ds)))).
  Proof.
    unfold parse_batch. change (Some <$> ds) with (map Some ds). rewrite Receiver.deref_some.
    destruct (Datagram.parse_all pf (sy_dcfg sc) (to_dg <$> ds)) as [r'| |] eqn:E; try done. intros [= <-].
    destruct (SystemGlue.parse_all_spec pf (sy_dcfg sc) _ r' E) as [Hm Hb]. rewrite Hm, Hb. clear.
    split; [f_equal|do 2 f_equal]; induction ds as [|d ds IH]; cbn; try done; f_equal; try done.
    apply omap_list_omap.
  Qed.

  Lemma all_batches_spec (dss : list (list Receiver.datagram)) rs :
    Forall2 (λ bt r, parse_batch pf sc bt = Some r) ((λ ds : list Receiver.datagram, Some <$> ds) <$> dss) rs →
    concat (Datagram.dg_metrics <$> rs)
    = concat (dgram_metrics <$> concat ((λ ds : list Receiver.datagram, Receiver.seen <$> ds) <$> dss))
    ∧ foldr (λ r acc, (Datagram.dg_bad r + acc)%N) 0%N rs
      = N.of_nat (length (concat (dgram_rejected <$> concat ((λ ds : list Receiver.datagram, Receiver.seen <$> ds) <$> dss)))).
  Proof.
    revert rs. induction dss as [|ds dss IH]; intros rs H; cbn in H.
    - apply Forall2_nil_inv_l in H as ->. done.
    - apply Forall2_cons_inv_l in H as (r & rs' & Hr & Hrs & ->). destruct (IH rs' Hrs) as [IHm IHb].
      destruct (batch_spec ds r Hr) as [Hm Hb]. cbn [fmap list_fmap concat foldr].
      rewrite !fmap_app, !concat_app, app_length, IHm, IHb, Hm, Hb. split; [done|]. lia.
  Qed.
End EndToEnd.

Lemma to_mmap_empty : to_mmap agg_empty = empty_map.
Proof. unfold to_mmap, agg_empty, empty_map. cbn. by rewrite !fmap_empty. Qed.

Lemma sproj_init sc : sproj (sinit sc) = binit (sy_bc sc).
Proof. unfold sproj, sinit, binit. cbn. by rewrite fmap_replicate, to_mmap_empty. Qed.

Lemma flush_lab l bl : is_sflush_label l → lab_rel l bl → is_bflush_label bl.
Proof. destruct l, bl; cbn; tauto. Qed.
Lemma shard_lab l bl : is_sshard_label l → lab_rel l bl → is_bshard_label bl.
Proof. destruct l, bl; cbn; tauto. Qed.

Theorem system_end_to_end pf hpf rank sc bound ls s ls' s' f :
  sy_shards sc ≠ 0 →
  (∀ p n, (-100 ≤ p ≤ 100)%Z → (0 ≤ n < bound)%Z → (0 ≤ rank p n ≤ n)%Z) →
  (Forall (λ p, (-100 ≤ p ≤ 100)%Z) (ak_pcts (sy_acfg sc)) ∧ (0 ≤ ak_limit (sy_acfg sc))%Z) →
  Forall (Receiver.wf_label (sy_batch sc)) (recv_labels ls) →
  run (sstep pf hpf rank sc) (SRun (sinit sc)) ls = Some (SRun s) →
  squiescent s →
  run (sstep pf hpf rank sc) (SRun s) ls' = Some (SRun s') →
  (∃ pre post, ls' = pre ++ STick f :: post ∧ Forall is_sflush_label pre ∧ Forall is_sshard_label post) →
  sflush_complete sc f s' →
  histories_within bound s' →
  let accepted := accepted_lines pf sc ls in
  let flushed := (λ x, to_mmap (fl_agg x)) <$> ss_out s' in
  (∀ k : skey,
     zsum ((λ m, counter_at m k) <$> flushed) = zsum (counter_increment <$> samples_of Counter k accepted)
     ∧ msum ((λ m, timer_values_at m k) <$> flushed) = list_to_set_disj (dp_value <$> samples_of Timer k accepted)
     ∧ qsum ((λ m, sampled_at m k) <$> flushed) = qsum (sample_weight <$> samples_of Timer k accepted)
     ∧ ⋃ ((λ m, members_at m k) <$> flushed) = list_to_set (dp_strval <$> samples_of MSet k accepted))
  ∧ (∀ x k t', x ∈ ss_out s' → a_timers (fl_agg x) !! k = Some t' →
       let got := received_since_reset (fl_ops x) k in
       let spec := timer_spec rank hpf (stats_config (sy_acfg sc) (fl_dt x)) got.1 got.2 (Stats.t_tags (at_t t')) HNil in
       with_pcts (at_t t') [] = with_pcts spec [] ∧ t_pcts (at_t t') = t_pcts spec)
  ∧ (∀ x ty k, x ∈ ss_out s' → holds (to_mmap (fl_agg x)) ty k →
       ∃ d, d ∈ accepted ∧ dp_type d = ty ∧ dp_key d = k)
  ∧ ss_bad s' = rejected_lines pf sc ls.
Proof.
  intros Hn Hrank Hcfg Hwf Hr (Hq0 & Hq1 & Hq2) Hr' (pre & post & -> & Hpre & Hpost) (nx & Hfl & Hnx & Hbusy) Hhist
         accepted flushed.
  (* first part of the run *)
  destruct (srun_sim pf hpf rank sc (λ _, True) (λ _, True) (λ _ _ _ _, I) ls (sinit sc) s
              (Forall_true _ _ (λ _, I)) (sinv_init pf hpf rank sc) Hr) as (Hi & bls & Hb & _).
  rewrite sproj_init in Hb.
  (* the flush *)
  assert (Hall : Forall is_sflush_label (pre ++ STick f :: post)).
  { apply Forall_app. split; [done|]. constructor; [done|]. apply list.Forall_forall. intros l Hl. rewrite list.Forall_forall in Hpost. specialize (Hpost l Hl). by destruct l. }
  destruct (sflush_frame pf hpf rank sc _ s s' Hall Hr') as (Hrecv' & Htk' & Hin' & Hbad').
  rewrite run_app in Hr'.
  destruct (run (sstep pf hpf rank sc) (SRun s) pre) as [[s1|]|] eqn:E1; [| |done].
  2:{ by rewrite srun_crash in Hr'. }
  destruct (srun_cons pf hpf rank sc s1 (STick f) post s' Hr') as (s2 & E2 & E3).
  destruct (srun_sim pf hpf rank sc _ _ flush_lab pre s s1 Hpre Hi E1) as (Hi1 & bpre & Hb1 & HP1).
  destruct (sstep_sim pf hpf rank sc s1 (STick f) s2 Hi1 E2) as [Hi2 (bl & Hrel & Hb2)].
  destruct bl; cbn in Hrel; try done. subst f0.
  destruct (srun_sim pf hpf rank sc _ _ shard_lab post s2 s' Hpost Hi2 E3) as (Hi' & bpost & Hb3 & HP3).
  assert (Hbrun' : run (bstep (sy_bc sc)) (sproj s) (bpre ++ BTick f :: bpost) = Some (sproj s')).
  { rewrite run_app, Hb1.
    change (run (bstep (sy_bc sc)) (sproj s1) (BTick f :: bpost))
      with (match bstep (sy_bc sc) (sproj s1) (BTick f) with Some b => run (bstep (sy_bc sc)) b bpost | None => None end).
    by rewrite Hb2. }
  (* the input of the pipeline = the accepted lines of the bytes read *)
  assert (Hacc : ss_input s = accepted ∧ ss_bad s = rejected_lines pf sc ls).
  { destruct Hi as [_ _ _ _ (rs & Htr & Hinp & Hbd)]. unfold taken_results in Htr.
    rewrite Hq0, firstn_all in Htr.
    pose proof (srun_recv pf hpf rank sc ls (sinit sc) s Hr) as Hrr.
    destruct (Receiver.receiver_safe_and_conserving (sy_unix sc) (sy_batch sc) (recv_labels ls) _ Hwf Hrr)
      as (s0 & dss & [= <-] & Hh & He).
    rewrite Hh in Htr.
    destruct (all_batches_spec pf sc dss rs Htr) as [Hm Hbb].
    unfold accepted, accepted_lines, rejected_lines, datagrams_read. unfold sy_rcfg.
    rewrite <- He. rewrite Hinp, Hbd, Hm, Hbb. split.
    - f_equal. apply list_fmap_ext. intros i [[ip msg] ts] _. reflexivity.
    - do 3 f_equal. apply list_fmap_ext. intros i [[ip msg] ts] _. reflexivity. }
  destruct Hacc as [Hacc Hrej].
  (* exactness of the bounded pipeline *)
  assert (Hbq : bquiescent (sy_bc sc) (sproj s)) by (by split).
  assert (Hbc : bflush_complete (sy_bc sc) f (sproj s')) by (exists nx; by repeat split).
  pose proof (bounded_exact_at_quiescence (sy_bc sc) bls (sproj s) _ (sproj s') f Hn Hb Hbq Hbrun'
                (ex_intro _ bpre (ex_intro _ bpost (conj eq_refl (conj HP1 HP3)))) Hbc) as Hex.
  assert (Hfl' : (λ x : nat * nat * mmap, x.2) <$> bs_out (sproj s') = flushed).
  { unfold sproj, flushed. cbn [bs_out]. rewrite <- list_fmap_compose. reflexivity. }
  split; [|split; [|split]].
  - intros k. specialize (Hex k). cbn [sproj bs_input] in Hex. rewrite Hfl', Hacc in Hex.
    by apply explicit_of_content.
  - intros x k t' Hx Ht' got spec.
    destruct (si_out _ _ _ _ _ Hi' x Hx) as (a & Ha & Hfa & Hfs).
    destruct (Hhist x Hx) as [Hbv Hsane].
    destruct (full_flush_spec hpf rank (sy_acfg sc) bound (fl_ops x) (fl_dt x) Hrank Hcfg Hbv Hsane)
      as (a0 & a0' & Ha0 & Hf0 & Hspec).
    rewrite Ha0 in Ha. injection Ha as ->. rewrite Hfa in Hf0. injection Hf0 as <-.
    destruct (Hspec k t' Ht') as (Hw & earlier & Hp & He). rewrite (He Hfs) in Hp. done.
  - intros x ty k Hx Hh.
    assert (Hfull : run (bstep (sy_bc sc)) (binit (sy_bc sc)) (bls ++ bpre ++ BTick f :: bpost) = Some (sproj s'))
      by (by rewrite run_app, Hb).
    destruct (bounded_reach (sy_bc sc) _ _ Hfull) as (uls & su & Hru & (Ri & _ & _ & _ & _ & _ & Ro) & _).
    assert (Hin : (fl_id x, fl_worker x, to_mmap (fl_agg x)) ∈ st_out su).
    { rewrite Ro. unfold sproj; cbn [bs_out]. apply elem_of_list_fmap. eauto. }
    destruct (no_phantom _ uls su _ _ _ ty k Hru Hin Hh) as (d & Hd & Hty & Hk).
    exists d. split; [|done]. rewrite Ri in Hd. unfold sproj in Hd; cbn [bs_input] in Hd. by rewrite Hin', Hacc in Hd.
  - by rewrite Hbad'.
Qed.

Theorem system_refines_components pf hpf rank sc ls s :
  run (sstep pf hpf rank sc) (SRun (sinit sc)) ls = Some (SRun s) →
  (∃ bls, run (bstep (sy_bc sc)) (binit (sy_bc sc)) bls = Some (sproj s))
  ∧ Receiver.receive (sy_rcfg sc) (sy_batch sc) (recv_labels ls) = Some (Receiver.Running (ss_recv s))
  ∧ (∀ i h a, ss_hist s !! i = Some h → ss_aggr s !! i = Some a → arun hpf rank (sy_acfg sc) h = GoPartial.Ok a).
Proof.
  intros Hr.
  destruct (srun_sim pf hpf rank sc (λ _, True) (λ _, True) (λ _ _ _ _, I) ls (sinit sc) s
              (Forall_true _ _ (λ _, I)) (sinv_init pf hpf rank sc) Hr) as (Hi & bls & Hb & _).
  rewrite sproj_init in Hb. split; [by exists bls|]. split.
  - exact (srun_recv pf hpf rank sc ls (sinit sc) s Hr).
  - intros i h a Hh Ha. by destruct (si_hist _ _ _ _ _ Hi i h a Hh Ha).
Qed.
