(* C20 - proofs about Model/Lambda.v, part 2: the history invariant and the property theorems. *)
From Coq Require Import List NArith Bool Arith Lia.
Import ListNotations.
From GS Require Import Base.LTS Model.Lambda Proofs.Lambda.

(* d is in maps that are blocked on the sink or were handed to the forwarder *)
Definition covered (d : dp) (ls : list label) (s : state) : Prop :=
  (exists o data, offered s = Some (o, data) /\ In d data) \/ drained d ls.

(* d was accepted by ingestion before the function of invocation n returned *)
Definition accepted_before_done (n : nat) (d : dp) (ls : list label) : Prop :=
  exists l1 l2, ls = l1 ++ R_Done n :: l2 /\ In (R_Data d) l1.

Lemma ff_mono o ls l : flush_finished o ls -> flush_finished o (ls ++ [l]).
Proof.
  intros (j & d & H1 & H2). exists j, d. split; [apply in_snoc; auto|].
  destruct H2 as [H2|(out & H2)]; [auto|right; exists out; apply in_snoc; auto].
Qed.
Lemma drained_mono d ls l : drained d ls -> drained d (ls ++ [l]).
Proof. intros (j & o & data & H1 & H2). exists j, o, data. split; [apply in_snoc; auto|auto]. Qed.

Lemma abd_mono n d ls l : accepted_before_done n d ls -> accepted_before_done n d (ls ++ [l]).
Proof. intros (l1 & l2 & -> & H). exists l1, (l2 ++ [l]). split; [rewrite <- app_assoc; reflexivity|auto]. Qed.
Lemma abd_snoc n d ls l :
  accepted_before_done n d (ls ++ [l]) ->
  accepted_before_done n d ls \/ (l = R_Done n /\ In (R_Data d) ls).
Proof.
  intros (l1 & l2 & E & H).
  destruct l2 as [|p l2'] using rev_ind.
  - right. apply app_inj_tail in E as [-> ->]. auto.
  - left. clear IHl2'. rewrite app_comm_cons, app_assoc in E.
    apply app_inj_tail in E as [-> ->]. exists l1, l2'; auto.
Qed.

Record Hist (ls : list label) (s : state) : Prop := {
  h_tok : tok s = true -> flush_finished (cur s) ls;
  h_ready : hb s = HReady -> flush_finished (cur s) ls;
  h_jobs : forall x, In x (jobs s) -> is_nop x = false ->
           In (F_Take (j_id x) (j_origin x) (j_data x)) ls /\
           (j_phase x = JDone -> j_data x = [] \/ exists out, In (F_PostEnd (j_id x) out) ls);
  h_init : hb s = HReady \/ 1 <= nexts s -> flush_finished OInit ls;
  h_takes : forall j o d, In (F_Take j o d) ls ->
            d = [] \/ (exists out, In (F_PostEnd j out) ls) \/
            (exists x, In x (jobs s) /\ j_id x = j /\ j_origin x = o /\ j_data x = d /\ is_nop x = false);
  h_reg : forall d, In (R_Data d) ls -> registered s = true;
  h_data : forall d, In (R_Data d) ls -> In d (pending s) \/ covered d ls s;
  h_tflush : forall n, In (T_Flush n) ls -> n <= invs s /\ (n = invs s -> rt s = RIdle);
  h_cov : forall n d, In (T_Flush n) ls -> accepted_before_done n d ls -> covered d ls s;
  h_offer : forall n d, offered s = Some (OInv n, d) -> In (T_Flush n) ls;
  h_taken : forall j n d, In (F_Take j (OInv n) d) ls -> In (T_Flush n) ls
}.

Lemma covered_step ls s l s' d : step s l = Some s' -> covered d ls s -> covered d (ls ++ [l]) s'.
Proof.
  intros HS [(o & data & Ho & Hd)|Hd]; [|right; apply drained_mono; exact Hd].
  destruct s as [mg se rg hb0 nx dl rt0 iv ob td infl pd ofr jb nid tk]. cbn in Ho; subst ofr.
  destruct l; step_inv HS; cbn.
  all: try solve [left; exists o, data; auto].
  all: right; eexists _, _, _; split; [apply in_snoc; right; reflexivity|]; inj; first [assumption|destruct Hd].
Qed.


Ltac hpre s l HS1 HH HS :=
  destruct HS1 as [C CN EA DL RT TE OF O0 JB];
  destruct HH as [HT HR HJ HI HK HG HD HF HC HO HN];
  destruct s as [mg se rg hb0 nx dl rt0 iv ob td infl pd ofr jb nid tk];
  destruct l; step_inv HS; unfold credit, hb_credit, cur in *; cbn in *.

Lemma P_tok ls s l s' :
  S1 s -> Hist ls s -> step s l = Some s' -> tok s' = true -> flush_finished (cur s') (ls ++ [l]).
Proof.
  intros HS1 HH HS Ht. hpre s l HS1 HH HS.
  all: try discriminate Ht.
  all: try solve [apply ff_mono; apply HT; assumption].
  - (* F_Notify *)
    match goal with H : find_job _ _ = Some ?x |- _ => destruct (find_job_in _ _ _ H) as [Hin Hid] end.
    destruct (JB _ Hin) as [JB1 JB2].
    assert (Hnn : is_nop j0 = false) by (destruct (is_nop j0); [exfalso; apply JB2; auto|reflexivity]).
    destruct (HJ _ Hin Hnn) as [HJ1 HJ2]. rewrite (JB1 Hnn) in HJ1.
    apply ff_mono. exists (j_id j0), (j_data j0). split; [exact HJ1|apply HJ2; assumption].
  - (* R_Invoke: the credit is with the heartbeat, the channel is empty *)
    subst tk. cbn in C. lia.
Qed.


Lemma P_ready ls s l s' :
  S1 s -> Hist ls s -> step s l = Some s' -> hb s' = HReady -> flush_finished (cur s') (ls ++ [l]).
Proof.
  intros HS1 HH HS Ht. hpre s l HS1 HH HS.
  all: try discriminate Ht.
  all: try solve [apply ff_mono; apply HR; assumption].
  all: try solve [apply ff_mono; apply HT; reflexivity].
Qed.

Lemma P_init ls s l s' :
  S1 s -> Hist ls s -> step s l = Some s' -> hb s' = HReady \/ 1 <= nexts s' -> flush_finished OInit (ls ++ [l]).
Proof.
  intros HS1 HH HS Ht. hpre s l HS1 HH HS.
  all: try solve [apply ff_mono; apply HI; destruct Ht as [Ht|Ht]; [try discriminate Ht; auto|auto]].
  apply ff_mono. destruct iv; [apply HT; reflexivity|].
  apply HI; right. assert (Hc : HWait <> HDone) by discriminate. specialize (CN Hc). lia.
Qed.

Lemma P_reg ls s l s' :
  S1 s -> Hist ls s -> step s l = Some s' -> forall d, In (R_Data d) (ls ++ [l]) -> registered s' = true.
Proof.
  intros HS1 HH HS d Hin. apply in_snoc in Hin. hpre s l HS1 HH HS.
  all: try solve [destruct Hin as [Hin|Hin]; [eapply HG; eauto|discriminate Hin]].
  all: try reflexivity.
Qed.

Lemma P_tflush ls s l s' :
  S1 s -> Hist ls s -> step s l = Some s' ->
  forall n, In (T_Flush n) (ls ++ [l]) -> n <= invs s' /\ (n = invs s' -> rt s' = RIdle).
Proof.
  intros HS1 HH HS n0 Hin. apply in_snoc in Hin. hpre s l HS1 HH HS.
  all: try solve [destruct Hin as [Hin|Hin]; [eapply HF; eauto|discriminate Hin]].
  - destruct Hin as [Hin|Hin]; [eapply HF; eauto|]. injection Hin as ->.
    destruct (TE n (in_or_app _ _ _ (or_intror i))) as [-> Hge].
    split; [lia|intros _]. destruct td; [destruct i|]. destruct rt0; [reflexivity|cbn in C; lia].
  - destruct Hin as [Hin|Hin]; [eapply HF; eauto|]. injection Hin as ->.
    destruct (TE n (in_or_app _ _ _ (or_intror i))) as [-> Hge].
    split; [lia|intros _]. destruct td; [destruct i|]. destruct rt0; [reflexivity|cbn in C; lia].
  - destruct Hin as [Hin|Hin]; [|discriminate Hin]. destruct (HF _ Hin). split; [lia|intros; lia].
  - destruct Hin as [Hin|Hin]; [|discriminate Hin]. destruct (HF _ Hin). split; [lia|reflexivity].
Qed.

Lemma P_offer ls s l s' :
  S1 s -> Hist ls s -> step s l = Some s' ->
  forall n d, offered s' = Some (OInv n, d) -> In (T_Flush n) (ls ++ [l]).
Proof.
  intros HS1 HH HS n0 d0 Ho. apply in_snoc. hpre s l HS1 HH HS.
  all: try discriminate Ho.
  all: try solve [left; eapply HO; eauto].
  all: inj; right; reflexivity.
Qed.

Lemma P_taken ls s l s' :
  S1 s -> Hist ls s -> step s l = Some s' ->
  forall j n d, In (F_Take j (OInv n) d) (ls ++ [l]) -> In (T_Flush n) (ls ++ [l]).
Proof.
  intros HS1 HH HS j0 n0 d0 Hin. apply in_snoc in Hin. apply in_snoc. hpre s l HS1 HH HS.
  all: try solve [destruct Hin as [Hin|Hin]; [left; eapply HN; eauto|discriminate Hin]].
  all: destruct Hin as [Hin|Hin]; [left; eapply HN; eauto|]; injection Hin; intros; subst;
       left; eapply HO; eauto.
Qed.


Definition job_hist (ls : list label) (x : job) : Prop :=
  In (F_Take (j_id x) (j_origin x) (j_data x)) ls /\
  (j_phase x = JDone -> j_data x = [] \/ exists out, In (F_PostEnd (j_id x) out) ls).

Lemma job_hist_mono ls l x : job_hist ls x -> job_hist (ls ++ [l]) x.
Proof.
  intros [H1 H2]. split; [apply in_snoc; auto|]. intros Hp. destruct (H2 Hp) as [|(out & Ho)]; auto.
  right; exists out; apply in_snoc; auto.
Qed.

Lemma P_jobs ls s l s' :
  S1 s -> Hist ls s -> step s l = Some s' ->
  forall x, In x (jobs s') -> is_nop x = false -> job_hist (ls ++ [l]) x.
Proof.
  intros HS1 HH HS x Hx Hn.
  assert (HJ' : forall y, In y (jobs s) -> is_nop y = false -> job_hist ls y) by (intros y Hy Hyn; apply (h_jobs _ _ HH); auto).
  hpre s l HS1 HH HS.
  all: try solve [apply job_hist_mono; apply HJ'; assumption].
  (* S_Start *)
  1-3: destruct Hx as [<-|Hx]; [discriminate Hn|apply job_hist_mono; apply HJ'; assumption].
  (* F_Take *)
  1-4: apply in_snoc in Hx as [Hx| ->]; [apply job_hist_mono; apply HJ'; assumption|];
       split; cbn; [apply in_snoc; right; reflexivity|intros Hp; first [discriminate Hp|left; reflexivity]].
  (* the remaining labels change a phase or delete a job *)
  all: try (apply in_del_job in Hx; apply job_hist_mono; apply HJ'; assumption).
  all: apply in_set_phase in Hx as [Hx|(y & Hf & ->)]; [apply job_hist_mono; apply HJ'; assumption|];
       destruct (find_job_in _ _ _ Hf) as [Hy Hid];
       assert (Hyn : is_nop y = false) by (unfold is_nop in *; cbn in Hn; exact Hn);
       destruct (HJ' _ Hy Hyn) as [Hy1 Hy2];
       split; cbn; [apply in_snoc; left; exact Hy1|intros Hp; try discriminate Hp].
  all: right; eexists; apply in_snoc; right; rewrite Hid; reflexivity.
Qed.


Definition take_ok (ls : list label) (jbs : list job) (j : nat) (o : origin) (d : list dp) : Prop :=
  d = [] \/ (exists out, In (F_PostEnd j out) ls) \/
  (exists x, In x jbs /\ j_id x = j /\ j_origin x = o /\ j_data x = d /\ is_nop x = false).

Lemma take_ok_mono ls l jbs jbs' j o d :
  (forall x, In x jbs -> is_nop x = false ->
     exists x', In x' jbs' /\ j_id x' = j_id x /\ j_origin x' = j_origin x /\ j_data x' = j_data x) ->
  take_ok ls jbs j o d -> take_ok (ls ++ [l]) jbs' j o d.
Proof.
  intros Hk [H|[(out & H)|(x & Hx & H1 & H2 & H3 & H4)]]; [left; auto|right; left; exists out; apply in_snoc; auto|].
  destruct (Hk x Hx H4) as (x' & Hx' & E1 & E2 & E3).
  right; right; exists x'. repeat split; try congruence. unfold is_nop in *. rewrite E2. exact H4.
Qed.

Lemma P_takes ls s l s' :
  S1 s -> Hist ls s -> step s l = Some s' ->
  forall j o d, In (F_Take j o d) (ls ++ [l]) -> take_ok (ls ++ [l]) (jobs s') j o d.
Proof.
  intros HS1 HH HS j1 o1 d1 Hin. apply in_snoc in Hin.
  assert (HK' : forall j o d, In (F_Take j o d) ls -> take_ok ls (jobs s) j o d) by (intros; apply (h_takes _ _ HH); auto).
  assert (HJ' : forall y, In y (jobs s) -> is_nop y = false -> job_hist ls y) by (intros y Hy Hyn; apply (h_jobs _ _ HH); auto).
  hpre s l HS1 HH HS.
  all: try solve [destruct Hin as [Hin|Hin]; [|discriminate Hin];
                  eapply take_ok_mono; [|apply HK'; exact Hin]; intros x Hx _; exists x; auto].
  (* S_Start *)
  1-3: destruct Hin as [Hin|Hin]; [|discriminate Hin];
       (eapply take_ok_mono; [|apply HK'; exact Hin]); intros x Hx _; exists x; cbn; auto.
  (* F_Take *)
  1-4: destruct Hin as [Hin|Hin];
       [eapply take_ok_mono; [|apply HK'; exact Hin]; intros x Hx _; exists x; split; [apply in_snoc; auto|auto]|];
       injection Hin; intros; subst;
       first [left; reflexivity
             |right; right; eexists; split; [apply in_snoc; right; reflexivity|];
              cbn; repeat split; unfold is_nop; cbn;
              match goal with OF : forall o d, Some (?oo, _) = Some (o, d) -> _ |- _ =>
                destruct (OF _ _ eq_refl) as [OF1 _]; try rewrite OF1; destruct iv; reflexivity end].
  (* phase changes *)
  all: destruct Hin as [Hin|Hin]; [|discriminate Hin].
  all: try (eapply take_ok_mono; [|apply HK'; exact Hin]; intros x Hx _; apply set_phase_keeps; exact Hx).
  (* the start-up POST ends: the deleted job is a nop, witnesses are not *)
  all: try (match goal with Hf : find_job _ _ = Some ?y, Hy : is_nop ?y = true |- _ =>
         eapply take_ok_mono; [|apply HK'; exact Hin]; intros x Hx Hxn;
         destruct (del_job_keeps _ _ _ _ Hf Hx) as [->|Hx']; [congruence|exists x; auto] end).
  (* F_Notify: the deleted job is finished *)
  match goal with Hf : find_job _ _ = Some ?y |- _ =>
    destruct (find_job_in _ _ _ Hf) as [Hy Hid];
    destruct (HK' _ _ _ Hin) as [Hk|[(out & Hk)|(x & Hx & X1 & X2 & X3 & X4)]];
    [left; exact Hk|right; left; exists out; apply in_snoc; auto|];
    destruct (del_job_keeps _ _ _ _ Hf Hx) as [->|Hx'] end.
  - destruct (HJ' _ Hy X4) as [_ Hfin].
    destruct (Hfin ltac:(assumption)) as [Hfin'|(out & Hfin')];
      [left; congruence|right; left; exists out; apply in_snoc; left; rewrite <- X1; exact Hfin'].
  - right; right; exists x; auto.
Qed.


Lemma P_data ls s l s' :
  S1 s -> Hist ls s -> step s l = Some s' ->
  forall d, In (R_Data d) (ls ++ [l]) -> In d (pending s') \/ covered d (ls ++ [l]) s'.
Proof.
  intros HS1 HH HS d Hin. apply in_snoc in Hin.
  assert (CS : forall d, covered d ls s -> covered d (ls ++ [l]) s') by (intros; eapply covered_step; eauto).
  assert (HD' : forall d, In (R_Data d) ls -> In d (pending s) \/ covered d ls s) by (intros; apply (h_data _ _ HH); auto).
  hpre s l HS1 HH HS.
  all: try solve [destruct Hin as [Hin|Hin]; [|discriminate Hin];
                  destruct (HD' _ Hin) as [Hp|Hc]; [left; exact Hp|right; apply CS; exact Hc]].
  1-2: destruct Hin as [Hin|Hin]; [|discriminate Hin];
       destruct (HD' _ Hin) as [Hp|Hc]; [|right; apply CS; exact Hc];
       right; left; eexists _, _; split; [reflexivity|exact Hp].
  destruct Hin as [Hin|Hin].
  - destruct (HD' _ Hin) as [Hp|Hc]; [left; apply in_snoc; auto|right; apply CS; exact Hc].
  - injection Hin as ->. left; apply in_snoc; auto.
Qed.

Lemma P_cov ls s l s' :
  S1 s -> Hist ls s -> step s l = Some s' ->
  forall n d, In (T_Flush n) (ls ++ [l]) -> accepted_before_done n d (ls ++ [l]) -> covered d (ls ++ [l]) s'.
Proof.
  intros HS1 HH HS n0 d Hin Habd. apply in_snoc in Hin.
  assert (CS : forall d, covered d ls s -> covered d (ls ++ [l]) s') by (intros; eapply covered_step; eauto).
  pose proof (P_data _ _ _ _ HS1 HH HS) as PD.
  apply abd_snoc in Habd as [Habd|[-> Hd]].
  - destruct Hin as [Hin| <-].
    + apply CS. apply (h_cov _ _ HH n0 d Hin Habd).
    + (* this T_Flush drains everything accepted so far *)
      assert (Hdata : In (R_Data d) ls) by (destruct Habd as (l1 & l2 & -> & H); apply in_or_app; auto).
      destruct (PD d (proj2 (in_snoc _ _ _) (or_introl Hdata))) as [Hp|Hc]; [|exact Hc].
      pose proof (h_reg _ _ HH _ Hdata) as Hreg.
      destruct s as [mg se rg hb0 nx dl rt0 iv ob td infl pd ofr jb nid tk]. cbn in Hreg; subst rg.
      step_inv HS; cbn in *. destruct Hp.
  - (* R_Done n0 after T_Flush n0: impossible *)
    destruct Hin as [Hin|Hin]; [|discriminate Hin].
    destruct (h_tflush _ _ HH _ Hin) as [Hle Hidle].
    destruct HS1 as [_ _ _ _ RT _ _ _ _].
    destruct s as [mg se rg hb0 nx dl rt0 iv ob td infl pd ofr jb nid tk].
    step_inv HS; cbn in *. destruct (RT _ eq_refl) as [-> _]. specialize (Hidle eq_refl). discriminate.
Qed.


Lemma Hist_init : Hist [] init.
Proof.
  split; cbn; try discriminate; try tauto; try (intros; exfalso; lia).
  all: intros; try tauto; try discriminate.
  match goal with H : _ \/ _ |- _ => destruct H as [H|H]; [discriminate H|lia] end.
Qed.

Theorem Hist_reachable ls s : run step init ls = Some s -> Hist ls s.
Proof.
  apply (trace_invariant Hist); [exact Hist_init|].
  clear ls s. intros ls s l s' Hr HH HS. pose proof (S1_reachable _ _ Hr) as HS1.
  split.
  - eapply P_tok; eauto.
  - eapply P_ready; eauto.
  - eapply P_jobs; eauto.
  - eapply P_init; eauto.
  - eapply P_takes; eauto.
  - eapply P_reg; eauto.
  - eapply P_data; eauto.
  - eapply P_tflush; eauto.
  - eapply P_cov; eauto.
  - eapply P_offer; eauto.
  - eapply P_taken; eauto.
Qed.

(* the state in which a label of an execution fires *)
Lemma run_split pre l post s :
  run step init (pre ++ l :: post) = Some s ->
  exists s0 s1, run step init pre = Some s0 /\ step s0 l = Some s1.
Proof.
  intros H. apply run_prefix in H as (s0 & H0 & H1). cbn in H1.
  destruct (step s0 l) as [s1|] eqn:E; [|discriminate]. eauto.
Qed.

Lemma next_fires_ready s k s' : step s (H_Next k) = Some s' -> hb s = HReady /\ k = S (nexts s).
Proof. intros HS. destruct s; step_inv HS; cbn; auto. Qed.

Lemma ready_quiescent s : S1 s -> hb s = HReady -> offered s = None /\ nonnop (jobs s) = 0 /\ nexts s = invs s.
Proof.
  intros [C CN _ _ _ _ _ _ _] Hh. unfold credit, hb_credit in C. rewrite Hh in *.
  assert (Hc : HReady <> HDone) by discriminate. specialize (CN Hc).
  split; [destruct (offered s); [lia|reflexivity]|split; lia].
Qed.

(* C20_next_after_delivery *)
Lemma next_after_delivery_thm :
  forall ls s pre post n,
    run step init ls = Some s ->
    ls = pre ++ H_Next (S (S n)) :: post ->
    flush_finished (OInv (S n)) pre.
Proof.
  intros ls s pre post n Hr ->. apply run_split in Hr as (s0 & s1 & Hr0 & HS).
  destruct (next_fires_ready _ _ _ HS) as [Hh Hk].
  pose proof (S1_reachable _ _ Hr0) as HS1. destruct (ready_quiescent _ HS1 Hh) as (_ & _ & Hni).
  pose proof (h_ready _ _ (Hist_reachable _ _ Hr0) Hh) as Hf.
  unfold cur in Hf. injection Hk as Hk. rewrite <- Hni, <- Hk in Hf. exact Hf.
Qed.

(* C20_initial_flush *)
Lemma initial_flush_thm :
  forall ls s pre post k,
    run step init ls = Some s ->
    ls = pre ++ H_Next k :: post ->
    flush_finished OInit pre.
Proof.
  intros ls s pre post k Hr ->. apply run_split in Hr as (s0 & s1 & Hr0 & HS).
  destruct (next_fires_ready _ _ _ HS) as [Hh _].
  apply (h_init _ _ (Hist_reachable _ _ Hr0)). left; exact Hh.
Qed.

Lemma take_fires_offered s j o d s' : step s (F_Take j o d) = Some s' -> offered s = Some (o, d).
Proof. intros HS. destruct s; step_inv HS; cbn; auto. Qed.

(* C20_data_covered *)
Lemma data_covered_thm :
  forall ls s l1 l2 l3 n d j data,
    run step init ls = Some s ->
    ls = l1 ++ R_Done n :: l2 ++ F_Take j (OInv n) data :: l3 ->
    In (R_Data d) l1 ->
    In d data \/ drained d (l1 ++ R_Done n :: l2).
Proof.
  intros ls s l1 l2 l3 n d j data Hr -> Hd.
  replace (l1 ++ R_Done n :: l2 ++ F_Take j (OInv n) data :: l3)
    with ((l1 ++ R_Done n :: l2) ++ F_Take j (OInv n) data :: l3) in Hr by (rewrite <- app_assoc; reflexivity).
  apply run_split in Hr as (s0 & s1 & Hr0 & HS).
  pose proof (take_fires_offered _ _ _ _ _ HS) as Ho.
  pose proof (Hist_reachable _ _ Hr0) as HH.
  pose proof (h_offer _ _ HH _ _ Ho) as Htf.
  assert (Habd : accepted_before_done n d (l1 ++ R_Done n :: l2)) by (exists l1, l2; auto).
  destruct (h_cov _ _ HH _ _ Htf Habd) as [(o' & data' & Ho' & Hin)|Hdr]; [|right; exact Hdr].
  left. rewrite Ho in Ho'. injection Ho' as <- <-. exact Hin.
Qed.

(* the property end to end: what was accepted before runtimeDone n has been delivered or refused
   when the extension asks for invocation n+1 *)
Lemma frozen_data_delivered_thm :
  forall ls s l1 l2 post n d,
    run step init ls = Some s ->
    ls = (l1 ++ R_Done (S n) :: l2) ++ H_Next (S (S n)) :: post ->
    In (R_Data d) l1 ->
    delivered_or_refused d (l1 ++ R_Done (S n) :: l2).
Proof.
  intros ls s l1 l2 post n d Hr E Hd.
  pose proof (next_after_delivery_thm _ _ _ _ _ Hr E) as (j & d0 & Htk & _).
  rewrite E in Hr. apply run_split in Hr as (s0 & s1 & Hr0 & HS).
  destruct (next_fires_ready _ _ _ HS) as [Hh _].
  pose proof (S1_reachable _ _ Hr0) as HS1. destruct (ready_quiescent _ HS1 Hh) as (Hoff & Hnn & _).
  pose proof (Hist_reachable _ _ Hr0) as HH.
  pose proof (h_taken _ _ HH _ _ _ Htk) as Htf.
  assert (Habd : accepted_before_done (S n) d (l1 ++ R_Done (S n) :: l2)) by (exists l1, l2; auto).
  destruct (h_cov _ _ HH _ _ Htf Habd) as [(o' & data' & Ho' & _)|(j' & o' & data' & Ht' & Hin)]; [congruence|].
  destruct (h_takes _ _ HH _ _ _ Ht') as [->|[(out & Hpe)|(x & Hx & _ & _ & _ & Hxn)]].
  - destruct Hin.
  - exists j', o', data', out; auto.
  - pose proof (nonnop_zero _ _ Hnn Hx). congruence.
Qed.


(* ---------------------------------------------------------------------------------------- *)
(* non-vacuity: a concrete execution with two invocations (a retried delivery, a dropped one),
   in which the hypotheses of every theorem above are met *)

Definition ex_run : list label :=
  [Register true; S_Start; Subscribe true; F_PostStart 0; H_Start; F_PostEnd 0 Sent;
   H_Flush0; F_Take 1 OInit []; F_Notify 1; H_Wait; H_Next 1;
   R_Invoke 1; H_NextReturns (EvInvoke 1); R_Send 10%N; R_Send 11%N; R_Data 10%N; R_Data 11%N; R_Done 1;
   T_Batch [TOther; TDone 1; TOther]; T_Flush 1; F_Take 2 (OInv 1) [10; 11]%N;
   F_PostStart 2; F_AttemptFail 2; F_Reattempt 2; F_PostEnd 2 Sent; F_Notify 2; H_Wait; H_Next 2;
   R_Invoke 2; R_Send 20%N; R_Data 20%N; H_NextReturns (EvInvoke 2); R_Send 21%N; R_Done 2; R_Data 21%N;
   T_Batch [TDone 2]; T_Flush 2; F_Take 3 (OInv 2) [20; 21]%N;
   F_PostStart 3; F_AttemptFail 3; F_PostEnd 3 Dropped; F_Notify 3; H_Wait; H_Next 3;
   H_NextReturns EvShutdown].

Example ex_run_is_execution :
  exists s, run step init ex_run = Some s /\ nexts s = 3 /\ hb s = HDone /\ jobs s = [].
Proof. eexists; split; [vm_compute; reflexivity|cbn; auto]. Qed.

Example ex_next_hyp : exists pre post, ex_run = pre ++ H_Next 3 :: post.
Proof. exists (firstn 43 ex_run), [H_NextReturns EvShutdown]; reflexivity. Qed.

Example ex_data_hyp :
  exists l1 l2 l3, ex_run = l1 ++ R_Done 1 :: l2 ++ F_Take 2 (OInv 1) [10; 11]%N :: l3 /\ In (R_Data 10%N) l1.
Proof.
  exists (firstn 17 ex_run), [T_Batch [TOther; TDone 1; TOther]; T_Flush 1], (skipn 21 ex_run).
  split; [reflexivity|cbn; tauto].
Qed.

Example ex_frozen_hyp :
  exists l1 l2 post, ex_run = (l1 ++ R_Done 2 :: l2) ++ H_Next 3 :: post /\ In (R_Data 20%N) l1.
Proof.
  exists (firstn 33 ex_run), (firstn 9 (skipn 34 ex_run)), [H_NextReturns EvShutdown].
  split; [reflexivity|cbn; tauto].
Qed.

(* what the theorems exclude is really excluded by the model: asking for the next event without a
   token, or while the delivery attempt is still running, is not an execution *)
Example ex_no_next_without_token :
  run step init [Register true; S_Start; Subscribe true; H_Start; F_PostStart 0; F_PostEnd 0 Sent;
                 H_Flush0; F_Take 1 OInit []; H_Wait] = None.
Proof. vm_compute; reflexivity. Qed.
Example ex_no_notify_before_post_end :
  run step init (firstn 22 ex_run ++ [F_Notify 2]) = None.
Proof. vm_compute; reflexivity. Qed.
(* a datapoint accepted after runtimeDone 2 ([R_Data 21%N] above) is drained by flush 2 only because
   the drain came later; had the drain come first it stays for the next flush *)
Example ex_late_data_next_flush :
  exists s, run step init (firstn 33 ex_run ++ [R_Done 2; T_Batch [TDone 2]; T_Flush 2; F_Take 3 (OInv 2) [20]%N; R_Data 21%N]) = Some s
            /\ pending s = [21]%N.
Proof. eexists; split; [vm_compute; reflexivity|reflexivity]. Qed.
