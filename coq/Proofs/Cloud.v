(* Proofs about the cloud-stage LTS (Model/Cloud.v), part 1: accounting of items.
   Every step moves items between "arriving", "parked" and "downstream" without creating or losing
   any: [acct st] grows by exactly [items_of l]. *)
From stdpp Require Import gmap.
From GS Require Import Base.Bytes Base.LTS Model.Series Model.MetricMap Model.Cloud.
Local Open Scope Z_scope.

(* ---- count / remove_one ---------------------------------------------------------------------- *)

Lemma count_app s l1 l2 : count s (l1 ++ l2) = (count s l1 + count s l2)%nat.
Proof. induction l1 as [|x r IH]; cbn; [done|]. rewrite IH. lia. Qed.

Lemma count_pos_elem s l : s ∈ l ↔ (0 < count s l)%nat.
Proof.
  induction l as [|x r IH]; cbn.
  - split; [intros H; inversion H|lia].
  - rewrite elem_of_cons, IH. destruct (decide (x = s)) as [->|Hn]; [split; [lia|auto]|].
    split; [intros [->|H]; [done|lia]|intros H; right; lia].
Qed.

Lemma count_remove_one_eq s l : count s (remove_one s l) = pred (count s l).
Proof.
  induction l as [|x r IH]; cbn; [done|].
  destruct (decide (x = s)) as [->|Hn]; cbn; [lia|].
  destruct (decide (x = s)); [done|]. exact IH.
Qed.

Lemma count_remove_one_ne s s' l : s' ≠ s → count s' (remove_one s l) = count s' l.
Proof.
  intros Hne. induction l as [|x r IH]; cbn; [done|].
  destruct (decide (x = s)) as [->|Hn]; cbn.
  - destruct (decide (s = s')); [congruence|lia].
  - rewrite IH. done.
Qed.

(* ---- slots ------------------------------------------------------------------------------------ *)

Section slots.
  Context {A : Type}.
  Implicit Types m : gmap source (list A).

  Lemma slots_empty : slots (∅ : gmap source (list A)) = [].
  Proof. unfold slots. by rewrite map_to_list_empty. Qed.

  Lemma slots_insert_None m s q : m !! s = None → slots (<[s:=q]> m) ≡ₚ q ++ slots m.
  Proof. intros H. unfold slots. by rewrite map_to_list_insert by done. Qed.

  (* what is parked = what is parked for s, plus the rest *)
  Lemma slots_delete m s : slots m ≡ₚ default [] (m !! s) ++ slots (delete s m).
  Proof.
    destruct (m !! s) as [q|] eqn:E; cbn.
    - unfold slots. by rewrite <- (map_to_list_delete m s q E).
    - by rewrite delete_notin.
  Qed.

  Lemma slots_insert m s q : slots (<[s:=q]> m) ≡ₚ q ++ slots (delete s m).
  Proof. rewrite <- insert_delete_insert. apply slots_insert_None, lookup_delete. Qed.

  (* appending one item to the slot of s (creating it if needed) parks exactly that item *)
  Lemma slots_add m s x : slots (<[s := default [] (m !! s) ++ [x]]> m) ≡ₚ x :: slots m.
  Proof.
    rewrite slots_insert. rewrite (slots_delete m s).
    generalize (default [] (m !! s)) (slots (delete s m)). intros d r.
    rewrite <- (assoc_L (++)); cbn. by rewrite <- Permutation_middle.
  Qed.
End slots.

(* ---- accounting ------------------------------------------------------------------------------- *)

Definition origs (st : state) : list item := d_orig <$> down st.
Definition acct (st : state) : list item := origs st ++ parked st.

(* the shape every proof below reduces to *)
Lemma acct_eq st : acct st = (d_orig <$> down st) ++ (IM <$> slots (awaitM st)) ++ (IE <$> slots (awaitE st)).
Proof. done. Qed.

Lemma park_metric_down lg st e : down (park_metric lg st e) = down st.
Proof. unfold park_metric. by destruct (awaitM st !! entry_src e). Qed.
Lemma park_metric_awaitE lg st e : awaitE (park_metric lg st e) = awaitE st.
Proof. unfold park_metric. by destruct (awaitM st !! entry_src e). Qed.
Lemma park_metric_awaitM lg st e :
  awaitM (park_metric lg st e)
  = <[entry_src e := default [] (awaitM st !! entry_src e) ++ [e]]> (awaitM st).
Proof. unfold park_metric. by destruct (awaitM st !! entry_src e). Qed.

Lemma park_metric_acct lg st e : acct (park_metric lg st e) ≡ₚ acct st ++ [IM e].
Proof.
  rewrite !acct_eq, park_metric_down, park_metric_awaitE, park_metric_awaitM, slots_add.
  cbn. rewrite <- !app_assoc, <- !Permutation_middle.
  by rewrite app_nil_r.
Qed.

Lemma fold_park_metric_acct lg es st :
  acct (fold_left (park_metric lg) es st) ≡ₚ acct st ++ (IM <$> es).
Proof.
  revert st; induction es as [|e r IH]; intros st; cbn; [by rewrite app_nil_r|].
  rewrite IH, park_metric_acct, <- app_assoc. done.
Qed.

Lemma fold_park_metric_down lg es st : down (fold_left (park_metric lg) es st) = down st.
Proof. revert st; induction es as [|e r IH]; intros st; cbn; [done|]. by rewrite IH, park_metric_down. Qed.

Lemma push_down_acct st rs : acct (push_down st rs) ≡ₚ acct st ++ (d_orig <$> rs).
Proof.
  rewrite !acct_eq. cbn. rewrite fmap_app, <- !app_assoc.
  apply Permutation_app_head. rewrite (Permutation_app_comm (d_orig <$> rs)). by rewrite <- app_assoc.
Qed.

(* DispatchMetricMap splits the batch: every series is a hit or a miss, never both *)
Lemma hits_misses_split peek es :
  (d_orig <$> metric_hits peek es) ++ (IM <$> metric_misses peek es) ≡ₚ IM <$> es.
Proof.
  unfold metric_hits, metric_misses, is_miss.
  induction es as [|e r IH]; cbn; [done|].
  destruct (resolve peek (entry_src e)) as [io|]; cbn.
  - by rewrite IH.
  - by rewrite <- Permutation_middle, IH.
Qed.

Lemma acct_with_lk st k : acct (with_lk st k) = acct st.
Proof. done. Qed.

Lemma arrive_metrics_acct lg st es peek :
  acct (arrive_metrics lg st es peek) ≡ₚ acct st ++ (IM <$> es).
Proof.
  unfold arrive_metrics, close_group, open_group.
  rewrite acct_with_lk, fold_park_metric_acct, acct_with_lk, push_down_acct, <- app_assoc.
  by rewrite hits_misses_split.
Qed.

Lemma park_event_acct lg st e : acct (park_event lg st e) ≡ₚ acct st ++ [IE e].
Proof.
  rewrite !acct_eq. unfold park_event; cbn. rewrite slots_add. cbn.
  rewrite <- !app_assoc, <- !Permutation_middle. by rewrite app_nil_r.
Qed.

Lemma arrive_event_acct lg st e peek : acct (arrive_event lg st e peek) ≡ₚ acct st ++ [IE e].
Proof.
  unfold arrive_event. destruct (resolve peek (ev_src e)); [apply push_down_acct|apply park_event_acct].
Qed.

Lemma release_metrics_acct st s io : acct (release_metrics st s io) ≡ₚ acct st.
Proof.
  unfold release_metrics. destruct (awaitM st !! s) as [q|] eqn:E; [|done].
  rewrite !acct_eq; cbn. rewrite (slots_delete (awaitM st) s), E; cbn.
  rewrite !fmap_app, <- list_fmap_compose, <- !app_assoc. cbn. unfold compose; cbn.
  done.
Qed.

Lemma release_events_acct st s io : acct (release_events st s io) ≡ₚ acct st.
Proof.
  unfold release_events. destruct (awaitE st !! s) as [[|e q]|] eqn:E; [done| |done].
  rewrite !acct_eq; cbn -[map]. rewrite (slots_delete (awaitE st) s), E; cbn -[map].
  rewrite !fmap_app, <- !app_assoc.
  apply Permutation_app_head.
  change (map (λ e0, Drec (IE e0) io) (e :: q)) with ((λ e0, Drec (IE e0) io) <$> (e :: q)).
  rewrite <- list_fmap_compose. unfold compose; cbn.
  rewrite <- Permutation_middle. apply perm_skip.
  rewrite !(assoc_L (++)). apply Permutation_app_tail, Permutation_app_comm.
Qed.

Lemma arm_acct lg st l st' : arm lg st l = Some st' → acct st' ≡ₚ acct st ++ items_of l.
Proof.
  destruct l as [es peek|e peek|s|s io|]; cbn; intros H.
  - injection H as <-. apply arrive_metrics_acct.
  - injection H as <-. apply arrive_event_acct.
  - destruct (lk_send s (lk st)); [|done]. injection H as <-. by rewrite app_nil_r.
  - injection H as <-. rewrite app_nil_r. unfold answer.
    by rewrite acct_with_lk, release_events_acct, release_metrics_acct.
  - injection H as <-. by rewrite app_nil_r.
Qed.

Lemma step_acct lg st l st' : step_gen lg st l = Some st' → acct st' ≡ₚ acct st ++ items_of l.
Proof.
  unfold step_gen. destruct (arm lg st l) as [s1|] eqn:E; [|done]. intros [= <-].
  unfold refill. rewrite acct_with_lk. by apply (arm_acct lg).
Qed.

Lemma run_acct lg ls : ∀ s0 st, run (step_gen lg) s0 ls = Some st → acct st ≡ₚ acct s0 ++ items_in ls.
Proof.
  induction ls as [|l r IH]; intros s0 st H; cbn in H.
  - injection H as <-. unfold items_in; cbn. by rewrite app_nil_r.
  - destruct (step_gen lg s0 l) as [s1|] eqn:E; [|done].
    rewrite (IH _ _ H), (step_acct _ _ _ _ E). unfold items_in; cbn. by rewrite <- app_assoc.
Qed.

(* C11_exactly_once, conservation part *)
Lemma exactly_once ls st :
  run step init ls = Some st → items_in ls ≡ₚ (d_orig <$> down st) ++ parked st.
Proof. intros H. symmetry. apply (run_acct false ls init st H). Qed.

