(* Proofs about the cloud-stage LTS (Model/Cloud.v), part 3: what one label does to the items it
   carries (dispatched at once / parked under their source), what a lookup result releases, with
   which instance every released item is updated, and the one-outstanding-lookup invariant. *)
From stdpp Require Import gmap.
From GS Require Import Base.Bytes Base.LTS Model.Series Model.MetricMap Model.Cloud
  Proofs.Cloud Proofs.CloudInv.
Local Open Scope Z_scope.

(* ---- what a label appends to the downstream log --------------------------------------------------- *)

Definition batch_of (st : state) (l : label) : list drec :=
  match l with
  | ArriveMetrics es peek => metric_hits peek es
  | ArriveEvent e peek => match resolve peek (ev_src e) with Some io => [Drec (IE e) io] | None => [] end
  | Info s io => (λ x, Drec x io) <$> parked_for st s
  | _ => []
  end.

Lemma release_metrics_down st s io :
  down (release_metrics st s io) = down st ++ ((λ e, Drec (IM e) io) <$> default [] (awaitM st !! s)).
Proof. unfold release_metrics. destruct (awaitM st !! s); cbn; by rewrite ?app_nil_r. Qed.
Lemma release_metrics_awaitE st s io : awaitE (release_metrics st s io) = awaitE st.
Proof. unfold release_metrics. by destruct (awaitM st !! s). Qed.
Lemma release_metrics_awaitM st s io : awaitM (release_metrics st s io) = delete s (awaitM st).
Proof.
  unfold release_metrics. destruct (awaitM st !! s) eqn:E; cbn; [done|]. by rewrite delete_notin.
Qed.
Lemma release_events_down st s io :
  down (release_events st s io) = down st ++ ((λ e, Drec (IE e) io) <$> default [] (awaitE st !! s)).
Proof. unfold release_events. destruct (awaitE st !! s) as [[|e q]|]; cbn; by rewrite ?app_nil_r. Qed.
Lemma release_events_awaitM st s io : awaitM (release_events st s io) = awaitM st.
Proof. unfold release_events. by destruct (awaitE st !! s) as [[|e q]|]. Qed.
(* an (unreachable) empty event slot would stay; nothing is parked in it *)
Lemma release_events_awaitE_s st s io : default [] (awaitE (release_events st s io) !! s) = [].
Proof.
  unfold release_events. destruct (awaitE st !! s) as [[|e q]|] eqn:E; cbn; rewrite ?E, ?lookup_delete; done.
Qed.
Lemma release_events_awaitE_ne st s io s' : s' ≠ s → awaitE (release_events st s io) !! s' = awaitE st !! s'.
Proof.
  intros Hne. unfold release_events.
  destruct (awaitE st !! s) as [[|e q]|]; cbn; rewrite ?lookup_delete_ne; done.
Qed.

Lemma arm_down st l st' : arm false st l = Some st' → down st' = down st ++ batch_of st l.
Proof.
  destruct l as [es peek|e peek|s|s io|]; cbn; intros H.
  - injection H as <-. unfold arrive_metrics, close_group, open_group. cbn.
    by rewrite fold_park_metric_down.
  - injection H as <-. unfold arrive_event. destruct (resolve peek (ev_src e)); cbn; [done|].
    by rewrite app_nil_r.
  - destruct (lk_send s (lk st)); [|done]. injection H as <-. cbn. by rewrite app_nil_r.
  - injection H as <-. cbn -[release_events release_metrics].
    rewrite release_events_down, release_metrics_down, release_metrics_awaitE.
    unfold parked_for. rewrite fmap_app, <- !list_fmap_compose, <- app_assoc. done.
  - injection H as <-. cbn. by rewrite app_nil_r.
Qed.

(* the refill only touches the lookup side *)
Lemma step_arm st l st' : step st l = Some st' → ∃ s1, arm false st l = Some s1 ∧ st' = refill s1.
Proof.
  unfold step, step_gen. destruct (arm false st l) as [s1|]; [|done]. intros [= <-]. eauto.
Qed.

Lemma step_down st l st' : step st l = Some st' → down st' = down st ++ batch_of st l.
Proof. intros (s1 & H & ->)%step_arm. change (down (refill s1)) with (down s1). by apply arm_down. Qed.

(* ---- items with a known source leave within the label; the others are parked under their source ---- *)

Definition in_slotM (st : state) (e : entry) : Prop := e ∈ default [] (awaitM st !! entry_src e).

Lemma park_metric_in_new lg st e : in_slotM (park_metric lg st e) e.
Proof.
  unfold in_slotM. rewrite park_metric_awaitM, lookup_insert. cbn.
  apply elem_of_app. right. by apply elem_of_list_singleton.
Qed.
Lemma park_metric_in_old lg st e e' : in_slotM st e' → in_slotM (park_metric lg st e) e'.
Proof.
  unfold in_slotM. rewrite park_metric_awaitM. intros H.
  destruct (decide (entry_src e' = entry_src e)) as [Heq|Hne].
  - rewrite Heq in *. rewrite lookup_insert. cbn. apply elem_of_app. by left.
  - by rewrite lookup_insert_ne.
Qed.
Lemma fold_park_metric_in_old lg es st e' :
  in_slotM st e' → in_slotM (fold_left (park_metric lg) es st) e'.
Proof. revert st; induction es as [|e r IH]; intros st H; cbn; [done|]. by apply IH, park_metric_in_old. Qed.
Lemma fold_park_metric_in_new lg es st e :
  e ∈ es → in_slotM (fold_left (park_metric lg) es st) e.
Proof.
  revert st; induction es as [|e0 r IH]; intros st H; cbn; [by apply elem_of_nil in H|].
  apply elem_of_cons in H as [->|H]; [|by apply IH].
  apply fold_park_metric_in_old, park_metric_in_new.
Qed.

Lemma elem_of_metric_hits peek es e io :
  e ∈ es → resolve peek (entry_src e) = Some io → Drec (IM e) io ∈ metric_hits peek es.
Proof.
  intros He Hr. unfold metric_hits. apply elem_of_list_omap. exists e. split; [done|]. by rewrite Hr.
Qed.
Lemma elem_of_metric_misses peek es e :
  e ∈ es → resolve peek (entry_src e) = None → e ∈ metric_misses peek es.
Proof.
  intros He Hr. unfold metric_misses. apply elem_of_list_In, filter_In. split; [by apply elem_of_list_In|].
  unfold is_miss. by rewrite Hr.
Qed.

Lemma arm_immediate st l st' x :
  arm false st l = Some st' → x ∈ items_of l →
  match label_answer l (item_src x) with
  | Some io => Drec x io ∈ batch_of st l
  | None => x ∈ parked_for st' (item_src x)
  end.
Proof.
  destruct l as [es peek|e peek|s|s io|]; cbn; intros H Hx; try by apply elem_of_nil in Hx.
  - injection H as <-. apply elem_of_list_fmap in Hx as (e & -> & He). cbn.
    destruct (resolve peek (entry_src e)) as [io|] eqn:Hr.
    + by apply elem_of_metric_hits.
    + unfold parked_for. apply elem_of_app. left. apply elem_of_list_fmap. exists e. split; [done|].
      unfold arrive_metrics, close_group. cbn [awaitM with_lk].
      apply (fold_park_metric_in_new false). by apply elem_of_metric_misses.
  - injection H as <-. apply elem_of_list_singleton in Hx as ->. cbn. unfold arrive_event.
    destruct (resolve peek (ev_src e)) as [io|] eqn:Hr.
    + by apply elem_of_list_singleton.
    + unfold parked_for, park_event; cbn. rewrite lookup_insert. cbn.
      apply elem_of_app. right. apply elem_of_list_fmap. exists e. split; [done|].
      apply elem_of_app. right. by apply elem_of_list_singleton.
Qed.

Lemma step_immediate st l st' x :
  step st l = Some st' → x ∈ items_of l →
  match label_answer l (item_src x) with
  | Some io => Drec x io ∈ batch_of st l
  | None => x ∈ parked_for st' (item_src x)
  end.
Proof.
  intros (s1 & H & ->)%step_arm. change (parked_for (refill s1)) with (parked_for s1). by apply arm_immediate.
Qed.

(* ---- a lookup result releases exactly what is parked for its source --------------------------------- *)

Lemma step_info st s io st' :
  step st (Info s io) = Some st' →
  down st' = down st ++ ((λ x, Drec x io) <$> parked_for st s)
  ∧ parked_for st' s = []
  ∧ ∀ s', s' ≠ s → parked_for st' s' = parked_for st s'.
Proof.
  intros H. split; [exact (step_down _ _ _ H)|]. injection H as <-.
  unfold parked_for. cbn -[release_events release_metrics]. split.
  - rewrite release_events_awaitM, release_metrics_awaitM, lookup_delete, release_events_awaitE_s. done.
  - intros s' Hne.
    rewrite release_events_awaitM, release_metrics_awaitM, lookup_delete_ne by done.
    rewrite release_events_awaitE_ne, release_metrics_awaitE by done. done.
Qed.

(* ---- tagging ------------------------------------------------------------------------------------------ *)

(* every record a label appends was answered by that label for the item's own source *)
Lemma batch_answer ls st l r :
  run step init ls = Some st → r ∈ batch_of st l →
  label_answer l (item_src (d_orig r)) = Some (d_inst r).
Proof.
  intros Hrun. destruct l as [es peek|e peek|s|s io|]; cbn; intros Hr; try by apply elem_of_nil in Hr.
  - unfold metric_hits in Hr. apply elem_of_list_omap in Hr as (e & He & Hio).
    destruct (resolve peek (entry_src e)) as [io|] eqn:E; cbn in Hio; [|done].
    injection Hio as <-. done.
  - destruct (resolve peek (ev_src e)) as [io|] eqn:E; [|by apply elem_of_nil in Hr].
    apply elem_of_list_singleton in Hr as ->. done.
  - apply elem_of_list_fmap in Hr as (x & -> & Hx). cbn.
    rewrite (parked_for_src _ _ _ _ Hrun Hx). by destruct (decide (s = s)).
Qed.

(* what downstream receives for a record *)
Lemma delivered_spec r :
  item_body (delivered r) = item_body (d_orig r)
  ∧ match d_inst r with
    | Some i =>
        item_src (delivered r) = inst_id i
        ∧ item_tags (delivered r) ≡ₚ item_tags (d_orig r) ++ inst_tags i
        ∧ (∀ e, d_orig r = IE e → item_tags (delivered r) = ev_tags e ++ inst_tags i)
        ∧ (∀ e, delivered r = IM e →
                entry_key e = tags_key (inst_id i) (item_tags (d_orig r) ++ inst_tags i))
    | None =>
        item_src (delivered r) = item_src (d_orig r)
        ∧ item_tags (delivered r) ≡ₚ item_tags (d_orig r)
        ∧ (∀ e, d_orig r = IE e → delivered r = IE e)
        ∧ (∀ e, delivered r = IM e →
                entry_key e = tags_key (item_src (d_orig r)) (item_tags (d_orig r)))
    end.
Proof.
  destruct r as [x [i|]]; unfold delivered, update_inplace; cbn [d_orig d_inst].
  - split; [apply retag_body|]. split; [apply retag_src|]. split; [apply retag_tags_perm|].
    split; [by intros e ->|]. destruct x as [e0|e0]; [|done]. intros e. apply retag_key.
  - split; [apply retag_body|]. split; [apply retag_src|]. split; [apply retag_tags_perm|].
    split; [intros e ->; apply retag_event_id|]. destruct x as [e0|e0]; [|done]. intros e. apply retag_key.
Qed.

Lemma tagging ls st l st' :
  run step init ls = Some st → step st l = Some st' →
  ∃ batch, down st' = down st ++ batch ∧
    ∀ r, r ∈ batch →
      label_answer l (item_src (d_orig r)) = Some (d_inst r)
      ∧ item_body (delivered r) = item_body (d_orig r)
      ∧ match d_inst r with
        | Some i =>
            item_src (delivered r) = inst_id i
            ∧ item_tags (delivered r) ≡ₚ item_tags (d_orig r) ++ inst_tags i
            ∧ (∀ e, d_orig r = IE e → item_tags (delivered r) = ev_tags e ++ inst_tags i)
            ∧ (∀ e, delivered r = IM e →
                    entry_key e = tags_key (inst_id i) (item_tags (d_orig r) ++ inst_tags i))
        | None =>
            item_src (delivered r) = item_src (d_orig r)
            ∧ item_tags (delivered r) ≡ₚ item_tags (d_orig r)
            ∧ (∀ e, d_orig r = IE e → delivered r = IE e)
            ∧ (∀ e, delivered r = IM e →
                    entry_key e = tags_key (item_src (d_orig r)) (item_tags (d_orig r)))
        end.
Proof.
  intros Hrun Hstep. exists (batch_of st l). split; [by apply step_down|].
  intros r Hr. split; [by eapply batch_answer|]. apply delivered_spec.
Qed.

(* C11_exactly_once, second half: the step-level clauses in one statement *)
Lemma exactly_once_step st l st' :
  step st l = Some st' →
  ∃ batch, down st' = down st ++ batch
    ∧ (∀ x, x ∈ items_of l →
         match label_answer l (item_src x) with
         | Some io => Drec x io ∈ batch
         | None => x ∈ parked_for st' (item_src x)
         end)
    ∧ (∀ s io, l = Info s io →
         batch = (λ x, Drec x io) <$> parked_for st s
         ∧ parked_for st' s = []
         ∧ ∀ s', s' ≠ s → parked_for st' s' = parked_for st s').
Proof.
  intros H. exists (batch_of st l). split; [by apply step_down|]. split.
  - intros x Hx. by apply (step_immediate _ _ _ _ H).
  - intros s io ->. destruct (step_info _ _ _ _ H) as (_ & H2 & H3). done.
Qed.

