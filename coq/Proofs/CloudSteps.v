(* Proofs about the cloud-stage LTS (Model/Cloud.v), part 3: what one label does to the items it
   carries (dispatched at once / parked under their source), what a lookup result releases, with
   which instance every released item is updated, and the one-outstanding-lookup invariant. *)
From stdpp Require Import gmap.
From GS Require Import Base.Bytes Base.LTS Model.Series Model.MetricMap Model.Cloud
  Proofs.Cloud Proofs.CloudInv.
Local Open Scope Z_scope.

(* ---- what a label appends to the downstream log --------------------------------------------------- *)

Definition batch_of (st : state) (l : label) : list drec :=
  match l with
  | ArriveMetrics es peek => metric_hits peek es
  | ArriveEvent e peek => match resolve peek (ev_src e) with Some io => [Drec (IE e) io] | None => [] end
  | Info s io => (λ x, Drec x io) <$> parked_for st s
  | _ => []
  end.

Lemma release_metrics_down st s io :
  down (release_metrics st s io) = down st ++ ((λ e, Drec (IM e) io) <$> default [] (awaitM st !! s)).
Proof. unfold release_metrics. destruct (awaitM st !! s); cbn; by rewrite ?app_nil_r. Qed.
Lemma release_metrics_awaitE st s io : awaitE (release_metrics st s io) = awaitE st.
Proof. unfold release_metrics. by destruct (awaitM st !! s). Qed.
Lemma release_metrics_awaitM st s io : awaitM (release_metrics st s io) = delete s (awaitM st).
Proof.
  unfold release_metrics. destruct (awaitM st !! s) eqn:E; cbn; [done|]. by rewrite delete_notin.
Qed.
Lemma release_events_down st s io :
  down (release_events st s io) = down st ++ ((λ e, Drec (IE e) io) <$> default [] (awaitE st !! s)).
Proof. unfold release_events. destruct (awaitE st !! s) as [[|e q]|]; cbn; by rewrite ?app_nil_r. Qed.
Lemma release_events_awaitM st s io : awaitM (release_events st s io) = awaitM st.
Proof. unfold release_events. by destruct (awaitE st !! s) as [[|e q]|]. Qed.
(* an (unreachable) empty event slot would stay; nothing is parked in it *)
Lemma release_events_awaitE_s st s io : default [] (awaitE (release_events st s io) !! s) = [].
Proof.
  unfold release_events. destruct (awaitE st !! s) as [[|e q]|] eqn:E; cbn; rewrite ?E, ?lookup_delete; done.
Qed.
Lemma release_events_awaitE_ne st s io s' : s' ≠ s → awaitE (release_events st s io) !! s' = awaitE st !! s'.
Proof.
  intros Hne. unfold release_events.
  destruct (awaitE st !! s) as [[|e q]|]; cbn; rewrite ?lookup_delete_ne; done.
Qed.

Lemma step_down st l st' : step st l = Some st' → down st' = down st ++ batch_of st l.
Proof.
  destruct l as [es peek|e peek|s|s io|]; cbn; intros H.
  - injection H as <-. unfold arrive_metrics. by rewrite fold_park_metric_down.
  - injection H as <-. unfold arrive_event. destruct (resolve peek (ev_src e)); cbn; [done|].
    by rewrite app_nil_r.
  - destruct (bool_decide (s ∈ toLookup st)); [|done]. injection H as <-. cbn. by rewrite app_nil_r.
  - injection H as <-. cbn -[release_events release_metrics].
    rewrite release_events_down, release_metrics_down, release_metrics_awaitE.
    unfold parked_for. rewrite fmap_app, <- !list_fmap_compose, <- app_assoc. done.
  - injection H as <-. cbn. by rewrite app_nil_r.
Qed.

(* ---- items with a known source leave within the label; the others are parked under their source ---- *)

Definition in_slotM (st : state) (e : entry) : Prop := e ∈ default [] (awaitM st !! entry_src e).

Lemma park_metric_in_new lg st e : in_slotM (park_metric lg st e) e.
Proof.
  unfold in_slotM. rewrite park_metric_awaitM, lookup_insert. cbn.
  apply elem_of_app. right. by apply elem_of_list_singleton.
Qed.
Lemma park_metric_in_old lg st e e' : in_slotM st e' → in_slotM (park_metric lg st e) e'.
Proof.
  unfold in_slotM. rewrite park_metric_awaitM. intros H.
  destruct (decide (entry_src e' = entry_src e)) as [Heq|Hne].
  - rewrite Heq in *. rewrite lookup_insert. cbn. apply elem_of_app. by left.
  - by rewrite lookup_insert_ne.
Qed.
Lemma fold_park_metric_in_old lg es st e' :
  in_slotM st e' → in_slotM (fold_left (park_metric lg) es st) e'.
Proof. revert st; induction es as [|e r IH]; intros st H; cbn; [done|]. by apply IH, park_metric_in_old. Qed.
Lemma fold_park_metric_in_new lg es st e :
  e ∈ es → in_slotM (fold_left (park_metric lg) es st) e.
Proof.
  revert st; induction es as [|e0 r IH]; intros st H; cbn; [by apply elem_of_nil in H|].
  apply elem_of_cons in H as [->|H]; [|by apply IH].
  apply fold_park_metric_in_old, park_metric_in_new.
Qed.

Lemma elem_of_metric_hits peek es e io :
  e ∈ es → resolve peek (entry_src e) = Some io → Drec (IM e) io ∈ metric_hits peek es.
Proof.
  intros He Hr. unfold metric_hits. apply elem_of_list_omap. exists e. split; [done|]. by rewrite Hr.
Qed.
Lemma elem_of_metric_misses peek es e :
  e ∈ es → resolve peek (entry_src e) = None → e ∈ metric_misses peek es.
Proof.
  intros He Hr. unfold metric_misses. apply elem_of_list_In, filter_In. split; [by apply elem_of_list_In|].
  unfold is_miss. by rewrite Hr.
Qed.

Lemma step_immediate st l st' x :
  step st l = Some st' → x ∈ items_of l →
  match label_answer l (item_src x) with
  | Some io => Drec x io ∈ batch_of st l
  | None => x ∈ parked_for st' (item_src x)
  end.
Proof.
  destruct l as [es peek|e peek|s|s io|]; cbn; intros H Hx; try by apply elem_of_nil in Hx.
  - injection H as <-. apply elem_of_list_fmap in Hx as (e & -> & He). cbn.
    destruct (resolve peek (entry_src e)) as [io|] eqn:Hr.
    + by apply elem_of_metric_hits.
    + unfold parked_for. apply elem_of_app. left. apply elem_of_list_fmap. exists e. split; [done|].
      apply (fold_park_metric_in_new false). by apply elem_of_metric_misses.
  - injection H as <-. apply elem_of_list_singleton in Hx as ->. cbn. unfold arrive_event.
    destruct (resolve peek (ev_src e)) as [io|] eqn:Hr.
    + by apply elem_of_list_singleton.
    + unfold parked_for, park_event; cbn. rewrite lookup_insert. cbn.
      apply elem_of_app. right. apply elem_of_list_fmap. exists e. split; [done|].
      apply elem_of_app. right. by apply elem_of_list_singleton.
Qed.

(* ---- a lookup result releases exactly what is parked for its source --------------------------------- *)

Lemma step_info st s io st' :
  step st (Info s io) = Some st' →
  down st' = down st ++ ((λ x, Drec x io) <$> parked_for st s)
  ∧ parked_for st' s = []
  ∧ ∀ s', s' ≠ s → parked_for st' s' = parked_for st s'.
Proof.
  intros H. split; [exact (step_down _ _ _ H)|]. injection H as <-.
  unfold parked_for. cbn -[release_events release_metrics]. split.
  - rewrite release_events_awaitM, release_metrics_awaitM, lookup_delete, release_events_awaitE_s. done.
  - intros s' Hne.
    rewrite release_events_awaitM, release_metrics_awaitM, lookup_delete_ne by done.
    rewrite release_events_awaitE_ne, release_metrics_awaitE by done. done.
Qed.

(* ---- tagging ------------------------------------------------------------------------------------------ *)

(* every record a label appends was answered by that label for the item's own source *)
Lemma batch_answer ls st l r :
  run step init ls = Some st → r ∈ batch_of st l →
  label_answer l (item_src (d_orig r)) = Some (d_inst r).
Proof.
  intros Hrun. destruct l as [es peek|e peek|s|s io|]; cbn; intros Hr; try by apply elem_of_nil in Hr.
  - unfold metric_hits in Hr. apply elem_of_list_omap in Hr as (e & He & Hio).
    destruct (resolve peek (entry_src e)) as [io|] eqn:E; cbn in Hio; [|done].
    injection Hio as <-. done.
  - destruct (resolve peek (ev_src e)) as [io|] eqn:E; [|by apply elem_of_nil in Hr].
    apply elem_of_list_singleton in Hr as ->. done.
  - apply elem_of_list_fmap in Hr as (x & -> & Hx). cbn.
    rewrite (parked_for_src _ _ _ _ Hrun Hx). by destruct (decide (s = s)).
Qed.

(* what downstream receives for a record *)
Lemma delivered_spec r :
  item_body (delivered r) = item_body (d_orig r)
  ∧ match d_inst r with
    | Some i =>
        item_src (delivered r) = inst_id i
        ∧ item_tags (delivered r) ≡ₚ item_tags (d_orig r) ++ inst_tags i
        ∧ (∀ e, d_orig r = IE e → item_tags (delivered r) = ev_tags e ++ inst_tags i)
        ∧ (∀ e, delivered r = IM e →
                entry_key e = tags_key (inst_id i) (item_tags (d_orig r) ++ inst_tags i))
    | None =>
        item_src (delivered r) = item_src (d_orig r)
        ∧ item_tags (delivered r) ≡ₚ item_tags (d_orig r)
        ∧ (∀ e, d_orig r = IE e → delivered r = IE e)
        ∧ (∀ e, delivered r = IM e →
                entry_key e = tags_key (item_src (d_orig r)) (item_tags (d_orig r)))
    end.
Proof.
  destruct r as [x [i|]]; unfold delivered, update_inplace; cbn [d_orig d_inst].
  - split; [apply retag_body|]. split; [apply retag_src|]. split; [apply retag_tags_perm|].
    split; [by intros e ->|]. destruct x as [e0|e0]; [|done]. intros e. apply retag_key.
  - split; [apply retag_body|]. split; [apply retag_src|]. split; [apply retag_tags_perm|].
    split; [intros e ->; apply retag_event_id|]. destruct x as [e0|e0]; [|done]. intros e. apply retag_key.
Qed.

Lemma tagging ls st l st' :
  run step init ls = Some st → step st l = Some st' →
  ∃ batch, down st' = down st ++ batch ∧
    ∀ r, r ∈ batch →
      label_answer l (item_src (d_orig r)) = Some (d_inst r)
      ∧ item_body (delivered r) = item_body (d_orig r)
      ∧ match d_inst r with
        | Some i =>
            item_src (delivered r) = inst_id i
            ∧ item_tags (delivered r) ≡ₚ item_tags (d_orig r) ++ inst_tags i
            ∧ (∀ e, d_orig r = IE e → item_tags (delivered r) = ev_tags e ++ inst_tags i)
            ∧ (∀ e, delivered r = IM e →
                    entry_key e = tags_key (inst_id i) (item_tags (d_orig r) ++ inst_tags i))
        | None =>
            item_src (delivered r) = item_src (d_orig r)
            ∧ item_tags (delivered r) ≡ₚ item_tags (d_orig r)
            ∧ (∀ e, d_orig r = IE e → delivered r = IE e)
            ∧ (∀ e, delivered r = IM e →
                    entry_key e = tags_key (item_src (d_orig r)) (item_tags (d_orig r)))
        end.
Proof.
  intros Hrun Hstep. exists (batch_of st l). split; [by apply step_down|].
  intros r Hr. split; [by eapply batch_answer|]. apply delivered_spec.
Qed.

(* C11_exactly_once, second half: the step-level clauses in one statement *)
Lemma exactly_once_step st l st' :
  step st l = Some st' →
  ∃ batch, down st' = down st ++ batch
    ∧ (∀ x, x ∈ items_of l →
         match label_answer l (item_src x) with
         | Some io => Drec x io ∈ batch
         | None => x ∈ parked_for st' (item_src x)
         end)
    ∧ (∀ s io, l = Info s io →
         batch = (λ x, Drec x io) <$> parked_for st s
         ∧ parked_for st' s = []
         ∧ ∀ s', s' ≠ s → parked_for st' s' = parked_for st s').
Proof.
  intros H. exists (batch_of st l). split; [by apply step_down|]. split.
  - intros x Hx. by apply (step_immediate _ _ _ _ H).
  - intros s io ->. destruct (step_info _ _ _ _ H) as (_ & H2 & H3). done.
Qed.

(* ---- at most one lookup per source --------------------------------------------------------------------- *)

Definition LInv (st : state) : Prop :=
  ∀ s, count s (toLookup st ++ sent st) = if waiting st s then 1%nat else 0%nat.

Lemma waiting_false st s : waiting st s = false ↔ awaitM st !! s = None ∧ awaitE st !! s = None.
Proof.
  unfold waiting. rewrite orb_false_iff, !bool_decide_eq_false, <- !eq_None_not_Some. done.
Qed.
Lemma waiting_true st s : waiting st s = true ↔ is_Some (awaitM st !! s) ∨ is_Some (awaitE st !! s).
Proof. unfold waiting. rewrite orb_true_iff, !bool_decide_eq_true. done. Qed.

Lemma waiting_ext st st' s :
  (is_Some (awaitM st' !! s) ↔ is_Some (awaitM st !! s)) →
  (is_Some (awaitE st' !! s) ↔ is_Some (awaitE st !! s)) → waiting st' s = waiting st s.
Proof.
  intros H1 H2. unfold waiting.
  rewrite (bool_decide_ext _ _ H1), (bool_decide_ext _ _ H2). done.
Qed.

Lemma no_events_None st s : Inv st → no_events st s = bool_decide (awaitE st !! s = None).
Proof.
  intros [_ HE _ _ _]. unfold no_events. destruct (awaitE st !! s) as [[|e q]|] eqn:E; [|done|done].
  by destruct (HE _ _ E).
Qed.

Lemma LInv_park_metric st e : Inv st → LInv st → LInv (park_metric false st e).
Proof.
  intros HI HL s. specialize (HL s). unfold park_metric.
  destruct (awaitM st !! entry_src e) as [q|] eqn:EM; cbn.
  - rewrite (waiting_ext st); [exact HL| |done]. cbn.
    destruct (decide (s = entry_src e)) as [->|Hne].
    + rewrite lookup_insert, EM. split; eauto.
    + by rewrite lookup_insert_ne.
  - rewrite (no_events_None _ _ HI).
    destruct (decide (s = entry_src e)) as [->|Hne].
    + assert (Hw' : waiting (St (<[entry_src e:=[e]]> (awaitM st)) (awaitE st)
                  (if bool_decide (awaitE st !! entry_src e = None) then entry_src e :: toLookup st else toLookup st)
                  (sent st) (inc64 (hostsM st)) (hostsE st) (itemsE st) (down st) (emitted st)) (entry_src e) = true).
      { apply waiting_true. left. cbn. rewrite lookup_insert. eauto. }
      rewrite Hw'. destruct (awaitE st !! entry_src e) as [q|] eqn:EE; cbn.
      * assert (Hw : waiting st (entry_src e) = true) by (apply waiting_true; right; rewrite EE; eauto).
        by rewrite Hw in HL.
      * assert (Hw : waiting st (entry_src e) = false) by (by apply waiting_false).
        rewrite Hw in HL. cbn. destruct (decide (entry_src e = entry_src e)); [|done]. by rewrite HL.
    + assert (Hw' : ∀ tl, waiting (St (<[entry_src e:=[e]]> (awaitM st)) (awaitE st) tl
                  (sent st) (inc64 (hostsM st)) (hostsE st) (itemsE st) (down st) (emitted st)) s = waiting st s).
      { intros tl. apply waiting_ext; cbn; [|done]. by rewrite lookup_insert_ne. }
      rewrite Hw', <- HL. destruct (bool_decide (awaitE st !! entry_src e = None)); cbn; [|done].
      by destruct (decide (entry_src e = s)); [congruence|].
Qed.

Lemma LInv_fold_park_metric es st : Inv st → LInv st → LInv (fold_left (park_metric false) es st).
Proof.
  revert st; induction es as [|e r IH]; intros st HI HL; cbn; [done|].
  apply IH; [by apply Inv_park_metric|by apply LInv_park_metric].
Qed.

Lemma LInv_park_event st e : Inv st → LInv st → LInv (park_event false st e).
Proof.
  intros HI HL s. specialize (HL s). destruct HI as [_ HE _ _ _]. unfold park_event; cbn.
  set (q := default [] (awaitE st !! ev_src e)).
  destruct (decide (s = ev_src e)) as [->|Hne].
  - assert (Hw' : ∀ tl hE, waiting (St (awaitM st) (<[ev_src e:=q ++ [e]]> (awaitE st)) tl (sent st) (hostsM st)
                      hE (inc64 (itemsE st)) (down st) (emitted st)) (ev_src e) = true).
    { intros tl hE. apply waiting_true. right. cbn. rewrite lookup_insert. eauto. }
    rewrite Hw'. subst q. destruct (awaitE st !! ev_src e) as [q|] eqn:EE; cbn.
    + destruct (HE _ _ EE) as [Hne _]. destruct q as [|e0 q]; [done|]. cbn.
      assert (Hw : waiting st (ev_src e) = true) by (apply waiting_true; right; rewrite EE; eauto).
      by rewrite Hw in HL.
    + destruct (awaitM st !! ev_src e) as [qm|] eqn:EM; cbn.
      * assert (Hw : waiting st (ev_src e) = true) by (apply waiting_true; left; rewrite EM; eauto).
        by rewrite Hw in HL.
      * assert (Hw : waiting st (ev_src e) = false) by (by apply waiting_false).
        rewrite Hw in HL. destruct (decide (ev_src e = ev_src e)); [|done]. by rewrite HL.
  - assert (Hw' : ∀ tl hE, waiting (St (awaitM st) (<[ev_src e:=q ++ [e]]> (awaitE st)) tl (sent st) (hostsM st)
                      hE (inc64 (itemsE st)) (down st) (emitted st)) s = waiting st s).
    { intros tl hE. apply waiting_ext; cbn; [done|]. by rewrite lookup_insert_ne. }
    rewrite Hw', <- HL.
    destruct (match q with [] => true | _ => false end && match awaitM st !! ev_src e with None => true | Some _ => false end);
      cbn; [|done].
    by destruct (decide (ev_src e = s)); [congruence|].
Qed.

Lemma LInv_send st s :
  s ∈ toLookup st → LInv st →
  LInv (St (awaitM st) (awaitE st) (remove_one s (toLookup st)) (s :: sent st)
           (hostsM st) (hostsE st) (itemsE st) (down st) (emitted st)).
Proof.
  intros Hin HL s'. specialize (HL s'). change (waiting (St _ _ _ _ _ _ _ _ _) s') with (waiting st s').
  rewrite <- HL, !count_app. cbn.
  destruct (decide (s = s')) as [->|Hne].
  - rewrite count_remove_one_eq. apply count_pos_elem in Hin. lia.
  - by rewrite count_remove_one_ne.
Qed.

Lemma LInv_info st s io :
  Inv st → s ∈ sent st → LInv st →
  LInv (answer (release_events (release_metrics st s io) s io) s).
Proof.
  intros HI Hin HL s'. pose proof (HL s') as HLs. revert HLs.
  set (st1 := release_events (release_metrics st s io) s io).
  assert (HtL : toLookup st1 = toLookup st).
  { unfold st1, release_events, release_metrics.
    destruct (awaitM st !! s); cbn; destruct (awaitE st !! s) as [[|e q]|]; done. }
  assert (Hsent : sent st1 = sent st).
  { unfold st1, release_events, release_metrics.
    destruct (awaitM st !! s); cbn; destruct (awaitE st !! s) as [[|e q]|]; done. }
  change (toLookup (answer st1 s)) with (toLookup st1).
  change (sent (answer st1 s)) with (remove_one s (sent st1)).
  change (waiting (answer st1 s) s') with (waiting st1 s').
  rewrite HtL, Hsent, !count_app.
  destruct (decide (s' = s)) as [->|Hne].
  - (* the answered source: nothing is parked for it any more *)
    assert (Hw1 : waiting st1 s = false).
    { apply waiting_false. unfold st1. rewrite release_events_awaitM, release_metrics_awaitM, lookup_delete.
      split; [done|].
      pose proof (release_events_awaitE_s (release_metrics st s io) s io) as Hnil.
      apply (slot_ok_default_nil ev_src); [|done].
      apply (inv_E _ (Inv_release_events _ s io (Inv_release_metrics _ s io HI))). }
    rewrite Hw1, count_remove_one_eq. apply count_pos_elem in Hin.
    destruct (waiting st s); lia.
  - assert (Hw1 : waiting st1 s' = waiting st s').
    { apply waiting_ext; unfold st1.
      - by rewrite release_events_awaitM, release_metrics_awaitM, lookup_delete_ne.
      - by rewrite release_events_awaitE_ne, release_metrics_awaitE. }
    by rewrite Hw1, count_remove_one_ne.
Qed.

Lemma LInv_step st l st' : Inv st → LInv st → step_env st l = Some st' → LInv st'.
Proof.
  intros HI HL. destruct l as [es peek|e peek|s|s io|]; cbn; intros Hs.
  - injection Hs as <-. unfold arrive_metrics. apply LInv_fold_park_metric.
    + by eapply Inv_ext; [..|exact HI].
    + exact HL.
  - injection Hs as <-. unfold arrive_event. destruct (resolve peek (ev_src e)); [exact HL|].
    by apply LInv_park_event.
  - destruct (bool_decide (s ∈ toLookup st)) eqn:E; [|done]. injection Hs as <-.
    apply bool_decide_eq_true in E. by apply LInv_send.
  - destruct (bool_decide (s ∈ sent st)) eqn:E; [|done]. cbn in Hs. injection Hs as <-.
    apply bool_decide_eq_true in E. by apply LInv_info.
  - injection Hs as <-. exact HL.
Qed.

Lemma step_env_step st l st' : step_env st l = Some st' → step st l = Some st'.
Proof. destruct l; cbn; try done. by destruct (bool_decide _). Qed.

Lemma LInv_run ls : ∀ s0 st, Inv s0 → LInv s0 → run step_env s0 ls = Some st → Inv st ∧ LInv st.
Proof.
  induction ls as [|l r IH]; intros s0 st HI HL H; cbn in H.
  - by injection H as <-.
  - destruct (step_env s0 l) as [s1|] eqn:E; [|done].
    apply (IH s1 st); [|by eapply LInv_step|done].
    eapply Inv_step; [exact HI|by apply step_env_step].
Qed.

Lemma LInv_init : LInv init.
Proof. intros s. done. Qed.

(* C11_one_lookup *)
Lemma lookup_iff_waiting ls st s :
  run step_env init ls = Some st →
  count s (toLookup st ++ sent st) = if waiting st s then 1%nat else 0%nat.
Proof. intros H. by destruct (LInv_run ls init st Inv_init LInv_init H) as [_ HL]. Qed.

Lemma one_lookup ls st s :
  run step_env init ls = Some st → (count s (toLookup st ++ sent st) ≤ 1)%nat.
Proof. intros H. rewrite (lookup_iff_waiting _ _ _ H). destruct (waiting st s); lia. Qed.

(* a run of the guarded system is a run of the plain one: every other theorem applies to it *)
Lemma run_env_run ls : ∀ s0 st, run step_env s0 ls = Some st → run step s0 ls = Some st.
Proof.
  induction ls as [|l r IH]; intros s0 st H; cbn in *; [done|].
  destruct (step_env s0 l) as [s1|] eqn:E; [|done].
  rewrite (step_env_step _ _ _ E). by apply IH.
Qed.
