(* C04: the partial operations of the payload builders (Model/PayloadPartial.v) are in range on
   every map Flush can report ([Reported]), for every mask, conversion mode and batch size >= 1. *)
From Coq Require Import String.
From Coq Require Import List ZArith Lia Bool.
From GS Require Import Base.Bytes.
From GS Require Import Model.GoPartial.
From GS Require Import Model.Histogram.
From GS Require Import Model.Stats.
From GS Require Import Model.FlushPartial.
From GS Require Import Model.PayloadPartial.
From GS Require Import Proofs.FlushSafety.
Import ListNotations.
Local Open Scope Z_scope.

(* ---------------------------------------------------------------------------------------- *)
(* helpers *)

Lemma each_ok {A} (f : A -> outcome unit) l : (forall a, In a l -> is_ok (f a)) -> is_ok (each f l).
Proof.
  unfold each. generalize tt as u. induction l as [|a r IH]; intros u H; cbn [foldM]; [apply ok_is_ok|].
  destruct (H a (or_introl eq_refl)) as [u' ->]. cbn [bind]. apply IH. intros; apply H; right; assumption.
Qed.

Lemma sumM_ok {A} (f : A -> outcome Z) l : (forall a, In a l -> is_ok (f a)) -> is_ok (sumM f l).
Proof.
  unfold sumM. generalize 0 as z. induction l as [|a r IH]; intros z H; cbn [foldM]; [apply ok_is_ok|].
  destruct (H a (or_introl eq_refl)) as [k ->]. cbn [bind]. apply IH. intros; apply H; right; assumption.
Qed.

Lemma index_from_range c s i : index_from c s i = -1 \/ i <= index_from c s i < i + len s.
Proof.
  revert i; induction s as [|x r IH]; intros i; cbn [index_from]; [left; reflexivity|].
  rewrite len_cons. pose proof (len_nonneg r). destruct (x =? c)%N; [right; lia|].
  destruct (IH (i + 1)) as [->|H2]; [left; reflexivity|right; lia].
Qed.
Lemma index_of_range c s : index_of c s = -1 \/ 0 <= index_of c s < len s.
Proof. unfold index_of. destruct (index_from_range c s 0) as [H|H]; [left; exact H|right; lia]. Qed.

Lemma splitn2_len c s : len (splitn2 c s) = if index_of c s <? 0 then 1 else 2.
Proof. unfold splitn2. destruct (index_of c s <? 0); reflexivity. Qed.

Lemma splitn2_two_ok c s : 0 <= index_of c s -> is_ok (idx (splitn2 c s) 0) /\ is_ok (idx (splitn2 c s) 1).
Proof.
  intros H. pose proof (splitn2_len c s) as L. destruct (index_of c s <? 0) eqn:E; [lia|].
  split; apply idx_ok; lia.
Qed.
Lemma splitn2_first_ok c s : is_ok (idx (splitn2 c s) 0).
Proof. apply idx_ok. rewrite splitn2_len. destruct (index_of c s <? 0); lia. Qed.

(* tag splitting shared by the builders: all in range for every tag *)
Lemma influx_tag_ok tag : is_ok (influx_tag tag).
Proof.
  unfold influx_tag. pose proof (splitn2_len c_colon tag) as L.
  destruct (index_of c_colon tag <? 0) eqn:E; rewrite L; cbn [Z.eqb Pos.eqb].
  - destruct (splitn2_first_ok c_colon tag) as [v ->]. apply ok_is_ok.
  - destruct (splitn2_two_ok c_colon tag ltac:(lia)) as [[k ->] [v ->]]. apply ok_is_ok.
Qed.
Lemma influx_name_ok tags : is_ok (influx_name tags).
Proof. unfold influx_name. apply bind_ok; [apply mapM_ok; intros; apply influx_tag_ok|intros; apply ok_is_ok]. Qed.

Lemma parse_tag_ok tag : is_ok (parse_tag tag).
Proof.
  unfold parse_tag. pose proof (splitn2_len c_colon tag) as L.
  destruct (index_of c_colon tag <? 0) eqn:E; rewrite L; cbn [Z.eqb Pos.eqb].
  - destruct (splitn2_first_ok c_colon tag) as [v ->]. apply ok_is_ok.
  - destruct (splitn2_two_ok c_colon tag ltac:(lia)) as [[k ->] [v ->]]. apply ok_is_ok.
Qed.
Lemma tags_exists_ok key tags : is_ok (tags_exists key tags).
Proof.
  induction tags as [|t r IH]; cbn [tags_exists]; [apply ok_is_ok|].
  destruct (parse_tag_ok t) as [kv ->]. cbn [bind]. destruct (str_eqb (fst kv) key); [apply ok_is_ok|exact IH].
Qed.

Lemma nr_set_tag_ok tag : is_ok (nr_set_tag tag).
Proof.
  unfold nr_set_tag, contains. destruct (0 <=? index_of c_colon tag) eqn:E; [|apply ok_is_ok].
  destruct (splitn2_two_ok c_colon tag ltac:(lia)) as [[k ->] [v ->]]. apply ok_is_ok.
Qed.
Lemma nr_set_tags_ok tags : is_ok (nr_set_tags tags).
Proof. apply each_ok; intros; apply nr_set_tag_ok. Qed.

Lemma cw_dim_ok tag : is_ok (cw_dim tag).
Proof.
  unfold cw_dim, contains. destruct (0 <=? index_of c_colon tag) eqn:E; [|apply ok_is_ok].
  destruct (splitn2_two_ok c_colon tag ltac:(lia)) as [[k ->] [v ->]]. apply ok_is_ok.
Qed.
Lemma cw_dims_ok tags : is_ok (cw_dims tags).
Proof.
  unfold cw_dims. destruct (mapM_ok cw_dim tags) as [d ->]; [intros; apply cw_dim_ok|]. cbn [bind].
  destruct (10 <? len d) eqn:E; [apply slice_to_ok; lia|apply ok_is_ok].
Qed.

(* ---------------------------------------------------------------------------------------- *)
(* InfluxDB *)

Lemma influx_base_timer_ok m t : is_ok (influx_base_timer m t).
Proof.
  unfold influx_base_timer. cbv zeta. destruct (len (influx_base_fields m (rt_pcts t)) =? 0) eqn:E; [apply ok_is_ok|].
  destruct (influx_name_ok (rt_tags t)) as [u ->]. cbn [bind].
  pose proof (len_nonneg (influx_base_fields m (rt_pcts t))).
  destruct (slice_to_ok (influx_base_fields m (rt_pcts t)) (len (influx_base_fields m (rt_pcts t)) - 1)) as [b ->]; [lia|].
  apply ok_is_ok.
Qed.

Lemma influx_hist_timer_ok t h : is_ok (influx_hist_timer false t h).
Proof.
  unfold influx_hist_timer. cbn [negb andb]. destruct (len h =? 0) eqn:E; [apply ok_is_ok|].
  destruct (influx_name_ok (rt_tags t)) as [u ->]. cbn [bind]. cbv zeta.
  assert (Hn : 1 <= len (influx_hist_fields h)).
  { destruct h as [|e l]; [discriminate E|]. unfold influx_hist_fields. cbn [map concat].
    rewrite !len_app. pose proof (len_nonneg (concat (map (fun e0 => bs "le." ++ [c_eq] ++ itoa (snd e0) ++ [c_comma]) l))).
    pose proof (len_nonneg (itoa (snd e))). change (len (bs "le.")) with 3. change (len [c_eq]) with 1. change (len [c_comma]) with 1. lia. }
  destruct (slice_to_ok (influx_hist_fields h) (len (influx_hist_fields h) - 1)) as [b ->]; [lia|]. apply ok_is_ok.
Qed.

Theorem influx_payload_ok m r : is_ok (influx_payload false m r).
Proof.
  unfold influx_payload.
  apply bind_ok; [apply sumM_ok; intros o _; destruct (influx_name_ok (o_tags o)) as [u ->]; apply ok_is_ok|]. intros a _.
  apply bind_ok; [|intros; apply ok_is_ok]. apply sumM_ok. intros t _. unfold influx_timer.
  destruct (rt_hist t); [apply influx_base_timer_ok|apply influx_hist_timer_ok].
Qed.

(* ---------------------------------------------------------------------------------------- *)
(* New Relic *)

Lemma nr_pct_ok name : has_us name -> is_ok (nr_pct name).
Proof.
  unfold has_us, nr_pct. intros H. cbv zeta.
  pose proof (last_index_upper c_us name 0 (-1) ltac:(lia)) as U. fold (last_index c_us name) in U.
  destruct (slice_to_ok name (last_index c_us name)) as [a ->]; [lia|].
  destruct (slice_from_ok name (last_index c_us name + 1)) as [b ->]; [lia|]. apply ok_is_ok.
Qed.

Theorem nr_payload_ok ty r : Reported r -> is_ok (nr_payload ty r).
Proof.
  intros HR. unfold nr_payload.
  apply bind_ok; [apply each_ok; intros; apply nr_set_tags_ok|]. intros _ _.
  apply each_ok. intros t Hin. unfold Reported in HR. rewrite Forall_forall in HR.
  destruct (HR t Hin) as (Hp & _ & _). unfold nr_timer. destruct (rt_hist t).
  - destruct (nr_set_tags_ok (nr_source_tags (rt_src t) (rt_tags t))) as [u ->]. cbn [bind].
    destruct ty; try apply ok_is_ok. apply each_ok. intros p Hp'. apply nr_pct_ok.
    rewrite Forall_forall in Hp. apply Hp; exact Hp'.
  - apply each_ok. intros; apply nr_set_tags_ok.
Qed.

(* ---------------------------------------------------------------------------------------- *)
(* OTLP *)

Lemma set_idx_ok {A} (l : list A) i a : 0 <= i < len l -> exists l', set_idx l i a = Ok l' /\ len l' = len l.
Proof.
  intros H. unfold set_idx. destruct (i <? 0) eqn:E1; [lia|]. destruct (len l <=? i) eqn:E2; [lia|].
  cbn [orb]. eexists; split; [reflexivity|].
  unfold len in *. rewrite app_length, firstn_length. cbn [length]. rewrite skipn_length. lia.
Qed.

Lemma otlp_kv_ok kv : is_ok (otlp_kv kv).
Proof.
  unfold otlp_kv. cbv zeta. destruct (index_of_range c_colon kv) as [->|H]; [apply ok_is_ok|].
  destruct (index_of c_colon kv =? -1) eqn:E; [apply ok_is_ok|].
  destruct (slice_to_ok kv (index_of c_colon kv)) as [a ->]; [lia|].
  destruct (slice_from_ok kv (index_of c_colon kv + 1)) as [b ->]; [lia|]. apply ok_is_ok.
Qed.

Definition split_inv (L : Z) (t : Z) (st : list str * Z) : Prop := len (fst st) = L /\ 0 <= snd st <= t.

Lemma split_inner_ok key L t st :
  split_inv L t st -> 0 <= t < L -> exists st', split_inner key st t = Ok st' /\ split_inv L (t + 1) st'.
Proof.
  destruct st as [tags split]. unfold split_inv; cbn [fst snd]. intros [Hl Hs] Ht. unfold split_inner.
  destruct (idx_ok tags t) as [x ->]; [lia|]. cbn [bind].
  destruct (has_prefix (key ++ [c_colon]) x).
  - destruct (idx_ok tags split) as [y ->]; [lia|]. cbn [bind].
    destruct (set_idx_ok tags split x) as (t1 & -> & L1); [lia|]. cbn [bind].
    destruct (set_idx_ok t1 t y) as (t2 & -> & L2); [lia|]. cbn [bind].
    eexists; split; [reflexivity|]. cbn [fst snd]. lia.
  - eexists; split; [reflexivity|]. cbn [fst snd]. lia.
Qed.

Lemma split_range_ok key L k : forall t st,
  t + Z.of_nat k = L -> 0 <= t -> split_inv L t st ->
  exists st', foldM (split_inner key) st (map (fun i => t + Z.of_nat i) (seq 0 k)) = Ok st' /\ split_inv L L st'.
Proof.
  induction k as [|k IH]; intros t st Ht Ht0 Hst.
  - cbn [seq map foldM]. assert (t = L) by lia. subst t. exists st. split; [reflexivity|exact Hst].
  - cbn [seq map foldM]. replace (t + Z.of_nat 0) with t by lia.
    destruct (split_inner_ok key L t st Hst ltac:(lia)) as (st1 & -> & H1). cbn [bind].
    rewrite <- seq_shift, map_map.
    destruct (IH (t + 1) st1 ltac:(lia) ltac:(lia) H1) as (st' & Hst' & Hinv).
    exists st'. split; [|exact Hinv]. rewrite <- Hst'. f_equal. apply map_ext. intros i. lia.
Qed.

Lemma split_outer_ok L st key :
  len (fst st) = L /\ 0 <= snd st <= L ->
  exists st', split_outer st key = Ok st' /\ (len (fst st') = L /\ 0 <= snd st' <= L).
Proof.
  intros [Hl Hs]. unfold split_outer, zrange. rewrite Hl.
  destruct (split_range_ok key L (Z.to_nat (L - snd st)) (snd st) st) as (st' & H & Hinv); [lia|lia|split; [exact Hl|lia]|].
  exists st'. split; [exact H|exact Hinv].
Qed.

Lemma split_tags_by_keys_ok tags keys : is_ok (split_tags_by_keys tags keys).
Proof.
  unfold split_tags_by_keys.
  assert (exists st, (if negb (len keys =? 0) && negb (len tags =? 0)
                      then foldM split_outer (tags, 0) keys else Ok (tags, 0)) = Ok st
                     /\ (len (fst st) = len tags /\ 0 <= snd st <= len tags)) as (st & -> & Hl & Hs).
  { pose proof (len_nonneg tags).
    destruct (negb (len keys =? 0) && negb (len tags =? 0)); [|eexists; split; [reflexivity|cbn; lia]].
    apply (foldM_inv split_outer (fun st => len (fst st) = len tags /\ 0 <= snd st <= len tags)).
    - intros s k _ Hs. apply split_outer_ok; exact Hs.
    - cbn; lia. }
  cbn [bind]. destruct (slice_to_ok (fst st) (snd st)) as [a ->]; [lia|].
  destruct (slice_from_ok (fst st) (snd st)) as [b ->]; [lia|]. apply ok_is_ok.
Qed.

Lemma otlp_tags_ok keys src tags : is_ok (otlp_tags keys src tags).
Proof.
  unfold otlp_tags, otlp_host_tags. destruct (tags_exists_ok (bs "host") tags) as [ex ->]. cbn [bind].
  assert (forall tg, is_ok (let! ab := split_tags_by_keys tg keys in let! _ := each otlp_kv (fst ab) in each otlp_kv (snd ab))) as H.
  { intros tg. destruct (split_tags_by_keys_ok tg keys) as [ab ->]. cbn [bind].
    destruct (each_ok otlp_kv (fst ab)) as [u ->]; [intros; apply otlp_kv_ok|]. cbn [bind].
    apply each_ok; intros; apply otlp_kv_ok. }
  destruct (negb ex && negb (len src =? 0)); cbn [bind]; apply H.
Qed.

Lemma group_insert_ok batch bs : 1 <= len bs -> exists bs', group_insert batch bs = Ok bs' /\ 1 <= len bs'.
Proof.
  intros H. unfold group_insert. destruct (idx_ok bs (len bs - 1)) as [cur ->]; [lia|]. cbn [bind].
  destruct (set_idx_ok bs (len bs - 1) (cur + 1)) as (bs' & -> & L); [lia|]. cbn [bind].
  destruct (batch <=? cur + 1); eexists; (split; [reflexivity|]); [rewrite len_app; change (len [0]) with 1; lia|lia].
Qed.
Lemma group_inserts_ok k batch : forall bs, 1 <= len bs -> exists bs', group_inserts k batch bs = Ok bs' /\ 1 <= len bs'.
Proof.
  induction k as [|k IH]; intros bs H; cbn [group_inserts]; [eauto|].
  destruct (group_insert_ok batch bs H) as (b1 & -> & H1). cbn [bind]. apply IH; exact H1.
Qed.

(* the sorted bucket bounds end with the single +Inf *)
Definition nonpinf (b : bound) : Prop := is_pinf b = false.
Definition cnt (l : list bound) : nat := length (filter is_pinf l).

Lemma pinf_count_cnt h : pinf_count h = cnt (map fst h).
Proof. unfold pinf_count, cnt. induction h as [|e r IH]; [reflexivity|]. cbn [map filter]. destruct (is_pinf (fst e)); cbn [length]; rewrite IH; reflexivity. Qed.

Lemma bound_leb_pinf_r x : bound_leb x BPInf = true.
Proof. destruct x; cbn; try reflexivity. Qed.
Lemma bound_leb_pinf_l y : nonpinf y -> bound_leb BPInf y = false.
Proof. destruct y; cbn; try reflexivity; discriminate. Qed.

Lemma insert_len x l : len (bound_insert x l) = 1 + len l.
Proof. induction l as [|y r IH]; cbn [bound_insert]; [reflexivity|]. destruct (bound_leb x y); rewrite !len_cons; [reflexivity|rewrite IH; lia]. Qed.
Lemma sort_len l : len (bound_sort l) = len l.
Proof. induction l as [|x r IH]; [reflexivity|]. cbn [bound_sort fold_right]. fold (bound_sort r). rewrite insert_len, len_cons, IH; reflexivity. Qed.

Lemma insert_nonpinf x l : nonpinf x -> Forall nonpinf l -> Forall nonpinf (bound_insert x l).
Proof.
  intros Hx. induction l as [|y r IH]; intros H; cbn [bound_insert]; [repeat constructor; exact Hx|].
  inversion H; subst. destruct (bound_leb x y); constructor; auto.
Qed.
Lemma insert_pinf l : Forall nonpinf l -> bound_insert BPInf l = l ++ [BPInf].
Proof.
  induction l as [|y r IH]; intros H; cbn [bound_insert]; [reflexivity|].
  inversion H; subst. rewrite bound_leb_pinf_l by assumption. rewrite IH by assumption. reflexivity.
Qed.
Lemma insert_before_pinf x l : nonpinf x -> Forall nonpinf l ->
  exists l', bound_insert x (l ++ [BPInf]) = l' ++ [BPInf] /\ Forall nonpinf l'.
Proof.
  intros Hx. induction l as [|y r IH]; intros H; cbn [bound_insert app].
  - rewrite bound_leb_pinf_r. exists [x]. split; [reflexivity|repeat constructor; exact Hx].
  - inversion H; subst. destruct (bound_leb x y).
    + exists (x :: y :: r). split; [reflexivity|]. constructor; [exact Hx|exact H].
    + destruct (IH ltac:(assumption)) as (l' & -> & Hl'). exists (y :: l'). split; [reflexivity|constructor; assumption].
Qed.

Lemma sort_cnt0 l : cnt l = 0%nat -> Forall nonpinf (bound_sort l).
Proof.
  unfold cnt. induction l as [|x r IH]; intros H; [constructor|]. cbn [bound_sort fold_right]. fold (bound_sort r).
  cbn [filter] in H. destruct (is_pinf x) eqn:E; [discriminate H|]. apply insert_nonpinf; [exact E|apply IH; exact H].
Qed.
Lemma sort_cnt1 l : cnt l = 1%nat -> exists l', bound_sort l = l' ++ [BPInf] /\ Forall nonpinf l'.
Proof.
  unfold cnt. induction l as [|x r IH]; intros H; [discriminate H|]. cbn [bound_sort fold_right]. fold (bound_sort r).
  cbn [filter] in H. destruct (is_pinf x) eqn:E.
  - destruct x; try discriminate E. cbn [length] in H. injection H as H.
    exists (bound_sort r). split; [apply insert_pinf|]; apply sort_cnt0; exact H.
  - destruct (IH H) as (l' & -> & Hl'). apply insert_before_pinf; assumption.
Qed.

Lemma otlp_buckets_ok h : h <> [] -> pinf_count h = 1%nat -> is_ok (otlp_buckets h).
Proof.
  intros Hne Hc. unfold otlp_buckets. cbv zeta.
  assert (1 <= len h) by (destruct h; [congruence|rewrite len_cons; pose proof (len_nonneg h); lia]).
  unfold make_len. destruct (len h <? 0) eqn:E1; [lia|]. destruct (len h - 1 <? 0) eqn:E2; [lia|]. cbn [bind].
  rewrite pinf_count_cnt in Hc. destruct (sort_cnt1 _ Hc) as (l' & Hs & Hl').
  pose proof (sort_len (map fst h)) as SL. rewrite Hs in SL. rewrite len_app in SL. change (len [BPInf]) with 1 in SL.
  assert (len (map fst h) = len h) as ML by (unfold len; rewrite map_length; reflexivity).
  rewrite Hs.
  assert (forall l i, Forall nonpinf l -> 0 <= i -> i + len l = len h - 1 ->
            is_ok (let! _ := foldM (fun i b => let! _ := idx_len (len h) i in
                                 let! _ := (if is_pinf b then Ok tt else idx_len (len h - 1) i) in Ok (i + 1)) i (l ++ [BPInf]) in Ok tt)) as G.
  { induction l as [|b r IH]; intros i Hl Hi Hlen.
    - rewrite len_nil in Hlen. cbn [app foldM]. unfold idx_len.
      destruct (i <? 0) eqn:F1; [lia|]. destruct (len h <=? i) eqn:F2; [lia|]. cbn. apply ok_is_ok.
    - rewrite len_cons in Hlen. pose proof (len_nonneg r). inversion Hl as [|? ? Hb Hr]; subst.
      cbn [app foldM]. unfold idx_len at 1 2. unfold nonpinf in Hb. rewrite Hb.
      destruct (i <? 0) eqn:F1; [lia|]. destruct (len h <=? i) eqn:F2; [lia|]. destruct (len h - 1 <=? i) eqn:F3; [lia|].
      cbn [orb bind]. apply IH; [exact Hr|lia|lia]. }
  apply G; [exact Hl'|lia|lia].
Qed.

Lemma otlp_timer_ok as_hist m t : rtimer_ok t -> exists k, otlp_timer false as_hist m t = Ok k /\ 0 <= k.
Proof.
  intros (_ & Hh & Hn). unfold otlp_timer. destruct as_hist.
  - unfold otlp_statistics. cbn [negb andb].
    assert (is_ok (if rt_nvalues t =? 0 then Ok tt else let! _ := idx_len (rt_nvalues t) 0 in idx_len (rt_nvalues t) (rt_nvalues t - 1))) as [u ->].
    { destruct (rt_nvalues t =? 0) eqn:E; [apply ok_is_ok|]. unfold idx_len.
      destruct (0 <? 0) eqn:F1; [lia|]. destruct (rt_nvalues t <=? 0) eqn:F2; [lia|].
      destruct (rt_nvalues t - 1 <? 0) eqn:F3; [lia|]. destruct (rt_nvalues t <=? rt_nvalues t - 1) eqn:F4; [lia|]. cbn. apply ok_is_ok. }
    cbn [bind]. destruct (rt_hist t) as [|[|e l]]; cbn [bind]; try (eexists; split; [reflexivity|lia]).
    destruct Hh as [Hh|Hh]; [discriminate Hh|]. destruct (otlp_buckets_ok (e :: l)) as [u' ->]; [discriminate|exact Hh|].
    cbn [bind]. eexists; split; [reflexivity|lia].
  - assert (0 <= hist_len (rt_hist t)) by (destruct (rt_hist t); cbn; [lia|apply len_nonneg]).
    destruct (negb (hist_len (rt_hist t) =? 0)); eexists; (split; [reflexivity|]); [assumption|].
    unfold n_enabled. pose proof (len_nonneg (filter (fun b => b) (enabled m))). pose proof (len_nonneg (rt_pcts t)). lia.
Qed.

Theorem otlp_payload_ok as_hist m keys batch r : Reported r -> 1 <= batch -> is_ok (otlp_payload false as_hist m keys batch r).
Proof.
  intros HR Hb. unfold otlp_payload.
  destruct (foldM_inv (fun g o => let! _ := otlp_tags keys (o_src o) (o_tags o) in
                                  group_inserts (if o_counter o then 2 else 1) batch g)
              (fun g => 1 <= len g) (r_others r)) with (s := [0]) as (g1 & -> & Hg1).
  { intros g o _ Hg. destruct (otlp_tags_ok keys (o_src o) (o_tags o)) as [u ->]. cbn [bind]. apply group_inserts_ok; exact Hg. }
  { rewrite len_cons, len_nil; lia. }
  cbn [bind].
  destruct (foldM_inv (fun g t => let! _ := otlp_tags keys (rt_src t) (rt_tags t) in
                                  let! k := otlp_timer false as_hist m t in group_inserts (Z.to_nat k) batch g)
              (fun g => 1 <= len g) (r_timers r)) with (s := g1) as (g2 & -> & Hg2); [| exact Hg1 | apply ok_is_ok].
  intros g t Hin Hg. destruct (otlp_tags_ok keys (rt_src t) (rt_tags t)) as [u ->]. cbn [bind].
  unfold Reported in HR. rewrite Forall_forall in HR.
  destruct (otlp_timer_ok as_hist m t (HR t Hin)) as (k & -> & _). cbn [bind]. apply group_inserts_ok; exact Hg.
Qed.

(* ---------------------------------------------------------------------------------------- *)
(* CloudWatch *)

Lemma cw_batches_done length : forall fuel start acc,
  0 <= start <= length -> length - start <= Z.of_nat fuel ->
  exists sizes, cw_batches fuel length start acc = Ok (Done sizes).
Proof.
  induction fuel as [|f IH]; intros start acc Hs Hf; cbn [cw_batches].
  - destruct (start <? length) eqn:E; [lia|]. eauto.
  - destruct (start <? length) eqn:E; [|eauto].
    set (e := if length <? start + 20 then length else start + 20).
    assert (He : start < e <= length) by (unfold e; destruct (length <? start + 20) eqn:E2; lia).
    destruct (e <=? start) eqn:E3; [lia|].
    unfold slice_range. assert (len (repeat tt (Z.to_nat length)) = length) as -> by (unfold len; rewrite repeat_length; lia).
    destruct (start <? 0) eqn:F1; [lia|]. destruct (e <? start) eqn:F2; [lia|]. destruct (length <? e) eqn:F3; [lia|].
    cbn [orb bind]. apply IH; lia.
Qed.

Lemma sumM_nonneg {A} (f : A -> outcome Z) l :
  (forall a, In a l -> exists k, f a = Ok k /\ 0 <= k) -> exists n, sumM f l = Ok n /\ 0 <= n.
Proof.
  intros H. unfold sumM. apply (foldM_inv _ (fun z => 0 <= z)); [|lia].
  intros z a Hin Hz. destruct (H a Hin) as (k & -> & Hk). cbn [bind]. eexists; split; [reflexivity|lia].
Qed.

(* the loop ends (fuel = number of datums is enough) and no slice is out of range *)
Theorem cw_payload_ok m r : exists sizes, cw_payload m r = Ok (Done sizes).
Proof.
  unfold cw_payload.
  destruct (sumM_nonneg (fun o => let! _ := cw_dims (o_tags o) in Ok (if o_counter o then 2 else 1)) (r_others r)) as (a & -> & Ha).
  { intros o _. destruct (cw_dims_ok (o_tags o)) as [d ->]. cbn [bind]. eexists; split; [reflexivity|destruct (o_counter o); lia]. }
  cbn [bind].
  destruct (sumM_nonneg (cw_timer m) (r_timers r)) as (b & -> & Hb).
  { intros t _. unfold cw_timer. destruct (rt_hist t) as [|h].
    - destruct (cw_dims_ok (rt_tags t)) as [d ->]. cbn [bind]. eexists; split; [reflexivity|].
      unfold n_enabled. pose proof (len_nonneg (filter (fun b => b) (enabled m))). pose proof (len_nonneg (rt_pcts t)). lia.
    - destruct (each_ok (fun _ : bound * Z => let! _ := cw_dims (rt_tags t ++ [bs "le:"]) in Ok tt) h) as [u ->].
      { intros _ _. destruct (cw_dims_ok (rt_tags t ++ [bs "le:"])) as [d ->]. apply ok_is_ok. }
      cbn [bind]. eexists; split; [reflexivity|apply len_nonneg]. }
  cbn [bind]. cbv zeta. destruct (a + b <? 1) eqn:E; [eauto|].
  apply cw_batches_done; lia.
Qed.
