(* The LTS half of C18: one inductive invariant of Model/Ticker.v's transition system, and the
   statements about every label sequence (every interleaving of clock advancements, atomic
   actions of the ticker goroutine and reads of the consumer) that follow from it. *)
From Coq Require Import ZArith List Bool Lia Sorted.
From GS Require Import Base.LTS Model.Ticker Proofs.Ticker.
Import ListNotations.
Local Open Scope Z_scope.

Arguments Z.mul : simpl never.
Arguments Z.add : simpl never.
Arguments Z.sub : simpl never.
Arguments Z.modulo : simpl never.
Arguments Z.div : simpl never.
Arguments idx : simpl never.

(* ---------------------------------------------------------------------------------------- *)
(* More arithmetic on period indices *)

Lemma idx_round_tick i o v : 0 < i -> idx i o (round_tick v i o) = idx i o v.
Proof. intros Hi; rewrite round_tick_idx by exact Hi; apply idx_of_boundary; exact Hi. Qed.

Lemma idx_succ i o t : 0 < i -> idx i o (t + i) = idx i o t + 1.
Proof. intros Hi. replace (t + i) with (t + 1 * i) by lia. apply idx_shift; exact Hi. Qed.

(* two boundaries are ordered as their indices, and differ by (difference of indices) * i *)
Lemma boundary_lt i o a b :
  0 < i -> on_boundary i o a -> on_boundary i o b -> idx i o a < idx i o b -> a < b.
Proof.
  intros Hi Ha Hb Hlt. apply on_boundary_iff in Ha; [|exact Hi]. apply on_boundary_iff in Hb; [|exact Hi]. nia.
Qed.

Lemma boundary_diff i o a b :
  0 < i -> on_boundary i o a -> on_boundary i o b -> b - a = (idx i o b - idx i o a) * i.
Proof.
  intros Hi Ha Hb. apply on_boundary_iff in Ha; [|exact Hi]. apply on_boundary_iff in Hb; [|exact Hi]. nia.
Qed.

Lemma boundary_idx_lt i o a b :
  0 < i -> on_boundary i o a -> on_boundary i o b -> a < b -> idx i o a < idx i o b.
Proof.
  intros Hi Ha Hb Hlt. apply on_boundary_iff in Ha; [|exact Hi]. apply on_boundary_iff in Hb; [|exact Hi]. nia.
Qed.

(* the mock clock's re-arm: the new deadline is k >= 1 periods after the old one and beyond
   the new time *)
Lemma rearm_spec i N n :
  0 < i -> N <= n -> 1 <= (n - N) / i + 1 /\ n < N + ((n - N) / i + 1) * i.
Proof.
  intros Hi Hle.
  pose proof (Z.div_pos (n - N) i ltac:(lia) Hi).
  pose proof (Z.div_mod (n - N) i ltac:(lia)). pose proof (Z.mod_pos_bound (n - N) i Hi).
  split; [lia|nia].
Qed.

(* ---------------------------------------------------------------------------------------- *)
(* The invariant *)

Definition olist (x : option Z) : list Z := match x with Some v => [v] | None => [] end.

(* The raw tick values that are in flight, oldest first: the tick of the newest flush, the
   content of C, the tick the goroutine is about to round and send, the content of the mock
   ticker's channel, the mock ticker's next deadline. *)
Definition chain (s : state) : list Z :=
  match flushes s with f :: _ => [f_tick f] | [] => [] end
  ++ olist (cch s)
  ++ match g s with GSending v => [v] | _ => [] end
  ++ olist (tkc s)
  ++ match mt s with MTicker N => [N] | _ => [] end.

Fixpoint incr (l : list Z) : Prop :=
  match l with
  | x :: ((y :: _) as r) => x < y /\ incr r
  | _ => True
  end.

(* the flush history, newest first *)
Fixpoint fl_ok (i o : Z) (fs : list flush) : Prop :=
  match fs with
  | [] => True
  | f :: r =>
      on_boundary i o (f_tick f) /\ f_tick f <= f_at f
      /\ match r with
         | [] => True
         | p :: _ => f_tick p < f_tick f /\ f_delta f = time_sub (f_tick f) (f_tick p)
         end
      /\ fl_ok i o r
  end.

Definition phase1 (x : gor) : bool :=
  match x with GInit | GComputed _ | GWaitTimer | GGotTimer _ => true | _ => false end.

Definition is_ticker (m : mtimer) : bool := match m with MTicker _ => true | _ => false end.

Record Inv (i o : Z) (s : state) : Prop := {
  (* the period indices of everything in flight strictly increase from old to new *)
  inv_chain : incr (map (idx i o) (chain s));
  inv_flushes : fl_ok i o (flushes s);
  inv_last : match flushes s with f :: _ => last s = f_tick f | [] => True end;
  inv_cch : forall x, cch s = Some x -> on_boundary i o x /\ x <= now s;
  inv_tkc : forall v, tkc s = Some v -> v <= now s;
  inv_tmc : forall v, tmc s = Some v -> v <= now s;
  inv_g : match g s with GGotTimer v | GSending v => v <= now s | _ => True end;
  inv_mt : match mt s with MTicker N => now s < N | _ => True end;
  inv_phase : phase1 (g s) = true ->
              cch s = None /\ tkc s = None /\ flushes s = [] /\ is_ticker (mt s) = false
}.

Lemma Inv_init i o start wall0 : Inv i o (init start wall0).
Proof. constructor; cbn; try easy. Qed.

Ltac inv_facts HI :=
  let a := fresh "Hchain" in let b := fresh "Hfl" in let c := fresh "Hlast" in
  let d := fresh "Hcch" in let e := fresh "Htkc" in let f := fresh "Htmc" in
  let h := fresh "Hg" in let j := fresh "Hmt" in let k := fresh "Hph" in
  destruct HI as [a b c d e f h j k]; cbn in a, b, c, d, e, f, h, j, k.

Lemma Inv_advance i o s d s' : 0 < i -> Inv i o s -> advance i s d = Some s' -> Inv i o s'.
Proof.
  intros Hi HI Hs. destruct s as [n gg m tm tk c l fs st ar ta].
  unfold advance in Hs; cbn [now mt g tmc tkc cch last flushes started armed ticker_at] in Hs.
  destruct (Z.ltb_spec d 0) as [|Hd]; [discriminate|].
  inv_facts HI.
  assert (Hc' : forall x, c = Some x -> on_boundary i o x /\ x <= n + d)
    by (intros x Hx; destruct (Hcch x Hx); split; [assumption|lia]).
  assert (Hk' : forall v, tk = Some v -> v <= n + d) by (intros v Hv; specialize (Htkc v Hv); lia).
  assert (Hm' : forall v, tm = Some v -> v <= n + d) by (intros v Hv; specialize (Htmc v Hv); lia).
  assert (Hg' : match gg with GGotTimer v | GSending v => v <= n + d | _ => True end)
    by (destruct gg; trivial; lia).
  destruct m as [|D|N].
  - injection Hs as <-. constructor; cbn; assumption.
  - destruct (Z.leb_spec D (n + d)) as [HD|HD]; injection Hs as <-.
    + constructor; cbn; try assumption.
      intros v Hv. destruct tm as [x|]; cbn in Hv; injection Hv as <-; [apply Hm'; reflexivity|lia].
    + constructor; cbn; assumption.
  - destruct (Z.leb_spec N (n + d)) as [HN|HN]; injection Hs as <-.
    + destruct (rearm_spec i N (n + d) Hi HN) as [Hk1 Hk2].
      set (k := (n + d - N) / i + 1) in *.
      constructor; cbn; try assumption.
      * (* chain *)
        unfold chain in *; cbn in *. rewrite !map_app in *; cbn.
        rewrite idx_shift by exact Hi.
        destruct fs as [|f fs], c as [x|], tk as [y|]; destruct gg; cbn in *; lia.
      * intros v Hv. destruct tk as [y|]; cbn in Hv; injection Hv as <-; [apply Hk'; reflexivity|lia].
      * intros Hp. destruct (Hph Hp) as (_ & _ & _ & Hf). discriminate Hf.
    + constructor; cbn; assumption.
Qed.
