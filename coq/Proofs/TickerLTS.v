(* The LTS half of C18: one inductive invariant of Model/Ticker.v's transition system, and the
   statements about every label sequence (every interleaving of clock advancements, atomic
   actions of the ticker goroutine and reads of the consumer) that follow from it. *)
From Coq Require Import ZArith List Bool Lia Sorted.
From GS Require Import Base.LTS Model.Ticker Proofs.Ticker.
Import ListNotations.
Local Open Scope Z_scope.

Arguments Z.mul : simpl never.
Arguments Z.add : simpl never.
Arguments Z.sub : simpl never.
Arguments Z.modulo : simpl never.
Arguments Z.div : simpl never.
Arguments idx : simpl never.

(* ---------------------------------------------------------------------------------------- *)
(* More arithmetic on period indices *)

Lemma idx_round_tick i o v : 0 < i -> idx i o (round_tick v i o) = idx i o v.
Proof. intros Hi; rewrite round_tick_idx by exact Hi; apply idx_of_boundary; exact Hi. Qed.

Lemma idx_succ i o t : 0 < i -> idx i o (t + i) = idx i o t + 1.
Proof. intros Hi. replace (t + i) with (t + 1 * i) by lia. apply idx_shift; exact Hi. Qed.

(* two boundaries are ordered as their indices, and differ by (difference of indices) * i *)
Lemma boundary_lt i o a b :
  0 < i -> on_boundary i o a -> on_boundary i o b -> idx i o a < idx i o b -> a < b.
Proof.
  intros Hi Ha Hb Hlt. apply on_boundary_iff in Ha; [|exact Hi]. apply on_boundary_iff in Hb; [|exact Hi]. nia.
Qed.

Lemma boundary_diff i o a b :
  0 < i -> on_boundary i o a -> on_boundary i o b -> b - a = (idx i o b - idx i o a) * i.
Proof.
  intros Hi Ha Hb. apply on_boundary_iff in Ha; [|exact Hi]. apply on_boundary_iff in Hb; [|exact Hi]. nia.
Qed.

Lemma boundary_idx_lt i o a b :
  0 < i -> on_boundary i o a -> on_boundary i o b -> a < b -> idx i o a < idx i o b.
Proof.
  intros Hi Ha Hb Hlt. apply on_boundary_iff in Ha; [|exact Hi]. apply on_boundary_iff in Hb; [|exact Hi]. nia.
Qed.

(* the mock clock's re-arm: the new deadline is k >= 1 periods after the old one and beyond
   the new time *)
Lemma rearm_spec i N n :
  0 < i -> N <= n -> 1 <= (n - N) / i + 1 /\ n < N + ((n - N) / i + 1) * i.
Proof.
  intros Hi Hle.
  pose proof (Z.div_pos (n - N) i ltac:(lia) Hi).
  pose proof (Z.div_mod (n - N) i ltac:(lia)). pose proof (Z.mod_pos_bound (n - N) i Hi).
  split; [lia|nia].
Qed.

(* ---------------------------------------------------------------------------------------- *)
(* The invariant *)

Definition olist (x : option Z) : list Z := match x with Some v => [v] | None => [] end.

(* The raw tick values that are in flight, oldest first: the tick of the newest flush, the
   content of C, the tick the goroutine is about to round and send, the content of the mock
   ticker's channel, the mock ticker's next deadline. *)
Definition chain (s : state) : list Z :=
  match flushes s with f :: _ => [f_tick f] | [] => [] end
  ++ olist (cch s)
  ++ match g s with GSending v => [v] | _ => [] end
  ++ olist (tkc s)
  ++ match mt s with MTicker N => [N] | _ => [] end.

Fixpoint incr (l : list Z) : Prop :=
  match l with
  | x :: ((y :: _) as r) => x < y /\ incr r
  | _ => True
  end.

(* the flush history, newest first *)
Fixpoint fl_ok (i o : Z) (fs : list flush) : Prop :=
  match fs with
  | [] => True
  | f :: r =>
      on_boundary i o (f_tick f) /\ f_tick f <= f_at f
      /\ match r with
         | [] => True
         | p :: _ => f_tick p < f_tick f /\ f_delta f = time_sub (f_tick f) (f_tick p)
         end
      /\ fl_ok i o r
  end.

Definition phase1 (x : gor) : bool :=
  match x with GInit | GComputed _ | GWaitTimer | GGotTimer _ => true | _ => false end.

Definition is_ticker (m : mtimer) : bool := match m with MTicker _ => true | _ => false end.

Record Inv (i o : Z) (s : state) : Prop := {
  (* the period indices of everything in flight strictly increase from old to new *)
  inv_chain : incr (map (idx i o) (chain s));
  inv_flushes : fl_ok i o (flushes s);
  inv_last : match flushes s with f :: _ => last s = f_tick f | [] => True end;
  inv_cch : forall x, cch s = Some x -> on_boundary i o x /\ x <= now s;
  inv_tkc : forall v, tkc s = Some v -> v <= now s;
  inv_tmc : forall v, tmc s = Some v -> v <= now s;
  inv_g : match g s with GGotTimer v | GSending v => v <= now s | _ => True end;
  inv_mt : match mt s with MTicker N => now s < N | _ => True end;
  inv_phase : phase1 (g s) = true ->
              cch s = None /\ tkc s = None /\ flushes s = [] /\ is_ticker (mt s) = false
}.

Lemma Inv_init i o start wall0 : Inv i o (init start wall0).
Proof. constructor; cbn; try easy. Qed.

Ltac inv_facts HI :=
  let a := fresh "Hchain" in let b := fresh "Hfl" in let c := fresh "Hlast" in
  let d := fresh "Hcch" in let e := fresh "Htkc" in let f := fresh "Htmc" in
  let h := fresh "Hg" in let j := fresh "Hmt" in let k := fresh "Hph" in
  destruct HI as [a b c d e f h j k]; cbn in a, b, c, d, e, f, h, j, k.

Lemma Inv_advance i o s d s' : 0 < i -> Inv i o s -> advance i s d = Some s' -> Inv i o s'.
Proof.
  intros Hi HI Hs. destruct s as [n gg m tm tk c l fs st ar ta].
  unfold advance in Hs; cbn [now mt g tmc tkc cch last flushes started armed ticker_at] in Hs.
  destruct (Z.ltb_spec d 0) as [|Hd]; [discriminate|].
  inv_facts HI.
  assert (Hc' : forall x, c = Some x -> on_boundary i o x /\ x <= n + d)
    by (intros x Hx; destruct (Hcch x Hx); split; [assumption|lia]).
  assert (Hk' : forall v, tk = Some v -> v <= n + d) by (intros v Hv; specialize (Htkc v Hv); lia).
  assert (Hm' : forall v, tm = Some v -> v <= n + d) by (intros v Hv; specialize (Htmc v Hv); lia).
  assert (Hg' : match gg with GGotTimer v | GSending v => v <= n + d | _ => True end)
    by (destruct gg; trivial; lia).
  destruct m as [|D|N].
  - injection Hs as <-. constructor; cbn; assumption.
  - destruct (Z.leb_spec D (n + d)) as [HD|HD]; injection Hs as <-.
    + constructor; cbn; try assumption.
      intros v Hv. destruct tm as [x|]; cbn in Hv; injection Hv as <-; [apply Hm'; reflexivity|lia].
    + constructor; cbn; assumption.
  - destruct (Z.leb_spec N (n + d)) as [HN|HN]; injection Hs as <-.
    + destruct (rearm_spec i N (n + d) Hi HN) as [Hk1 Hk2].
      set (k := (n + d - N) / i + 1) in *.
      constructor; cbn; try assumption.
      * (* chain *)
        unfold chain in *; cbn in *. rewrite !map_app in *; cbn.
        rewrite idx_shift by exact Hi.
        destruct fs as [|f fs], c as [x|], tk as [y|]; destruct gg; cbn in *; lia.
      * intros v Hv. destruct tk as [y|]; cbn in Hv; injection Hv as <-; [apply Hk'; reflexivity|lia].
      * intros Hp. destruct (Hph Hp) as (_ & _ & _ & Hf). discriminate Hf.
    + constructor; cbn; assumption.
Qed.

Lemma Inv_tick i o s s' : 0 < i -> Inv i o s -> tick i o s = Some s' -> Inv i o s'.
Proof.
  intros Hi HI Hs. destruct s as [n gg m tm tk c l fs st ar ta].
  unfold tick in Hs; cbn [now mt g tmc tkc cch last flushes started armed ticker_at] in Hs.
  inv_facts HI.
  destruct gg as [|w| |v|v| |].
  - (* GInit *)
    injection Hs as <-. destruct (Hph eq_refl) as (-> & -> & -> & Hf).
    constructor; cbn; easy.
  - (* GComputed *)
    destruct (Hph eq_refl) as (-> & -> & -> & Hf).
    destruct (Z.leb_spec (n + w) n) as [HD|HD]; injection Hs as <-.
    + constructor; cbn; try easy.
      intros v Hv. destruct tm as [x|]; cbn in Hv; injection Hv as <-; [apply Htmc; reflexivity|lia].
    + constructor; cbn; easy.
  - (* GWaitTimer *)
    destruct tm as [v|]; [|discriminate]. injection Hs as <-.
    destruct (Hph eq_refl) as (-> & -> & -> & Hf).
    constructor; cbn; try easy.
    apply Htmc; reflexivity.
  - (* GGotTimer: NewTicker *)
    destruct (Z.leb_spec i 0) as [|_]; [lia|]. injection Hs as <-.
    destruct (Hph eq_refl) as (-> & -> & -> & Hf).
    constructor; cbn; try easy; try lia.
    unfold chain; cbn. rewrite idx_succ by exact Hi.
    pose proof (idx_mono i o v n Hi Hg). lia.
  - (* GSending: sendTick *)
    injection Hs as <-.
    destruct (round_tick_aligned v i o Hi) as [Hb Hr].
    constructor; cbn; try easy.
    + unfold chain in *; cbn in *.
      destruct c as [x|]; cbn.
      * destruct fs as [|f fs], tk as [y|], m as [|D|N]; cbn in *; lia.
      * destruct fs as [|f fs]; cbn in *; rewrite idx_round_tick by exact Hi.
        all: destruct tk as [y|], m as [|D|N]; cbn in *; lia.
    + intros x Hx. destruct c as [y|]; cbn in Hx; injection Hx as <-; [apply Hcch; reflexivity|].
      split; [exact Hb|lia].
  - (* GWaitTicker *)
    destruct tk as [v|]; [|discriminate]. injection Hs as <-.
    constructor; cbn; try easy.
    apply Htkc; reflexivity.
  - discriminate.
Qed.

Lemma Inv_consume i o s s' : 0 < i -> Inv i o s -> consume s = Some s' -> Inv i o s'.
Proof.
  intros Hi HI Hs. destruct s as [n gg m tm tk c l fs st ar ta].
  unfold consume in Hs; cbn [now mt g tmc tkc cch last flushes started armed ticker_at] in Hs.
  inv_facts HI.
  destruct c as [t|]; [|discriminate]. injection Hs as <-.
  destruct (Hcch t eq_refl) as [Hb Hle].
  assert (Hgg : phase1 gg = false) by (destruct (phase1 gg) eqn:E; [destruct (Hph eq_refl) as (? & _); discriminate|reflexivity]).
  constructor; cbn; try easy.
  - unfold chain in *; cbn in *.
    destruct fs as [|f fs], tk as [y|], m as [|D|N]; destruct gg; cbn in *; lia.
  - repeat split; try assumption.
    destruct fs as [|p fs]; [exact I|].
    destruct Hfl as (Hbp & _). split; [|subst l; reflexivity].
    apply (boundary_lt i o); try assumption.
    unfold chain in Hchain; cbn in Hchain. lia.
  - congruence.
Qed.

Lemma Inv_step i o s l s' : 0 < i -> Inv i o s -> step i o s l = Some s' -> Inv i o s'.
Proof.
  intros Hi HI Hs. destruct l; cbn [step] in Hs.
  - eapply Inv_advance; eassumption.
  - eapply Inv_tick; eassumption.
  - eapply Inv_consume; eassumption.
Qed.

Theorem Inv_run i o start wall0 ls s :
  0 < i -> run (step i o) (init start wall0) ls = Some s -> Inv i o s.
Proof.
  intros Hi Hr.
  apply (invariant_run (step i o) (Inv i o)) with (ls := ls) (s := init start wall0); [|apply Inv_init|exact Hr].
  intros s0 l s1 H0 H1; eapply Inv_step; eassumption.
Qed.

(* ---------------------------------------------------------------------------------------- *)
(* Consequences for the flush history *)

Lemma fl_ok_tail i o f r : fl_ok i o (f :: r) -> fl_ok i o r.
Proof. intros (_ & _ & _ & H); exact H. Qed.

Lemma fl_ok_all i o fs :
  fl_ok i o fs -> forall f, In f fs -> on_boundary i o (f_tick f) /\ f_tick f <= f_at f.
Proof.
  induction fs as [|f r IH]; intros H x Hx; [destruct Hx|].
  destruct Hx as [<-|Hx]; [destruct H as (? & ? & _); split; assumption|].
  apply IH; [eapply fl_ok_tail; exact H|exact Hx].
Qed.

Lemma fl_ok_adjacent i o a f p b :
  fl_ok i o (a ++ f :: p :: b) ->
  on_boundary i o (f_tick p) /\ on_boundary i o (f_tick f) /\ f_tick p < f_tick f
  /\ f_delta f = time_sub (f_tick f) (f_tick p).
Proof.
  induction a as [|x a IH]; intros H.
  - destruct H as (Hf & _ & (Hlt & Hd) & (Hp & _)). repeat split; assumption.
  - apply IH. eapply fl_ok_tail; exact H.
Qed.

Lemma fl_ok_decreasing i o fs :
  fl_ok i o fs -> StronglySorted (fun a b => b < a) (map f_tick fs).
Proof.
  induction fs as [|f r IH]; intros H; cbn [map]; [constructor|].
  pose proof (IH (fl_ok_tail _ _ _ _ H)) as Hr.
  constructor; [exact Hr|].
  destruct r as [|p r']; [constructor|].
  destruct H as (_ & _ & (Hlt & _) & _). cbn [map] in *.
  apply StronglySorted_inv in Hr. destruct Hr as [_ Hall].
  constructor; [exact Hlt|].
  eapply Forall_impl; [|exact Hall]. cbn; intros; lia.
Qed.

Lemma SSorted_snoc (R : Z -> Z -> Prop) l a :
  StronglySorted R l -> Forall (fun x => R x a) l -> StronglySorted R (l ++ [a]).
Proof.
  induction l as [|x l IH]; intros Hs Hf; cbn.
  - repeat constructor.
  - apply StronglySorted_inv in Hs. destruct Hs as [Hs Hx].
    apply Forall_cons_iff in Hf. destruct Hf as [Hxa Hf].
    constructor; [apply IH; assumption|].
    apply Forall_app; split; [exact Hx|constructor; [exact Hxa|constructor]].
Qed.

Lemma SSorted_rev l : StronglySorted (fun a b => b < a) l -> StronglySorted Z.lt (rev l).
Proof.
  induction l as [|x l IH]; intros Hs; cbn; [constructor|].
  apply StronglySorted_inv in Hs. destruct Hs as [Hs Hx].
  apply SSorted_snoc; [apply IH; exact Hs|].
  apply Forall_rev. exact Hx.
Qed.

Lemma fl_ok_increasing i o fs : fl_ok i o fs -> StronglySorted Z.lt (map f_tick (rev fs)).
Proof. intros H. rewrite map_rev. apply SSorted_rev. eapply fl_ok_decreasing; exact H. Qed.

(* ---------------------------------------------------------------------------------------- *)
(* The theorems about every label sequence *)

Section Runs.
  Variables (i o start wall0 : Z) (ls : list label) (s : state).
  Hypothesis Hi : 0 < i.
  Hypothesis Hrun : run (step i o) (init start wall0) ls = Some s.

  Lemma run_flush_aligned :
    forall f, In f (flushes s) -> (f_tick f - o) mod i = 0 /\ f_tick f <= f_at f.
  Proof.
    intros f Hf. pose proof (Inv_run i o start wall0 ls s Hi Hrun) as HI.
    exact (fl_ok_all i o _ (inv_flushes _ _ _ HI) f Hf).
  Qed.

  Lemma run_strictly_increasing : StronglySorted Z.lt (flush_times s).
  Proof.
    pose proof (Inv_run i o start wall0 ls s Hi Hrun) as HI.
    unfold flush_times. eapply fl_ok_increasing. exact (inv_flushes _ _ _ HI).
  Qed.

  Lemma run_delta_multiple :
    forall pre p f post, rev (flushes s) = pre ++ p :: f :: post ->
      exists k, 0 < k /\ f_tick f = f_tick p + k * i
                /\ f_delta f = sat_dur (k * i) /\ (k * i <= max_dur -> f_delta f = k * i).
  Proof.
    intros pre p f post Hrev.
    pose proof (Inv_run i o start wall0 ls s Hi Hrun) as HI.
    pose proof (inv_flushes _ _ _ HI) as Hfl.
    assert (Hfs : flushes s = rev post ++ f :: p :: rev pre).
    { rewrite <- (rev_involutive (flushes s)), Hrev, rev_app_distr. cbn. rewrite <- !app_assoc. reflexivity. }
    rewrite Hfs in Hfl. destruct (fl_ok_adjacent _ _ _ _ _ _ Hfl) as (Hp & Hf & Hlt & Hd).
    pose proof (boundary_diff i o _ _ Hi Hp Hf) as Hdiff.
    pose proof (boundary_idx_lt i o _ _ Hi Hp Hf Hlt) as Hk.
    exists (idx i o (f_tick f) - idx i o (f_tick p)).
    split; [lia|]. split; [lia|].
    unfold time_sub in Hd. rewrite Hdiff in Hd. split; [exact Hd|].
    intros Hmax. rewrite Hd. apply sat_dur_id. unfold min_dur, max_dur in *. nia.
  Qed.
End Runs.

(* ---------------------------------------------------------------------------------------- *)
(* The first flush.  [started s] is the clock reading st that start obtained from clck.Now(),
   [armed s] the clock reading a at its clck.NewTimer call and the wait it passed.  The first
   value ever put on C is the rounded deadline of that timer. *)

Definition first_ok (i o : Z) (s : state) (D0 : Z) : Prop :=
  (forall D, mt s = MTimer D -> D = D0)
  /\ (forall v, tmc s = Some v -> v = D0)
  /\ (forall v, g s = GGotTimer v -> v = D0)
  /\ match flushes s with
     | [] => match cch s with
             | Some x => x = round_tick D0 i o
             | None => match g s with GSending v => v = D0 | GWaitTicker => False | _ => True end
             end
     | _ :: _ => forall f, hd_error (rev (flushes s)) = Some f -> f_tick f = round_tick D0 i o
     end.

Definition Inv2 (i o : Z) (s : state) : Prop :=
  match g s with
  | GInit => tmc s = None /\ mt s = MNone
  | GComputed w =>
      tmc s = None /\ mt s = MNone
      /\ exists st, started s = Some st /\ w = initial_wait st i o /\ st <= now s
  | _ => exists st a, started s = Some st /\ armed s = Some (a, initial_wait st i o) /\ st <= a
                      /\ first_ok i o s (a + initial_wait st i o)
  end.

Lemma hd_error_rev_snoc {A} (y : A) (l l' : list A) :
  hd_error (rev (y :: l) ++ l') = hd_error (rev (y :: l)).
Proof.
  cbn [rev]. destruct (rev l ++ [y]) as [|z r] eqn:E; [|reflexivity].
  apply app_eq_nil in E. destruct E as [_ E]; discriminate.
Qed.

Lemma Inv2_step i o s l s' :
  0 < i <= max_dur -> Inv i o s -> Inv2 i o s -> step i o s l = Some s' -> Inv2 i o s'.
Proof.
  intros Hi HI H2 Hs. destruct s as [n gg m tm tk c l0 fs st ar ta].
  pose proof (inv_phase _ _ _ HI) as Hph. cbn in Hph.
  unfold Inv2, first_ok in *; cbn [now mt g tmc tkc cch last flushes started armed ticker_at] in *.
  destruct l as [d| |]; cbn [step] in Hs.
  - (* Advance *)
    unfold advance in Hs; cbn [now mt g tmc tkc cch last flushes started armed ticker_at] in Hs.
    destruct (Z.ltb_spec d 0) as [|Hd]; [discriminate|].
    destruct gg as [|w| |v|v| |].
    1: { destruct H2 as (-> & ->). injection Hs as <-. cbn. auto. }
    1: { destruct H2 as (-> & -> & x & ? & ? & ?). injection Hs as <-. cbn.
         repeat split; trivial. exists x. repeat split; trivial. lia. }
    all: destruct H2 as (x & a & H1 & H3 & H4 & HmT & Htm & Hgv & Hfirst).
    all: destruct m as [|D|N];
      [ injection Hs as <-
      | destruct (D <=? n + d); injection Hs as <-
      | destruct (N <=? n + d); injection Hs as <- ].
    all: cbn; exists x, a; repeat split; trivial; try discriminate.
    all: try (intros v0 Hv0; destruct tm; cbn in Hv0; injection Hv0 as <-; auto; fail).
  - (* Tick *)
    unfold tick in Hs; cbn [now mt g tmc tkc cch last flushes started armed ticker_at] in Hs.
    destruct gg as [|w| |v|v| |].
    + destruct H2 as (-> & ->). injection Hs as <-. cbn. repeat split; trivial.
      exists n. repeat split; trivial. lia.
    + destruct H2 as (-> & -> & x & -> & -> & Hle).
      destruct (Hph eq_refl) as (-> & -> & -> & _).
      destruct (initial_wait_spec x i o Hi) as [[Hw _] _].
      destruct (Z.leb_spec (n + initial_wait x i o) n) as [HD|HD]; [lia|]. injection Hs as <-.
      cbn. exists x, n. repeat split; trivial; try discriminate. intros D HD0; injection HD0 as <-; reflexivity.
    + destruct H2 as (x & a & H1 & H3 & H4 & HmT & Htm & Hgv & Hfirst).
      destruct tm as [v|]; [|discriminate]. injection Hs as <-.
      destruct (Hph eq_refl) as (-> & -> & -> & _).
      cbn. exists x, a. repeat split; trivial; try discriminate.
      intros v0 Hv0; injection Hv0 as <-. apply Htm; reflexivity.
    + destruct H2 as (x & a & H1 & H3 & H4 & HmT & Htm & Hgv & Hfirst).
      destruct (Z.leb_spec i 0) as [|_]; [lia|]. injection Hs as <-.
      destruct (Hph eq_refl) as (-> & -> & -> & _).
      cbn. exists x, a. repeat split; trivial; try discriminate. apply Hgv; reflexivity.
    + destruct H2 as (x & a & H1 & H3 & H4 & HmT & Htm & Hgv & Hfirst).
      injection Hs as <-. cbn. exists x, a. repeat split; trivial; try discriminate.
      destruct fs as [|f fs]; [|exact Hfirst].
      destruct c as [y|]; cbn; [exact Hfirst|]. rewrite Hfirst; reflexivity.
    + destruct H2 as (x & a & H1 & H3 & H4 & HmT & Htm & Hgv & Hfirst).
      destruct tk as [v|]; [|discriminate]. injection Hs as <-.
      cbn. exists x, a. repeat split; trivial; try discriminate.
      destruct fs as [|f fs]; [|exact Hfirst].
      destruct c as [y|]; [exact Hfirst|destruct Hfirst].
    + discriminate.
  - (* Consume *)
    unfold consume in Hs; cbn [now mt g tmc tkc cch last flushes started armed ticker_at] in Hs.
    destruct c as [t|]; [|discriminate]. injection Hs as <-.
    destruct gg as [|w| |v|v| |]; try (destruct (Hph eq_refl) as (? & _); discriminate).
    all: destruct H2 as (x & a & H1 & H3 & H4 & HmT & Htm & Hgv & Hfirst).
    all: cbn; exists x, a; repeat split; trivial.
    all: destruct fs as [|p fs];
      [ intros f Hf; cbn in Hf; injection Hf as <-; cbn; exact Hfirst
      | intros f Hf; rewrite hd_error_rev_snoc in Hf; apply Hfirst; exact Hf ].
Qed.

Lemma Inv2_init i o start wall0 : Inv2 i o (init start wall0).
Proof. split; reflexivity. Qed.

Lemma Inv12_run i o start wall0 ls s :
  0 < i <= max_dur -> run (step i o) (init start wall0) ls = Some s -> Inv i o s /\ Inv2 i o s.
Proof.
  intros Hi Hr.
  apply (invariant_run (step i o) (fun s => Inv i o s /\ Inv2 i o s)) with (ls := ls) (s := init start wall0);
    [|split; [apply Inv_init|apply Inv2_init]|exact Hr].
  intros s0 l s1 [H0 H0'] H1; split.
  - eapply Inv_step; [lia|eassumption..].
  - eapply Inv2_step; eassumption.
Qed.

Lemma run_first_flush i o start wall0 ls s :
  0 < i <= max_dur ->
  run (step i o) (init start wall0) ls = Some s ->
  forall t0 rest, flush_times s = t0 :: rest ->
    exists st a, started s = Some st /\ armed s = Some (a, initial_wait st i o) /\ st <= a
      /\ t0 = round_tick (a + initial_wait st i o) i o
      /\ st < t0 <= a + i
      /\ (a = st -> t0 = st + initial_wait st i o).
Proof.
  intros Hi Hr t0 rest Hft.
  destruct (Inv12_run i o start wall0 ls s Hi Hr) as [HI H2].
  assert (Hpos : 0 < i) by lia.
  unfold flush_times in Hft.
  destruct (rev (flushes s)) as [|f0 r0] eqn:Erev; [discriminate|].
  cbn [map] in Hft. injection Hft as Ht0 _.
  assert (Hne : exists f fs, flushes s = f :: fs).
  { destruct (flushes s) as [|f fs]; [discriminate|eauto]. }
  destruct Hne as (f & fs & Efs).
  assert (Hp : phase1 (g s) = false).
  { destruct (phase1 (g s)) eqn:E; [|reflexivity].
    destruct (inv_phase _ _ _ HI E) as (_ & _ & Hnil & _). congruence. }
  assert (Hex : exists st a, started s = Some st /\ armed s = Some (a, initial_wait st i o) /\ st <= a
                             /\ first_ok i o s (a + initial_wait st i o)).
  { unfold Inv2 in H2. destruct (g s); try discriminate Hp; exact H2. }
  destruct Hex as (st & a & Hst & Har & Hle & _ & _ & _ & Hfirst).
  rewrite Efs in Hfirst. rewrite <- Efs, Erev in Hfirst. specialize (Hfirst f0 eq_refl).
  exists st, a. repeat split; try assumption; try congruence.
  all: destruct (initial_wait_spec st i o Hi) as [[Hw1 Hw2] Hb];
       set (w := initial_wait st i o) in *;
       assert (Et0 : t0 = round_tick (a + w) i o) by congruence; clear Hfirst Ht0;
       destruct (round_tick_aligned (a + w) i o Hpos) as [Hrb Hrr].
  - (* st < t0 *)
    apply on_boundary_iff in Hb; [|exact Hpos].
    pose proof (idx_mono i o (st + w) (a + w) Hpos ltac:(lia)) as Hm.
    rewrite round_tick_idx in Et0 by exact Hpos. nia.
  - lia.
  - intros ->. rewrite Et0. symmetry. apply round_tick_unique; [exact Hpos|exact Hb|lia].
Qed.

(* ---------------------------------------------------------------------------------------- *)
(* Non-vacuity: the hypotheses of the theorems above hold on non-trivial runs *)

(* interval 10, offset 23 (>= interval), start 1004.  The consumer is prompt once, then the
   clock jumps over 3.5 intervals (one tick, 1023), a tick (1053) is dropped because nobody
   read C, and the next delivered tick (1063) is 4 intervals after the previous one. *)
Definition ex_labels : list label :=
  [Tick; Tick; Advance 9; Tick; Tick; Tick; Consume;
   Advance 35; Tick; Tick; Advance 10; Tick; Tick; Consume;
   Advance 10; Tick; Tick; Consume].

Example ex_run :
  option_map (fun s => (map (fun f => (f_at f, f_tick f, f_delta f)) (rev (flushes s)), started s, armed s))
             (run (step 10 23) (init 1004 777) ex_labels)
  = Some ([(1013, 1013, 236); (1058, 1023, 10); (1068, 1063, 40)], Some 1004, Some (1004, 9)).
Proof. vm_compute. reflexivity. Qed.

(* interval 2^61 ns: two consecutive delivered ticks 5 intervals apart exceed the largest
   Duration, and the interval handed to the aggregators is the saturated one *)
Definition ex_big : Z := 2305843009213693952.
Example ex_run_saturated :
  option_map (fun s => map (fun f => (f_tick f, f_delta f)) (rev (flushes s)))
             (run (step ex_big 5) (init (-3) 0)
                  [Tick; Tick; Advance ex_big; Tick; Tick; Tick; Consume;
                   Advance (5 * ex_big); Tick; Tick; Consume; Advance ex_big; Tick; Tick; Consume])
  = Some [(5, 5); (ex_big + 5, ex_big); (6 * ex_big + 5, max_dur)].
Proof. vm_compute. reflexivity. Qed.

(* the clock moves between clck.Now() and clck.NewTimer(): the timer deadline 1035 is not a
   boundary, the tick delivered is the boundary 1030 (> st = 1009, <= a + i = 1044) *)
Example ex_run_late_arm :
  option_map (fun s => (started s, armed s, flush_times s))
             (run (step 10 0) (init 1009 0) [Tick; Advance 25; Tick; Advance 4; Tick; Tick; Tick; Consume])
  = Some (Some 1009, Some (1034, 1), [1030]).
Proof. vm_compute. reflexivity. Qed.

(* start exactly on a boundary waits a whole interval; an instant before the zero time and an
   offset beyond the interval *)
Example ex_wait_on_boundary : initial_wait 1013 10 23 = 10.
Proof. vm_compute; reflexivity. Qed.
Example ex_wait_negative : initial_wait (-1) 7 100 = 3 /\ ((-1) + 3 - 100) mod 7 = 0.
Proof. split; vm_compute; reflexivity. Qed.
Example ex_round_negative : round_tick (-1) 7 100 = -5.
Proof. vm_compute; reflexivity. Qed.
