(* Lemmas about Model/Tags.v, part 2: DispatchMetricMap - re-keying and collision merge, for
   every iteration order of the Go maps. *)
From Coq Require Import QArith Qcanon.
From GS Require Import Base.Bytes Model.Lexer Model.Series Model.MetricMap Model.Tags Proofs.Tags.
From stdpp Require Import gmap.

(* what repeated collision does to the survivors [g] that land on one key, starting from the
   stored series [o] (None: key not present yet) *)
Definition collide_all {V} (collide : V → V → V) (g : list V) (o : option V) : option V :=
  fold_left (λ o v, Some (match o with Some stored => collide stored v | None => v end)) g o.

Section Kind.
  Context {V : Type}.
  Variable re_match : str → str → bool.
  Variable src_of : V → str.
  Variable tags_of : V → list str.
  Variable retag : V → str → list str → V.
  Variable collide : V → V → V.
  Notation rekey := (rekey re_match src_of tags_of retag).
  Notation put := (put collide).
  Notation dispatch_kind := (dispatch_kind re_match src_of tags_of retag collide).

  Lemma rekey_total th e : ∃ o, rekey th e = Done o.
  Proof.
    destruct e as [[name k0] v]. unfold Tags.rekey.
    destruct (ufa_total re_match th name (src_of v) (tags_of v)) as [->|(s & r & ->)]; by eexists.
  Qed.

  Lemma kept_total th l : ∃ ks, kept (rekey th) l = Done ks.
  Proof.
    unfold kept. assert (∃ os, rmapM (rekey th) l = Done os) as [os ->]; [|by eexists].
    induction l as [|e l [os IH]]; cbn; [by eexists|].
    destruct (rekey_total th e) as [o ->]. cbn. rewrite IH. by eexists.
  Qed.

  Lemma kept_cons th e l :
    kept (rekey th) (e :: l) =
    do! o := rekey th e in do! ks := kept (rekey th) l in Done (match o with Some kv => kv :: ks | None => ks end).
  Proof.
    unfold kept. cbn. destruct (rekey th e) as [o| |]; cbn; [|done..].
    destruct (rmapM (rekey th) l); cbn; [|done..]. by destruct o.
  Qed.

  (* the interleaved loop of the Go code = filter everything, then insert the survivors *)
  Lemma dispatch_kind_kept th l : ∀ acc,
    rfoldM (dispatch_step re_match src_of tags_of retag collide th) acc l
    = do! ks := kept (rekey th) l in Done (fold_left put ks acc).
  Proof.
    induction l as [|e l IH]; intros acc; [done|].
    cbn [rfoldM]. rewrite kept_cons. unfold dispatch_step.
    destruct (rekey th e) as [o| |]; cbn; [|done..]. rewrite IH.
    destruct (kept (rekey th) l); cbn; [|done..]. by destruct o.
  Qed.

  Lemma group_cons k (kv : skey * V) ks :
    group k (kv :: ks) = if decide (kv.1 = k) then kv.2 :: group k ks else group k ks.
  Proof. unfold group. rewrite filter_cons. by destruct (decide (kv.1 = k)). Qed.

  Lemma put_lookup ks : ∀ acc k, fold_left put ks acc !! k = collide_all collide (group k ks) (acc !! k).
  Proof.
    induction ks as [|kv ks IH]; intros acc k; [done|].
    cbn [fold_left]. rewrite IH, group_cons. unfold Tags.put.
    destruct (decide (kv.1 = k)) as [<-|Hne].
    - unfold collide_all. cbn [fold_left]. f_equal.
      destruct (acc !! kv.1); by rewrite lookup_insert.
    - f_equal. destruct (acc !! kv.1); by rewrite lookup_insert_ne.
  Qed.

  Lemma dispatch_kind_lookup th l ks :
    kept (rekey th) l = Done ks →
    ∃ out, dispatch_kind th l = Done out ∧ ∀ k, out !! k = collide_all collide (group k ks) None.
  Proof.
    intros Hk. unfold Tags.dispatch_kind. rewrite dispatch_kind_kept, Hk. cbn.
    eexists; split; [done|]. intros k. by rewrite put_lookup, lookup_empty.
  Qed.

  Lemma dispatch_kind_total th l : ∃ out, dispatch_kind th l = Done out.
  Proof.
    destruct (kept_total th l) as [ks Hk]. destruct (dispatch_kind_lookup th l ks Hk) as (out & H & _). by exists out.
  Qed.
End Kind.

(* ---------------------------------------------------------------------------------------- *)
(* per type: what collide_all computes *)

Lemma zmax_shift l a x : foldr Z.max (Z.max a x) l = Z.max x (foldr Z.max a l).
Proof. induction l as [|y l IH]; cbn; [lia | rewrite IH; lia]. Qed.

Lemma collide_counters g : ∀ c,
  collide_all merge_counter g (Some c)
  = Some (MkCounter (c_val c + zsum (c_val <$> g)) (zmax_list (c_ts <$> g) (c_ts c)) (c_src c) (c_tags c)).
Proof.
  unfold collide_all, zmax_list, zsum. induction g as [|x g IH]; intros c; cbn.
  - destruct c; cbn. by rewrite Z.add_0_r.
  - rewrite IH. cbn. by rewrite zmax_shift, Z.add_assoc.
Qed.

Lemma collide_timers g : ∀ t,
  collide_all merge_timer g (Some t)
  = Some (MkTimer (t_vals t ++ concat (t_vals <$> g)) (t_samp t + qcsum (t_samp <$> g))%Qc
                  (zmax_list (t_ts <$> g) (t_ts t)) (t_src t) (t_tags t)).
Proof.
  unfold collide_all, zmax_list, qcsum. induction g as [|x g IH]; intros t; cbn.
  - destruct t; cbn. by rewrite app_nil_r, Qcplus_0_r.
  - rewrite IH. cbn. by rewrite zmax_shift, <- app_assoc, Qcplus_assoc.
Qed.

Lemma collide_sets g : ∀ s,
  collide_all merge_set g (Some s)
  = Some (MkSet (s_vals s ∪ ⋃ (s_vals <$> g)) (zmax_list (s_ts <$> g) (s_ts s)) (s_src s) (s_tags s)).
Proof.
  unfold collide_all, zmax_list. induction g as [|x g IH]; intros s; cbn.
  - destruct s; cbn. by rewrite union_empty_r_L.
  - rewrite IH. cbn. by rewrite zmax_shift, (assoc_L (∪)).
Qed.

(* gauges: the result carries the newest timestamp of the group and the value of a member of
   the group with that timestamp; source and tags are those of the first *)
Lemma collide_gauges g : ∀ a,
  ∃ r, collide_all merge_gauge g (Some a) = Some r
       ∧ g_ts r = zmax_list (g_ts <$> g) (g_ts a) ∧ g_src r = g_src a ∧ g_tags r = g_tags a
       ∧ ∃ w, w ∈ a :: g ∧ g_ts w = g_ts r ∧ g_val w = g_val r.
Proof.
  unfold collide_all, zmax_list. induction g as [|x g IH]; intros a; cbn.
  - exists a. repeat split; try done. exists a. split; [by left | done].
  - destruct (IH (merge_gauge a x)) as (r & Hr & Hts & Hsrc & Htags & w & Hw & Hwts & Hwv). clear IH.
    exists r. split; [done|]. unfold merge_gauge in *.
    destruct (Z.ltb_spec (g_ts a) (g_ts x)); cbn in *.
    + split; [rewrite Hts, <- zmax_shift; f_equal; lia|]. do 2 (split; [done|]).
      apply elem_of_cons in Hw as [->|Hw]; [exists x | exists w]; (split; [|done]).
      * right; by left.
      * right; by right.
    + split; [rewrite Hts, <- zmax_shift; f_equal; lia|]. do 2 (split; [done|]).
      exists w. split; [|done]. apply elem_of_cons in Hw as [->|Hw]; [by left | right; by right].
Qed.

(* ---------------------------------------------------------------------------------------- *)
(* C10_collisions_lossless, per type, for every iteration order [l] *)
Section Lossless.
  Variable re_match : str → str → bool.

  Lemma lossless_counters th l ks :
    kept (rekey_counter re_match th) l = Done ks →
    ∃ out, dispatch_counters re_match th l = Done out ∧ ∀ k,
      match group k ks with
      | [] => out !! k = None
      | c :: g => out !! k = Some (MkCounter (zsum (c_val <$> c :: g)) (zmax_list (c_ts <$> g) (c_ts c))
                                             (c_src c) (c_tags c))
      end.
  Proof.
    intros Hk. destruct (dispatch_kind_lookup _ _ _ _ merge_counter th l ks Hk) as (out & Ho & Hl).
    exists out. split; [done|]. intros k. rewrite Hl. destruct (group k ks) as [|c g]; [done|].
    unfold collide_all. cbn [fold_left]. apply collide_counters.
  Qed.

  Lemma lossless_timers th l ks :
    kept (rekey_timer re_match th) l = Done ks →
    ∃ out, dispatch_timers re_match th l = Done out ∧ ∀ k,
      match group k ks with
      | [] => out !! k = None
      | t :: g => out !! k = Some (MkTimer (concat (t_vals <$> t :: g)) (qcsum (t_samp <$> t :: g))
                                           (zmax_list (t_ts <$> g) (t_ts t)) (t_src t) (t_tags t))
      end.
  Proof.
    intros Hk. destruct (dispatch_kind_lookup _ _ _ _ merge_timer th l ks Hk) as (out & Ho & Hl).
    exists out. split; [done|]. intros k. rewrite Hl. destruct (group k ks) as [|t g]; [done|].
    unfold collide_all. cbn [fold_left]. apply collide_timers.
  Qed.

  Lemma lossless_sets th l ks :
    kept (rekey_set re_match th) l = Done ks →
    ∃ out, dispatch_sets re_match th l = Done out ∧ ∀ k,
      match group k ks with
      | [] => out !! k = None
      | s :: g => out !! k = Some (MkSet (⋃ (s_vals <$> s :: g)) (zmax_list (s_ts <$> g) (s_ts s))
                                         (s_src s) (s_tags s))
      end.
  Proof.
    intros Hk. destruct (dispatch_kind_lookup _ _ _ _ merge_set th l ks Hk) as (out & Ho & Hl).
    exists out. split; [done|]. intros k. rewrite Hl. destruct (group k ks) as [|s g]; [done|].
    unfold collide_all. cbn [fold_left]. apply collide_sets.
  Qed.

  Lemma lossless_gauges th l ks :
    kept (rekey_gauge re_match th) l = Done ks →
    ∃ out, dispatch_gauges re_match th l = Done out ∧ ∀ k,
      match group k ks with
      | [] => out !! k = None
      | a :: g => ∃ r, out !! k = Some r
                       ∧ g_ts r = zmax_list (g_ts <$> g) (g_ts a) ∧ g_src r = g_src a ∧ g_tags r = g_tags a
                       ∧ ∃ w, w ∈ a :: g ∧ g_ts w = g_ts r ∧ g_val w = g_val r
      end.
  Proof.
    intros Hk. destruct (dispatch_kind_lookup _ _ _ _ merge_gauge th l ks Hk) as (out & Ho & Hl).
    exists out. split; [done|]. intros k. rewrite Hl. destruct (group k ks) as [|a g]; [done|].
    unfold collide_all. cbn [fold_left]. apply collide_gauges.
  Qed.

  (* DispatchMetricMap as a whole never panics, whatever the iteration order *)
  Lemma dispatch_list_total th o : ∃ r, dispatch_list re_match th o = Done r.
  Proof.
    unfold dispatch_list.
    destruct (dispatch_kind_total re_match c_src c_tags retag_counter merge_counter th (o_counters o)) as [cs Hc].
    destruct (dispatch_kind_total re_match g_src g_tags retag_gauge merge_gauge th (o_gauges o)) as [gs Hg].
    destruct (dispatch_kind_total re_match t_src t_tags retag_timer merge_timer th (o_timers o)) as [ts Ht].
    destruct (dispatch_kind_total re_match s_src s_tags retag_set merge_set th (o_sets o)) as [ss Hs].
    unfold dispatch_counters, dispatch_gauges, dispatch_timers, dispatch_sets.
    rewrite Hc, Hg, Ht, Hs. cbn. by eexists.
  Qed.
End Lossless.

(* Go's iteration order does not matter for what is combined: two orders of the same entries
   give, for every key, the same survivors up to order *)
Lemma rmapM_perm {A B} (f : A → res B) l1 l2 :
  l1 ≡ₚ l2 → ∀ os1, rmapM f l1 = Done os1 → ∃ os2, rmapM f l2 = Done os2 ∧ os1 ≡ₚ os2.
Proof.
  induction 1 as [|x l l' _ IH|x y l|l l' l'' _ IH1 _ IH2]; intros os1; cbn.
  - intros [= <-]. by exists [].
  - destruct (f x) as [b| |]; cbn; [|done..]. destruct (rmapM f l) as [bs| |]; cbn; [|done..].
    intros [= <-]. destruct (IH bs eq_refl) as (os2 & -> & Hp). cbn. exists (b :: os2). by split; [|constructor].
  - destruct (f y) as [b| |]; cbn; [|done..]. destruct (f x) as [a| |]; cbn; [|done..].
    destruct (rmapM f l) as [bs| |]; cbn; [|done..]. intros [= <-]. exists (a :: b :: bs). by split; [|constructor].
  - intros H1. destruct (IH1 _ H1) as (os' & H' & Hp1). destruct (IH2 _ H') as (os2 & H2 & Hp2).
    exists os2. split; [done | by etrans].
Qed.

Lemma group_order_independent {V} (rk : skey * V → res (option (skey * V))) l1 l2 ks1 ks2 :
  l1 ≡ₚ l2 → kept rk l1 = Done ks1 → kept rk l2 = Done ks2 → ∀ k, group k ks1 ≡ₚ group k ks2.
Proof.
  unfold kept, group. intros Hp H1 H2 k.
  destruct (rmapM rk l1) as [os1| |] eqn:E1; [|done..]. destruct (rmapM_perm rk l1 l2 Hp os1 E1) as (os2 & E2 & Hos).
  rewrite E2 in H2. cbn in *. injection H1 as <-. injection H2 as <-. by rewrite Hos.
Qed.

(* Non-vacuity: drop-tags 'host:*' makes n{host:a}=3@5 and n{host:b}=4@9 coincide; the
   output holds one counter n{} = 7 @ 9. *)
Example collision_example :
  let re_ok := λ _ : str, true in
  let re_match := λ _ _ : str, false in
  let host := [104;111;115;116;58]%N in
  let n := [110%N] in
  ∃ th, build_handler re_ok [] [MkRaw [] [] [] [host ++ [c_star]] false false] = Done th
        ∧ ∃ ks out, kept (rekey_counter re_match th)
                      [((n, [1%N]), MkCounter 3 5 [] [host ++ [97%N]]); ((n, [2%N]), MkCounter 4 9 [] [host ++ [98%N]])] = Done ks
                    ∧ group (n, []) ks = [MkCounter 3 5 [] []; MkCounter 4 9 [] []]
                    ∧ dispatch_counters re_match th
                      [((n, [1%N]), MkCounter 3 5 [] [host ++ [97%N]]); ((n, [2%N]), MkCounter 4 9 [] [host ++ [98%N]])] = Done out
                    ∧ out !! (n, []) = Some (MkCounter 7 9 [] []).
Proof. cbn. eexists. split; [vm_compute; reflexivity|]. eexists _, _. repeat split; vm_compute; reflexivity. Qed.
