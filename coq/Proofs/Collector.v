(* C16: invariants of the collector LTS (Model/Collector.v), for every label sequence. *)
From Coq Require Import List Arith Bool Lia Permutation.
From GS Require Import Base.LTS Model.Collector.
Import ListNotations.
Local Arguments Nat.ltb : simpl never.
Local Arguments Nat.eqb : simpl never.

(* ---- list lemmas *)
Lemma sent_results_cons w r :
  sent_results (w :: r) = match w with WSent e => e :: sent_results r | _ => sent_results r end.
Proof. destruct w; reflexivity. Qed.
Local Arguments sent_results : simpl never.

Lemma sent_results_app a b : sent_results (a ++ b) = sent_results a ++ sent_results b.
Proof. apply flat_map_app. Qed.

Lemma sent_le ws : length (sent_results ws) <= length ws.
Proof. induction ws as [|w r IH]; [unfold sent_results; cbn; lia|]. rewrite sent_results_cons. destruct w; cbn; lia. Qed.

Lemma all_sent_iff ws : all_sent ws = true <-> length (sent_results ws) = length ws.
Proof.
  induction ws as [|w r IH]; [unfold sent_results; cbn; tauto|]. pose proof (sent_le r).
  rewrite sent_results_cons. destruct w; cbn; rewrite ?IH; split; intros; try discriminate; try lia.
Qed.

Lemma all_sent_false ws : length (sent_results ws) < length ws -> all_sent ws = false.
Proof. intros H. destruct (all_sent ws) eqn:E; [apply all_sent_iff in E; lia|reflexivity]. Qed.

Lemma all_sent_nth ws i w : all_sent ws = true -> nth_error ws i = Some w -> is_sent w = true.
Proof.
  unfold all_sent. rewrite forallb_forall. intros H N. apply H. eapply nth_error_In; eauto.
Qed.

Lemma upd_length {A} i (x : A) l : length (upd i x l) = length l.
Proof. revert i; induction l; intros [|i]; cbn; auto. Qed.

Lemma upd_nonsent ws i w0 w :
  nth_error ws i = Some w0 -> is_sent w0 = false -> is_sent w = false ->
  sent_results (upd i w ws) = sent_results ws /\ all_sent (upd i w ws) = false.
Proof.
  revert i; induction ws as [|y r IH]; intros [|i] N H0 H; cbn in *; try discriminate.
  - injection N as ->. rewrite !sent_results_cons. destruct w0, w; try discriminate; cbn; auto.
  - destruct (IH _ N H0 H) as [E F]. rewrite !sent_results_cons, E. unfold all_sent in *. cbn. rewrite F, andb_false_r. auto.
Qed.

Lemma upd_sent ws i e :
  nth_error ws i = Some (WPosted e) ->
  Permutation (sent_results ws ++ [e]) (sent_results (upd i (WSent e) ws)).
Proof.
  revert i; induction ws as [|y r IH]; intros [|i] N; cbn in *; try discriminate.
  - injection N as ->. rewrite !sent_results_cons. rewrite Permutation_app_comm. reflexivity.
  - rewrite !sent_results_cons. destruct y; cbn; try apply perm_skip; apply IH, N.
Qed.

(* ---- the invariant *)
Definition broke_shape (s : cstate) : Prop :=
  exists sent, cerrs s = sent ++ [ECtx] /\ Permutation sent (sent_results (workers s))
               /\ cancelled s = true /\ all_sent (workers s) = false.

Record cinv (s : cstate) : Prop := {
  ci_taken : taken s = length (sent_results (workers s));
  ci_prod : cph s = Producing -> sent_results (workers s) = [];
  ci_perm : cph s = Producing \/ cph s = Collecting -> Permutation (cerrs s) (sent_results (workers s));
  ci_broke : cph s = Broke -> broke_shape s;
  ci_called : cph s = Called ->
              cout s = [cerrs s] /\
              ((Permutation (cerrs s) (sent_results (workers s)) /\ all_sent (workers s) = true) \/ broke_shape s);
  ci_out : cph s <> Called -> cout s = []
}.

Lemma cinv_init : cinv cinit.
Proof. constructor; cbn; auto; try discriminate. Qed.

Ltac destr_match H :=
  repeat match type of H with
         | context [match ?x with _ => _ end] => destruct x eqn:?; try discriminate H
         | context [if ?x then _ else _] => destruct x eqn:?; try discriminate H
         end.

(* a worker that is not in state WSent moves to another such state: nothing the collector has
   seen changes *)
Lemma worker_move s i w0 w :
  cinv s -> nth_error (workers s) i = Some w0 -> is_sent w0 = false -> is_sent w = false ->
  cinv (set_worker s i w).
Proof.
  intros [T P Pm B C O] N H0 H. destruct (upd_nonsent _ _ _ _ N H0 H) as [E F].
  unfold broke_shape in *.
  constructor; unfold broke_shape; cbn; rewrite ?E, ?F; auto.
  - intros Hc. destruct (B Hc) as (x & ? & ? & ? & ?). exists x; auto.
  - intros Hc. destruct (C Hc) as [Ho [[Hp Ha]|(x & ? & ? & ? & ?)]]; split; auto.
    + exfalso. pose proof (all_sent_nth _ _ _ Ha N). congruence.
    + right. exists x; auto.
Qed.

Lemma cstep_inv s l s' : cinv s -> cstep s l = Some s' -> cinv s'.
Proof.
  intros I H. destruct l; cbn in H.
  - (* CCancel *) injection H as <-. destruct I as [T P Pm B C O]. unfold broke_shape in *.
    constructor; unfold broke_shape; cbn; auto.
    + intros Hc. destruct (B Hc) as (x & ? & ? & ? & ?). exists x; auto.
    + intros Hc. destruct (C Hc) as [Ho [?|(x & ? & ? & ? & ?)]]; split; auto. right; exists x; auto.
  - (* CCreate *) destr_match H. injection H as <-. destruct I as [T P Pm B C O].
    constructor; cbn; rewrite ?sent_results_app; cbn; rewrite ?app_nil_r; auto; try discriminate.
    intros _; apply O; congruence.
  - (* CStart *) destr_match H. injection H as <-. destruct I as [T P Pm B C O].
    constructor; cbn; rewrite ?(P Heqc); auto; try discriminate.
    all: try solve [intros _; apply O; congruence].
  - (* WQuit *) destr_match H. injection H as <-. eapply worker_move; eauto.
  - (* WPost *) destr_match H; injection H as <-; eapply worker_move; eauto.
  - (* WSend *) destr_match H. injection H as <-. destruct I as [T P Pm B C O].
    pose proof (upd_sent _ _ _ Heqo) as U.
    constructor; cbn; try discriminate; auto.
    all: try solve [intros _; apply O; congruence].
    + rewrite <- (Permutation_length U), app_length. cbn. lia.
    + intros _. etransitivity; [|exact U]. apply Permutation_app_tail. apply Pm. auto.
  - (* WGiveUp *) destr_match H. injection H as <-. eapply worker_move; eauto.
  - (* CSeeCancel *) destr_match H. injection H as <-. destruct I as [T P Pm B C O].
    apply andb_prop in Heqb as [Hl Hcn]. apply Nat.ltb_lt in Hl.
    constructor; cbn; try discriminate; auto.
    all: try solve [intros _; apply O; congruence].
    { intros [?|?]; discriminate. }
    intros _. exists (cerrs s). cbn. repeat split; auto. apply all_sent_false. lia.
  - (* CCall *) destr_match H; injection H as <-; destruct I as [T P Pm B C O].
    + apply Nat.eqb_eq in Heqb.
      constructor; cbn; try discriminate; auto; try congruence.
      intros _. rewrite (O ltac:(congruence)). split; auto. left. split; auto.
      apply all_sent_iff. lia.
    + constructor; cbn; try discriminate; auto; try congruence.
      { intros [?|?]; discriminate. }
      intros _. rewrite (O ltac:(congruence)). split; auto.
Qed.

Lemma creach_inv ls s : run cstep cinit ls = Some s -> cinv s.
Proof. apply invariant_run; [intros; eapply cstep_inv; eauto|apply cinv_init]. Qed.

(* ---------------------------------------------------------------------------------------- *)
Lemma has_err_in es e : In e es -> is_err e = true -> has_err es = true.
Proof. intros H E. unfold has_err. apply existsb_exists. eauto. Qed.

Lemma has_err_perm a b : Permutation a b -> has_err a = has_err b.
Proof.
  intros P. unfold has_err. destruct (existsb is_err b) eqn:E.
  - apply existsb_exists in E as (x & Hx & Ex). apply existsb_exists. exists x. split; auto.
    eapply Permutation_in; [symmetry; exact P|exact Hx].
  - destruct (existsb is_err a) eqn:F; [|reflexivity].
    apply existsb_exists in F as (x & Hx & Ex).
    assert (existsb is_err b = true) by (apply existsb_exists; exists x; split; auto; eapply Permutation_in; eauto).
    congruence.
Qed.

Lemma failed_sent ws : all_sent ws = true -> existsb failed_batch ws = true -> has_err (sent_results ws) = true.
Proof.
  induction ws as [|w r IH]; cbn; [discriminate|].
  intros A F. apply andb_prop in A as [A1 A2]. destruct w; try discriminate. rewrite sent_results_cons. cbn in *.
  destruct (is_err e); cbn; auto.
Qed.

(* C16_collector_exactly_once *)
Theorem collector_exactly_once ls s :
  run cstep cinit ls = Some s ->
  length (cout s) <= 1 /\
  (cph s = Called <-> length (cout s) = 1) /\
  forall es, cout s = [es] ->
    (existsb failed_batch (workers s) = true -> has_err es = true) /\
    (all_sent (workers s) = false -> In ECtx es /\ cancelled s = true) /\
    (cancelled s = false ->
       all_sent (workers s) = true /\ Permutation es (sent_results (workers s)) /\ length es = length (workers s)).
Proof.
  intros R. destruct (creach_inv _ _ R) as [T P Pm B C O].
  destruct (cph s) eqn:Hp.
  1-3: rewrite O by discriminate; cbn; repeat split; try lia; try discriminate.
  destruct (C eq_refl) as [Ho Sh]. rewrite Ho. cbn. repeat split; auto.
  all: injection H as <-.
  - intros F. destruct Sh as [[Hperm Ha]|(x & E & Hx & Hc & Ha)].
    + rewrite (has_err_perm _ _ Hperm). apply failed_sent; auto.
    + rewrite E. apply has_err_in with ECtx; [apply in_or_app; right; left; reflexivity|reflexivity].
  - destruct Sh as [[Hperm Ha]|(x & E & Hx & Hc & Ha)]; [congruence|].
    rewrite E. apply in_or_app; right; left; reflexivity.
  - destruct Sh as [[Hperm Ha]|(x & E & Hx & Hc & Ha)]; [congruence|auto].
  - destruct Sh as [[Hperm Ha]|(x & E & Hx & Hc & Ha)]; [auto|congruence].
  - destruct Sh as [[Hperm Ha]|(x & E & Hx & Hc & Ha)]; [auto|congruence].
  - destruct Sh as [[Hperm Ha]|(x & E & Hx & Hc & Ha)]; [|congruence].
    rewrite (Permutation_length Hperm). apply all_sent_iff, Ha.
Qed.

(* from every reachable state the callback can still happen: no reachable state is stuck without one *)
Theorem collector_can_finish ls s :
  run cstep cinit ls = Some s ->
  exists ls' s', run cstep cinit (ls ++ ls') = Some s' /\ cph s' = Called /\ length (cout s') = 1.
Proof.
  intros R.
  assert (X : exists ls' s', run cstep s ls' = Some s' /\ cph s' = Called).
  { destruct s as [p ws c t es o]. destruct p.
    - destruct (0 <? length ws) eqn:E.
      + exists [CCancel; CStart; CSeeCancel; CCall]. eexists. cbn. rewrite E. cbn. split; reflexivity.
      + exists [CStart; CCall]. eexists. cbn. apply Nat.ltb_ge in E.
        replace (0 =? length ws) with true by (symmetry; apply Nat.eqb_eq; lia). split; reflexivity.
    - destruct (t <? length ws) eqn:E.
      + exists [CCancel; CSeeCancel; CCall]. eexists. cbn. rewrite E. cbn. split; reflexivity.
      + destruct (creach_inv _ _ R) as [T _ _ _ _ _]. cbn in T. pose proof (sent_le ws). apply Nat.ltb_ge in E.
        exists [CCall]. eexists. cbn. replace (t =? length ws) with true by (symmetry; apply Nat.eqb_eq; lia).
        split; reflexivity.
    - exists [CCall]. eexists. cbn. split; reflexivity.
    - exists []. eexists. cbn. split; reflexivity. }
  destruct X as (ls' & s' & R' & E). exists ls', s'.
  assert (R2 : run cstep cinit (ls ++ ls') = Some s') by (rewrite run_app, R; exact R').
  repeat split; auto. apply (collector_exactly_once _ _ R2), E.
Qed.

(* ---- n = 0, 1, many; cancellation before / during / never *)
Example coll_n0 : exists s, run cstep cinit [CStart; CCall] = Some s /\ cout s = [[]].
Proof. eexists. split; reflexivity. Qed.
Example coll_n0_cancelled : exists s, run cstep cinit [CCancel; CStart; CCall] = Some s /\ cout s = [[]].
Proof. eexists. split; reflexivity. Qed.
Example coll_n1_fail : exists s, run cstep cinit [CCreate; WPost 0 EPost; CStart; WSend 0; CCall] = Some s /\ cout s = [[EPost]].
Proof. eexists. split; reflexivity. Qed.
Example coll_many_cancel_during :
  exists s, run cstep cinit [CCreate; CCreate; CCreate; WPost 1 ENil; CStart; WSend 1; WPost 0 EPost; CCancel;
                             WGiveUp 0; WQuit 2; CSeeCancel; CCall] = Some s /\ cout s = [[ENil; ECtx]]
            /\ existsb failed_batch (workers s) = true /\ all_sent (workers s) = false.
Proof. eexists. repeat split; reflexivity. Qed.
(* all results taken although the context was cancelled meanwhile: no ctx error, and none is owed *)
Example coll_cancel_after_results :
  exists s, run cstep cinit [CCreate; WPost 0 ENil; CStart; CCancel; WSend 0; CCall] = Some s /\ cout s = [[ENil]].
Proof. eexists. split; reflexivity. Qed.

(* ---------------------------------------------------------------------------------------- *)
(* the fixed-path backends *)
Theorem sync_backends_exactly_once :
  (forall rs, exists es, otlp_callbacks rs = [es] /\ (has_err es = existsb (fun b => b) rs)) /\
  (forall rs, exists es, cloudwatch_callbacks rs = [es] /\ length es = length rs /\ (has_err es = existsb (fun b => b) rs)) /\
  (forall w, exists es, stdout_callbacks w = [es] /\ has_err es = w) /\
  null_callbacks = [[]] /\
  (forall d, match socket_front d with FrontCalledBack es => d = true /\ has_err es = true | FrontSubmitted => d = false end).
Proof.
  repeat split.
  - intros rs. eexists. split; [reflexivity|]. destruct (existsb _ rs); reflexivity.
  - intros rs. eexists. split; [reflexivity|]. rewrite map_length. split; [reflexivity|].
    induction rs as [|[|] r IH]; cbn; auto.
  - intros [|]; eexists; split; reflexivity.
  - intros [|]; cbn; auto.
Qed.

(* the callback's list never has more entries than batches were created *)
Corollary collector_length_bound ls s es :
  run cstep cinit ls = Some s -> cout s = [es] -> length es <= length (workers s).
Proof.
  intros R E. destruct (creach_inv _ _ R) as [T P Pm B C O].
  destruct (cph s) eqn:Hp; try (rewrite O in E by discriminate; discriminate).
  destruct (C eq_refl) as [Ho Sh]. rewrite Ho in E. injection E as <-.
  pose proof (sent_le (workers s)).
  destruct Sh as [[Hperm Ha]|(x & Ex & Hx & Hc & Ha)].
  - rewrite (Permutation_length Hperm). exact H.
  - rewrite Ex, app_length, (Permutation_length Hx). cbn.
    destruct (Nat.eq_dec (length (sent_results (workers s))) (length (workers s))) as [Q|Q]; [|lia].
    apply all_sent_iff in Q. congruence.
Qed.
