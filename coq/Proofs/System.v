(* The standalone system (Model/System.v): its pipeline part is a run of Model/PipelineBounded.v
   (projection [sproj], aggregators through [to_mmap]: b-c08's refinement), its receiver part is a
   run of Model/Receiver.v, its parsers consume the handed-over batches in order, and every
   aggregator state is the outcome of its recorded history. *)
From stdpp Require Import gmap gmultiset.
From Coq Require Import QArith Qcanon Lia.
From GS Require Import Base.Bytes Base.LTS Model.Lexer Model.Series Model.MetricMap Model.Content.
From GS Require Import Model.GoPartial Model.Histogram Model.Stats Model.Aggregator.
From GS Require Import Model.Pipeline Model.PipelineBounded Model.System.
From GS Require Model.Receiver Model.Datagram.
From GS Require Import Proofs.AggregatorRefine Proofs.AggregatorProj.
From GS Require Proofs.Receiver Proofs.SystemGlue.

Arguments Z.add : simpl never.
Local Open Scope nat_scope.

(* ---- histories ---- *)
Lemma foldM_app {A S} (f : S → A → outcome S) s l1 l2 :
  foldM f s (l1 ++ l2) = match foldM f s l1 with GoPartial.Ok s' => foldM f s' l2 | GoPartial.Panic => GoPartial.Panic end.
Proof.
  revert s; induction l1 as [|a l IH]; intros s; [reflexivity|].
  cbn [app foldM]. unfold bind. destruct (f s a); [apply IH|reflexivity].
Qed.

Lemma fold_left_snoc {A B} (f : B → A → B) l x b : fold_left f (l ++ [x]) b = f (fold_left f l b) x.
Proof. by rewrite fold_left_app. Qed.

Ltac bcbn := unfold bstep, sproj, sy_bc;
  cbn [bc_qcap bc_cfg bc_parsers bs_input bs_pending bs_queue bs_aggr bs_busy bs_nflush bs_flush bs_out
       ss_input ss_pending ss_queue ss_aggr ss_busy ss_nflush ss_flush ss_out ss_recv ss_taken ss_bad ss_events ss_hist
       sy_pipe cfg_shards].

Section Sys.
  Variable pf : str → pfres.
  Variable hpf : str → option bound.
  Variable rank : Z → Z → Z.
  Variable sc : sysconfig.
  Let acfg := sy_acfg sc.
  Let arun' := arun hpf rank acfg.

  Lemma arun_recv h a m : arun' h = GoPartial.Ok a → arun' (h ++ [ARecv m]) = GoPartial.Ok (receive_map a m).
  Proof. unfold arun', arun. intros H. rewrite foldM_app, H. reflexivity. Qed.
  Lemma arun_flush_reset h a dt now a1 a2 :
    arun' h = GoPartial.Ok a → flush hpf rank acfg dt a = GoPartial.Ok a1 → reset hpf acfg now a1 = GoPartial.Ok a2 →
    arun' (h ++ [AFlush dt; AReset now]) = GoPartial.Ok a2.
  Proof. unfold arun', arun. intros H H1 H2. rewrite foldM_app, H. cbn [foldM astep]. unfold bind. rewrite H1, H2. reflexivity. Qed.

  (* what the parsers have made of the batches they took *)
  Definition taken_results (s : sstate) (rs : list Datagram.dg_result) : Prop :=
    Forall2 (λ bt r, parse_batch pf sc bt = Some r) (take (ss_taken s) (Receiver.r_handed (ss_recv s))) rs.

  Record sinv (s : sstate) : Prop := {
    si_len : length (ss_hist s) = length (ss_aggr s);
    si_hist : ∀ i h a, ss_hist s !! i = Some h → ss_aggr s !! i = Some a →
                arun' h = GoPartial.Ok a ∧ flushed_since_reset h = false;
    si_out : ∀ x, x ∈ ss_out s →
               ∃ a, arun' (fl_ops x) = GoPartial.Ok a ∧ flush hpf rank acfg (fl_dt x) a = GoPartial.Ok (fl_agg x)
                    ∧ flushed_since_reset (fl_ops x) = false;
    si_taken : ss_taken s ≤ length (Receiver.r_handed (ss_recv s));
    si_input : ∃ rs, taken_results s rs
                     ∧ ss_input s = concat (Datagram.dg_metrics <$> rs)
                     ∧ ss_bad s = foldr (λ r acc, (Datagram.dg_bad r + acc)%N) 0%N rs
  }.

  Lemma sinv_init : sinv (sinit sc).
  Proof.
    split; cbn.
    - by rewrite !replicate_length.
    - intros i h a Hh Ha. apply lookup_replicate in Hh as [-> _]. apply lookup_replicate in Ha as [-> _]. done.
    - intros x Hx. by apply elem_of_nil in Hx.
    - lia.
    - exists []. split; [constructor|done].
  Qed.

  (* the labels of the bounded pipeline a system label stands for *)
  Definition lab_rel (l : slabel) (bl : blabel) : Prop :=
    match l, bl with
    | SParse p, BParse p' _ => p = p'
    | SEnq p, BEnq p' => p = p'
    | SRdv p, BRdv p' => p = p'
    | SMerge i, BMerge i' => i = i'
    | STick f, BTick f' => f = f'
    | SCmd i, BCmd i' => i = i'
    | SExec i _ now, BExec i' now' => i = i' ∧ now = now'
    | _, _ => False
    end.
  Definition is_recv_label (l : slabel) : bool := match l with SRead _ | SDone _ => true | _ => false end.

  Lemma handed_grows (r r' : Receiver.rstate) l :
    Receiver.step (sy_rcfg sc) (Receiver.Running r) l = Some (Receiver.Running r') →
    ∃ ext, Receiver.r_handed r' = Receiver.r_handed r ++ ext.
  Proof.
    destruct l as [[|now ms]|b]; cbn.
    - intros [= <-]. exists []. by rewrite app_nil_r.
    - destruct (Receiver.fill _ _ _ _ _); [done|]. intros [= <-]. cbn. eauto.
    - destruct (existsb _ _); [|done]. intros [= <-]. exists []. cbn. by rewrite app_nil_r.
  Qed.

  Lemma take_app_le' {A} (l ext : list A) n : n ≤ length l → take n (l ++ ext) = take n l.
  Proof. intros H. by rewrite take_app_le. Qed.

  Lemma sstep_sim s l s' :
    sinv s → sstep_run pf hpf rank sc s l = Some (SRun s') →
    sinv s' ∧ (if is_recv_label l then sproj s' = sproj s
               else ∃ bl, lab_rel l bl ∧ bstep (sy_bc sc) (sproj s) bl = Some (sproj s')).
  Proof.
    intros [Hlen Hhist Hout Htk Hin] Hstep.
    destruct l as [r|b|p|p|p|i|f|i|i dt now];
      cbn [sstep_run] in Hstep.
    - (* SRead *)
      unfold recv_step in Hstep.
      destruct (Receiver.step _ _ _) as [[r'|]|] eqn:E; try done. injection Hstep as <-.
      destruct (handed_grows _ _ _ E) as [ext Hext].
      split; [|done].
      split; cbn; try done.
      + rewrite Hext, app_length. lia.
      + destruct Hin as (rs & H2 & Hi & Hb). exists rs. unfold taken_results in *. cbn. by rewrite Hext, take_app_le'.
    - (* SDone *)
      unfold recv_step in Hstep.
      destruct (Receiver.step _ _ _) as [[r'|]|] eqn:E; try done. injection Hstep as <-.
      destruct (handed_grows _ _ _ E) as [ext Hext].
      split; [|done].
      split; cbn; try done.
      + rewrite Hext, app_length. lia.
      + destruct Hin as (rs & H2 & Hi & Hb). exists rs. unfold taken_results in *. cbn. by rewrite Hext, take_app_le'.
    - (* SParse *)
      destruct (Receiver.r_handed (ss_recv s) !! ss_taken s) as [bt|] eqn:Ebt; [|done].
      destruct (ss_pending s !! p) as [[|? ?]|] eqn:Ep; try done.
      destruct (parse_batch pf sc bt) as [r|] eqn:Epb; [|done]. injection Hstep as <-.
      split.
      + split; cbn; try done.
        * apply lookup_lt_Some in Ebt. lia.
        * destruct Hin as (rs & H2 & Hi & Hb). exists (rs ++ [r]). unfold taken_results in *. cbn.
          rewrite (take_S_r _ _ _ Ebt). split; [apply Forall2_app; [done|by repeat constructor]|].
          rewrite fmap_app, concat_app, Hi. cbn. rewrite app_nil_r. split; [done|].
          rewrite Hb. clear. induction rs as [|x rs IH]; cbn; [lia|]. rewrite <- IH. lia.
      + cbn [is_recv_label]. exists (BParse p (Datagram.dg_metrics r)). split; [done|].
        bcbn. rewrite Ep. reflexivity.
    - (* SEnq *)
      destruct (ss_pending s !! p) as [[|[i m] rest]|] eqn:Ep; try done.
      destruct (ss_queue s !! i) as [q|] eqn:Eq; [|done]. destruct (length q <? sy_qcap sc) eqn:Ec; [|done].
      injection Hstep as <-. split; [by split|].
      cbn [is_recv_label]. exists (BEnq p). split; [done|]. bcbn. rewrite Ep, Eq, Ec. reflexivity.
    - (* SRdv *)
      destruct (sy_qcap sc) eqn:Ec; [|done].
      destruct (ss_pending s !! p) as [[|[i m] rest]|] eqn:Ep; try done.
      destruct (ss_queue s !! i) as [[|? ?]|] eqn:Eq; try done.
      destruct (ss_busy s !! i) as [[|]|] eqn:Eb; try done.
      destruct (ss_aggr s !! i) as [a|] eqn:Ea; [|done].
      destruct (ss_hist s !! i) as [h|] eqn:Eh; [|done]. injection Hstep as <-.
      destruct (Hhist i h a Eh Ea) as [Hr Hf].
      split.
      + split; cbn; try done.
        * by rewrite !insert_length.
        * intros i' h' a' Hh' Ha'. destruct (decide (i' = i)) as [->|Hne].
          -- rewrite list_lookup_insert in Hh' by (by eapply lookup_lt_Some).
             rewrite list_lookup_insert in Ha' by (by eapply lookup_lt_Some).
             injection Hh' as <-. injection Ha' as <-. split; [by apply arun_recv|].
             unfold flushed_since_reset in *. by rewrite fold_left_snoc.
          -- rewrite list_lookup_insert_ne in Hh' by done. rewrite list_lookup_insert_ne in Ha' by done. eauto.
      + cbn [is_recv_label]. exists (BRdv p). split; [done|].
        bcbn. rewrite Ec, Ep, Eq, Eb, list_lookup_fmap, Ea. cbn [fmap option_fmap option_map].
        by rewrite list_fmap_insert, to_mmap_receive.
    - (* SMerge *)
      destruct (ss_queue s !! i) as [[|m q]|] eqn:Eq; try done.
      destruct (ss_busy s !! i) as [[|]|] eqn:Eb; try done.
      destruct (ss_aggr s !! i) as [a|] eqn:Ea; [|done].
      destruct (ss_hist s !! i) as [h|] eqn:Eh; [|done]. injection Hstep as <-.
      destruct (Hhist i h a Eh Ea) as [Hr Hf].
      split.
      + split; cbn; try done.
        * by rewrite !insert_length.
        * intros i' h' a' Hh' Ha'. destruct (decide (i' = i)) as [->|Hne].
          -- rewrite list_lookup_insert in Hh' by (by eapply lookup_lt_Some).
             rewrite list_lookup_insert in Ha' by (by eapply lookup_lt_Some).
             injection Hh' as <-. injection Ha' as <-. split; [by apply arun_recv|].
             unfold flushed_since_reset in *. by rewrite fold_left_snoc.
          -- rewrite list_lookup_insert_ne in Hh' by done. rewrite list_lookup_insert_ne in Ha' by done. eauto.
      + cbn [is_recv_label]. exists (BMerge i). split; [done|].
        bcbn. rewrite Eq, Eb, list_lookup_fmap, Ea. cbn [fmap option_fmap option_map]. by rewrite list_fmap_insert, to_mmap_receive.
    - (* STick *)
      destruct (bool_decide (f = ss_nflush s) && bflush_idle _ _ _) eqn:E; [|done]. injection Hstep as <-.
      split; [by split|]. cbn [is_recv_label]. exists (BTick f). split; [done|]. bcbn. rewrite E. reflexivity.
    - (* SCmd *)
      destruct (ss_flush s) as [[f nx]|] eqn:Ef; [|done]. destruct (ss_busy s !! i) as [[|]|] eqn:Eb; try done.
      destruct (bool_decide (nx = i)) eqn:E; [|done]. injection Hstep as <-.
      split; [by split|]. cbn [is_recv_label]. exists (BCmd i). split; [done|]. bcbn. rewrite Ef, Eb, E. reflexivity.
    - (* SExec *)
      destruct (ss_flush s) as [[f nx]|] eqn:Ef; [|done]. destruct (ss_busy s !! i) as [[|]|] eqn:Eb; try done.
      destruct (ss_aggr s !! i) as [a|] eqn:Ea; [|done].
      destruct (ss_hist s !! i) as [h|] eqn:Eh; [|done].
      destruct (flush hpf rank (sy_acfg sc) dt a) as [a1|] eqn:E1; [|done].
      destruct (reset hpf (sy_acfg sc) now a1) as [a2|] eqn:E2; [|done]. injection Hstep as <-.
      destruct (Hhist i h a Eh Ea) as [Hr Hf].
      split.
      + split; cbn; try done.
        * by rewrite !insert_length.
        * intros i' h' a' Hh' Ha'. destruct (decide (i' = i)) as [->|Hne].
          -- rewrite list_lookup_insert in Hh' by (by eapply lookup_lt_Some).
             rewrite list_lookup_insert in Ha' by (by eapply lookup_lt_Some).
             injection Hh' as <-. injection Ha' as <-. split; [by eapply arun_flush_reset|].
             unfold flushed_since_reset. rewrite fold_left_app. reflexivity.
          -- rewrite list_lookup_insert_ne in Hh' by done. rewrite list_lookup_insert_ne in Ha' by done. eauto.
        * intros x Hx. apply elem_of_app in Hx as [Hx|Hx]; [by apply Hout|].
          apply elem_of_list_singleton in Hx as ->. cbn. eauto.
      + cbn [is_recv_label]. exists (BExec i now). split; [done|].
        bcbn. rewrite Ef, Eb, list_lookup_fmap, Ea. cbn [fmap option_fmap option_map].
        assert (Hwf : wf a) by (eapply (wf_run hpf rank acfg h agg_empty a wf_empty); exact Hr).
        rewrite fmap_app, !list_fmap_insert. cbn [fmap list_fmap fl_id fl_worker fl_agg].
        rewrite (to_mmap_reset_pipeline hpf acfg (sy_shards sc) now a1 a2 E2).
        rewrite (to_mmap_flush hpf rank acfg dt a a1 E1 Hwf). reflexivity.
  Qed.
End Sys.
