(* Proofs about Model/Consolidator.v: slot tokens, batch locations, flush windows, contents. *)
From Coq Require Import List Arith Bool Lia Permutation.
From GS Require Import Base.LTS Model.Consolidator.
Import ListNotations.

Section Proofs.
  Context {M : Type}.
  Variable mempty : M.
  Variable mmerge : M -> M -> M.
  Variable k : nat.

  Notation state := (@state M).
  Notation step := (step mempty mmerge k).
  Notation init := (init mempty k).

  Lemma lookup_remove_len {A} d (l : list (nat * A)) a :
    lookup d l = Some a -> length l = S (length (remove_key d l)).
  Proof.
    induction l as [|[d' a'] r IH]; cbn; [discriminate|].
    destruct (Nat.eqb d d'); intros H; cbn; [reflexivity|]. rewrite (IH H); reflexivity.
  Qed.

  Lemma owed_after_fill n : owed (M:=M) (after_fill n) = n.
  Proof. destruct n; reflexivity. Qed.

  (* ---- tokens ---- *)
  Definition tokens (s : state) : nat := length (chan s) + length (held s) + owed (fl s).

  Lemma tokens_step s l s' : step s l = Some s' -> tokens s' = tokens s.
  Proof.
    unfold tokens, step. destruct l.
    - destruct (lookup d (held s)); [discriminate|]. destruct (chan s) as [|sl r] eqn:E; [discriminate|].
      intros [= <-]; cbn. lia.
    - destruct (lookup d (held s)) as [h|] eqn:E; [|discriminate].
      destruct (length (chan s) <? k); [|discriminate]. intros [= <-]; cbn.
      rewrite app_length, (lookup_remove_len _ _ _ E); cbn. lia.
    - destruct (fl s) eqn:E; try discriminate. intros [= <-]; cbn. lia.
    - destruct (fl s) as [|got|n] eqn:E; try discriminate. destruct (chan s) as [|sl r]; [discriminate|].
      destruct (length got <? k); [|discriminate]. intros [= <-]; cbn. rewrite app_length; cbn. lia.
    - destruct (fl s) as [|got|n] eqn:E; try discriminate.
      destruct (length got =? k) eqn:E2; [|discriminate]. intros [= <-]; cbn.
      rewrite owed_after_fill. apply Nat.eqb_eq in E2. lia.
    - destruct (fl s) as [|got|[|n]] eqn:E; try discriminate.
      destruct (length (chan s) <? k); [|discriminate]. intros [= <-]; cbn.
      rewrite app_length, owed_after_fill; cbn. lia.
  Qed.

  Lemma tokens_init : tokens init = k.
  Proof. unfold tokens; cbn. rewrite repeat_length. lia. Qed.

  Theorem slot_tokens ls s : run step init ls = Some s ->
    length (chan s) + length (held s) + owed (fl s) = k.
  Proof.
    intros H. change (tokens s = k).
    refine (invariant_run step (fun s => tokens s = k) _ ls init s tokens_init H).
    intros s0 l s1 Hi Hs. rewrite (tokens_step _ _ _ Hs). exact Hi.
  Qed.
End Proofs.

(* ------------------------------------------------------------------------------------------ *)
(* where every batch is, and which flush carries it *)
Section Where.
  Context {M : Type}.
  Variable mempty : M.
  Variable mmerge : M -> M -> M.
  Variable k : nat.

  Notation state := (@state M).
  Notation step := (step mempty mmerge k).
  Notation init := (init mempty k).
  Notation slot := (@slot M).

  Definition R (s : state) : list nat := ids_of (resident s).
  Notation P := (@pending_ids M).
  Notation F := (@flushed_ids M).

  Lemma ids_of_app (a b : list slot) : ids_of (a ++ b) = ids_of a ++ ids_of b.
  Proof. unfold ids_of. rewrite map_app, concat_app. reflexivity. Qed.

  Lemma flushed_app (fs : list (list slot)) g : concat (map ids_of (fs ++ [g])) = concat (map ids_of fs) ++ ids_of g.
  Proof. rewrite map_app, concat_app; cbn. rewrite app_nil_r. reflexivity. Qed.

  Lemma lookup_in {A} d (l : list (nat * A)) a : lookup d l = Some a -> In (d, a) l.
  Proof.
    induction l as [|[d' a'] r IH]; cbn; [discriminate|].
    destruct (Nat.eqb d d') eqn:E; [apply Nat.eqb_eq in E; intros [= ->]; subst; auto|auto].
  Qed.

  (* removing dispatcher d's entry: the held slots / pending ids lose exactly h's *)
  Lemma remove_perm {A B} (f : nat * A -> B) d (l : list (nat * A)) a :
    lookup d l = Some a -> Permutation (map f l) (f (d, a) :: map f (remove_key d l)).
  Proof.
    induction l as [|[d' a'] r IH]; cbn; [discriminate|].
    destruct (Nat.eqb d d') eqn:E.
    - apply Nat.eqb_eq in E; intros [= ->]; subst. reflexivity.
    - intros H. cbn. rewrite (IH H). apply perm_swap.
  Qed.

  Definition phase_ok (s : state) : Prop :=
    started s = match fl s with Draining _ => S (length (flushes s)) | _ => length (flushes s) end.

  Record cinv (s : state) : Prop := {
    i_tok : tokens s = k;
    i_phase : phase_ok s;
    i_nodup : NoDup (P s ++ R s ++ F s);
    i_fresh : forall i, In i (P s ++ R s ++ F s) <-> i < next_id s;
    i_puts : Permutation (map fst (puts s)) (R s ++ F s);
    i_taken : Permutation (map fst (taken s)) (P s ++ R s ++ F s);
    i_res : forall i e, In (i, e) (puts s) -> In i (R s) -> length (flushes s) <= e;
    i_le : forall i e, In (i, e) (puts s) -> e <= started s;
    i_fl : forall i e f, In (i, e) (puts s) -> In i (flush_ids s f) -> e <= f <= S e;
    i_tk : forall i b t, In (i, (b, t)) (taken s) ->
             t <= length (flushes s) /\ forall f, In i (flush_ids s f) -> t < f;
    i_pek : map fst (pute s) = map fst (puts s);
    i_per : forall i pe, In (i, pe) (pute s) -> In i (R s) -> pe = length (flushes s);
    i_pef : forall i pe f, In (i, pe) (pute s) -> In i (flush_ids s f) -> f = S pe
  }.

  Lemma cinv_init : cinv init.
  Proof.
    assert (HR : R init = []).
    { unfold R, resident; cbn. rewrite app_nil_r. unfold ids_of.
      induction k as [|n IH]; cbn; [reflexivity|exact IH]. }
    split.
    - apply tokens_init.
    - reflexivity.
    - rewrite HR. constructor.
    - intros i. rewrite HR. cbn. split; [intros []|lia].
    - rewrite HR. constructor.
    - rewrite HR. constructor.
    - intros _ _ [].
    - intros _ _ [].
    - intros _ _ _ [].
    - intros _ _ _ [].
    - reflexivity.
    - intros _ _ [].
    - intros _ _ _ [].
  Qed.

  Lemma flush_ids_in_flushed (s : state) f i : In i (flush_ids s f) -> In i (F s).
  Proof.
    destruct f as [|f]; cbn; [intros []|]. intros H. unfold flushed_ids.
    destruct (Nat.lt_ge_cases f (length (flushes s))) as [Hlt|Hge].
    - apply in_concat. exists (ids_of (nth f (flushes s) [])). split; [|exact H].
      apply in_map, nth_In, Hlt.
    - rewrite nth_overflow in H by exact Hge. destruct H.
  Qed.

  Lemma in_flushed_flush_ids (s : state) i : In i (F s) -> exists f, In i (flush_ids s f).
  Proof.
    unfold flushed_ids. intros H. apply in_concat in H as (l & Hl & Hi).
    apply in_map_iff in Hl as (g & <- & Hg). apply (In_nth _ _ []) in Hg as (n & Hn & <-).
    exists (S n). exact Hi.
  Qed.

  (* an id cannot be in two of the three places *)
  Lemma nodup_app_excl (a b : list nat) i : NoDup (a ++ b) -> In i a -> ~ In i b.
  Proof.
    induction a as [|x a IH]; cbn; [intros _ []|].
    intros H [->|Ha] Hb; inversion H; subst; [apply H2, in_or_app; auto|exact (IH H3 Ha Hb)].
  Qed.
  Lemma nodup_app_r (a b : list nat) : NoDup (a ++ b) -> NoDup b.
  Proof. induction a as [|x a IH]; cbn; [auto|]. intros H; inversion H; auto. Qed.
  Lemma nodup_excl (a b c : list nat) i : NoDup (a ++ b ++ c) ->
    (In i a -> ~ In i (b ++ c)) /\ (In i b -> ~ In i c).
  Proof.
    intros H. split; [apply nodup_app_excl, H|apply nodup_app_excl, (nodup_app_r a), H].
  Qed.

  Lemma R_eq (s : state) :
    R s = ids_of (chan s) ++ ids_of (map (fun dh => h_slot (snd dh)) (held s)) ++ ids_of (got_of (fl s)).
  Proof. unfold R, resident. rewrite !ids_of_app. reflexivity. Qed.
  Lemma ids_of_cons (sl : slot) l : ids_of (sl :: l) = s_ids sl ++ ids_of l.
  Proof. reflexivity. Qed.
  Lemma ids_of_nil : ids_of (@nil slot) = [].
  Proof. reflexivity. Qed.

  Ltac cnt := apply (Permutation_count_occ Nat.eq_dec); intros ?x;
              repeat rewrite count_occ_app in *; cbn [count_occ]; try lia.
  Ltac cnt_with H := apply (Permutation_count_occ Nat.eq_dec); intros ?x;
              pose proof (proj1 (Permutation_count_occ Nat.eq_dec _ _) H x);
              repeat rewrite count_occ_app in *; cbn [count_occ] in *; try lia.

  Lemma cinv_step s l s' : cinv s -> step s l = Some s' -> cinv s'.
  Proof.
    intros I Hs. pose proof (tokens_step _ _ _ _ _ _ Hs) as Htok.
    destruct I as [Itok Iph Ind Ifr Ipu Itk Ires Ile Ifl Itkk Ipk Ipr Ipf].
    unfold step in Hs. destruct l.
    - (* Take *)
      destruct (lookup d (held s)) eqn:El; [discriminate|].
      destruct (chan s) as [|sl r] eqn:Ec; [discriminate|]. injection Hs as <-.
      set (s' := St _ _ _ _ _ _ _ _ _) in *.
      assert (HP : P s' = next_id s :: P s) by reflexivity.
      assert (HR : Permutation (R s') (R s)).
      { rewrite !R_eq. unfold s'. cbn [chan held fl map snd h_slot]. rewrite Ec, !ids_of_cons. cnt. }
      assert (Hnew : ~ In (next_id s) (P s ++ R s ++ F s)) by (intros H; apply Ifr in H; lia).
      assert (Hall : Permutation (P s' ++ R s' ++ F s') (next_id s :: P s ++ R s ++ F s)).
      { rewrite HP. change (F s') with (F s). cbn. apply perm_skip, Permutation_app_head, Permutation_app_tail, HR. }
      split; cbn [fl flushes started next_id taken puts pute s'].
      + rewrite Htok; exact Itok.
      + exact Iph.
      + eapply Permutation_NoDup; [symmetry; exact Hall|]. constructor; assumption.
      + intros i. rewrite Nat.lt_succ_r, Nat.le_lteq, <- Ifr. split.
        * intros H. eapply Permutation_in in H; [|exact Hall]. destruct H as [<-|H]; auto.
        * intros H. eapply Permutation_in; [symmetry; exact Hall|]. destruct H as [H| ->]; [right; exact H|left; reflexivity].
      + rewrite Ipu. change (F s') with (F s). apply Permutation_app_tail. symmetry; exact HR.
      + cbn [map fst]. rewrite Hall. apply perm_skip, Itk.
      + intros i e Hi Hr. apply (Ires i e Hi). eapply Permutation_in; [exact HR|exact Hr].
      + exact Ile.
      + exact Ifl.
      + intros i b0 t [[= <- <- <-]|Hi].
        * split; [lia|]. intros f Hf. exfalso. apply Hnew. apply in_or_app; right. apply in_or_app; right.
          eapply flush_ids_in_flushed; exact Hf.
        * apply (Itkk i b0 t Hi).
      + exact Ipk.
      + intros i pe Hi Hr. apply (Ipr i pe Hi). eapply Permutation_in; [exact HR|exact Hr].
      + exact Ipf.
    - (* Put *)
      destruct (lookup d (held s)) as [h|] eqn:El; [|discriminate].
      destruct (length (chan s) <? k); [|discriminate]. injection Hs as <-.
      set (s' := St _ _ _ _ _ _ _ _ _) in *.
      assert (HP : Permutation (P s) (h_id h :: P s')).
      { unfold pending_ids, s'; cbn. exact (remove_perm (fun dh => h_id (snd dh)) d _ h El). }
      assert (HR : Permutation (R s') (h_id h :: R s)).
      { rewrite !R_eq. unfold s'. cbn [chan held fl s_ids]. rewrite ids_of_app, ids_of_cons, ids_of_nil. cbn [s_ids].
        pose proof (remove_perm (fun dh => h_slot (snd dh)) d _ h El) as Hh; cbn [snd] in Hh.
        assert (Hh2 : Permutation (ids_of (map (fun dh => h_slot (snd dh)) (held s)))
                        (s_ids (h_slot h) ++ ids_of (map (fun dh => h_slot (snd dh)) (remove_key d (held s))))).
        { unfold ids_of. rewrite Hh. reflexivity. }
        change (h_id h :: s_ids (h_slot h)) with ([h_id h] ++ s_ids (h_slot h)).
        change (h_id h :: ?l) with ([h_id h] ++ l).
        cnt_with Hh2. }
      assert (Hall : Permutation (P s ++ R s ++ F s) (P s' ++ R s' ++ F s')).
      { change (F s') with (F s). rewrite HP, HR. cbn. apply Permutation_cons_app. reflexivity. }
      assert (Hpend : In (h_id h) (P s)) by (eapply Permutation_in; [symmetry; exact HP|left; reflexivity]).
      assert (Hnot : ~ In (h_id h) (R s ++ F s)) by (apply (nodup_excl _ _ _ _ Ind); exact Hpend).
      assert (Hnotp : ~ In (h_id h) (map fst (puts s))) by (intros H; apply Hnot; eapply Permutation_in; [exact Ipu|exact H]).
      split; cbn [fl flushes started next_id taken puts pute s'].
      + rewrite Htok; exact Itok.
      + exact Iph.
      + eapply Permutation_NoDup; [exact Hall|exact Ind].
      + intros i. rewrite <- Ifr. split; intros H; (eapply Permutation_in; [|exact H]); [symmetry|]; exact Hall.
      + cbn [map fst]. change (F s') with (F s). rewrite HR. cbn [app]. apply perm_skip, Ipu.
      + rewrite Itk. exact Hall.
      + intros i e [[= <- <-]|Hi] Hr.
        * red in Iph. destruct (fl s); lia.
        * apply (Ires i e Hi). eapply Permutation_in in Hr; [|exact HR]. destruct Hr as [<-|Hr]; [|exact Hr].
          exfalso. apply Hnotp. apply (in_map fst) in Hi. exact Hi.
      + intros i e [[= <- <-]|Hi]; [lia|apply (Ile i e Hi)].
      + intros i e f [[= <- <-]|Hi] Hf.
        * exfalso. apply Hnot. apply in_or_app; right. eapply flush_ids_in_flushed; exact Hf.
        * apply (Ifl i e f Hi Hf).
      + exact Itkk.
      + cbn [map fst]. f_equal. exact Ipk.
      + intros i pe [[= <- <-]|Hi] Hr; [reflexivity|].
        apply (Ipr i pe Hi). eapply Permutation_in in Hr; [|exact HR]. destruct Hr as [<-|Hr]; [|exact Hr].
        exfalso. apply Hnotp. rewrite <- Ipk. apply (in_map fst) in Hi. exact Hi.
      + intros i pe f [[= <- <-]|Hi] Hf.
        * exfalso. apply Hnot. apply in_or_app; right. eapply flush_ids_in_flushed; exact Hf.
        * apply (Ipf i pe f Hi Hf).
    - (* DrainStart *)
      destruct (fl s) eqn:Ef; try discriminate. injection Hs as <-.
      set (s' := St _ _ _ _ _ _ _ _ _) in *.
      assert (HR : R s' = R s) by (rewrite !R_eq; unfold s'; cbn [chan held fl]; rewrite Ef; reflexivity).
      change (P s') with (P s). change (F s') with (F s).
      split; cbn [fl flushes started next_id taken puts pute s']; rewrite ?HR; auto.
      + rewrite Htok; exact Itok.
      + red; cbn. red in Iph. rewrite Ef in Iph. lia.
      + intros i e Hi. specialize (Ile i e Hi). lia.
    - (* DrainTake *)
      destruct (fl s) as [|got|n] eqn:Ef; try discriminate.
      destruct (chan s) as [|sl r] eqn:Ec; [discriminate|].
      destruct (length got <? k); [|discriminate]. injection Hs as <-.
      set (s' := St _ _ _ _ _ _ _ _ _) in *.
      assert (HR : Permutation (R s') (R s)).
      { rewrite !R_eq. unfold s'. cbn [chan held fl got_of]. rewrite Ef, Ec. cbn [got_of].
        rewrite ids_of_app, !ids_of_cons, ids_of_nil. cnt. }
      change (P s') with (P s). change (F s') with (F s).
      split; cbn [fl flushes started next_id taken puts pute s'].
      + rewrite Htok; exact Itok.
      + red; cbn. red in Iph. rewrite Ef in Iph. exact Iph.
      + eapply Permutation_NoDup; [|exact Ind]. apply Permutation_app_head, Permutation_app_tail. symmetry; exact HR.
      + intros i. rewrite <- Ifr. split; intros H; (eapply Permutation_in; [|exact H]);
          apply Permutation_app_head, Permutation_app_tail; [|symmetry]; exact HR.
      + rewrite Ipu. apply Permutation_app_tail. symmetry; exact HR.
      + rewrite Itk. apply Permutation_app_head, Permutation_app_tail. symmetry; exact HR.
      + intros i e Hi Hr. apply (Ires i e Hi). eapply Permutation_in; [exact HR|exact Hr].
      + exact Ile.
      + exact Ifl.
      + exact Itkk.
      + exact Ipk.
      + intros i pe Hi Hr. apply (Ipr i pe Hi). eapply Permutation_in; [exact HR|exact Hr].
      + exact Ipf.
    - (* DrainEmit *)
      destruct (fl s) as [|got|n] eqn:Ef; try discriminate.
      destruct (length got =? k) eqn:Ek; [|discriminate]. apply Nat.eqb_eq in Ek. injection Hs as <-.
      set (s' := St _ _ _ _ _ _ _ _ _) in *.
      assert (Hemp : chan s = [] /\ held s = []).
      { unfold tokens in Itok. rewrite Ef in Itok; cbn in Itok.
        split; [destruct (chan s)|destruct (held s)]; cbn in Itok; try reflexivity; lia. }
      destruct Hemp as [Hc Hh].
      assert (HRs : R s = ids_of got) by (rewrite R_eq, Hc, Hh, Ef; reflexivity).
      assert (HR' : R s' = []).
      { rewrite R_eq. unfold s'. cbn [chan held fl]. rewrite Hc, Hh. destruct k; reflexivity. }
      assert (HF' : F s' = F s ++ ids_of got) by (unfold flushed_ids, s'; cbn; apply flushed_app).
      assert (Hfi : forall f i, In i (flush_ids s' f) ->
                      In i (flush_ids s f) \/ (f = S (length (flushes s)) /\ In i (ids_of got))).
      { intros f i. destruct f as [|f]; cbn; [intros []|].
        destruct (Nat.lt_ge_cases f (length (flushes s))) as [Hlt|Hge].
        - rewrite app_nth1 by exact Hlt. auto.
        - rewrite app_nth2 by exact Hge. destruct (f - length (flushes s)) as [|m] eqn:Em; cbn.
          + intros H; right; split; [lia|exact H].
          + destruct m; intros []. }
      change (P s') with (P s).
      split; cbn [fl flushes started next_id taken puts pute s']; rewrite ?HR', ?HF'.
      + rewrite Htok; exact Itok.
      + red; cbn. red in Iph. rewrite Ef in Iph. rewrite app_length; cbn. destruct k; cbn; lia.
      + cbn. rewrite HRs in Ind. eapply Permutation_NoDup; [|exact Ind].
        apply Permutation_app_head, Permutation_app_comm.
      + intros i. rewrite <- Ifr, HRs. cbn. split; intros H; (eapply Permutation_in; [|exact H]);
          apply Permutation_app_head, Permutation_app_comm.
      + cbn. rewrite Ipu, HRs. apply Permutation_app_comm.
      + cbn. rewrite Itk, HRs. apply Permutation_app_head, Permutation_app_comm.
      + intros i e _ [].
      + exact Ile.
      + intros i e f Hi Hf. apply Hfi in Hf as [Hf|[-> Hg]]; [apply (Ifl i e f Hi Hf)|].
        rewrite <- HRs in Hg. specialize (Ires i e Hi Hg). specialize (Ile i e Hi).
        red in Iph. rewrite Ef in Iph. lia.
      + intros i b t Hi. destruct (Itkk i b t Hi) as [Ht Hf]. split.
        * rewrite app_length; cbn. lia.
        * intros f Hff. apply Hfi in Hff as [Hff|[-> _]]; [apply Hf, Hff|lia].
      + exact Ipk.
      + intros i pe _ [].
      + intros i pe f Hi Hf. apply Hfi in Hf as [Hf|[-> Hg]]; [apply (Ipf i pe f Hi Hf)|].
        rewrite <- HRs in Hg. rewrite (Ipr i pe Hi Hg). reflexivity.
    - (* FillOne *)
      destruct (fl s) as [|got|[|n]] eqn:Ef; try discriminate.
      destruct (length (chan s) <? k); [|discriminate]. injection Hs as <-.
      set (s' := St _ _ _ _ _ _ _ _ _) in *.
      assert (HR : R s' = R s).
      { rewrite !R_eq. unfold s'. cbn [chan held fl]. rewrite Ef, ids_of_app, ids_of_cons, ids_of_nil.
        cbn [s_ids got_of]. destruct n; cbn [after_fill got_of]; rewrite ?app_nil_r; reflexivity. }
      change (P s') with (P s). change (F s') with (F s).
      split; cbn [fl flushes started next_id taken puts pute s']; rewrite ?HR; auto.
      + rewrite Htok; exact Itok.
      + red; cbn. red in Iph. rewrite Ef in Iph. destruct n; exact Iph.
  Qed.

  Lemma cinv_run ls s : run step init ls = Some s -> cinv s.
  Proof.
    intros H. refine (invariant_run step cinv _ ls init s cinv_init H).
    intros s0 l s1 Hi Hs. eapply cinv_step; eauto.
  Qed.
End Where.

(* ------------------------------------------------------------------------------------------ *)
(* the statements of Props/C15.v about the consolidator *)
Section Statements.
  Context {M : Type}.
  Variable mempty : M.
  Variable mmerge : M -> M -> M.
  Variable k : nat.
  Notation state := (@state M).
  Notation step := (step mempty mmerge k).
  Notation init := (init mempty k).

  Lemma in_lookup {A} (l : list (nat * A)) i a : NoDup (map fst l) -> In (i, a) l -> lookup i l = Some a.
  Proof.
    induction l as [|[j b] r IH]; cbn; [intros _ []|].
    intros Hnd [[= -> ->]|Hi]; [rewrite Nat.eqb_refl; reflexivity|].
    inversion Hnd; subst. destruct (Nat.eqb i j) eqn:E; [|auto].
    apply Nat.eqb_eq in E; subst. exfalso. apply H1. apply (in_map fst) in Hi. exact Hi.
  Qed.

  Lemma lookup_some_in_keys {A} (l : list (nat * A)) i : In i (map fst l) -> exists a, lookup i l = Some a.
  Proof.
    induction l as [|[j b] r IH]; cbn; [intros []|].
    destruct (Nat.eqb i j) eqn:E; [eauto|]. intros [->|H]; [rewrite Nat.eqb_refl in E; discriminate|auto].
  Qed.

  Lemma puts_nodup (s : state) : cinv k s -> NoDup (map fst (puts s)).
  Proof.
    intros I. eapply Permutation_NoDup; [symmetry; apply (i_puts _ _ I)|].
    eapply nodup_app_r, (i_nodup _ _ I).
  Qed.
  Lemma taken_nodup (s : state) : cinv k s -> NoDup (map fst (taken s)).
  Proof. intros I. eapply Permutation_NoDup; [symmetry; apply (i_taken _ _ I)|apply (i_nodup _ _ I)]. Qed.

  Theorem flush_contains ls s : run step init ls = Some s ->
    NoDup (pending_ids s ++ ids_of (resident s) ++ flushed_ids s)
    /\ (forall i, i < next_id s <-> In i (pending_ids s ++ ids_of (resident s) ++ flushed_ids s))
    /\ (forall i, put_stamp s i <> None <-> In i (ids_of (resident s) ++ flushed_ids s))
    /\ (forall i e, put_stamp s i = Some e -> e < length (flushes s) -> In i (flushed_ids s))
    /\ (forall i pe, put_emitted s i = Some pe -> pe < length (flushes s) -> In i (flush_ids s (S pe)))
    /\ (forall i f, In i (flush_ids s f) ->
          exists e pe t, put_stamp s i = Some e /\ put_emitted s i = Some pe /\ take_stamp s i = Some t
                         /\ f = S pe /\ t < f /\ e <= f <= S e).
  Proof.
    intros Hrun. pose proof (cinv_run _ _ _ _ _ Hrun) as I.
    pose proof (puts_nodup _ I) as Hpn. pose proof (taken_nodup _ I) as Htn.
    split; [exact (i_nodup _ _ I)|]. split; [intros i; symmetry; apply (i_fresh _ _ I)|].
    assert (Hpen : NoDup (map fst (pute s))) by (rewrite (i_pek _ _ I); exact Hpn).
    split; [|split; [|split]].
    - intros i. unfold put_stamp. split.
      + intros H. destruct (lookup i (puts s)) as [e|] eqn:E; [|congruence].
        apply lookup_in in E. apply (in_map fst) in E. eapply Permutation_in; [apply (i_puts _ _ I)|exact E].
      + intros H. eapply Permutation_in in H; [|symmetry; apply (i_puts _ _ I)].
        apply lookup_some_in_keys in H as [a ->]. discriminate.
    - intros i e He Hlt. unfold put_stamp in He. apply lookup_in in He.
      assert (Hin : In i (R s ++ flushed_ids s)).
      { eapply Permutation_in; [apply (i_puts _ _ I)|]. apply (in_map fst) in He; exact He. }
      apply in_app_or in Hin as [Hr|Hf]; [|exact Hf].
      pose proof (i_res _ _ I i e He Hr). lia.
    - intros i pe He Hlt. unfold put_emitted in He. apply lookup_in in He.
      assert (Hin : In i (R s ++ flushed_ids s)).
      { eapply Permutation_in; [apply (i_puts _ _ I)|]. rewrite <- (i_pek _ _ I). apply (in_map fst) in He; exact He. }
      apply in_app_or in Hin as [Hr|Hf]; [pose proof (i_per _ _ I i pe He Hr); lia|].
      apply in_flushed_flush_ids in Hf as [f Hf]. rewrite <- (i_pef _ _ I i pe f He Hf). exact Hf.
    - intros i f Hf.
      assert (HF : In i (flushed_ids s)) by (eapply flush_ids_in_flushed; exact Hf).
      assert (Hp : In i (map fst (puts s))).
      { eapply Permutation_in; [symmetry; apply (i_puts _ _ I)|]. apply in_or_app; right; exact HF. }
      assert (Hpe : In i (map fst (pute s))) by (rewrite (i_pek _ _ I); exact Hp).
      assert (Ht : In i (map fst (taken s))).
      { eapply Permutation_in; [symmetry; apply (i_taken _ _ I)|]. apply in_or_app; right. apply in_or_app; right; exact HF. }
      apply lookup_some_in_keys in Hp as [e He]. apply lookup_some_in_keys in Hpe as [pe Hpe].
      apply lookup_some_in_keys in Ht as [[b t] Ht].
      exists e, pe, t. unfold put_stamp, put_emitted, take_stamp. rewrite He, Hpe, Ht.
      split; [reflexivity|]. split; [reflexivity|]. split; [reflexivity|].
      apply lookup_in in He. apply lookup_in in Hpe. apply lookup_in in Ht.
      split; [apply (i_pef _ _ I i pe f Hpe Hf)|].
      split; [apply (proj2 (i_tk _ _ I i b t Ht) f Hf)|apply (i_fl _ _ I i e f He Hf)].
  Qed.

  (* the sends of Put and Fill never block: a dispatcher that holds a slot, or a Fill in progress,
     always finds room in the channel *)
  Theorem sends_never_block ls s : run step init ls = Some s ->
    (forall d, lookup d (held s) <> None -> step s (Put d) <> None)
    /\ (forall n, fl s = Filling (S n) -> step s FillOne <> None).
  Proof.
    intros Hrun. pose proof (slot_tokens _ _ _ _ _ Hrun) as T. split.
    - intros d Hd. unfold Consolidator.step. destruct (lookup d (held s)) as [h|] eqn:E; [|congruence].
      assert (length (held s) > 0) by (destruct (held s); [discriminate|cbn; lia]).
      destruct (length (chan s) <? k) eqn:E2; [discriminate|]. apply Nat.ltb_ge in E2. lia.
    - intros n Hn. unfold Consolidator.step. rewrite Hn. rewrite Hn in T; cbn in T.
      destruct (length (chan s) <? k) eqn:E2; [discriminate|]. apply Nat.ltb_ge in E2. lia.
  Qed.
End Statements.

(* ------------------------------------------------------------------------------------------ *)
(* contents: what a slot holds is the merge of the batches whose numbers it carries *)
Section Content.
  Context {M X : Type}.
  Variable mempty : M.
  Variable mmerge : M -> M -> M.
  Variable k : nat.
  Variable abs : M -> list X.
  Hypothesis abs_empty : abs mempty = [].
  Hypothesis abs_merge : forall a b, Permutation (abs (mmerge a b)) (abs a ++ abs b).
  Notation state := (@state M).
  Notation step := (step mempty mmerge k).
  Notation init := (init mempty k).

  Definition batch_abs (s : state) (i : nat) : list X :=
    match batch_of s i with Some b => abs b | None => [] end.
  Definition slot_ok (s : state) (sl : slot) : Prop :=
    Permutation (abs (s_map sl)) (concat (map (batch_abs s) (s_ids sl))).
  Definition all_slots (s : state) : list slot := resident s ++ concat (flushes s).
  Definition content_inv (s : state) : Prop :=
    (forall sl, In sl (all_slots s) -> slot_ok s sl)
    /\ (forall d h, In (d, h) (held s) -> batch_of s (h_id h) = Some (h_batch h)).

  Lemma slot_ids_known s sl i : cinv k s -> In sl (all_slots s) -> In i (s_ids sl) -> i < next_id s.
  Proof.
    intros I Hsl Hi. apply (i_fresh _ _ I). apply in_or_app; right.
    unfold all_slots in Hsl. apply in_app_or in Hsl as [H|H].
    - apply in_or_app; left. unfold ids_of. apply in_concat. exists (s_ids sl). split; [apply in_map, H|exact Hi].
    - apply in_or_app; right. unfold flushed_ids. apply in_concat in H as (g & Hg & Hs).
      apply in_concat. exists (ids_of g). split; [apply in_map, Hg|].
      unfold ids_of. apply in_concat. exists (s_ids sl). split; [apply in_map, Hs|exact Hi].
  Qed.

  Lemma in_remove_key {A} d (l : list (nat * A)) x : In x (remove_key d l) -> In x l.
  Proof.
    induction l as [|[d' a] r IH]; cbn; [auto|]. destruct (Nat.eqb d d'); [auto|]. intros [<-|H]; auto.
  Qed.

  Ltac inapp := repeat (progress (rewrite ?in_app_iff in *; cbn [In] in * )).

  Lemma content_step s l s' : cinv k s -> content_inv s -> step s l = Some s' -> content_inv s'.
  Proof.
    intros I [Hsl Hh] Hs. unfold Consolidator.step in Hs. destruct l.
    - destruct (lookup d (held s)) eqn:El; [discriminate|].
      destruct (chan s) as [|sl0 r] eqn:Ec; [discriminate|]. injection Hs as <-.
      assert (Hold : forall i, i < next_id s ->
                batch_abs (St r ((d, Hold sl0 (next_id s) b) :: held s) (fl s) (flushes s) (started s) (S (next_id s))
                              ((next_id s, (b, length (flushes s))) :: taken s) (puts s) (pute s)) i = batch_abs s i).
      { intros i Hi. unfold batch_abs, batch_of; cbn. destruct (Nat.eqb i (next_id s)) eqn:E; [|reflexivity].
        apply Nat.eqb_eq in E. lia. }
      split.
      + intros sl Hin. assert (Hin' : In sl (all_slots s)).
        { unfold all_slots, resident in *; cbn in Hin. rewrite Ec. inapp. tauto. }
        unfold slot_ok. erewrite map_ext_in; [exact (Hsl sl Hin')|].
        intros i Hi. apply Hold. eapply slot_ids_known; eauto.
      + intros d0 h [[= <- <-]|Hin]; unfold batch_of; cbn.
        * rewrite Nat.eqb_refl. reflexivity.
        * destruct (Nat.eqb (h_id h) (next_id s)) eqn:E; [|exact (Hh d0 h Hin)].
          apply Nat.eqb_eq in E. exfalso.
          assert (h_id h < next_id s); [|lia]. apply (i_fresh _ _ I). apply in_or_app; left.
          unfold pending_ids. apply (in_map (fun dh => h_id (snd dh))) in Hin. exact Hin.
    - destruct (lookup d (held s)) as [h|] eqn:El; [|discriminate].
      destruct (length (chan s) <? k); [|discriminate]. injection Hs as <-.
      apply lookup_in in El. split.
      + intros sl Hin.
        assert (Hc : sl = Slot (mmerge (s_map (h_slot h)) (h_batch h)) (h_id h :: s_ids (h_slot h)) \/ In sl (all_slots s)).
        { unfold all_slots, resident in *; cbn in Hin. inapp.
          destruct Hin as [[[H|[<-|[]]]|[H|H]]|H]; auto.
          right. left. right. left. apply in_map_iff in H as (x & <- & Hx).
          apply (in_map (fun dh => h_slot (snd dh))), (in_remove_key _ _ _ Hx). }
        destruct Hc as [->|Hc]; [|exact (Hsl sl Hc)].
        pose proof (Hh d h El) as Hb.
        assert (Hs0 : slot_ok s (h_slot h)).
        { apply Hsl. unfold all_slots, resident. rewrite !in_app_iff. left. right. left.
          apply (in_map (fun dh => h_slot (snd dh))) in El. exact El. }
        unfold slot_ok, batch_abs in *. unfold batch_of in *. cbn [taken s_map s_ids map concat].
        rewrite abs_merge, Hs0. destruct (lookup (h_id h) (taken s)) as [[b0 t0]|]; [|discriminate].
        injection Hb as ->. apply Permutation_app_comm.
      + intros d0 h0 Hin. apply (Hh d0 h0). cbn in Hin. eapply in_remove_key; exact Hin.
    - destruct (fl s) eqn:Ef; try discriminate. injection Hs as <-. split; [|exact Hh].
      intros sl Hin. apply Hsl. unfold all_slots, resident in *; cbn in Hin. rewrite Ef. cbn. rewrite app_nil_r in *. exact Hin.
    - destruct (fl s) as [|got|n] eqn:Ef; try discriminate.
      destruct (chan s) as [|sl0 r] eqn:Ec; [discriminate|].
      destruct (length got <? k); [|discriminate]. injection Hs as <-. split; [|exact Hh].
      intros sl Hin. apply Hsl. unfold all_slots, resident in *; cbn in Hin. rewrite Ef, Ec. cbn [got_of].
      inapp. tauto.
    - destruct (fl s) as [|got|n] eqn:Ef; try discriminate.
      destruct (length got =? k); [|discriminate]. injection Hs as <-. split; [|exact Hh].
      intros sl Hin. apply Hsl. unfold all_slots, resident in *; cbn in Hin. rewrite Ef. cbn.
      rewrite concat_app in Hin; cbn in Hin. rewrite app_nil_r in Hin. inapp.
      destruct k; cbn in Hin; tauto.
    - destruct (fl s) as [|got|[|n]] eqn:Ef; try discriminate.
      destruct (length (chan s) <? k); [|discriminate]. injection Hs as <-. split; [|exact Hh].
      intros sl Hin.
      assert (Hc : Slot mempty [] = sl \/ In sl (all_slots s)).
      { unfold all_slots, resident in *; cbn in Hin. rewrite Ef. cbn [got_of]. inapp.
        destruct n; cbn in Hin; inapp; tauto. }
      destruct Hc as [<-|Hc]; [|exact (Hsl sl Hc)]. unfold slot_ok; cbn. rewrite abs_empty. constructor.
  Qed.

  Lemma content_init : content_inv init.
  Proof.
    split; [|intros d h []]. intros sl Hin. unfold all_slots, resident in Hin; cbn in Hin.
    rewrite !app_nil_r in Hin. apply repeat_spec in Hin. subst. unfold slot_ok; cbn. rewrite abs_empty. constructor.
  Qed.

  Theorem slot_contents ls s : run step init ls = Some s ->
    forall sl, In sl (resident s ++ concat (flushes s)) ->
      Permutation (abs (s_map sl)) (concat (map (batch_abs s) (s_ids sl))).
  Proof.
    intros H.
    assert (cinv k s /\ content_inv s) as [_ [Hc _]]; [|exact Hc].
    refine (invariant_run step (fun s => cinv k s /\ content_inv s) _ ls init s (conj (cinv_init _ _) content_init) H).
    intros s0 l s1 [Hi Hc] Hs. split; [eapply cinv_step; eauto|eapply content_step; eauto].
  Qed.
End Content.

(* ------------------------------------------------------------------------------------------ *)
(* non-vacuity: two slots, three batches; batch 1 is sent back while flush 1 is draining and is
   carried by flush 1, batch 2 is taken after the emission and is carried by flush 2 *)
Definition ex_run : list (@label (list nat)) :=
  [Take 0 [10]; Take 1 [11]; Put 0; DrainStart; DrainTake; Put 1; DrainTake; DrainEmit;
   FillOne; Take 0 [12]; FillOne; Put 0; DrainStart; DrainTake; DrainTake; DrainEmit].

Example ex_run_flushes :
  exists s, run (step [] (@app nat) 2) (init [] 2) ex_run = Some s
    /\ map (map s_map) (flushes s) = [[[10]; [11]]; [[]; [12]]]
    /\ flush_ids s 1 = [0; 1] /\ flush_ids s 2 = [2]
    /\ put_stamp s 1 = Some 1 /\ put_emitted s 1 = Some 0 /\ take_stamp s 1 = Some 0
    /\ put_stamp s 2 = Some 1 /\ put_emitted s 2 = Some 1 /\ take_stamp s 2 = Some 1.
Proof. eexists. split; [vm_compute; reflexivity|]. vm_compute. repeat split. Qed.

(* a send that would block is simply not enabled: with every slot taken nobody else can Take, and
   the flusher cannot emit before it has collected all k slots *)
Example ex_blocked :
  run (step [] (@app nat) 1) (init [] 1) [Take 0 [1]; Take 1 [2]] = None
  /\ run (step [] (@app nat) 1) (init [] 1) [Take 0 [1]; DrainStart; DrainEmit] = None.
Proof. split; vm_compute; reflexivity. Qed.
