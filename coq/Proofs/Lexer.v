(* Lemmas about Model/Lexer.v *)
From Coq Require Import Lia.
From GS Require Import Base.Bytes Model.Lexer.
Local Open Scope N_scope.

Lemma normalise_app a b : normalise (a ++ b) = normalise a ++ normalise b.
Proof.
  induction a as [|x a IH]; cbn; [reflexivity|].
  destruct (norm_byte x); cbn; rewrite IH; reflexivity.
Qed.
