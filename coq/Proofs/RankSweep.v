(* C04_rank_in_range, finite-sweep version: 0 <= rank p n <= n for the 201 integer percentiles
   and every count n <= sweep_bound, by evaluation of the primitive-float computation over the
   whole finite domain (vm_compute) lifted to a universally quantified statement.  The bound is
   part of the statement.  (Proofs/RankUnbounded.v proves the statement for all n < 2^52 through Flocq; this sweep depends on
   no axiom beyond the kernel's primitive floats and is kept as independent evidence.) *)
From Coq Require Import List ZArith Floats Lia.
From GS Require Import Base.GoFloat.
From GS Require Import Model.Rank.
From GS Require Import Model.Stats.
Import ListNotations.
Local Open Scope Z_scope.

Lemma rank_is_go_rank p n : rank p n = go_rank p n.
Proof. reflexivity. Qed.

(* floor_int with a shift for the (only hot) positive branch: ten times faster to evaluate *)
Definition fast_floor (f : float) : Z :=
  match Prim2SF f with
  | S754_zero _ => 0
  | S754_finite s m e =>
      if 0 <=? e then (if s then - (Zpos m * 2^e) else Zpos m * 2^e)
      else if s then - ((Zpos m + 2^(-e) - 1) / 2^(-e)) else Z.shiftr (Zpos m) (-e)
  | _ => -(2^63)
  end.
Lemma fast_floor_ok f : fast_floor f = floor_int f.
Proof.
  unfold fast_floor, floor_int. destruct (Prim2SF f) as [s|s| |s m e]; try reflexivity.
  destruct (0 <=? e) eqn:E; [reflexivity|]. destruct s; [reflexivity|].
  apply Z.shiftr_div_pow2. lia.
Qed.

Definition sweep_bound : Z := 2000.

Definition row (a : float) (n : Z) : bool :=
  let r := fast_floor (a * f64_of_int n + half)%float in (0 <=? r) && (r <=? n).
(* n, n+1, ..., n+k-1 *)
Fixpoint rows (a : float) (k : nat) (n : Z) : bool :=
  match k with O => true | S k' => row a n && rows a k' (n + 1) end.
Definition pct_domain : list Z := map (fun i => Z.of_nat i - 100) (seq 0 201).

Lemma rows_spec a k n0 : rows a k n0 = true -> forall n, n0 <= n < n0 + Z.of_nat k -> row a n = true.
Proof.
  revert n0; induction k as [|k IH]; intros n0 H n Hn; [lia|].
  cbn [rows] in H. apply andb_prop in H as [H1 H2].
  destruct (Z.eq_dec n n0) as [->|Hne]; [exact H1|].
  apply (IH (n0 + 1) H2). lia.
Qed.

Lemma pct_domain_spec p : -100 <= p <= 100 -> In p pct_domain.
Proof.
  intros Hp. unfold pct_domain. apply in_map_iff. exists (Z.to_nat (p + 100)). split; [lia|].
  apply in_seq. lia.
Qed.

(* the whole finite domain, evaluated (about 7 s): 201 x 2001 points.  The statement is kept in
   this unfolded form: a folded constant makes the kernel re-evaluate the sweep lazily at Qed. *)
Lemma sweep_true :
  forallb (fun p => rows (rank_fraction p) (Z.to_nat (sweep_bound + 1)) 0) pct_domain = true.
Proof. vm_cast_no_check (eq_refl true). Qed.

Lemma sweep_row p : In p pct_domain -> rows (rank_fraction p) (Z.to_nat (sweep_bound + 1)) 0 = true.
Proof. intros Hin. exact (proj1 (forallb_forall _ _) sweep_true p Hin). Qed.

Lemma sweep_point p n : In p pct_domain -> 0 <= n <= sweep_bound -> row (rank_fraction p) n = true.
Proof. intros Hin Hn. apply (rows_spec _ _ _ (sweep_row p Hin) n). lia. Qed.

Lemma rank_in_range_sweep p n :
  -100 <= p <= 100 -> 0 <= n <= sweep_bound -> 0 <= rank p n <= n.
Proof.
  intros Hp Hn. pose proof (sweep_point p n (pct_domain_spec p Hp) Hn) as Hr.
  unfold row in Hr. rewrite fast_floor_ok in Hr.
  change (floor_int (rank_fraction p * f64_of_int n + half)) with (rank p n) in Hr.
  apply andb_prop in Hr as [H1 H2]. lia.
Qed.
